#!/usr/bin/env python3
"""Regenerates MANIFEST.json from tools/props/*.py (each plugin carries its own LEVEL_TEXT / LEVEL_NOTE /
TECHNIQUE) so that the manifest always lists exactly the checks that exist."""
import glob, importlib, json, os, sys
HERE = os.path.dirname(os.path.abspath(__file__))
ROOT = os.path.dirname(HERE)
sys.path.insert(0, HERE)
ALL = ["C%02d" % i for i in range(1, 21)]
REPO_HOOK_COMMITS = json.load(open(os.path.join(ROOT, "tools", "hook_commits.json")))
checks, claimed = [], set()
for pid in ALL:
    if not os.path.exists(os.path.join(HERE, "props", pid.lower() + ".py")): continue
    p = importlib.import_module("props." + pid.lower())
    if getattr(p, "NOT_CLAIMED", None): continue
    claimed.add(pid)
    checks.append({
        "property_id": pid,
        "quick_cmd": "python3 tools/check.py %s --tier quick" % pid,
        "thorough_cmd": "python3 tools/check.py %s --tier thorough" % pid,
        "evidence_file": "evidence/%s.json" % pid,
        "replay_cmd_template": "python3 tools/check.py %s --replay {path}" % pid,
        "engine": "lean4-proof+correspondence",
        "level_claimed": {"category": "proof", "text": p.LEVEL_TEXT, "design_ref": "DESIGN.md §4 " + pid},
        "level_note": p.LEVEL_NOTE,
        "technique": p.TECHNIQUE,
    })
na = []
for pid in ALL:
    if pid in claimed: continue
    reason = "check not built yet in this round (Lean model + correspondence planned in DESIGN.md §4); not claimed until it exists"
    f = os.path.join(HERE, "props", pid.lower() + ".py")
    if os.path.exists(f):
        reason = importlib.import_module("props." + pid.lower()).NOT_CLAIMED
    na.append({"property_id": pid, "reason": reason})
m = {
    "version": 1,
    "setup_cmd": "python3 tools/setup.py",
    "hooks": {
        "guard": "POTASSCO_LIBPOTASSCO_VERIF",
        "enable": "checks compile /repo/src/*.cpp themselves with -DPOTASSCO_LIBPOTASSCO_VERIF (and -DPOTASSCO_VERIF_BUF_SIZE=<n> for the small-buffer harness builds); see tools/vlib/build.py",
        "baseline_off_cmd": "cmake --build /repo/_build && ctest --test-dir /repo/_build -j8 --timeout 900",
        "source_commits": REPO_HOOK_COMMITS,
        "add_only": True,
    },
    "engines": [{"name": "lean4-proof+correspondence", "path": "tools/check.py",
                 "serves_properties": sorted(claimed),
                 "kind_free_text": "Lean 4 theorems about hand-written executable models (lean/), re-checked on every run together with tables regenerated from /repo; models tied to the C++ by a differential line-protocol run (harness/ vs lean/Driver.lean) plus direct oracles on the implementation that produce replays"}],
    "checks": checks,
    "not_applicable": na,
    "notes": "Every check: translate (Gen/Consts.lean) -> lake build + axiom audit -> ASan/UBSan harness build from /repo's working tree -> same case lines through real code and compiled Lean model -> oracles -> evidence. known_findings.json lists recorded/fixed defects.",
}
json.dump(m, open(os.path.join(ROOT, "MANIFEST.json"), "w"), indent=1)
print("MANIFEST.json: %d checks, %d not claimed" % (len(checks), len(na)))
