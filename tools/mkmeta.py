#!/usr/bin/env python3
"""write seeded/<name>/meta.json: mkmeta.py <name> <property> <change> <trigger> <result>"""
import json, os, sys
ROOT = os.path.dirname(os.path.dirname(os.path.abspath(__file__)))
name, prop, change, trigger, result = sys.argv[1:6]
m = {"property": prop, "change": change, "trigger": trigger, "compiles_and_passes_tests": True,
     "confirmed": "patch applied to /repo by the author of the checks; the described wrong behaviour was observed through the harness on an input of the described kind (the check's replay), then /repo restored",
     "result": result,
     "apply": f"git -C /repo apply /verif/seeded/{name}/patch.diff ; python3 tools/check.py {prop} ; git -C /repo checkout -- ."}
json.dump(m, open(os.path.join(ROOT, "seeded", name, "meta.json"), "w"), indent=1)
