#!/bin/bash
# quick tier of every property at several seeds (false-alarm sweep); three at a time
cd "$(dirname "$0")/.."
python3 tools/setup.py > /dev/null 2>&1
run() { id=$1; sd=$2; out=$(VERIF_SEED=$sd python3 tools/check.py $id --tier quick --no-proof 2>&1 | tail -2 | tr '\n' ' '); echo "$id seed=$sd $out" | cut -c1-330; }
export -f run
for sd in ${SEEDS:-2 3 5 7}; do for i in 01 02 03 04 05 06 07 08 09 10 11 12 13 14 15 16 17 18 19 20; do echo "C$i $sd"; done; done | xargs -P 3 -L 1 bash -c 'run $0 $1'
