#!/bin/sh
# collect_seed.sh <ID> <suffix> <check-ids...>: copy /tmp/wu_<ID>/_seed (no binaries) to seeded/<ID>-<suffix>, evaluate, remove the worktree
id=$1; suf=$2; shift 2
mkdir -p /verif/seeded/$id-$suf
for f in /tmp/wu_$id/_seed/*; do case "$(file -b "$f")" in ELF*) ;; *) cp "$f" /verif/seeded/$id-$suf/;; esac; done
python3 /verif/tools/seed_eval.py $id-$suf "$@" 2>&1 | grep -v '^{' | head -8
git -C /repo worktree remove --force /tmp/wu_$id
git -C /repo status --short | grep -v _build
