#!/bin/bash
# run the thorough tier of every property, two at a time; summary lines to stdout
cd "$(dirname "$0")/.."
python3 tools/setup.py > /dev/null 2>&1
run() { id=$1; s=$(date +%s); full=$(python3 tools/check.py $id --tier thorough 2>&1); rc=$?; out=$(echo "$full" | tail -2 | tr '\n' ' '); echo "$id rc=$rc $(( $(date +%s) - s ))s $out" | cut -c1-400; }
ids="C01 C02 C03 C04 C05 C06 C07 C08 C09 C10 C11 C12 C13 C14 C15 C16 C17 C18 C19 C20"
echo $ids | tr ' ' '\n' | xargs -P 2 -I{} bash -c "$(declare -f run); run {}"
