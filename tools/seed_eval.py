#!/usr/bin/env python3
"""Run checks against a seeded change: apply /verif/seeded/<name>/patch.diff to /repo, run the given checks (quick tier),
restore /repo.  Usage: seed_eval.py <seed-dir-name> <ID> [<ID> ...] [--full]"""
import json, os, subprocess, sys
ROOT = os.path.dirname(os.path.dirname(os.path.abspath(__file__)))
def main():
    name = sys.argv[1]; ids = [a for a in sys.argv[2:] if not a.startswith("--")]; full = "--full" in sys.argv
    patch = os.path.join(ROOT, "seeded", name, "patch.diff")
    assert subprocess.run(["git", "-C", "/repo", "status", "--porcelain", "--untracked-files=no"], capture_output=True, text=True).stdout.strip() == "", "/repo not clean"
    subprocess.run(["git", "-C", "/repo", "apply", patch], check=True)
    res = {}
    try:
        for pid in ids:
            r = subprocess.run([sys.executable, os.path.join(ROOT, "tools", "check.py"), pid, "--tier", "quick"] + ([] if full else ["--no-proof"]), capture_output=True, text=True, env=dict(os.environ, VERIF_NO_EVIDENCE="1"))
            lines = r.stdout.strip().split("\n")
            viol = [l for l in lines if l.startswith("VIOLATION")]
            fail = [l for l in lines if l.startswith("failure:") or l.startswith("no longer checks")]
            res[pid] = {"exit": r.returncode, "violation": viol[:1], "first": fail[:1], "summary": lines[-2 if viol else -1][:200]}
            print(pid, "exit", r.returncode, (viol or ["-"])[0]); print("   ", (fail or ["-"])[0][:260])
    finally:
        subprocess.run(["git", "-C", "/repo", "checkout", "--", "."], check=True)
    print(json.dumps(res))
if __name__ == "__main__": main()
