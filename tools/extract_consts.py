#!/usr/bin/env python3
"""Translator for the code-dependent tables of the Lean models (DESIGN.md §1.3).

Reads /repo's *current* headers/sources and writes lean/PotasscoVerif/Gen/Consts.lean.  A file is only
rewritten when its content changes.  If a recognised shape is no longer there the extractor fails loudly
(exit 2, message names the correspondence `extract:<what>` that no longer checks)."""
import os, re, subprocess, sys

ROOT = os.path.dirname(os.path.dirname(os.path.abspath(__file__)))
REPO = os.environ.get("VERIF_REPO", "/repo")
OUT = os.path.join(ROOT, "lean", "PotasscoVerif", "Gen", "Consts.lean")

class ExtractError(Exception):
    pass

def read(rel):
    with open(os.path.join(REPO, rel), encoding="latin-1") as f:
        return f.read()

def strip_comments(s):
    s = re.sub(r"/\*.*?\*/", "", s, flags=re.S)
    return re.sub(r"//[^\n]*", "", s)

def preprocess(rel, defs=()):
    """g++ -E -P of a header without the verification guard (the production configuration)."""
    cmd = ["g++", "-E", "-P", "-x", "c++", "-std=gnu++17", "-I" + REPO] + ["-D" + d for d in defs] + [os.path.join(REPO, rel)]
    r = subprocess.run(cmd, capture_output=True, text=True)
    if r.returncode != 0:
        raise ExtractError("extract:preprocess:%s\n%s" % (rel, r.stderr[-2000:]))
    return r.stdout

def c_int(expr):
    """evaluate a tiny C constant expression (ints, shifts, +,-, casts removed)."""
    e = re.sub(r"static_cast<[^>]*>", "", expr)
    e = re.sub(r"\b(\d+)[uU]?[lL]*\b", r"\1", e)
    if not re.fullmatch(r"[\d\s()+\-*<>]+", e):
        raise ExtractError("extract:const-expr:" + expr)
    return int(eval(e, {"__builtins__": {}}))

def enum_constants(text, name, what):
    m = re.search(r"enum\s+E\s*\{([^}]*)__eEnd\s*,\s*eMin\s*=\s*([^,]+),", text[text.index("struct " + name):])
    if not m: raise ExtractError("extract:enum:" + what)
    items = []
    nxt = 0
    for part in m.group(1).split(","):
        part = part.strip()
        if not part: continue
        if "=" in part:
            k, v = part.split("=")
            nxt = c_int(v.strip().replace("- ", "-"))
            items.append((k.strip(), nxt))
        else:
            items.append((part, nxt))
        nxt += 1
    return items, c_int(m.group(2))

def extract():
    out = {}
    # --- BufferedStream::BUF_SIZE (production configuration: guard off)
    mb = preprocess("potassco/match_basic_types.h")
    m = re.search(r"class BufferedStream\s*\{.*?enum\s*\{\s*BUF_SIZE\s*=\s*([^}]+)\}", mb, flags=re.S)
    if not m: raise ExtractError("extract:BUF_SIZE")
    out["BUF_SIZE"] = c_int(m.group(1))
    m = re.search(r"enum\s*\{\s*ALLOC_SIZE\s*=\s*BUF_SIZE\s*\+\s*1\s*\}", mb)
    if not m: raise ExtractError("extract:ALLOC_SIZE (expected BUF_SIZE + 1)")
    bt = preprocess("potassco/basic_types.h")
    for nm in ("idMax", "atomMin", "atomMax"):
        m = re.search(r"const\s+\w+\s+" + nm + r"\s*=\s*([^;]+);", bt)
        if not m: raise ExtractError("extract:" + nm)
        v = m.group(1)
        if nm == "idMax":
            if re.sub(r"\s", "", v) != "static_cast<Id_t>(-1)": raise ExtractError("extract:idMax")
            out[nm] = 2**32 - 1
        else:
            out[nm] = c_int(v)
    enums = {}
    for nm in ("Head_t", "Body_t", "Value_t", "Heuristic_t", "Directive_t"):
        enums[nm] = enum_constants(bt, nm, nm)
    td = preprocess("potassco/theory_data.h")
    for nm in ("Theory_t", "Tuple_t"):
        enums[nm] = enum_constants(td, nm, nm)
    cl = preprocess("potassco/clingo.h")
    for nm in ("Clause_t", "Statistics_t"):
        enums[nm] = enum_constants(cl, nm, nm)
    out["enums"] = enums
    # the declaration text each enumeration hands to EnumClass (`#__VA_ARGS__`, stringized by the preprocessor itself)
    reps = {}
    for src, names in ((bt, ("Head_t", "Body_t", "Value_t", "Heuristic_t", "Directive_t")), (td, ("Theory_t", "Tuple_t")), (cl, ("Clause_t", "Statistics_t"))):
        for nm in names:
            m = re.search(r'EnumClass\s+r\s*=\s*\{\s*"%s"\s*,\s*"([^"]*)"\s*,\s*eMin\s*,\s*eMax\s*\}' % nm, src)
            if not m: raise ExtractError("extract:enum-rep:" + nm)
            reps[nm] = m.group(1)
    out["reps"] = reps
    return out

def function_body(src, signature):
    """text of the body of the function whose definition starts with `signature` (brace matching)."""
    i = src.find(signature)
    if i < 0: raise ExtractError("extract:function-not-found:" + signature)
    j = src.index("{", i)
    depth, k = 0, j
    while True:
        if src[k] == "{": depth += 1
        elif src[k] == "}":
            depth -= 1
            if depth == 0: break
        k += 1
    return src[j:k + 1]

def shapes():
    """Syntactic facts that no run-time observation can establish (returns {shape: (ok, property ids, what)})."""
    out = {}
    app = strip_comments(read("src/application.cpp"))
    app = re.sub(r"POTASSCO_VERIF_YIELD\(\d+\);?", "", app)
    try:
        body = function_body(app, "void Application::unblockSignals(bool deliverPending)")
        flat = re.sub(r"\s+", "", body)
        ok = "fetch_and_store(pending_,0)" in flat and "pending_=" not in flat.replace("fetch_and_store(pending_,0)", "")
        st = function_body(app, "static long fetch_and_store(volatile long& x, long v)")
        ok = ok and ("__sync_lock_test_and_set(&x, v)" in st or "InterlockedExchange(&x, v)" in st)
    except (ExtractError, ValueError):
        ok = False
    out["application-unblock-atomic"] = (ok, ["C18"], "Application::unblockSignals must take pending_ with ONE atomic exchange (no yield point can exist inside it, "
                                         "so the harness cannot interleave a read/clear pair); C18_pristine_loses is the schedule that loses a signal otherwise")
    return out

def lean_ident(s):
    return s[0].lower() + s[1:]

def render(c):
    L = ["-- GENERATED by tools/extract_consts.py from /repo's current sources (do not edit; rewritten by every check)",
         "namespace PotasscoVerif.Gen", ""]
    for nm in ("BUF_SIZE", "idMax", "atomMin", "atomMax"):
        L.append("def %s : Nat := %d" % (nm, c[nm]))
    L.append("")
    for nm, (items, emin) in c["enums"].items():
        L.append("/-- `%s`: (name, value) in declaration order; `eMin`, `eMax`. -/" % nm)
        L.append("def %s_table : List (String × Int) := [%s]" % (nm, ", ".join('("%s", %d)' % kv for kv in items)))
        L.append("def %s_eMin : Int := %d" % (nm, emin))
        L.append("def %s_eMax : Int := %d" % (nm, items[-1][1]))
        for k, v in items:
            L.append("def %s_%s : Int := %d" % (nm, k, v))
        L.append("/-- the declaration text `%s::enumClass()` hands to `EnumClass` (as the preprocessor stringizes it) -/" % nm)
        L.append("def %s_rep : List Nat := [%s]" % (nm, ", ".join(str(ord(ch)) for ch in c["reps"][nm])))
        L.append("")
    L.append("end PotasscoVerif.Gen")
    return "\n".join(L) + "\n"

def main():
    try:
        text = render(extract())
    except ExtractError as e:
        print("EXTRACT-FAILED %s" % e)
        return 2
    old = None
    if os.path.exists(OUT):
        with open(OUT) as f: old = f.read()
    if old != text:
        os.makedirs(os.path.dirname(OUT), exist_ok=True)
        with open(OUT + ".tmp", "w") as f: f.write(text)
        os.replace(OUT + ".tmp", OUT)
        print("Gen/Consts.lean rewritten")
    return 0

if __name__ == "__main__":
    sys.exit(main())
