#!/usr/bin/env python3
"""Single entry point of every check registered in MANIFEST.json.

    python3 tools/check.py <ID> [--tier quick|thorough] [--replay FILE]

Steps (DESIGN.md §2): translate (Gen/*.lean from /repo) → prove (lake build of the property's theorem
module, hygiene greps, #print axioms; thorough: leanchecker) → build the harness from /repo's working
tree (ASan/UBSan, hooks on) → correspond (same case lines through the real code and through the
compiled Lean model) + direct oracles on the implementation → classify → evidence/<ID>.json.

Exit 0: property held on everything explored (KNOWN-FINDING lines may be printed).
Exit 1: a line `VIOLATION property=<ID> replay=<path>` was printed (with the suffix
`no-failing-input-found` when a proof obligation or the correspondence broke but no failing input
was found on the implementation)."""
import argparse, collections, importlib, json, os, random, sys, time, traceback

HERE = os.path.dirname(os.path.abspath(__file__))
sys.path.insert(0, HERE)
from vlib import build, leanchk, runner
import extract_consts

ROOT = build.ROOT
GLOBAL_TRUSTED = [
    "Lean 4.33 kernel; axioms allowed: propext, Classical.choice, Quot.sound (audited per theorem by #print axioms on this run)",
    "the hand-written Lean models are tied to the C++ only by the correspondence run (same case lines through harness and driver) and by the regenerated Gen/Consts.lean",
    "tools/extract_consts.py, harness/*.cpp, tools/props/*.py generators and oracles, the diff",
    "assumed contracts of libc/libstdc++ (DESIGN.md §1.1); g++ 12 with ASan/UBSan/LSan for the residual run-time facts",
]

class Ctx:
    def __init__(self, pid, tier, seed, quiet=False):
        self.id, self.tier, self.seed, self.quiet = pid, tier, seed, quiet
        self.rng = random.Random(seed)
        self.harness, self.lpconvert = {}, {}
        self.evaluations = 0
        self.distinct = set()
        self.dist = collections.Counter()
        self.samples = []
        self.failures = []        # direct oracle failures on the implementation
        self.disagreements = []   # model vs implementation
        self.notes = []
        self.compared = 0
    # --- running
    def impl(self, lines, B=4096, sharded=True, exempt=None):
        """exempt(line) -> bool: a case that may run out of time by design (the plugin classifies it); it does not count towards runner.MAX_TIMEOUTS"""
        exe = self.harness[B]
        return runner.run_impl_sharded(exe, lines, exempt=exempt) if sharded else runner.run_impl(exe, lines, exempt=exempt)
    def model(self, lines):
        return runner.run_model(lines)
    # --- bookkeeping
    def count(self, n=1): self.evaluations += n
    def nontrivial(self, key): self.distinct.add(key)
    def sample(self, x, limit=6):
        if len(self.samples) < limit: self.samples.append(x)
    def fail(self, signature, what, case, detail=None):
        if detail is not None and "TIMEOUT after 0s: not run" in json.dumps(detail):
            self.dist["not run (earlier cases did not terminate)"] += 1; return      # runner.MAX_TIMEOUTS: not a finding about this case
        self.failures.append({"signature": signature, "what": what, "case": case, "detail": detail})
    def disagree(self, corr, case, impl, model):
        self.disagreements.append({"correspondence": corr, "case": case, "impl": impl, "model": model})
    def note(self, s):
        self.notes.append(s)
        if not self.quiet: print("note: " + s)

def load_known():
    p = os.path.join(ROOT, "known_findings.json")
    if not os.path.exists(p): return []
    with open(p) as f: return json.load(f).get("findings", [])

def write_replay(pid, data):
    d = os.path.join(ROOT, "replays")
    os.makedirs(d, exist_ok=True)
    path = os.path.join(d, "%s-%d-%d.json" % (pid, int(time.time()), os.getpid()))
    with open(path, "w") as f: json.dump(data, f, indent=1, default=str)
    return path

def shrink(plugin, ctx0, failure, budget=200):
    """greedy shrinking of a failing case with the plugin's candidate generator (if it has one)."""
    if not hasattr(plugin, "shrink_candidates"): return failure
    best = failure
    improved = True
    t_end = time.time() + float(os.environ.get("VERIF_SHRINK_SECONDS", "90"))      # a replay is needed, a minimal one is a convenience
    while improved and budget > 0 and time.time() < t_end:
        improved = False
        for cand in plugin.shrink_candidates(best["case"]):
            budget -= 1
            if budget <= 0 or time.time() >= t_end: break
            sub = Ctx(ctx0.id, ctx0.tier, ctx0.seed, quiet=True)
            sub.harness, sub.lpconvert = ctx0.harness, ctx0.lpconvert
            try:
                plugin.evaluate(sub, [cand])
            except Exception:
                continue
            hit = [f for f in sub.failures if f["signature"] == best["signature"]]
            if hit:
                best = hit[0]; improved = True
                break
    return best

def main():
    ap = argparse.ArgumentParser()
    ap.add_argument("id")
    ap.add_argument("--tier", default=os.environ.get("VERIF_TIER", "quick"), choices=["quick", "thorough"])
    ap.add_argument("--replay")
    ap.add_argument("--no-proof", action="store_true", help="(debugging) skip the Lean steps")
    args = ap.parse_args()
    pid = args.id.upper()
    seed = int(os.environ.get("VERIF_SEED", "1"))
    t0 = time.time()
    plugin = importlib.import_module("props." + pid.lower())
    ctx = Ctx(pid, args.tier, seed)
    broken = []          # proof obligations / correspondences that no longer check
    obligations = list(plugin.THEOREMS)
    discharged = 0; rechecked = 0
    axioms_used = {}

    # 1. translate
    rc = extract_consts.main()
    if rc != 0:
        broken.append("extract: tools/extract_consts.py no longer recognises the sources (see output above)")

    try:
        for name, (ok_, props, what) in extract_consts.shapes().items():
            if pid in props and not ok_:
                broken.append("extract:shape:%s no longer matches the source — %s" % (name, what))
    except Exception as e:
        broken.append("extract:shapes raised %r" % (e,))

    # 2. prove
    lean_ok = True
    if not args.no_proof:
        ok, log = build.build_lean([plugin.MODULE, "driver"] + list(getattr(plugin, "EXTRA_MODULES", [])))
        if not ok:
            lean_ok = False
            tail = "\n".join(l for l in log.split("\n") if "error" in l.lower())[:3000]
            print("lean build failed:\n" + tail)
            broken.append("lake build %s failed: %s" % (plugin.MODULE, tail[:600]))
            # the driver may still build (models only): try it alone so that the search can use the model
            ok2, _ = build.build_lean(["driver"])
            if not ok2: broken.append("lake build driver failed")
        hy = leanchk.hygiene()
        if hy:
            broken.append("hygiene: " + "; ".join(hy[:5]))
        if lean_ok:
            ax = leanchk.print_axioms([plugin.MODULE] + list(getattr(plugin, "EXTRA_MODULES", [])), obligations)
            for t in obligations:
                okt, a = ax[t]
                axioms_used[t] = a
                if okt: discharged += 1
                else: broken.append("theorem %s: %s" % (t, a))
            if args.tier == "thorough":
                okc, outc, nmod = leanchk.leanchecker_closure([plugin.MODULE] + list(getattr(plugin, "EXTRA_MODULES", [])))
                rechecked = nmod
                if not okc: broken.append("leanchecker: %s" % outc[-600:])
    else:
        discharged = len(obligations)

    # 3. build harness
    bsizes = tuple(getattr(plugin, "BSIZES", (4096,)))
    d, hs, lps, err = build.build_harness(bsizes, want_lpconvert=getattr(plugin, "LPCONVERT", False))
    if err:
        print("harness build failed:\n" + err)
        broken.append("harness build failed (the harness no longer compiles against /repo): " + err[:600])
    ctx.harness, ctx.lpconvert = hs, lps

    # 4./5. correspond + oracles
    driver_ok = os.path.exists(build.driver_path())
    if not err and driver_ok:
        try:
            if args.replay:
                with open(args.replay) as f: data = json.load(f)
                cases = data.get("cases") or ([data["case"]] if "case" in data else [])
            else:
                cases = plugin.corpus(ctx) if hasattr(plugin, "corpus") else []
                cases += plugin.generate(ctx)
            plugin.evaluate(ctx, cases)
        except Exception as e:
            traceback.print_exc()
            broken.append("check machinery raised %r" % (e,))
    elif not driver_ok:
        broken.append("model driver missing")

    # 6. classify
    known = [k for k in load_known() if k.get("property") == pid and k.get("status") == "known"]
    fresh = []
    seen_known = {}
    for f in ctx.failures:
        k = next((k for k in known if k["signature"] == f["signature"]), None)
        if k: seen_known.setdefault(k["signature"], (k, f))
        else: fresh.append(f)
    for sig, (k, f) in seen_known.items():
        print("KNOWN-FINDING: property=%s %s [%s] e.g. %s" % (pid, k["what"], sig, json.dumps(f["case"])[:300]))
    violation_line = None
    if fresh:
        f0 = shrink(plugin, ctx, fresh[0])
        path = write_replay(pid, {"property": pid, "kind": "failing-input", "signature": f0["signature"], "what": f0["what"],
                                  "case": f0["case"], "detail": f0["detail"], "other_failures": len(fresh) - 1,
                                  "broken_obligations": broken,
                                  "replay_cmd": "python3 tools/check.py %s --replay <this file>" % pid})
        violation_line = "VIOLATION property=%s replay=%s" % (pid, path)
        print("failure: %s — %s" % (f0["signature"], f0["what"]))
        print("  case: " + json.dumps(f0["case"])[:1500])
        if f0["detail"]: print("  detail: " + json.dumps(f0["detail"], default=str)[:700])
    elif broken or ctx.disagreements:
        names = list(broken) + sorted(set("corr:" + d_["correspondence"] for d_ in ctx.disagreements))
        path = write_replay(pid, {"property": pid, "kind": "unchecked-obligation", "no_longer_checks": names,
                                  "cases": [d_["case"] for d_ in ctx.disagreements[:20]],
                                  "disagreements": ctx.disagreements[:20],
                                  "replay_cmd": "python3 tools/check.py %s --replay <this file>" % pid})
        violation_line = "VIOLATION property=%s replay=%s no-failing-input-found" % (pid, path)
        for n in names[:10]: print("no longer checks: " + n[:800])
        for d_ in ctx.disagreements[:3]:
            print("  disagreement %s\n    case  %s\n    impl  %s\n    model %s" % (d_["correspondence"], json.dumps(d_["case"])[:600], str(d_["impl"])[:600], str(d_["model"])[:600]))

    # 7. evidence
    wall = time.time() - t0
    # evidence describes the tree in /repo as it is: runs against a scratch checkout (VERIF_REPO) or a seeded change (tools/seed_eval.py sets
    # VERIF_NO_EVIDENCE) leave the evidence files alone
    if not args.replay and not os.environ.get("VERIF_NO_EVIDENCE") and os.environ.get("VERIF_REPO", "/repo") == "/repo":
        ev = {
            "property_id": pid, "tier": args.tier, "seed": seed, "level": "proof",
            "coverage": {
                "obligations": max(1, len(obligations)), "discharged": discharged,
                "checker_cmd": "cd lean && lake build %s && lake env lean <#print axioms of each theorem>%s" % (
                    plugin.MODULE, " && lake env leanchecker <each of the %d project modules in the import closure of the property's modules>" % rechecked if args.tier == "thorough" else ""),
                "trusted_base": GLOBAL_TRUSTED + list(getattr(plugin, "TRUSTED", [])),
                "theorems": obligations, "partial_theorems": getattr(plugin, "PARTIAL", {}),
                "axioms": axioms_used,
                "evaluations": ctx.evaluations, "distinct_nontrivial": len(ctx.distinct),
                "rule": getattr(plugin, "RULE", ""), "samples": ctx.samples or ["(no case was run)"],
                "traces_validated_against_impl": ctx.compared,
                "disagreements_checked": len(ctx.disagreements),
                "input_distribution": dict(ctx.dist),
                "bsizes": list(bsizes),
                "known_findings_seen": sorted(seen_known.keys()),
                "notes": ctx.notes[:40],
            },
            "assumptions": list(getattr(plugin, "ASSUMPTIONS", [])),
            "wall_s": round(wall, 2),
            "violations": (1 if violation_line else 0),
        }
        os.makedirs(os.path.join(ROOT, "evidence"), exist_ok=True)
        with open(os.path.join(ROOT, "evidence", pid + ".json"), "w") as f:
            json.dump(ev, f, indent=1, default=str)
    print("%s tier=%s seed=%d theorems %d/%d cases=%d distinct-nontrivial=%d compared=%d disagreements=%d failures=%d known=%d wall=%.1fs" % (
        pid, args.tier, seed, discharged, len(obligations), ctx.evaluations, len(ctx.distinct), ctx.compared,
        len(ctx.disagreements), len(fresh), len(seen_known), wall))
    if violation_line:
        print(violation_line)
        return 1
    return 0

if __name__ == "__main__":
    sys.exit(main())
