#!/usr/bin/env python3
"""MANIFEST.setup_cmd: build the framework offline from files on disk: Gen tables, the Lean library and
driver, and the sanitizer harness for the current /repo tree (each check would also do this on demand)."""
import os, sys
HERE = os.path.dirname(os.path.abspath(__file__))
sys.path.insert(0, HERE)
from vlib import build
import extract_consts
rc = extract_consts.main()
ok, log = build.build_lean(["PotasscoVerif", "driver"])
print("lake build:", "ok" if ok else "FAILED")
if not ok: print(log[-4000:])
d, hs, lps, err = build.build_harness((2, 3, 16, 17, 4096), want_lpconvert=True)
print("harness:", "ok" if not err else err[-4000:])
sys.exit(0 if (ok and not err and rc == 0) else 1)
