#!/usr/bin/env python3
"""Small helper process: runs many short commands (argv, stdin as hex) read as JSON from stdin, 16 at a time, and prints JSON
[[rc, stderr-tail] | null (timeout) | "skip" (not run: 12 earlier runs did not terminate)].  Spawning from this small process is cheap; spawning hundreds of children from the
check process (hundreds of MB of case data) costs ~0.1 s of page-table copying each."""
import json, subprocess, sys
from concurrent.futures import ThreadPoolExecutor
HANGS = [0]
def huge(hexin):
    try: t = bytes.fromhex(hexin)
    except ValueError: return False
    return any(w.isdigit() and len(w) >= 7 and int(w) >= 2**22 for w in t.replace(b"-", b" ").split())
def one(j):
    argv, hexin, timeout = j
    if HANGS[0] >= 12: return "skip"
    if huge(hexin): timeout = min(timeout, 8)      # may grow a table towards an announced id for minutes: classified by the caller       # enough runs that do not terminate have been found
    try:
        r = subprocess.run(argv, input=bytes.fromhex(hexin), capture_output=True, timeout=timeout)
        return [r.returncode, r.stderr.decode("latin-1")[-3000:]]
    except subprocess.TimeoutExpired:
        if not huge(hexin): HANGS[0] += 1
        return None
def main():
    jobs = json.load(sys.stdin)
    with ThreadPoolExecutor(max_workers=16) as ex: res = list(ex.map(one, jobs))
    json.dump(res, sys.stdout)
if __name__ == "__main__": main()
