"""The 'Prove' step: build the property's theorem module, hygiene greps, #print axioms audit, leanchecker."""
import glob, json, os, re, subprocess, tempfile
from . import build

ALLOWED_AXIOMS = {"propext", "Classical.choice", "Quot.sound"}
BAD = re.compile(r"\bsorry\b|\badmit\b|^\s*axiom\s|native_decide|bv_decide|implemented_by|\bunsafe\s|maxHeartbeats\s+0|\bextern\b")

def strip_comments(src):
    # remove /- ... -/ (nested) and -- line comments
    out, i, depth, n = [], 0, 0, len(src)
    while i < n:
        if src.startswith("/-", i): depth += 1; i += 2; continue
        if depth and src.startswith("-/", i): depth -= 1; i += 2; continue
        if depth: 
            if src[i] == "\n": out.append("\n")
            i += 1; continue
        if src.startswith("--", i):
            while i < n and src[i] != "\n": i += 1
            continue
        out.append(src[i]); i += 1
    return "".join(out)

def hygiene():
    """grep every library file (not Driver.lean's IO loop: `partial` is allowed there only)."""
    hits = []
    for f in sorted(glob.glob(os.path.join(build.LEAN, "PotasscoVerif", "**", "*.lean"), recursive=True)):
        with open(f) as fh: src = strip_comments(fh.read())
        for ln, line in enumerate(src.split("\n"), 1):
            if BAD.search(line): hits.append("%s:%d: %s" % (os.path.relpath(f, build.LEAN), ln, line.strip()))
            if re.search(r"\bpartial\s+def\b", line): hits.append("%s:%d: partial def in library" % (os.path.relpath(f, build.LEAN), ln))
    return hits

def print_axioms(module, theorems):
    """returns {theorem: (ok, axioms or error text)}."""
    os.makedirs(os.path.join(build.BUILD, "tmp"), exist_ok=True)
    mods = module if isinstance(module, list) else [module]
    src = "".join("import %s\n" % m for m in mods) + "".join("#print axioms %s\n" % t for t in theorems)
    fd, path = tempfile.mkstemp(suffix=".lean", dir=os.path.join(build.BUILD, "tmp"))
    with os.fdopen(fd, "w") as f: f.write(src)
    try:
        with build.Lock("lake"):
            rc, out = build.lake(["env", "lean", path])
    finally:
        os.remove(path)
    res = {}
    # output: "'Name' depends on axioms: [a, b]" or "'Name' does not depend on any axioms" or an error
    flat = re.sub(r"\s+", " ", out)
    for t in theorems:
        m = re.search(r"'%s' depends on axioms: \[([^\]]*)\]" % re.escape(t), flat)
        if m:
            ax = [a.strip() for a in m.group(1).split(",") if a.strip()]
            res[t] = (all(a in ALLOWED_AXIOMS for a in ax), ax)
        elif re.search(r"'%s' does not depend on any axioms" % re.escape(t), flat):
            res[t] = (True, [])
        else:
            res[t] = (False, "not found / error: " + out[-500:])
    return res

def leanchecker(module):
    with build.Lock("lake"):
        rc, out = build.lake(["env", "leanchecker", module], timeout=3000)
    return rc == 0, out[-1500:]
