"""The 'Prove' step: build the property's theorem module, hygiene greps, #print axioms audit, leanchecker."""
import glob, json, os, re, subprocess, tempfile
from . import build

ALLOWED_AXIOMS = {"propext", "Classical.choice", "Quot.sound"}
BAD = re.compile(r"\bsorry\b|\badmit\b|^\s*axiom\s|native_decide|bv_decide|implemented_by|\bunsafe\s|maxHeartbeats\s+0|\bextern\b")

def strip_comments(src):
    # remove /- ... -/ (nested) and -- line comments
    out, i, depth, n = [], 0, 0, len(src)
    while i < n:
        if src.startswith("/-", i): depth += 1; i += 2; continue
        if depth and src.startswith("-/", i): depth -= 1; i += 2; continue
        if depth: 
            if src[i] == "\n": out.append("\n")
            i += 1; continue
        if src.startswith("--", i):
            while i < n and src[i] != "\n": i += 1
            continue
        out.append(src[i]); i += 1
    return "".join(out)

def hygiene():
    """grep every library file (not Driver.lean's IO loop: `partial` is allowed there only)."""
    hits = []
    for f in sorted(glob.glob(os.path.join(build.LEAN, "PotasscoVerif", "**", "*.lean"), recursive=True)):
        with open(f) as fh: src = strip_comments(fh.read())
        for ln, line in enumerate(src.split("\n"), 1):
            if BAD.search(line): hits.append("%s:%d: %s" % (os.path.relpath(f, build.LEAN), ln, line.strip()))
            if re.search(r"\bpartial\s+def\b", line): hits.append("%s:%d: partial def in library" % (os.path.relpath(f, build.LEAN), ln))
    return hits

def print_axioms(module, theorems):
    """returns {theorem: (ok, axioms or error text)}."""
    os.makedirs(os.path.join(build.BUILD, "tmp"), exist_ok=True)
    mods = module if isinstance(module, list) else [module]
    src = "".join("import %s\n" % m for m in mods) + "".join("#print axioms %s\n" % t for t in theorems)
    fd, path = tempfile.mkstemp(suffix=".lean", dir=os.path.join(build.BUILD, "tmp"))
    with os.fdopen(fd, "w") as f: f.write(src)
    try:
        with build.Lock("lake"):
            rc, out = build.lake(["env", "lean", path])
    finally:
        os.remove(path)
    res = {}
    # output: "'Name' depends on axioms: [a, b]" or "'Name' does not depend on any axioms" or an error
    flat = re.sub(r"\s+", " ", out)
    for t in theorems:
        m = re.search(r"'%s' depends on axioms: \[([^\]]*)\]" % re.escape(t), flat)
        if m:
            ax = [a.strip() for a in m.group(1).split(",") if a.strip()]
            res[t] = (all(a in ALLOWED_AXIOMS for a in ax), ax)
        elif re.search(r"'%s' does not depend on any axioms" % re.escape(t), flat):
            res[t] = (True, [])
        else:
            res[t] = (False, "not found / error: " + out[-500:])
    return res

def leanchecker(module):
    with build.Lock("lake"):
        rc, out = build.lake(["env", "leanchecker", module], timeout=3000)
    return rc == 0, out[-1500:]

def closure(modules):
    """the project's modules that `modules` import, directly or not (leanchecker replays ONE module on top of its imports as loaded,
    so every module of the closure is replayed on its own)"""
    seen, todo = [], list(modules)
    while todo:
        m = todo.pop()
        if m in seen or not m.startswith("PotasscoVerif"): continue
        f = os.path.join(build.LEAN, *m.split(".")) + ".lean"
        if not os.path.exists(f): continue
        seen.append(m)
        with open(f) as fh:
            for line in fh:
                mm = re.match(r"\s*import\s+(\S+)", line)
                if mm: todo.append(mm.group(1))
    return sorted(seen)

def leanchecker_closure(modules):
    """replays every module of the import closure with leanchecker; a module whose compiled file was replayed before (same content) is not
    replayed again (build/leanchk_cache.json).  returns (ok, text, number of modules)."""
    import hashlib, json
    from concurrent.futures import ThreadPoolExecutor
    mods = closure(modules)
    cache_f = os.path.join(build.BUILD, "leanchk_cache.json")
    with build.Lock("leanchk"):
        try:
            with open(cache_f) as fh: cache = json.load(fh)
        except Exception: cache = {}
        def key(m):
            o = os.path.join(build.LEAN, ".lake", "build", "lib", "lean", *m.split(".")) + ".olean"
            with open(o, "rb") as fh: return hashlib.sha256(fh.read()).hexdigest()
        todo = []
        for m in mods:
            try: k = key(m)
            except OSError: return False, "no compiled file for " + m, len(mods)
            if cache.get(m) != k: todo.append((m, k))
        def one(mk):
            rc, out = build.lake(["env", "leanchecker", mk[0]], timeout=3000)
            return mk, rc, out
        bad = []
        with ThreadPoolExecutor(max_workers=4) as ex:
            for (m, k), rc, out in ex.map(one, todo):
                if rc == 0: cache[m] = k
                else: bad.append("%s: %s" % (m, out[-300:]))
        with open(cache_f + ".tmp", "w") as fh: json.dump(cache, fh)
        os.replace(cache_f + ".tmp", cache_f)
    return not bad, "; ".join(bad), len(mods)
