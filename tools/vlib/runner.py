"""Runs case files through the C++ harness (real code, sanitizers on) and the Lean driver (model)."""
import os, subprocess, tempfile
from concurrent.futures import ThreadPoolExecutor
from . import build

ASAN_ENV = {"ASAN_OPTIONS": "detect_leaks=1:abort_on_error=0:exitcode=99:allocator_may_return_null=0:max_allocation_size_mb=256:detect_stack_use_after_return=0",
            "UBSAN_OPTIONS": "print_stacktrace=1:halt_on_error=1:exitcode=98",
            "LSAN_OPTIONS": "exitcode=97"}

def is_oom(res):
    """a crash entry caused by an allocation whose size the input itself announced (outside every claim)."""
    return (not isinstance(res, str)) and any(k in res[2] for k in ("allocation-size-too-big", "out-of-memory", "exceeds maximum supported size", "std::bad_alloc", "std::length_error"))

def _tmpdir():
    d = os.path.join(build.BUILD, "tmp", str(os.getpid()))
    os.makedirs(d, exist_ok=True)
    return d

_LOAD = [0]         # batches that ran out of time although the case they stopped at terminates on its own (loaded machine)
_SLOW = [0]         # cases that ran out of time and that the caller classifies as slow by design (not counted towards MAX_TIMEOUTS)
_TIMEOUTS = [0]     # timeouts seen in this process: after the first one the budget per batch shrinks (a change that makes the code hang on a class of
                    # inputs must not make the check run for hours: every hanging case is reported, each costs seconds)

MAX_TIMEOUTS = 12

def _budget(nlines, timeout):
    if _TIMEOUTS[0] + _SLOW[0] == 0: return min(timeout, 60 + 0.2 * nlines)      # generous: a loaded machine must not produce a first timeout
    return min(timeout, 10 + 0.05 * nlines)

CONFIRM_S = 40      # a case that ran out of time inside a batch is run again on its own: only if it does not finish within this many seconds
                    # it counts as a case that does not terminate (otherwise the batch was slow — a loaded machine — and is resumed)

def _run_file(exe, lines, timeout, exempt=None, fixed=None):
    timeout = fixed if fixed is not None else _budget(len(lines), timeout)
    fd, path = tempfile.mkstemp(suffix=".cases", dir=_tmpdir())
    with os.fdopen(fd, "w") as f:
        f.write("\n".join(lines) + "\n")
    env = dict(os.environ); env.update(ASAN_ENV)
    try:
        r = subprocess.run([exe, path], capture_output=True, timeout=timeout, env=env)
        out = r.stdout.decode("latin-1").split("\n")
        if out and out[-1] == "": out.pop()
        return out, r.returncode, r.stderr.decode("latin-1")
    except subprocess.TimeoutExpired as e:
        out = (e.stdout or b"").decode("latin-1").split("\n")
        if out and out[-1] == "": out.pop()
        k = len(out)
        return out, -9, "RAN-OUT-OF-TIME after %ss" % timeout
    finally:
        os.remove(path)

def run_impl(exe, lines, timeout=600, exempt=None):
    """returns a list with one entry per case line: the result line, or ('CRASH', rc, stderr) for the
    case at which the process died (sanitizer abort, signal, timeout).  Leak reports at exit are attributed
    by re-running the chunk case by case."""
    res = []
    i = 0
    n = len(lines)
    while i < n:
        if _TIMEOUTS[0] >= MAX_TIMEOUTS:
            # enough cases that do not terminate have been found: the remaining ones are not run
            res.extend([("CRASH", -9, "TIMEOUT after 0s: not run, %d earlier cases did not terminate" % _TIMEOUTS[0])] * (n - i)); break
        out, rc, err = _run_file(exe, lines[i:], timeout, exempt)
        if rc == -9 and err.startswith("RAN-OUT-OF-TIME") and len(out) < n - i:
            # which case?  run the one the batch stopped at on its own
            k = i + len(out)
            o1, rc1, err1 = _run_file(exe, [lines[k]], timeout, exempt, fixed=CONFIRM_S)
            if not (rc1 == -9 and err1.startswith("RAN-OUT-OF-TIME")):
                # it terminates: the batch was merely slow.  Keep what was answered, take this case's own result, go on behind it with the full time
                res.extend(out)
                if rc1 == 0 and len(o1) == 1: res.append(o1[0])
                else: res.append(("CRASH", rc1, err1[-6000:]))
                i = k + 1
                _LOAD[0] += 1
                if _LOAD[0] <= 50: continue
                err = "TIMEOUT after %s: batches keep running out of time although single cases terminate" % err[len("RAN-OUT-OF-TIME after "):]
            elif exempt is not None and exempt(lines[k]):
                _SLOW[0] += 1
                err = "SLOW-BY-DESIGN after %ss" % CONFIRM_S
            else:
                _TIMEOUTS[0] += 1
                err = "TIMEOUT after %ss on its own: the case did not terminate" % CONFIRM_S
        if rc == 0 and len(out) == n - i:
            res.extend(out); break
        if len(out) < n - i:
            # died while processing case i+len(out)
            res.extend(out)
            res.append(("CRASH", rc, err[-6000:]))
            i += len(out) + 1
            continue
        # all lines answered but non-zero exit: leak (or late error) somewhere in this chunk: bisect
        if n - i == 1:
            res.append(("CRASH", rc, err[-6000:])); break
        mid = (n - i) // 2
        res.extend(run_impl(exe, lines[i:i + mid], timeout, exempt))
        res.extend(run_impl(exe, lines[i + mid:], timeout, exempt))
        break
    return res

def run_impl_sharded(exe, lines, shards=16, timeout=600, exempt=None):
    if len(lines) < 64: return run_impl(exe, lines, timeout, exempt)
    k = (len(lines) + shards - 1) // shards
    chunks = [lines[j:j + k] for j in range(0, len(lines), k)]
    with ThreadPoolExecutor(max_workers=shards) as ex:
        parts = list(ex.map(lambda c: run_impl(exe, c, timeout, exempt), chunks))
    return [x for p in parts for x in p]

def run_model(lines, timeout=900, shards=16):
    exe = build.driver_path()
    def one(chunk):
        r = subprocess.run([exe], input=("\n".join(chunk) + "\n").encode("latin-1"), capture_output=True, timeout=timeout)
        out = r.stdout.decode("latin-1").split("\n")
        if out and out[-1] == "": out.pop()
        if r.returncode != 0 or len(out) != len(chunk):
            raise RuntimeError("model driver failed rc=%s answered %d of %d: %s" % (r.returncode, len(out), len(chunk), r.stderr.decode()[-500:]))
        return out
    if len(lines) < 64: return one(lines)
    k = (len(lines) + shards - 1) // shards
    chunks = [lines[j:j + k] for j in range(0, len(lines), k)]
    with ThreadPoolExecutor(max_workers=shards) as ex:
        parts = list(ex.map(one, chunks))
    return [x for p in parts for x in p]
