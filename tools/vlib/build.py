"""Builds everything a check needs from /repo's *current working tree*:
   - the sanitizer-instrumented library objects + line-protocol harness (one binary per BUF_SIZE),
   - lpconvert (same flags),
   - the Lean library / driver (lake), after regenerating Gen/*.lean from the sources.
   Build output lives under /verif/build (git-ignored), keyed by a content hash, guarded by file locks so
   that several checks can run at the same time."""
import fcntl, glob, hashlib, os, shutil, subprocess, sys, time
from concurrent.futures import ThreadPoolExecutor

ROOT = os.path.dirname(os.path.dirname(os.path.dirname(os.path.abspath(__file__))))   # /verif
REPO = os.environ.get("VERIF_REPO", "/repo")
BUILD = os.path.join(ROOT, "build")
LEAN = os.path.join(ROOT, "lean")
HARNESS = os.path.join(ROOT, "harness")
GUARD = "POTASSCO_LIBPOTASSCO_VERIF"
CXX = os.environ.get("VERIF_CXX", "g++")
CXXFLAGS = ["-std=gnu++17", "-w", "-g", "-O1", "-fsanitize=address,undefined",
            "-fno-sanitize=nonnull-attribute", "-fno-sanitize-recover=all", "-D" + GUARD, "-I" + REPO]
PER_B_LIB = ["match_basic_types.cpp"]        # library sources that see BUF_SIZE
PER_B_HARNESS = ["h_bs.cpp"]                 # harness sources that see BUF_SIZE

class Lock:
    def __init__(self, name):
        os.makedirs(BUILD, exist_ok=True)
        self.path = os.path.join(BUILD, name + ".lock")
    def __enter__(self):
        self.f = open(self.path, "w")
        fcntl.flock(self.f, fcntl.LOCK_EX)
        return self
    def __exit__(self, *a):
        fcntl.flock(self.f, fcntl.LOCK_UN)
        self.f.close()

def _glob(base, pats):
    fs = []
    for pat in pats: fs += sorted(glob.glob(os.path.join(base, pat)))
    return fs

def _hash(files, extra=""):
    h = hashlib.sha256(); h.update(extra.encode())
    for f in files:
        h.update(os.path.basename(f).encode()); h.update(b"\0")
        with open(f, "rb") as fh: h.update(fh.read())
    return h.hexdigest()[:16]

def _cc(src, obj, extra):
    cmd = [CXX] + CXXFLAGS + extra + ["-I" + HARNESS, "-c", src, "-o", obj + ".tmp%d" % os.getpid()]
    r = subprocess.run(cmd, capture_output=True, text=True)
    if r.returncode == 0: os.replace(obj + ".tmp%d" % os.getpid(), obj)
    return (src, r.returncode, r.stderr)

def _gc(d, keep):
    """bound the cache: linked executables (~25 MB each with sanitizers and -g) are cheap to relink from cached objects, so only the
    24 most recently used unused ones stay; at most 120 unused objects stay (other buffer sizes / the tree before a change)."""
    now = time.time()
    def old(f):
        try: return now - os.path.getmtime(f) > 3600       # another check (of another tree) may be running what it built or touched in the last hour
        except OSError: return False
    fs = [f for f in glob.glob(os.path.join(d, "*")) if f not in keep and old(f)]
    exes = sorted((f for f in fs if not f.endswith(".o")), key=os.path.getmtime)
    objs = sorted((f for f in fs if f.endswith(".o")), key=os.path.getmtime)
    for f in exes[:max(0, len(exes) - 24)] + objs[:max(0, len(objs) - 120)]:
        try: os.remove(f)
        except OSError: pass

def build_harness(bsizes=(4096,), want_lpconvert=False):
    """Compiles what changed (objects are named by a hash of their source, all headers and the flags, so an
    edited file is always recompiled and an unchanged one never).  returns (dir, {B: harness}, {B: lpconvert}, err)."""
    d = os.path.join(BUILD, "obj")
    repo_hdr = _glob(REPO, ("potassco/*.h", "potassco/program_opts/*.h", "potassco/program_opts/detail/*.h"))
    harn_hdr = _glob(HARNESS, ("*.h",))
    flags = " ".join(CXXFLAGS)
    hk_repo = _hash(repo_hdr, flags)
    hk_harn = _hash(repo_hdr + harn_hdr, flags)
    with Lock("harness"):
        os.makedirs(d, exist_ok=True)
        jobs, used = [], set()
        libsrc = _glob(REPO, ("src/*.cpp",))
        hsrc = _glob(HARNESS, ("*.cpp",))
        def obj(src, hk, extra=()):
            o = os.path.join(d, "%s_%s.o" % (os.path.basename(src)[:-4], _hash([src], hk + " ".join(extra))))
            used.add(o)
            if not os.path.exists(o): jobs.append((src, o, list(extra)))
            else: os.utime(o)
            return o
        common = [obj(s, hk_repo) for s in libsrc if os.path.basename(s) not in PER_B_LIB]
        hcommon = [obj(s, hk_harn) for s in hsrc if os.path.basename(s) not in PER_B_HARNESS]
        perb = {}
        for B in bsizes:
            ex = ("-DPOTASSCO_VERIF_BUF_SIZE=%d" % B,)
            perb[B] = ([obj(s, hk_repo, ex) for s in libsrc if os.path.basename(s) in PER_B_LIB],
                       [obj(s, hk_harn, ex) for s in hsrc if os.path.basename(s) in PER_B_HARNESS])
        lpo = obj(os.path.join(REPO, "app/lpconvert.cpp"), hk_repo) if want_lpconvert else None
        if jobs:
            with ThreadPoolExecutor(max_workers=16) as ex_:
                res = list(ex_.map(lambda j: _cc(*j), jobs))
            bad = [r for r in res if r[1] != 0]
            if bad:
                return d, {}, {}, "compile error:\n" + "\n".join(b[0] + "\n" + b[2][-3000:] for b in bad)
        hs, lps = {}, {}
        def link(name, objs):
            exe = os.path.join(d, "%s_%s" % (name, hashlib.sha256(" ".join(objs).encode()).hexdigest()[:16]))
            used.add(exe)
            if not os.path.exists(exe):
                r = subprocess.run([CXX] + CXXFLAGS + ["-o", exe + ".tmp"] + objs, capture_output=True, text=True)
                if r.returncode != 0: return None, "link error:\n" + r.stderr[-3000:]
                os.replace(exe + ".tmp", exe)
            else: os.utime(exe)
            return exe, None
        for B in bsizes:
            exe, err = link("harness_B%d" % B, hcommon + perb[B][1] + common + perb[B][0])
            if err: return d, {}, {}, err
            hs[B] = exe
            if want_lpconvert:
                lp, err = link("lpconvert_B%d" % B, [lpo] + common + perb[B][0])
                if err: return d, {}, {}, err
                lps[B] = lp
        _gc(d, used)
    return d, hs, lps, None

def lake(args, timeout=3000):
    env = dict(os.environ)
    r = subprocess.run(["lake"] + args, cwd=LEAN, capture_output=True, text=True, env=env, timeout=timeout)
    return r.returncode, r.stdout + r.stderr

def build_lean(targets):
    """lake build of the given targets (module names or 'driver'); returns (ok, log)."""
    with Lock("lake"):
        rc, out = lake(["build"] + list(targets))
    return rc == 0, out

def driver_path():
    return os.path.join(LEAN, ".lake", "build", "bin", "driver")
