"""Builds everything a check needs from /repo's *current working tree*:
   - the sanitizer-instrumented library objects + line-protocol harness (one binary per BUF_SIZE),
   - lpconvert (same flags),
   - the Lean library / driver (lake), after regenerating Gen/*.lean from the sources.
   Build output lives under /verif/build (git-ignored), keyed by a content hash, guarded by file locks so
   that several checks can run at the same time."""
import fcntl, glob, hashlib, os, shutil, subprocess, sys, time
from concurrent.futures import ThreadPoolExecutor

ROOT = os.path.dirname(os.path.dirname(os.path.dirname(os.path.abspath(__file__))))   # /verif
REPO = os.environ.get("VERIF_REPO", "/repo")
BUILD = os.path.join(ROOT, "build")
LEAN = os.path.join(ROOT, "lean")
HARNESS = os.path.join(ROOT, "harness")
GUARD = "POTASSCO_LIBPOTASSCO_VERIF"
CXX = os.environ.get("VERIF_CXX", "g++")
CXXFLAGS = ["-std=gnu++17", "-w", "-g", "-O1", "-fsanitize=address,undefined",
            "-fno-sanitize=nonnull-attribute", "-fno-sanitize-recover=all", "-D" + GUARD, "-I" + REPO]
PER_B_LIB = ["match_basic_types.cpp"]        # library sources that see BUF_SIZE
PER_B_HARNESS = ["h_bs.cpp"]                 # harness sources that see BUF_SIZE

class Lock:
    def __init__(self, name):
        os.makedirs(BUILD, exist_ok=True)
        self.path = os.path.join(BUILD, name + ".lock")
    def __enter__(self):
        self.f = open(self.path, "w")
        fcntl.flock(self.f, fcntl.LOCK_EX)
        return self
    def __exit__(self, *a):
        fcntl.flock(self.f, fcntl.LOCK_UN)
        self.f.close()

def _files():
    fs = []
    for pat in ("src/*.cpp", "potassco/*.h", "potassco/program_opts/*.h", "potassco/program_opts/detail/*.h", "app/*.cpp"):
        fs += sorted(glob.glob(os.path.join(REPO, pat)))
    fs += sorted(glob.glob(os.path.join(HARNESS, "*.cpp"))) + sorted(glob.glob(os.path.join(HARNESS, "*.h")))
    return fs

def source_key():
    h = hashlib.sha256()
    h.update(" ".join(CXXFLAGS).encode())
    for f in _files():
        h.update(f.encode()); h.update(b"\0")
        with open(f, "rb") as fh: h.update(fh.read())
    return h.hexdigest()[:16]

def _cc(src, obj, extra):
    cmd = [CXX] + CXXFLAGS + extra + ["-I" + HARNESS, "-c", src, "-o", obj]
    r = subprocess.run(cmd, capture_output=True, text=True)
    return (src, r.returncode, r.stderr)

def _gc(keep):
    ds = sorted(glob.glob(os.path.join(BUILD, "h_*")), key=os.path.getmtime, reverse=True)
    for d in ds[2:]:
        if os.path.basename(d) != keep:
            shutil.rmtree(d, ignore_errors=True)

def build_harness(bsizes=(4096,), want_lpconvert=False):
    """returns (dir, {B: harness_path}, {B: lpconvert_path}, error_or_None)."""
    key = source_key()
    d = os.path.join(BUILD, "h_" + key)
    with Lock("harness"):
        os.makedirs(d, exist_ok=True)
        os.utime(d)
        jobs = []
        libsrc = sorted(glob.glob(os.path.join(REPO, "src/*.cpp")))
        hsrc = sorted(glob.glob(os.path.join(HARNESS, "*.cpp")))
        def need(o): return not os.path.exists(o)
        common = []
        for s in libsrc:
            if os.path.basename(s) in PER_B_LIB: continue
            o = os.path.join(d, "lib_" + os.path.basename(s)[:-4] + ".o"); common.append(o)
            if need(o): jobs.append((s, o, []))
        hcommon = []
        for s in hsrc:
            if os.path.basename(s) in PER_B_HARNESS: continue
            o = os.path.join(d, "h_" + os.path.basename(s)[:-4] + ".o"); hcommon.append(o)
            if need(o): jobs.append((s, o, []))
        perb = {}
        for B in bsizes:
            objs = []
            for s in libsrc:
                if os.path.basename(s) in PER_B_LIB:
                    o = os.path.join(d, "lib_%s_B%d.o" % (os.path.basename(s)[:-4], B)); objs.append(o)
                    if need(o): jobs.append((s, o, ["-DPOTASSCO_VERIF_BUF_SIZE=%d" % B]))
            hobjs = []
            for s in hsrc:
                if os.path.basename(s) in PER_B_HARNESS:
                    o = os.path.join(d, "h_%s_B%d.o" % (os.path.basename(s)[:-4], B)); hobjs.append(o)
                    if need(o): jobs.append((s, o, ["-DPOTASSCO_VERIF_BUF_SIZE=%d" % B]))
            perb[B] = (objs, hobjs)
        lpo = os.path.join(d, "app_lpconvert.o")
        if want_lpconvert and need(lpo):
            jobs.append((os.path.join(REPO, "app/lpconvert.cpp"), lpo, []))
        if jobs:
            with ThreadPoolExecutor(max_workers=16) as ex:
                res = list(ex.map(lambda j: _cc(*j), jobs))
            bad = [r for r in res if r[1] != 0]
            if bad:
                for s, o, _ in jobs:
                    if os.path.exists(o) and any(b[0] == s for b in bad): os.remove(o)
                return d, {}, {}, "compile error:\n" + "\n".join(b[0] + "\n" + b[2][-3000:] for b in bad)
        hs, lps = {}, {}
        for B in bsizes:
            exe = os.path.join(d, "harness_B%d" % B)
            if need(exe):
                r = subprocess.run([CXX] + CXXFLAGS + ["-o", exe + ".tmp"] + hcommon + perb[B][1] + common + perb[B][0],
                                   capture_output=True, text=True)
                if r.returncode != 0: return d, {}, {}, "link error:\n" + r.stderr[-3000:]
                os.rename(exe + ".tmp", exe)
            hs[B] = exe
            if want_lpconvert:
                lp = os.path.join(d, "lpconvert_B%d" % B)
                if need(lp):
                    r = subprocess.run([CXX] + CXXFLAGS + ["-o", lp + ".tmp", lpo] + common + perb[B][0],
                                       capture_output=True, text=True)
                    if r.returncode != 0: return d, {}, {}, "link error:\n" + r.stderr[-3000:]
                    os.rename(lp + ".tmp", lp)
                lps[B] = lp
        _gc("h_" + key)
    return d, hs, lps, None

def lake(args, timeout=3000):
    env = dict(os.environ)
    r = subprocess.run(["lake"] + args, cwd=LEAN, capture_output=True, text=True, env=env, timeout=timeout)
    return r.returncode, r.stdout + r.stderr

def build_lean(targets):
    """lake build of the given targets (module names or 'driver'); returns (ok, log)."""
    with Lock("lake"):
        rc, out = lake(["build"] + list(targets))
    return rc == 0, out

def driver_path():
    return os.path.join(LEAN, ".lake", "build", "bin", "driver")
