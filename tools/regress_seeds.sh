#!/bin/bash
# regress_seeds.sh: every seeded change (seeded/<name>/patch.diff) against the quick tier of its own property; prints the ones NOT reported.
# Applies each patch to /repo and restores it; run it only when nothing else uses /repo.
cd "$(dirname "$0")/.."
miss=0; n=0
for d in seeded/C*/; do
  name=$(basename "$d"); pid=${name:0:3}
  [ -f "$d/patch.diff" ] || continue
  n=$((n+1))
  out=$(timeout 1800 python3 tools/seed_eval.py "$name" "$pid" 2>&1 | grep -v '^{' | head -3)
  case "$out" in
    *"exit 1 VIOLATION"*) ;;
    *) echo "NOT REPORTED: $name :: $(echo "$out" | head -1)"; miss=$((miss+1));;
  esac
  git -C /repo checkout -- . 2>/dev/null
done
echo "seeded changes: $n, not reported: $miss"
