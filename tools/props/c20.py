"""C20 — type-erased value holder keeps value semantics and single ownership.

vs <op>*  : four ValueStore holders; ops set:i:ty:v (h[i] = T(v)), cp:i:j (h[j] = h[i]), sw:i:j, ad:i:ty:v (assimilate(new T(v))),
            cl:i, su:i (surrender), ra:i (the caller takes a heap object out and hands the same object back), sa:i (h = value_cast<T>(h)), vc:i:ty (value_cast); types 0,1 fit sizeof(void*) (stored in place), 2,3 are heap types
rc <op>*  : four IntrusiveSharedPtr<RefCountable>; new:i, as:i:j (p[j] = p[i]), rs:i
rcopt <perm> : one Option shared by a group, a copy of the group, two contexts and parsed values, destroyed in the given order
impl   : real classes with instrumented payloads (identity = id stored inside the object), ASan/LSan
model  : Model/ValueStore.lean
oracle : from the property: each holder is empty or holds the value last stored (typed access returns it, other types are a type
         error), copies are independent (fresh object, equal value), every constructed object is destroyed exactly once unless
         surrendered (then never), a shared object is freed exactly when its last pointer goes away."""
import itertools
ID = "C20"
MODULE = "PotasscoVerif.Props.C20"
EXTRA_MODULES = ["PotasscoVerif.Props.C20rc"]
THEOREMS = ["PotasscoVerif.C20.C20_once", "PotasscoVerif.C20.C20_single_owner", "PotasscoVerif.C20.C20_typed", "PotasscoVerif.C20.C20_set_get", "PotasscoVerif.C20.C20_self_assign",
            "PotasscoVerif.C20.C20_copy_independent", "PotasscoVerif.C20.step_inv",
            "PotasscoVerif.C20rc.C20_refcount_exact", "PotasscoVerif.C20rc.C20_freed_iff_unreferenced", "PotasscoVerif.C20rc.C20_freed_once", "PotasscoVerif.C20rc.C20_pointers_valid", "PotasscoVerif.C20rc.step_inv"]
PARTIAL = {"shared options": "that Option objects shared by groups, contexts and parse results use that pointer class correctly (who holds a pointer when) is not modelled call by call; "
           "it is decided by the trace oracle over all 120 destruction orders of five holders; the pointer class itself is proved (Props/C20rc.lean)"}
BSIZES = (4096,)
RULE = ("seeded histories of 3..30 operations over four holders and four payload types (two in-place sized, two heap), incl. self-assignment, swaps of in-place payloads, "
        "adoption, surrender and clears; reference-count histories over four shared pointers; all 120 destruction orders of five holders of one shared option; "
        "distinct = distinct histories; non-trivial = at least one copy or swap and one in-place and one heap payload")
TRUSTED = ["operator new/delete; in-place types are bitwise movable (what swap assumes)"]
ASSUMPTIONS = ["payload copy constructors do not throw"]
TECHNIQUE = "Lean 4 invariant proof (every constructed payload is in exactly one of: a holder, destroyed once, surrendered — for all histories) + differential correspondence with instrumented payloads under ASan/LSan"
LEVEL_TEXT = ("C20_once / C20_single_owner: for EVERY history of set, copy-assignment (incl. self-assignment), swap, adopt, clear and surrender over any number of holders, every "
              "payload object ever constructed is, at every moment, in exactly one of {one holder, destroyed once, surrendered}; after the holders are gone each object has been "
              "destroyed exactly once unless surrendered (then never). C20_typed/_set_get/_copy_independent: typed access returns the stored value for the stored type and a type "
              "error otherwise; a copy is a fresh object with equal value and all other holders are untouched. Tied to the code with instrumented in-place and heap payload types "
              "(identity inside the object) under ASan/LSan; shared-pointer histories and shared-option lifetimes by correspondence/oracle.")
LEVEL_NOTE = ("Refcount half: C20_refcount_exact / _freed_iff_unreferenced / _freed_once / _pointers_valid for every history of new/assign(also self)/reset on the RC model (ghost temporary references). Proved about Model/ValueStore.lean (object identity and destruction as ghost ids); model==code on ~5k (quick) / 120k (thorough) histories. Hypothesis: in-place types "
              "are bitwise movable. Trusted: Lean kernel+axioms, harness payload instrumentation, generator, oracle_vs().")

def gen_vs(rng):
    ops = []
    val = lambda: 0 if rng.random() < 0.25 else rng.randint(-50, 50)
    # the first tracked object of a history carries the stored identity 0: with value 0 and an in-place type its bytes are all zero
    if rng.random() < 0.3: ops.append("set:%d:%d:0" % (rng.randint(0, 3), rng.randint(0, 1)))
    for _ in range(rng.randint(3, 30)):
        k = rng.random(); i = rng.randint(0, 3); j = rng.randint(0, 3)
        if k < 0.3: ops.append("set:%d:%d:%d" % (i, rng.randint(0, 3), val()))
        elif k < 0.5: ops.append("cp:%d:%d" % (i, j if rng.random() < 0.9 else i))
        elif k < 0.65: ops.append("sw:%d:%d" % (i, j))
        elif k < 0.75: ops.append("ad:%d:%d:%d" % (i, rng.randint(0, 3), val()))
        elif k < 0.82: ops.append("cl:%d" % i)
        elif k < 0.86: ops.append("su:%d" % i)
        elif k < 0.90: ops.append("ra:%d" % i)              # surrender + assimilate of the SAME object
        elif k < 0.94: ops.append("sa:%d" % i)              # typed assignment from the holder's own content
        else: ops.append("vc:%d:%d" % (i, rng.randint(0, 3)))
    return {"comp": "vs", "ops": ops}

def gen_rc(rng):
    ops = []
    for _ in range(rng.randint(2, 20)):
        k = rng.random(); i = rng.randint(0, 3); j = rng.randint(0, 3)
        ops.append("new:%d" % i if k < 0.3 else "as:%d:%d" % (i, j) if k < 0.7 else "sw:%d:%d" % (i, j) if k < 0.85 else "rs:%d" % i)     # sw: swap (C20-q)
    return {"comp": "rc", "ops": ops}

def gen_vmap(rng):
    keys = ["k", "level", "x"]
    ops = []
    for _ in range(rng.randint(2, 14)):
        k = rng.random(); key = rng.choice(keys)
        if k < 0.3: ops.append("a:%s:%d:%d" % (key, rng.randint(0, 1), rng.randint(0, 99)))
        elif k < 0.6: ops.append("n:%s:%d:%s" % (key, rng.randint(0, 1), rng.choice(["7", "12", "x", "3"])))
        elif k < 0.7: ops.append("r:%s" % key)
        elif k < 0.93: ops.append("g:%s" % key)
        else: ops.append("c")
    return {"comp": "vmap", "ops": ops}

def oracle_vmap(c, toks):
    """a plain table key -> (type, value, object): a new object replaces (and destroys) the one stored under the key, the map
    owns what it was given (add answers true), and at the end every object was destroyed exactly once."""
    tab = {}; nid = 0; alive = set()
    if len(toks) != len(c["ops"]) + 1: return ("C20:value-map", "trace has %d entries for %d operations" % (len(toks), len(c["ops"])))
    for o, got in zip(c["ops"], toks):
        f = o.split(":")
        if f[0] in ("a", "n"):
            nid += 1; alive.add(nid)
            if f[0] == "n" and f[3] == "x":       # the parser refuses: the value that was created is thrown away, the table is unchanged
                want = "parse=0"; alive.discard(nid)
            else:
                if f[1] in tab: alive.discard(tab[f[1]][2])
                tab[f[1]] = (int(f[2]), int(f[3]), nid)
                want = "add=1" if f[0] == "a" else "parse=1"
        elif f[0] == "r": want = "add=1" if f[1] in tab else "unknown"
        elif f[0] == "g": want = "%d:%d:%d" % tab[f[1]] if f[1] in tab else "unknown"
        else: tab = {}; alive = set(); want = "ok"
        if got != want: return ("C20:value-map", "after %s the map answers %s, a plain table of the values added says %s" % (o, got, want))
    for item in toks[-1][2:-1].split(","):
        if not item: continue
        oid, cnt = item.split(":")
        if cnt != "1": return ("C20:destroy-count", "value-map object %s was destroyed %s times" % (oid, cnt))
    return None

def corpus(ctx):
    return [{"comp": "vmap", "ops": "n:level:1:7 g:level n:level:1:12 g:level a:k:0:3 a:k:1:4 r:k g:k n:x:0:x g:x c g:k".split()}] + [{"comp": "vs", "ops": "set:0:0:5 set:1:2:7 cp:0:2 sw:1:2 ad:3:0:9 vc:0:0 vc:0:1 su:2 cl:0 set:3:3:1 cp:1:1 sw:0:0 ad:1:2:4 ra:1 vc:1:2 ra:0 ra:3 sa:1 vc:1:2 sa:0 sa:2 set:0:1:3 sa:0 vc:0:1".split()}] + \
           [{"comp": "rcopt", "ops": ["".join(p)]} for p in itertools.permutations("gh12p")]

def generate(ctx):
    n = {"quick": 5000, "thorough": 120000}[ctx.tier]
    def one():
        k = ctx.rng.random()
        return gen_vs(ctx.rng) if k < 0.65 else gen_rc(ctx.rng) if k < 0.85 else gen_vmap(ctx.rng)
    return [one() for _ in range(n)]

def oracle_vs(c, toks):
    """direct check of the implementation's own trace against the property."""
    h = [None] * 4      # (ty, val)
    seen_ids = set()
    ti = 0
    for o in c["ops"]:
        f = o.split(":"); i = int(f[1])
        got = toks[ti]; ti += 1
        if f[0] == "vc":
            want = "v%d" % h[i][1] if h[i] is not None and h[i][0] == int(f[2]) else "badcast"
            if got != want: return ("C20:typed-access", "value_cast on holder %d for type %s gives %s, expected %s" % (i, f[2], got, want))
            continue
        if f[0] in ("set", "ad"): h[i] = (int(f[2]), int(f[3]))
        elif f[0] == "cp": h[int(f[2])] = h[i]
        elif f[0] == "sw": j = int(f[2]); h[i], h[j] = h[j], h[i]
        elif f[0] in ("cl", "su"): h[i] = None
        cells = got.split(",")
        ids = []
        for k in range(4):
            if h[k] is None:
                if cells[k] != "E": return ("C20:holder-content", "holder %d should be empty after %s, is %s" % (k, o, cells[k]))
            else:
                p = cells[k].split(":")
                if len(p) != 4 or (int(p[0]), int(p[1])) != h[k]: return ("C20:holder-content", "holder %d should hold %s after %s, shows %s" % (k, h[k], o, cells[k]))
                ids.append(int(p[2]))
        if len(set(ids)) != len(ids): return ("C20:shared-payload", "two holders own the same object after %s (copies must be independent)" % o)
    d = toks[-1]
    for item in d[2:-1].split(","):
        if not item: continue
        oid, cnt = item.split(":")
        if cnt.endswith("s"):
            if cnt != "0s": return ("C20:surrendered-destroyed", "surrendered object %s was destroyed by the holder" % oid)
        elif cnt != "1": return ("C20:destroy-count", "object %s was destroyed %s times" % (oid, cnt))
    return None

def evaluate(ctx, cases):
    lines = ["%s %s" % (c["comp"], " ".join(c["ops"])) for c in cases]
    impl = ctx.impl(lines)
    mi = [k for k, c in enumerate(cases) if c["comp"] in ("vs", "rc")]
    model = dict(zip(mi, ctx.model([lines[k] for k in mi])))
    for k, (c, l, i) in enumerate(zip(cases, lines, impl)):
        ctx.count()
        ctx.dist[c["comp"]] += 1
        ctx.sample({"case": l[:160], "impl": (i if isinstance(i, str) else "CRASH")[-100:]}, 4)
        if not isinstance(i, str):
            err = i[2]
            sig = "C20:leak" if "LeakSanitizer" in err or "detected memory leaks" in err else "C20:crash"
            ctx.fail(sig, "payload leaked" if sig == "C20:leak" else "crash / double destroy / use after free (sanitizer abort)", c, {"stderr": err[-1500:]}); continue
        if c["comp"] == "vs":
            if any(o.startswith(("cp", "sw")) for o in c["ops"]) and any(o.startswith(("set", "ad")) and int(o.split(":")[2]) < 2 for o in c["ops"]) and any(o.startswith(("set", "ad")) and int(o.split(":")[2]) >= 2 for o in c["ops"]): ctx.nontrivial(l)
            r = oracle_vs(c, i.split(" "))
            if r: ctx.fail(r[0], r[1], c, {"impl": i[:900]})
        elif c["comp"] == "vmap":
            if len(c["ops"]) >= 4: ctx.nontrivial(l)
            r = oracle_vmap(c, i.split(" "))
            if r: ctx.fail(r[0], r[1], c, {"impl": i[:900]})
        elif c["comp"] == "rc":
            # oracle: counts equal the number of pointers to the object; freed exactly when the last pointer went away
            last = i.split(" ")[-1] if i else ""
            for tok in i.split(" "):
                ptrs, freed = tok.split("|F")
                fr = [x for x in freed.split(",") if x]
                if len(set(fr)) != len(fr): ctx.fail("C20:freed-twice", "a shared object was freed twice", c, {"impl": tok}); break
                cells = ptrs.split(",")
                live = {}
                for cell in cells:
                    if cell != "0":
                        o, n = cell.split("/"); live.setdefault(o, []).append(int(n))
                bad = [o for o, ns in live.items() if any(n != len(ns) for n in ns) or o in fr]
                if bad: ctx.fail("C20:refcount", "reference count differs from the number of holders, or a held object was freed", c, {"impl": tok}); break
        else:
            order = c["ops"][0]
            want = "0" * (len(order) - 1) + "1:1"
            if i != want: ctx.fail("C20:shared-option-lifetime", "an option shared between group/contexts/parsed values was not freed exactly when its last holder went away", c, {"impl": i, "want": want})
        if k in model:
            ctx.compared += 1
            if i != model[k]: ctx.disagree("%s:trace" % c["comp"], c, i[:700], model[k][:700])

def shrink_candidates(c):
    ops = c["ops"]
    if c["comp"] == "rcopt": return
    for i in range(len(ops)):
        yield dict(c, ops=ops[:i] + ops[i + 1:])
