"""Independent reference acceptor for (clasp-extended) smodels texts, written from the format description and
the text of properties C05/C07.  accept(text, ext) -> (True, [call words]) | (False, None)."""
from props.aspif_ref import Tok, Reject, lst, hexs, I32MAX, U32MAX

def accept(text, ext, amax=None):
    """amax: the reader's atom limit (ProgramReader::setMaxVar) for the atoms of rules; symbol table, compute statement and external
    section are read against the fixed 2^31-1"""
    try: return True, _parse(text, ext, amax)
    except Reject: return False, None

def _body(t):
    n = t.pos(); neg = t.pos()
    atoms = [t.atom() for _ in range(n)]
    return [(-a if i < neg else a) for i, a in enumerate(atoms)]

def _sum(t, weights):
    x, y, z = t.pos(), t.pos(), t.pos()
    bnd, n, neg = (x, y, z) if weights else (z, x, y)
    if bnd > I32MAX: raise Reject("bound")
    atoms = [t.atom() for _ in range(n)]
    lits = [(-a if i < neg else a) for i, a in enumerate(atoms)]
    ws = [t.pos(I32MAX) for _ in range(n)] if weights else [1] * n
    return bnd, list(zip(lits, ws))

def _eol(t):
    """one line end (LF, CR or CRLF) must follow immediately."""
    x = t.t
    if t.i < len(x) and x[t.i] == 13:
        t.i += 1
        if t.i < len(x) and x[t.i] == 10: t.i += 1
    elif t.i < len(x) and x[t.i] == 10: t.i += 1
    else: raise Reject("newline expected")

def _parse(text, ext, amax=None):
    if not text or not (48 <= text[0] <= 57): raise Reject("format")
    inc = text[0] == 57
    if inc and not ext: raise Reject("ext")
    t = Tok(text)
    if amax is not None: t.amax = amax
    calls = ["I1" if inc else "I0"]
    while True:
        calls.append("B")
        prio = 0
        while True:
            rt = t.pos()
            if rt == 0: break
            if rt in (3, 8):
                n = t.atom(); head = [t.atom() for _ in range(n)]
                calls.append("R,%d,%s,%s" % (1 if rt == 3 else 0, lst(head), lst(_body(t))))
            elif rt == 1:
                h = t.atom(); calls.append("R,0,%d,%s" % (h, lst(_body(t))))
            elif rt in (2, 5):
                h = t.atom(); bnd, wl = _sum(t, rt == 5)
                calls.append("S,0,%d,%d,%s" % (h, bnd, lst(["%d:%d" % p for p in wl])))
            elif rt == 6:
                _, wl = _sum(t, True)
                calls.append("M,%d,%s" % (prio, lst(["%d:%d" % p for p in wl]))); prio += 1
            elif rt == 90 and ext:
                if t.pos() != 0: raise Reject("90")
            elif rt == 91 and ext:
                a = t.atom(); v = t.pos(2); calls.append("X,%d,%d" % (a, (v ^ 3) - 1))
            elif rt == 92 and ext:
                calls.append("X,%d,3" % t.atom())
            else: raise Reject("rule type")
        while True:   # symbols
            a = t.pos(I32MAX)
            if a == 0: break
            x = t.t
            if t.i >= len(x) or x[t.i] == 0: raise Reject("name")
            if x[t.i] == 13 and t.i + 1 < len(x) and x[t.i + 1] == 10: t.i += 1
            t.i += 1
            j = t.i
            while j < len(x) and x[j] not in (10, 13, 0): j += 1
            if j >= len(x) or x[j] == 0: raise Reject("name not terminated")
            name = x[t.i:j]
            t.i = j
            _eol(t)
            calls.append("O,%s,%d" % (hexs(name), a))
        for tok, val in ((b"B+", True), (b"B-", False)):
            t.ws()
            if text[t.i:t.i + 2] != tok: raise Reject("compute")
            t.i += 2
            _eol(t)
            while True:
                a = t.pos(I32MAX)
                if a == 0: break
                calls.append("R,0,-,%d" % (-a if val else a))
        t.ws()
        if t.i < len(text) and text[t.i] == 69:
            t.i += 1
            while True:
                a = t.pos(I32MAX)
                if a == 0: break
                calls.append("X,%d,0" % a)
        t.pos()
        calls.append("E")
        if t.eof(): break
        if not inc: raise Reject("extra input")
    return calls
