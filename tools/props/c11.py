"""C11 — Rule builder yields exactly the rule that was described to it.

case line:  rb <op>*   (three builders 0..2; ops S:i:ht H:i:atom B:i U:i:bound M:i:prio G:i:lit:w b:i:bound
                        ch:i cb:i c:i W:i:to:w E:i cp:i:j as:i:j sw:i:j); output: the builder's rule after every op
impl   : harness `rb` drives real Potassco::RuleBuilder objects (also checks end(out) == rule(), accessors agree)
model  : driver `rb` = Model/RuleBuilder.lean (header fields + word memory with growth)
oracle : driver `rs` = Spec/RuleSpec.lean (head/body lists); on a protocol-conforming history the
         implementation must show exactly the spec's rule after every operation.
"""
ID = "C11"
MODULE = "PotasscoVerif.Props.C11"
THEOREMS = ["PotasscoVerif.C11.C11_refines", "PotasscoVerif.C11.C11_growth_independent",
            "PotasscoVerif.C11.run_ref", "PotasscoVerif.RuleBuilder.view_ref", "PotasscoVerif.C11.C11_init_is_initN",
            "PotasscoVerif.RuleBuilder.clearHead_ref", "PotasscoVerif.RuleBuilder.clearBody_ref", "PotasscoVerif.RuleBuilder.weaken_ref", "PotasscoVerif.RuleBuilder.copy_ref",
            "PotasscoVerif.C11.C11_multi", "PotasscoVerif.C11.mstep_ref"]
EXTRA_MODULES = ["PotasscoVerif.Props.C11m"]
PARTIAL = {}
BSIZES = (4096,)
RULE = ("seeded histories over three builders: rules described head-first or body-first, disjunctive/choice/minimize, normal/sum bodies, "
        "0..200 elements (forcing several reallocations), weight-0 goals, setBound, clearHead/clearBody/clear, weaken to count/normal, end and "
        "reuse, copy-construct/assign/swap between builders; plus a stream of protocol-violating histories (assertion expected). "
        "distinct = distinct op sequences; non-trivial = protocol-conforming (spec accepts every op), >= 6 ops and at least one end")
TRUSTED = ["realloc preserves the prefix of the block (modelled as list append)"]
ASSUMPTIONS = ["weaken(Count) is exercised with positive weights (its bound formula is (bound+min-1)/min in 64 bit, truncated to int)"]
TECHNIQUE = "Lean 4 refinement proof (memory-block model of RuleBuilder refines a head/body-list specification over all protocol-conforming histories) + differential correspondence run"
LEVEL_TEXT = ("C11_refines: for every protocol-conforming sequence of start/startMinimize/startBody/startSum/addHead/addGoal/setBound/clearHead/clearBody/clear/"
              "weaken(to any type, with/without weight reset)/end/copy, of any length and any initial capacity, the memory-block model (header fields, word array with growth, in-place "
              "compaction of weaken) raises no assertion, never accesses a word outside its block and reports exactly the rule of the head/body-list specification "
              "(growth independence is a corollary). C11_multi (Props/C11m.lean): the same for ANY number of builders with assignment / copy construction (b[j] := copy of b[i]) and swap between them: every builder reports "
              "the rule of its own specification state, where an assignment copies a value and a swap exchanges two values — a copy carries the complete rule and builders are independent afterwards. The same histories — also over three builders with copy/assign/swap — are run through real RuleBuilder objects, the compiled "
              "model and the specification, and the specification is the oracle.")
LEVEL_NOTE = ("Proved about Model/RuleBuilder.lean; model==code only on sampled histories. Bit-field widths (block < 2^30 bytes) and int overflow of weaken(Count) "
              "outside the model (unbounded Int). Trusted: Lean kernel + standard axioms, harness, generator.")

I32 = 2**31 - 1
def atom(rng): return rng.choice([1, 2, 3, 7, I32, rng.randint(1, I32)])
def lit(rng): return rng.choice([1, -1])*atom(rng)
def w32(rng): return rng.choice([0, 1, 2, -1, I32, -I32 - 1, rng.randint(-I32 - 1, I32)])

def gen_rule(rng, i, ops):
    kind = rng.random()
    n_h = rng.choice([0, 0, 1, 2, 3, rng.randint(0, 40)])
    n_b = rng.choice([0, 0, 1, 2, 5, 12, rng.randint(0, 200)])
    def head():
        if rng.random() < 0.8: ops.append("S:%d:%d" % (i, rng.randint(0, 1)))
        for _ in range(n_h): ops.append("H:%d:%d" % (i, atom(rng)))
    def body(pos_w=False):
        t = rng.random()
        if t < 0.45:
            if rng.random() < 0.8: ops.append("B:%d" % i)
            for _ in range(n_b): ops.append("G:%d:%d:1" % (i, lit(rng)))
            return 0
        ops.append("U:%d:%d" % (i, w32(rng) if not pos_w else rng.randint(0, 1000)))
        for _ in range(n_b):
            w = rng.choice([0, 1, 1, 2, 3, rng.randint(1, 1000)]) if pos_w or rng.random() < 0.7 else w32(rng)
            ops.append("G:%d:%d:%d" % (i, lit(rng), w))
        return 1
    if kind < 0.15:
        ops.append("M:%d:%d" % (i, w32(rng)))
        for _ in range(n_b): ops.append("G:%d:%d:%d" % (i, lit(rng), w32(rng)))
    else:
        pos_w = rng.random() < 0.5
        if rng.random() < 0.6: head(); bt = body(pos_w)
        else: bt = body(pos_w); head()
        r = rng.random()
        if bt == 1 and r < 0.25: ops.append("b:%d:%d" % (i, w32(rng)))
        elif bt == 1 and r < 0.55 and pos_w: ops.append("W:%d:%d:%d" % (i, rng.choice([0, 2, 2]), rng.randint(0, 1)))
        elif r < 0.65: ops.append(rng.choice(["ch:%d", "cb:%d"]) % i); 
    if rng.random() < 0.85: ops.append("E:%d" % i)
    if rng.random() < 0.15: ops.append(rng.choice(["c:%d", "ch:%d", "cb:%d"]) % i)

def gen_history(rng, violate):
    ops = []
    for _ in range(rng.randint(1, 6)):
        i = rng.randint(0, 2)
        gen_rule(rng, i, ops)
        r = rng.random()
        if r < 0.35:
            j = rng.randint(0, 2)
            ops.append("%s:%d:%d" % (rng.choice(["cp", "as", "sw"]), i, j))
            if rng.random() < 0.5: ops.append("H:%d:%d" % (rng.choice([i, j]), atom(rng)))   # often a violation (frozen)
    if violate:
        for _ in range(rng.randint(1, 3)):
            pos = rng.randint(0, len(ops))
            i = rng.randint(0, 2)
            ops.insert(pos, rng.choice(["H:%d:5", "G:%d:3:1", "b:%d:4", "S:%d:1", "M:%d:1", "U:%d:2", "W:%d:2:1"]) % i)
    return ops

def corpus(ctx):
    return [{"ops": "U:0:2147483647 G:0:1:2 G:0:2:2 W:0:2:1 E:0".split()},                     # D9: overflow in weaken
            {"ops": "S:0:1 H:0:5 H:0:6 U:0:3 G:0:-2:2 G:0:3:0 G:0:4:1 W:0:2:1 E:0 cp:0:1 S:1:0 H:1:3".split()},
            {"ops": ("B:0 " + " ".join("G:0:%d:1" % k for k in range(1, 60)) + " S:0:1 " + " ".join("H:0:%d" % k for k in range(1, 30)) + " E:0 sw:0:2 ch:2 E:2").split()}]

def generate(ctx):
    n = {"quick": 4000, "thorough": 120000}[ctx.tier]
    return [{"ops": gen_history(ctx.rng, ctx.rng.random() < 0.2)} for _ in range(n)]

def evaluate(ctx, cases):
    lines = ["rb " + " ".join(c["ops"]) for c in cases]
    impl = ctx.impl(lines)
    model = ctx.model(lines)
    spec = ctx.model(["rs " + " ".join(c["ops"]) for c in cases])
    for c, i, m, s in zip(cases, impl, model, spec):
        ctx.count()
        ctx.sample({"case": " ".join(c["ops"])[:400], "impl": (i if isinstance(i, str) else "CRASH")[:300]}, 4)
        for o in c["ops"]: ctx.dist["op:" + o.split(":")[0]] += 1
        ctx.dist["len<=10" if len(c["ops"]) <= 10 else "len<=100" if len(c["ops"]) <= 100 else "len>100"] += 1
        st0 = s.split(" ")
        if not isinstance(i, str) and "A" in st0 and "VIOL" in m:
            ctx.dist["UB on a protocol-violating history (model: VIOL, code: sanitizer abort)"] += 1; continue
        if not isinstance(i, str):
            ctx.fail("C11:crash", "sanitizer abort / crash of RuleBuilder on this history", c, {"stderr": i[2][-2500:]}); continue
        it, st = i.split(" "), s.split(" ")
        conforming = "A" not in st and "bad-op" not in st
        ctx.dist["conforming" if conforming else "violating"] += 1
        if conforming and len(c["ops"]) >= 6 and any(o.startswith("E:") for o in c["ops"]): ctx.nontrivial(" ".join(c["ops"]))
        # oracle: up to the first op the spec refuses (a history outside the documented protocol from there on), the accessors must agree
        # with what end() passes on, and the implementation must show the spec's rule
        k = st.index("A") if "A" in st else len(st)
        if any("MISMATCH" in t for t in it[:k]):
            ctx.fail("C11:end-differs-from-rule", "end(out) passed on a rule different from rule(), or the accessors disagree", c, {"impl": i[:2000]})
        if it[:k] != st[:k]:
            j = next(x for x in range(min(k, len(it)) + 1) if x >= len(it) or x >= k or it[x] != st[x])
            ctx.fail("C11:rule-differs", "the builder reports a rule different from the one described (op #%d)" % j, c,
                     {"op": c["ops"][j] if j < len(c["ops"]) else None, "impl": it[j] if j < len(it) else None, "spec": st[j] if j < len(st) else None})
        ctx.compared += 1
        mt = m.split(" ")
        for j in range(max(len(it), len(mt))):
            a_, b_ = (it[j] if j < len(it) else None), (mt[j] if j < len(mt) else None)
            if j >= k and (b_ == "VIOL" or (a_ and "MISMATCH" in a_)): break     # inconsistent state reached outside the protocol
            if a_ != b_:
                ctx.disagree("RuleBuilder:rule-after-each-op", c, "op#%d %s" % (j, a_), "op#%d %s" % (j, b_)); break

def shrink_candidates(c):
    ops = c["ops"]
    n = len(ops)
    step = max(1, n // 8)
    while step >= 1:
        for i in range(0, n, step):
            yield {"ops": ops[:i] + ops[i + step:]}
        if step == 1: break
        step //= 2
