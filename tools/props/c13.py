"""C13 — command-line, command-string and config-file parsing return the intended values.

op <a|s|c> <allowUnreg> <allowFlagValue> <posName|~> <o:…>* <T:hex>* | S:<hex> | F:<hex>
impl   : real parseCommandLine (argc/argv rewriting checked) / parseCommandString / parseCfgFile on a real OptionContext
model  : Model/Options.lean
oracle : the generator draws an INTENDED list of occurrences (option, value), positional tokens, unknown tokens and an optional
         '--' tail, writes it in a random mixture of the valid spellings and expects exactly the intended pairs in order, the
         unknown tokens and the tail in the remaining arguments; the same tokens quoted into one command string and (for
         name=value pairs) a config file must give the same pairs."""
ID = "C13"
MODULE = "PotasscoVerif.Props.C13"
THEOREMS = ["PotasscoVerif.C13.C13_cmdstring", "PotasscoVerif.C13.C13_cmdstring_parse", "PotasscoVerif.C13.C13_terminator", "PotasscoVerif.C13.C13_long_eq",
            "PotasscoVerif.C13.C13_long_sep", "PotasscoVerif.C13.C13_long_implicit", "PotasscoVerif.C13.C13_short_attached", "PotasscoVerif.C13.C13_short_sep",
            "PotasscoVerif.C13.C13_flag_group", "PotasscoVerif.C13.C13_long_neg", "PotasscoVerif.C13.C13_long_unknown", "PotasscoVerif.C13.handleShort_group_then",
            "PotasscoVerif.C13.C13_argv", "PotasscoVerif.C13.C13_argv_loop", "PotasscoVerif.C13.C13_cfg",
            "PotasscoVerif.C13.C13_remaining_sublist", "PotasscoVerif.C13.C13_cmdline", "PotasscoVerif.C13.C13_cmdline_in_place",
            "PotasscoVerif.C13.C13_cmdstring_mixed", "PotasscoVerif.C13.C13_cmdstring_mixed_parse"]
EXTRA_MODULES = ["PotasscoVerif.Props.C13b", "PotasscoVerif.Props.C13c", "PotasscoVerif.Props.C13d", "PotasscoVerif.Props.C13e"]
PARTIAL = {}
BSIZES = (4096,)
RULE = ("contexts of 2..8 options (required-argument / implicit-value / flag kinds, optional one-character alias, negatable flags, names sharing prefixes); intended lists of 0..8 "
        "occurrences spelled as --name=value, --name value, unique prefix, -a value, -avalue, grouped flags (also ending in an alias that takes a value: -hvL3, -hvL 3), --no-name, implicit forms, positional and unknown tokens, '--' tail; "
        "values incl. empty, blanks, quotes, backslashes, '=' and leading '-'; plus a stream of arbitrary token lists (errors expected) for the correspondence; "
        "distinct = distinct cases; non-trivial = at least 3 occurrences")
TRUSTED = ["std::isspace in the C locale (blank, \\t..\\r)"]
ASSUMPTIONS = ["option names are made of letters and '-', do not start with 'no-'; values contain no NUL"]
TECHNIQUE = "Lean 4 theorems on the parser model (whole argument lists in mixed spellings parse to the intended pairs; tokenizer inverse of quoting; terminator) + differential correspondence with the real parsers + intended-list oracle"
LEVEL_TEXT = ("C13_cmdstring(_parse): for EVERY token list (any bytes but NUL: blanks, quotes, backslashes, empty tokens) tokenizing the quoted command string gives back the tokens, so "
              "string parsing equals argv parsing; C13_cmdstring_mixed(_parse) (Props/C13e.lean): the same when every token is written quoted OR, if it is plain (no NUL, blank, quote; no two backslashes in a row; not starting with white space), as it is — "
              "backslashes elsewhere are literal, also at the very end of the string; C13_terminator: after '--' everything is left in order; spelling lemmas: --name=value, --name value, --name (implicit), --no-name, -avalue, "
              "-a value and grouped flags each add exactly the intended (option, value) pair and consume exactly their tokens, given that the key resolves to the option (C14). "
              "C13_argv (Props/C13b.lean): the inductive relation `Sp` generates every way of writing a list of intended pairs, positional tokens, unknown short and long options and a '--' tail in any mixture of the spellings "
              "--name=value, --name value, unique prefix, --name (flag/implicit), --no-name (negatable), -avalue, -a value, grouped flags, grouped flags ending in a value option (-abcV, -abc V); "
              "for EVERY such token list of any length the parser returns exactly the intended pairs in order and leaves exactly the intended tokens in order. "
              "C13_cfg (Props/C13c.lean): a config file of `name = value` lines (any blanks around name, '=' and value; full name or unique prefix; empty values; values containing '='), continuation lines, '#' comment "
              "lines and blank lines yields exactly the intended pairs in order. "
              "C13_remaining_sublist / C13_cmdline / C13_cmdline_in_place (Props/C13d.lean): for EVERY token list what is left over is a sub-list of the tokens given (same order, nothing invented); the entry point "
              "parseCommandLine(argc, argv) — modelled on the cell vector name, tokens, null pointer, cells behind — for every caller count from 1 to the real one parses exactly the tokens and rewrites the vector to name, "
              "remaining tokens, null pointer inside the cells that held tokens before (length unchanged, cells behind the old null pointer untouched) with argc = 1 + their number; "
              "the harness prints the whole rewritten vector of the real call and compares it with the model and with an independently computed vector.")
LEVEL_NOTE = ("Proof + correspondence (~6k quick / 150k thorough cases, each run as argv and as quoted command string, plus config files). Trusted: Lean kernel+axioms, "
              "std::isspace C locale, harness, generator/oracle in props/c13.py.")

def hexs(b): return "-" if not b else "".join("%02x" % c for c in b)
NAMES = [b"verbose", b"verb", b"version", b"help", b"file", b"filter", b"stats", b"time-limit", b"t", b"opt", b"out", b"x", b"number"]
VALUES = [b"", b"1", b"-1", b"a b", b"x=y", b"--weird", b"-", b"\"q\"", b"it's", b"back\\slash", b"C:\\tmp\\", b"dir\\", b"tab\tsep", b"\\", b"a\\\"b", b"42", b"\xc3\xa4", b"=", b"no"]

def gen_ctx(rng):
    names = rng.sample(NAMES, rng.randint(2, 8))
    opts, aliases = [], set()
    for n in names:
        kind = rng.choice(["req", "req", "impl", "flag", "flag"])
        al = 0
        if rng.random() < 0.6:
            al = rng.choice(b"abcdfhostvx")
            if al in aliases: al = 0
            aliases.add(al)
        opts.append({"name": n, "alias": al, "kind": kind, "neg": kind == "flag" and rng.random() < 0.5})
    if rng.random() < 0.5: opts.append({"name": b"pos", "alias": 0, "kind": "req", "neg": False})
    return opts

def opt_tok(o):
    props = {"req": "", "impl": "i", "flag": "f"}[o["kind"]] + ("n" if o["neg"] else "")
    return "o:%s:%d:%s" % (hexs(o["name"]), o["alias"], props)

def unique_prefixes(opts, o):
    res = []
    for L in range(1, len(o["name"]) + 1):
        p = o["name"][:L]
        exact = [x for x in opts if x["name"] == p]
        if exact:
            if exact[0] is o: res.append(p)
            continue
        if sum(1 for x in opts if x["name"].startswith(p)) == 1: res.append(p)
    return res

def spell(rng, opts, k, v, allow_flag_value):
    """returns a list of tokens spelling occurrence (k, v), or None if v cannot be given to that option."""
    o = opts[k]
    nm = rng.choice(unique_prefixes(opts, o)) if rng.random() < 0.3 else o["name"]
    if nm.startswith(b"no-") or b"=" in nm: nm = o["name"]
    ch = []
    if o["kind"] == "req":
        ch.append([b"--" + nm, v])
        if v != b"": ch.append([b"--" + nm + b"=" + v])
        if o["alias"]:
            ch.append([b"-" + bytes([o["alias"]]), v])
            if v != b"": ch.append([b"-" + bytes([o["alias"]]) + v])
    elif o["kind"] == "impl":
        if v == b"":
            ch.append([b"--" + nm])
            if o["alias"]: ch.append([b"-" + bytes([o["alias"]])])
        else:
            ch.append([b"--" + nm + b"=" + v])
            if o["alias"]: ch.append([b"-" + bytes([o["alias"]]) + v])
    else:
        if v == b"":
            ch.append([b"--" + nm])
            if o["alias"]: ch.append([b"-" + bytes([o["alias"]])])
        elif v == b"no" and o["neg"]:
            ch.append([b"--no-" + o["name"]])
            if allow_flag_value: ch.append([b"--" + nm + b"=no"])
        elif allow_flag_value: ch.append([b"--" + nm + b"=" + v])
    return rng.choice(ch) if ch else None

def quote(tok, salt=1):
    if tok and not any(c in b" \t\n\r\x0b\x0c\"'\\" for c in tok): return tok
    # a backslash is an escape only in front of a quote or another backslash: a token with backslashes elsewhere (also at its very end,
    # also at the very end of the command string) may be written as it is
    if tok and salt % 2 == 0 and not any(c in b" \t\n\r\x0b\x0c\"'" for c in tok) and b"\\\\" not in tok: return tok
    return b'"' + tok.replace(b"\\", b"\\\\").replace(b'"', b'\\"') + b'"'

def gen_intended(rng):
    opts = gen_ctx(rng)
    allowU = rng.random() < 0.5; allowF = rng.random() < 0.5
    has_pos = any(o["name"] == b"pos" for o in opts)
    toks, pairs, rem = [], [], []
    for _ in range(rng.randint(0, 8)):
        r = rng.random()
        if r < 0.75:
            k = rng.randrange(len(opts)); o = opts[k]
            v = rng.choice(VALUES) if o["kind"] != "flag" else rng.choice([b"", b"", b"no", b"1"])
            # group several flags: -ab
            if o["kind"] == "flag" and v == b"" and o["alias"] and rng.random() < 0.3:
                fl = [j for j, x in enumerate(opts) if x["kind"] == "flag" and x["alias"]]
                grp = [k] + [rng.choice(fl) for _ in range(rng.randint(0, 2))]
                toks.append(b"-" + bytes(opts[j]["alias"] for j in grp)); pairs += [(j, b"") for j in grp]; continue
            # a group of short flags may END in an alias that takes a value: -hvL3 / -hvL 3 / -hO7
            if o["kind"] in ("req", "impl") and o["alias"] and rng.random() < 0.25:
                fl = [j for j, x in enumerate(opts) if x["kind"] == "flag" and x["alias"]]
                if fl and not (o["kind"] == "impl" and v == b"") or (fl and o["kind"] == "impl"):
                    grp = [rng.choice(fl) for _ in range(rng.randint(1, 2))]
                    head = b"-" + bytes(opts[j]["alias"] for j in grp) + bytes([o["alias"]])
                    if o["kind"] == "req" and (v == b"" or rng.random() < 0.5): toks += [head, v]
                    else: toks.append(head + v)
                    pairs += [(j, b"") for j in grp] + [(k, v)]
                    continue
            sp = spell(rng, opts, k, v, allowF)
            if sp is None: continue
            toks += sp; pairs.append((k, v))
        elif r < 0.85 and has_pos:
            t = rng.choice([b"input.lp", b"-", b"a b", b"x"]); toks.append(t); pairs.append((len(opts) - 1, t))
        elif r < 0.95 and allowU:
            t = rng.choice([b"--unknown-option", b"--unk=5", b"-Z", b"-Zfoo"] + ([] if has_pos else [b"stray", b"-"]))
            toks.append(t); rem.append(t)
    if rng.random() < 0.25:
        tail = [rng.choice([b"--help", b"-x", b"file", b"--", b"a b"]) for _ in range(rng.randint(0, 3))]
        toks.append(b"--"); toks += tail; rem += tail
    return {"kind": "intended", "opts": opts, "allowU": allowU, "allowF": allowF, "pos": has_pos, "toks": toks, "pairs": pairs, "rem": rem}

def gen_raw(rng):
    opts = gen_ctx(rng)
    pool = [b"--", b"-", b"--no-", b"--=", b"--=x", b"-ab", b"--no-help", b"value", b"", b"--verb", b"--v", b"--ver", b"-vv", b"--file", b"-t", b"--t=", b"--stats=yes", b"--no-stats", b"--no-stats=1"]
    for o in opts: pool += [b"--" + o["name"], b"--" + o["name"][:2], b"--" + o["name"] + b"=", b"--" + o["name"] + b"=v", b"--no-" + o["name"]] + ([b"-" + bytes([o["alias"]]), b"-" + bytes([o["alias"]]) + b"q"] if o["alias"] else [])
    toks = [rng.choice(pool) for _ in range(rng.randint(0, 7))]
    return {"kind": "raw", "opts": opts, "allowU": rng.random() < 0.5, "allowF": rng.random() < 0.5, "pos": any(o["name"] == b"pos" for o in opts) and rng.random() < 0.7, "toks": toks}

def gen_cfg(rng):
    opts = [o for o in gen_ctx(rng)]
    lines, pairs = [], []
    for _ in range(rng.randint(0, 6)):
        r = rng.random()
        if r < 0.2: lines.append(rng.choice([b"", b"# comment", b"   ", b"\t# c = 1"])); continue
        k = rng.randrange(len(opts)); o = opts[k]
        v = rng.choice([b"1", b"a b", b"x=y", b"42", b"-1", b"foo", b"\"q\"", b"", b""])      # also empty values (`flag =`), after lines with a value
        nm = rng.choice(unique_prefixes(opts, o)) if rng.random() < 0.3 else o["name"]
        if b"=" in nm: nm = o["name"]
        sp = rng.choice([b" = ", b"=", b"  =\t"])
        if rng.random() < 0.25 and b" " in v:
            a, b = v.split(b" ", 1); lines.append(rng.choice([b"", b"  "]) + nm + sp + a); lines.append(b"   " + b)
        else: lines.append(rng.choice([b"", b"  "]) + nm + sp + v + rng.choice([b"", b"  "]))
        pairs.append((k, v))
        if rng.random() < 0.3: lines.append(b"")
    return {"kind": "cfg", "opts": opts, "allowU": False, "allowF": False, "pos": False, "text": b"\n".join(lines) + rng.choice([b"", b"\n"]), "pairs": pairs}

def corpus(ctx): return []

def generate(ctx):
    n = {"quick": 6000, "thorough": 150000}[ctx.tier]
    out = []
    for _ in range(n):
        r = ctx.rng.random()
        c = gen_intended(ctx.rng) if r < 0.6 else gen_raw(ctx.rng) if r < 0.85 else gen_cfg(ctx.rng)
        if c["kind"] != "cfg":
            if ctx.rng.random() < 0.4: c["argc0"] = ctx.rng.randint(1, len(c["toks"]) + 1)
            if ctx.rng.random() < 0.4: c["junk"] = [ctx.rng.choice([b"", b"--num=1", b"zz", b"--"]) for _ in range(ctx.rng.randint(1, 2))]
        out.append(c)
    return out

def head(c, mode): return "op %s %d %d %s %s" % (mode, c["allowU"], c["allowF"], hexs(b"pos") if c["pos"] else "~", " ".join(opt_tok(o) for o in c["opts"]))
def fmt_pairs(ps): return "-" if not ps else ";".join("%d=%s" % (k, hexs(v)) for k, v in ps)

def evaluate(ctx, cases):
    lines, meta = [], []
    for ci, c in enumerate(cases):
        if c["kind"] == "cfg":
            lines.append(head(c, "c") + " F:" + hexs(c["text"])); meta.append((ci, "c"))
        else:
            # the argc/argv entry point: the caller's argc anywhere in 1..count (the code advances it to the null pointer), cells behind it
            extra = (" N:%d" % c["argc0"] if c.get("argc0") else "") + "".join(" J:" + hexs(j) for j in c.get("junk", []))
            lines.append(head(c, "a") + "".join(" T:" + hexs(t) for t in c["toks"]) + extra); meta.append((ci, "a"))
            cmd = b" ".join(quote(t, ci + k) for k, t in enumerate(c["toks"]))
            lines.append(head(c, "s") + " S:" + hexs(cmd)); meta.append((ci, "s"))
    impl = ctx.impl(lines); model = ctx.model(lines)
    for (ci, mode), l, i, m in zip(meta, lines, impl, model):
        c = cases[ci]
        if mode != "s": ctx.count()
        ctx.dist["%s/%s" % (c["kind"], mode)] += 1
        def js(c):
            return {k: (v.hex() if isinstance(v, bytes) else [t.hex() if isinstance(t, bytes) else t for t in v] if k in ("toks", "rem") else None if k in ("opts", "pairs") else v) for k, v in c.items()} | {"line": l}
        ctx.sample({"line": l[:220], "impl": (i if isinstance(i, str) else "CRASH")[:120]}, 4)
        if not isinstance(i, str):
            ctx.fail("C13:crash", "crash / sanitizer abort in an option parser", {"line": l}, {"stderr": i[2][-1500:]}); continue
        if c["kind"] in ("intended", "cfg"):
            if len(c["pairs"]) >= 3: ctx.nontrivial(l)
            want_pairs = fmt_pairs(c["pairs"])
            want = want_pairs + "|R:" + (",".join(hexs(t) for t in c.get("rem", [])) if mode == "a" else "")
            if mode == "a":
                # independent oracle for the rewritten vector: name, remaining tokens, null pointer, then the old cells untouched
                orig = [hexs(b"prog")] + [hexs(t) for t in c["toks"]] + ["~"] + [hexs(j) for j in c.get("junk", [])]
                rem = [hexs(t) for t in c.get("rem", [])]
                want += "|V:" + ",".join([orig[0]] + rem + ["~"] + orig[len(rem) + 2:])
            if i != want:
                sig = "C13:argv-rewrite" if i.split("|")[0] == want_pairs and mode == "a" else "C13:pairs-%s" % {"a": "argv", "s": "cmdstring", "c": "cfgfile"}[mode]
                ctx.fail(sig, "parsing (%s) does not return the intended (option, value) list / remaining arguments" % mode, {"line": l}, {"got": i[:600], "want": want[:600]})
        ctx.compared += 1
        if i != m: ctx.disagree("OptionParser:%s" % mode, {"line": l}, i[:600], m[:600])

def shrink_candidates(c):
    return []
