"""C01 — aspif writer and reader are inverses.

aw <call>*     : impl = real AspifOutput, model = Model/AspifOut.lean            (bytes written)
ar <C|I> <hex> : impl = real AspifInput (readProgram / step-by-step), model = Model/AspifIn.lean (call log)
oracle         : record(read(write(p))) == p with weight-0 literals dropped, in both read modes and for
                 BUF_SIZE in {16, 17, 4096}; and read(write(read(t))) == read(t).
"""
from props import progs

ID = "C01"
MODULE = "PotasscoVerif.Props.C01"
EXTRA_MODULES = ["PotasscoVerif.Props.C09", "PotasscoVerif.Props.C01m"]
THEOREMS = ["PotasscoVerif.C01m.C01_modes", "PotasscoVerif.C01.C01_write_read", "PotasscoVerif.C01.C01_read_write_read",
            "PotasscoVerif.C01.C01_number_roundtrip", "PotasscoVerif.C01.C01_blanks_skipped", "PotasscoVerif.C01.C01_pos_roundtrip",
            "PotasscoVerif.AspifRT.directive_rt", "PotasscoVerif.AspifRT.stepLoop_rt", "PotasscoVerif.AspifRT.stepsLoop_rt", "PotasscoVerif.AspifRT.header_rt",
            "PotasscoVerif.AspifRT.string_enc", "PotasscoVerif.AspifRT.counted_enc",
            "PotasscoVerif.Decimal.val_printNat", "PotasscoVerif.Decimal.digitRun_append", "PotasscoVerif.C09.C09_transparent"]
PARTIAL = {"buffering": "C01_write_read and C01_modes are about the reader model on the abstract character stream; that the buffered stream shows exactly that "
           "stream is C09_transparent (cited, not composed: the reader model is not written over the buffer model)"}
BSIZES = (16, 17, 4096)
RULE = ("seeded valid programs (every directive kind, 1-3 steps, 0-25 directives per step, values from {extremes, 0, +-1, random} of each field's range, "
        "strings of 0..5000 bytes without NUL incl. blanks/newlines/high bytes, empty lists); distinct = distinct call sequences; non-trivial = at least 3 directives")
TRUSTED = ["operator<< of std::ostream prints integers in decimal (modelled by printNat/printInt)"]
ASSUMPTIONS = ["arguments within the documented ranges of the program interface"]
TECHNIQUE = "Lean 4 round-trip theorem read(write(p)) = norm(p) for every well-formed program (induction over fields, lists, directives, steps) over writer/reader models + differential correspondence of both models with the real AspifOutput/AspifInput"
LEVEL_TEXT = ("C01_write_read: for EVERY program — any directives of every kind, any number of steps (several only if incremental), arguments anywhere in the documented ranges, "
              "lists/strings of any length below 2^32, strings of any bytes but NUL — the reader model run on what the writer model produces delivers exactly the same calls, without "
              "literals of weight 0, and reports no error; C01_read_write_read: the second formulation (write what was read, read again: identical). Proved by composition: number round "
              "trip (C01_number_roundtrip) → fields → counted lists and length-prefixed strings → every directive kind (directive_rt) → directive loop (stepLoop_rt) → step loop "
              "(stepsLoop_rt) → header (header_rt). C01_modes: for EVERY input text, reading step by step (accept, then parse(Incremental) while more()) gives exactly the "
              "calls and result of reading in one go — the two loops of the model are those of the code, each compared with its own mode of the real reader. "
              "Buffer independence is C09_transparent. Per run: (a) writer model == real AspifOutput bytes, (b) one-go reader model == readProgram and step-by-step reader model == "
              "the real reader driven step by step, (c) the round-trip oracle on the implementation for BUF_SIZE 16/17/4096.")
LEVEL_NOTE = ("Full proof on the models + correspondence. Models hand-written; model==code checked on ~1.2k (quick) / 40k (thorough) generated programs with every "
              "directive kind, extreme values, multi-step, strings up to 5000 bytes. Trusted: Lean kernel+standard axioms, operator<< decimal printing, harness, generator.")

def corpus(ctx):
    return [{"calls": "I0 B TN,3000000000,5 TG,0,4294967295,-,4294967295,2147483648 E".split()},     # D3: ids >= 2^31
            {"calls": ["I1", "B", "O," + progs.hexs(b"a b\nc" * 1000) + ",1/-2", "E", "B", "E"]}]

def generate(ctx):
    n = {"quick": 1200, "thorough": 40000}[ctx.tier]
    return [{"calls": progs.program(ctx.rng, big=(ctx.rng.random() < 0.1))} for _ in range(n)]

def evaluate(ctx, cases):
    wl = ["aw " + " ".join(c["calls"]) for c in cases]
    wi = ctx.impl(wl, 4096)
    wm = ctx.model(wl)
    texts = []
    for c, i, m in zip(cases, wi, wm):
        ctx.count()
        nd = sum(1 for w in c["calls"] if w[0] not in "IBE" or w.startswith("E,"))
        if nd >= 3: ctx.nontrivial(" ".join(c["calls"]))
        for w in c["calls"]: ctx.dist["dir:" + w.split(",")[0][:2]] += 1
        ctx.sample({"calls": " ".join(c["calls"])[:300]}, 3)
        if not isinstance(i, str) or i.startswith("EXC"):
            ctx.fail("C01:writer-crash", "AspifOutput crashed/threw on a valid program", c, {"impl": str(i)[-1500:]}); texts.append(None); continue
        ctx.compared += 1
        if i != m: ctx.disagree("AspifOutput:bytes", c, bytes.fromhex(i)[:300] if i != "-" else b"", m[:600])
        texts.append(i)
        L = len(i) // 2
        ctx.dist["text>4096" if L > 4096 else "text<=4096"] += 1
    idx = [k for k, t in enumerate(texts) if t is not None]
    for B in BSIZES:
        for mode in ("C", "I"):
            rl = ["ar %s %s" % (mode, texts[k]) for k in idx]
            ri = ctx.impl(rl, B)
            rm = ctx.model(rl) if (B == 4096) else None
            for j, k in enumerate(idx):
                c = cases[k]
                want = " ".join(progs.normalise(c["calls"])) + " OK"
                got = ri[j]
                if not isinstance(got, str):
                    ctx.fail("C01:reader-crash", "AspifInput crashed on text written by AspifOutput", dict(c, B=B, mode=mode), {"stderr": got[2][-1500:]}); continue
                if got != want:
                    ctx.fail("C01:roundtrip", "reading back what AspifOutput wrote does not reproduce the calls (mode %s, BUF_SIZE %d)" % (mode, B),
                             dict(c, B=B, mode=mode), {"got": got[:1500], "want": want[:1500]})
                if rm is not None:
                    ctx.compared += 1
                    if got != rm[j]: ctx.disagree("AspifInput:calls", dict(c, mode=mode), got[:800], rm[j][:800])

def shrink_candidates(c):
    cs = c["calls"]
    for i in range(len(cs)):
        if cs[i][0] in "IBE" and "," not in cs[i]: continue
        yield dict(c, calls=cs[:i] + cs[i + 1:])
