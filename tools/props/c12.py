"""C12 — theory store returns what was stored, tracks steps, and replays faithfully.

td <W> <op>* : ops tn/ts/tf/tt (add number/symbol/function/tuple term), rm, el (element), at/ag (atom, with guard), sc (setCondition),
               fl:<m> (filter atoms whose atom id is divisible by m), up (update = step mark), rs (reset)
impl   : real Potassco::TheoryData; after every op a dump of every lookup for ids < W, at the end the visit orders of a recursive
         visitor in both modes and print() re-emission; ASan/LSan for leaks and freed-memory access
model  : Model/TheoryData.lean
oracle : a plain Python table of the operations written from the property (dicts for terms/elements, a list of atoms, step marks)."""
ID = "C12"
MODULE = "PotasscoVerif.Props.C12"
THEOREMS = ["PotasscoVerif.C12.C12_heap", "PotasscoVerif.C12.C12_redefinition", "PotasscoVerif.C12.C12_new_iff", "PotasscoVerif.C12.C12_term_add",
            "PotasscoVerif.C12.C12_term_remove", "PotasscoVerif.C12.step_acc",
            "PotasscoVerif.C12.C12_elem_add", "PotasscoVerif.C12.C12_elem_redefinition", "PotasscoVerif.C12.C12_elem_new_iff", "PotasscoVerif.C12.C12_set_condition",
            "PotasscoVerif.C12.C12_set_condition_refused", "PotasscoVerif.C12.C12_atom_add", "PotasscoVerif.C12.C12_filter", "PotasscoVerif.C12.C12_update",
            "PotasscoVerif.C12.C12_tables_independent", "PotasscoVerif.C12.C12_visit_sound",
            "PotasscoVerif.C12.C12_visit_complete", "PotasscoVerif.C12.C12_visit_only_referenced",
            "PotasscoVerif.C12.C12_print_term", "PotasscoVerif.C12.C12_print_atom", "PotasscoVerif.C12.C12_print_replays"]
EXTRA_MODULES = ["PotasscoVerif.Props.C12p"]
PARTIAL = {"real memory": "C12_heap is about the model's block account; freed-memory access and leaks of the real class are observed by ASan/LSan on the generated histories"}
BSIZES = (4096,)
RULE = ("seeded histories of 5..40 operations over sparse and dense ids 0..8: number/symbol/function/tuple terms (arguments referring to smaller ids, so terms are acyclic), "
        "elements with fixed or deferred conditions, atoms with and without guard (also dangling references), removals, redefinitions in the same and in a later step, "
        "filters, step marks and resets; distinct = distinct histories; non-trivial = at least one step mark and one atom")
TRUSTED = ["operator new/delete: every allocated block is a fresh block; LSan reports blocks that are still allocated when the store is gone"]
ASSUMPTIONS = ["term arguments refer to smaller ids (acyclic terms); ids < 2^32"]
TECHNIQUE = "Lean 4 invariant proof (heap accounting: live blocks = blocks reachable from the tables, for all histories) + lookup frame lemmas + differential correspondence under ASan/LSan + table oracle"
LEVEL_TEXT = ("For ALL histories: C12_heap (live blocks == blocks reachable from the tables; nothing after reset); the term table AND the element table behave like plain tables "
              "(C12_term_add/_remove, C12_elem_add, C12_set_condition(_refused)), redefinition is refused exactly for ids that are new (C12_redefinition, C12_elem_redefinition), "
              "'new' means in use and not below the last step mark (C12_new_iff, C12_elem_new_iff, C12_update), atoms keep their order, filter removes exactly the matching atoms of "
              "the current step (C12_atom_add, C12_filter), the three tables are independent (C12_tables_independent). Visiting, for EVERY store and both modes: whatever a fully "
              "recursive visitor is shown is stored and, in current mode, new (C12_visit_sound); a visit that ends normally has shown every atom of its range and, with every item, "
              "everything that item refers to (C12_visit_complete); and nothing that is not referred to by an item shown (C12_visit_only_referenced) — the items shown are exactly "
              "the stored items reachable from the atoms (the ORDER in which they are shown is not asked for by the property; it is compared model == code). "
              "print() (Model/TheoryPrint.lean, Props/C12p.lean): the call made for a term right after it was defined is the defining call, the same for atoms (C12_print_term/_atom), and for EVERY store d a fresh "
              "store that receives everything print() emits for d refuses nothing and then answers every term lookup and lists the atoms exactly as d does (C12_print_replays). Tied to the code by running histories through the real TheoryData under ASan/LSan and comparing every lookup after every "
              "op, both visit sequences and the calls print() makes; a Python table + reachability oracle written from the statement is the oracle.")
LEVEL_NOTE = ("Proved about Model/TheoryData.lean (allocation modelled as a counter; operator new/delete trusted); model==code on ~4k (quick) / 100k (thorough) histories. "
              "Real freed-memory access/leaks are observed only by ASan/LSan on those runs. Trusted: Lean kernel+axioms, harness, generator, reference() table.")

def hexs(b): return "-" if not b else "".join("%02x" % c for c in b)
def lst(x): return "-" if not x else "/".join(map(str, x))
DEF = 4294967295

def gen(rng):
    ops = []
    N = rng.choice([3, 5, 8, 3, 5, 8, 20, 70])       # also tables that grow several times (ids up to 70)
    for _ in range(rng.randint(5, 40)):
        k = rng.random()
        i = rng.randint(0, N)
        args = [rng.randint(0, max(i - 1, 0)) for _ in range(rng.choice([0, 1, 2, 3, 3, 7]))] if i > 0 else []
        if k < 0.12: ops.append("tn:%d:%d" % (i, rng.choice([0, -1, 5, 2**31 - 1, -2**31, rng.randint(-100, 100)])))
        elif k < 0.22: ops.append("ts:%d:%s" % (i, hexs(bytes(rng.choice(b"abc+-*x \xc3\xa4") for _ in range(rng.choice([0, 1, 3, 9, 40]))))))
        elif k < 0.32:
            if i == 0: continue          # a function term refers to a smaller id as its symbol (terms are acyclic)
            ops.append("tf:%d:%d:%s" % (i, rng.randint(0, i - 1), lst(args)))
        elif k < 0.38: ops.append("tt:%d:%d:%s" % (i, rng.choice([-1, -2, -3]), lst(args)))
        elif k < 0.44: ops.append("rm:%d" % i)
        elif k < 0.58: ops.append("el:%d:%s:%d" % (i, lst([rng.randint(0, N) for _ in range(rng.choice([0, 1, 2]))]), rng.choice([0, DEF, DEF, rng.randint(1, 9)])))
        elif k < 0.70: ops.append("at:%d:%d:%s" % (rng.choice([0, rng.randint(1, 9)]), rng.randint(0, N), lst([rng.randint(0, N) for _ in range(rng.choice([0, 1, 2]))])))
        elif k < 0.76: ops.append("ag:%d:%d:%s:%d:%d" % (rng.choice([0, rng.randint(1, 9)]), rng.randint(0, N), lst([rng.randint(0, N) for _ in range(rng.choice([0, 1]))]), rng.randint(0, N), rng.randint(0, N)))
        elif k < 0.82: ops.append("sc:%d:%d" % (i, rng.randint(0, 9)))
        elif k < 0.88: ops.append("fl:%d" % rng.choice([1, 2, 3]))
        elif k < 0.97: ops.append("up")
        else: ops.append("rs")
    return {"W": N + 2, "ops": ops}

def corpus(ctx):
    return [{"W": 5, "ops": "tn:3:1 tf:3:0:- tt:3:-1:- tn:3:2".split()},       # D7: redefinition with a compound term must not leak
            {"W": 5, "ops": "tn:0:5 ts:1:6162 tf:3:1:0/0 el:0:3/0:4294967295 ag:2:3:0:1:0 up tn:0:7 tn:0:8 sc:0:9 at:0:0:- fl:2".split()}]

def generate(ctx):
    n = {"quick": 4000, "thorough": 100000}[ctx.tier]
    return [gen(ctx.rng) for _ in range(n)]

def expected_visits(c):
    """what a fully recursive visitor must reach (property C12: 'exactly the atoms, elements and terms that are stored and referenced, in current
    mode only those added since the last step mark'): per mode the multiset of visited items (one visit per reference), or 'EXC' when a
    reference that has to be followed names an absent item.  Written from the statement: table replay + reachability, no traversal order."""
    terms, elems, atoms = {}, {}, []          # id -> list of referenced term ids ; id -> list of term ids ; (term, [elems], guard|None, rhs|None)
    nT = nE = 0; mT = mE = mA = 0
    DEFC = ":%d" % DEF
    cond = {}
    for o in c["ops"]:
        f = o.split(":")
        ids = lambda x: [] if x == "-" else [int(t) for t in x.split("/")]
        if f[0] in ("tn", "ts", "tf", "tt"):
            i = int(f[1])
            if i in terms and i >= mT: continue
            terms[i] = [] if f[0] in ("tn", "ts") else (ids(f[3]) + ([int(f[2])] if f[0] == "tf" else []))
            nT = max(nT, i + 1)
        elif f[0] == "rm": terms.pop(int(f[1]), None)
        elif f[0] == "el":
            i = int(f[1])
            if i in elems and i >= mE: continue
            elems[i] = ids(f[2]); nE = max(nE, i + 1)
        elif f[0] == "at": atoms.append((int(f[1]), int(f[2]), ids(f[3]), None, None))
        elif f[0] == "ag": atoms.append((int(f[1]), int(f[2]), ids(f[3]), int(f[4]), int(f[5])))
        elif f[0] == "fl":
            m = int(f[1]); atoms = atoms[:mA] + [a for a in atoms[mA:] if a[0] == 0 or a[0] % m != 0]
        elif f[0] == "up": mT, mE, mA = nT, nE, len(atoms)
        elif f[0] == "rs": terms, elems, atoms = {}, {}, []; nT = nE = 0; mT = mE = mA = 0
    res = {}
    for mode in ("all", "cur"):
        seen = []
        class Absent(Exception): pass
        def term(i):
            if mode == "cur" and not (i in terms and i >= mT): return
            if i not in terms: raise Absent()
            seen.append("t%d" % i)
            for j in terms[i]: term(j)
        try:
            for k, (a, t, es, g, r) in enumerate(atoms):
                if mode == "cur" and k < mA: continue
                seen.append("a%d" % k)
                term(t)
                for e in es:
                    if mode == "cur" and not (e in elems and e >= mE): continue
                    if e not in elems: raise Absent()
                    seen.append("e%d" % e)
                    for j in elems[e]: term(j)
                if g is not None: term(g); term(r)
            res[mode] = sorted(seen)
        except Absent: res[mode] = "EXC"
        except RecursionError: res[mode] = None
    return res

def reference(c):
    """plain table semantics (property C12); returns the expected dump after every op ('X' = refused)."""
    W = c["W"]
    terms, elems, atoms = {}, {}, []
    nT = nE = 0; mT = mE = mA = 0
    out = []
    def dump():
        T = ",".join((terms[i] if i in terms else "-") + ("*" if i in terms and i >= mT else "") for i in range(W))
        E = ",".join((elems[i] if i in elems else "-") + ("*" if i in elems and i >= mE else "") for i in range(W))
        A = ",".join(atoms)
        live = sum(1 for t in terms.values() if t[0] != "n") + len(elems) + len(atoms)
        return "T[%s]E[%s]A[%s]cb%dL%d" % (T, E, A, mA, live)
    for o in c["ops"]:
        f = o.split(":")
        if f[0] in ("tn", "ts", "tf", "tt"):
            i = int(f[1])
            if i in terms and i >= mT: out.append("X"); continue
            terms[i] = {"tn": lambda: "n" + f[2], "ts": lambda: "s" + f[2], "tf": lambda: "c%s(%s)" % (f[2], f[3]), "tt": lambda: "c%s(%s)" % (f[2], f[3])}[f[0]]()
            nT = max(nT, i + 1)
        elif f[0] == "rm": terms.pop(int(f[1]), None)
        elif f[0] == "el":
            i = int(f[1])
            if i in elems and i >= mE: out.append("X"); continue
            elems[i] = "%s:%s" % (f[2], f[3]); nE = max(nE, i + 1)
        elif f[0] == "at": atoms.append("%s:%s:%s" % (f[1], f[2], f[3]))
        elif f[0] == "ag": atoms.append("%s:%s:%s:%s:%s" % (f[1], f[2], f[3], f[4], f[5]))
        elif f[0] == "sc":
            i = int(f[1])
            if i not in elems or not elems[i].endswith(":%d" % DEF): out.append("X"); continue
            elems[i] = elems[i].rsplit(":", 1)[0] + ":" + f[2]
        elif f[0] == "fl":
            m = int(f[1])
            atoms = atoms[:mA] + [a for a in atoms[mA:] if int(a.split(":")[0]) == 0 or int(a.split(":")[0]) % m != 0]
        elif f[0] == "up": mT, mE, mA = nT, nE, len(atoms)
        elif f[0] == "rs": terms, elems, atoms = {}, {}, []; nT = nE = 0; mT = mE = mA = 0
        out.append(dump())
    return out

def evaluate(ctx, cases):
    lines = ["td %d %s" % (c["W"], " ".join(c["ops"])) for c in cases]
    impl = ctx.impl(lines); model = ctx.model(lines)
    for c, l, i, m in zip(cases, lines, impl, model):
        ctx.count()
        if "up" in c["ops"] and any(o[:2] in ("at", "ag") for o in c["ops"]): ctx.nontrivial(l)
        for o in c["ops"]: ctx.dist["op:" + o.split(":")[0]] += 1
        ctx.sample({"case": l[:160], "impl": (i if isinstance(i, str) else "CRASH")[-120:]}, 3)
        if not isinstance(i, str):
            err = i[2]
            sig = "C12:leak" if "LeakSanitizer" in err or "detected memory leaks" in err else "C12:crash"
            ctx.fail(sig, "memory leak" if sig == "C12:leak" else "crash / use of freed memory (sanitizer abort)", c, {"stderr": err[-1500:]}); continue
        toks = i.split(" ")
        want = reference(c)
        if "PRINT-MISMATCH" in toks[-1]:
            ctx.fail("C12:print", "print() does not re-emit the stored directive", c, {"impl": toks[-1][:300]})
        for j, (g, w) in enumerate(zip(toks[:-1], want)):
            if g != w:
                ctx.fail("C12:lookup", "after op #%d (%s) the store answers differently from a plain table" % (j, c["ops"][j]), c, {"got": g[:500], "want": w[:500]}); break
        import re as _re
        mv = _re.match(r"V\[(.*?)\]C\[(.*?)\]", toks[-1])
        if mv and len(toks) - 1 == len(want):
            ev = expected_visits(c)
            for mode, got in (("all", mv.group(1)), ("cur", mv.group(2))):
                w = ev[mode]
                if w is None: continue
                g = "EXC" if got == "EXC" else sorted([] if got == "-" else got.split(","))
                if g != w:
                    ctx.fail("C12:visit", "visiting (%s mode) does not reach exactly the stored and referenced items" % ("all" if mode == "all" else "current"), c,
                             {"got": got[:400], "want": ("EXC" if w == "EXC" else ",".join(w))[:400]}); break
        ctx.compared += 1
        if i != m: ctx.disagree("TheoryData:lookups+visit", c, i[-700:], m[-700:])

def shrink_candidates(c):
    ops = c["ops"]
    for i in range(len(ops)):
        yield dict(c, ops=ops[:i] + ops[i + 1:])
