"""Independent reference acceptor for aspif 1.0 texts, written from the format description and the text of
property C03 (not from the C++ and not from the Lean model).  Used only as the oracle that produces replays.

accept(text: bytes) -> (True, [call words]) | (False, None)

Leniencies of the reader that C03 explicitly leaves out of the claim and that this acceptor shares:
any revision number; body type 2 read like a sum; any blanks/tabs/CR/LF between tokens (also inside a
directive); '+' sign; comment directive (10 … end of line)."""
I32MAX, I32MIN, U32MAX = 2**31 - 1, -2**31, 2**32 - 1
WS = b" \t\n\r\x0b\x0c"

class Reject(Exception):
    pass

class Tok:
    def __init__(self, t): self.t, self.i = t, 0
    def ws(self):
        while self.i < len(self.t) and (9 <= self.t[self.i] < 33): self.i += 1
    def eof(self):
        self.ws(); return self.i >= len(self.t) or self.t[self.i] == 0
    def integer(self):
        self.ws()
        j = self.i; sign = 1
        if j < len(self.t) and self.t[j] in b"+-":
            sign = -1 if self.t[j] == 0x2d else 1; j += 1
        k = j
        while k < len(self.t) and 48 <= self.t[k] <= 57: k += 1
        if k == j: raise Reject("integer expected at %d" % self.i)
        self.i = k
        return sign * int(self.t[j:k])
    def rng(self, lo, hi):
        v = self.integer()
        if not (lo <= v <= hi): raise Reject("out of range")
        return v
    def pos(self, hi=U32MAX): return self.rng(0, hi)
    def atom(self): return self.rng(1, getattr(self, "amax", I32MAX))     # `amax`: the reader's configurable atom limit (setMaxVar)
    def lit(self):
        v = self.rng(-I32MAX, I32MAX)
        if v == 0: raise Reject("literal 0")
        return v
    def counted(self, f): return [f() for _ in range(self.pos())]
    def string(self):
        n = self.pos()
        # exactly one separator character, then n raw bytes (no NUL: end of input for the reader)
        if self.i >= len(self.t) or self.t[self.i] == 0: raise Reject("string")
        if self.t[self.i] == 13 and self.i + 1 < len(self.t) and self.t[self.i + 1] == 10: self.i += 1   # CRLF is one line end
        self.i += 1
        s = self.t[self.i:self.i + n]
        if len(s) != n or 0 in s: raise Reject("string too short")
        self.i += n
        return s
    def skipline(self):
        while self.i < len(self.t) and self.t[self.i] != 0:
            c = self.t[self.i]; self.i += 1
            if c == 10: return
            if c == 13:
                if self.i < len(self.t) and self.t[self.i] == 10: self.i += 1
                return

def lst(xs): return "-" if not xs else "/".join(str(x) for x in xs)
def hexs(b): return "-" if not b else "".join("%02x" % c for c in b)

def accept(text):
    try:
        return True, _parse(text)
    except Reject:
        return False, None

def _parse(text):
    t = Tok(text)
    t.ws()
    if text[t.i:t.i + 4] != b"asp ": raise Reject("header")
    t.i += 4
    if t.pos() != 1 or t.pos() != 0: raise Reject("version")
    t.pos()
    while t.i < len(text) and text[t.i] == 32: t.i += 1
    inc = text[t.i:t.i + 11] == b"incremental"
    if inc: t.i += 11
    if t.i < len(text) and text[t.i] == 13:
        t.i += 1
        if t.i < len(text) and text[t.i] == 10: t.i += 1
    elif t.i < len(text) and text[t.i] == 10: t.i += 1
    else: raise Reject("header end")
    calls = ["I1" if inc else "I0"]
    while True:
        calls.append("B")
        while True:
            rt = t.pos(10)
            if rt == 0: break
            if rt == 1:
                ht = t.pos(1); head = t.counted(t.atom); bt = t.pos(2)
                if bt == 0: calls.append("R,%d,%s,%s" % (ht, lst(head), lst(t.counted(t.lit))))
                else:
                    bound = t.rng(I32MIN, I32MAX)
                    wl = t.counted(lambda: (t.lit(), t.rng(0, I32MAX)))
                    calls.append("S,%d,%s,%d,%s" % (ht, lst(head), bound, lst(["%d:%d" % p for p in wl if p[1] != 0])))
            elif rt == 2:
                prio = t.rng(I32MIN, I32MAX)
                wl = t.counted(lambda: (t.lit(), t.rng(I32MIN, I32MAX)))
                calls.append("M,%d,%s" % (prio, lst(["%d:%d" % p for p in wl if p[1] != 0])))
            elif rt == 3: calls.append("P," + lst(t.counted(t.atom)))
            elif rt == 4:
                s = t.string(); calls.append("O,%s,%s" % (hexs(s), lst(t.counted(t.lit))))
            elif rt == 5:
                a = t.atom(); calls.append("X,%d,%d" % (a, t.pos(3)))
            elif rt == 6: calls.append("A," + lst(t.counted(t.lit)))
            elif rt == 7:
                ty = t.pos(5); a = t.atom(); bias = t.rng(I32MIN, I32MAX); prio = t.pos(I32MAX)
                calls.append("H,%d,%d,%d,%d,%s" % (a, ty, bias, prio, lst(t.counted(t.lit))))
            elif rt == 8:
                s = t.pos(I32MAX); e = t.pos(I32MAX); calls.append("G,%d,%d,%s" % (s, e, lst(t.counted(t.lit))))
            elif rt == 9:
                tt = t.pos(); tid = t.pos()
                if tt == 0: calls.append("TN,%d,%d" % (tid, t.rng(I32MIN, I32MAX)))
                elif tt == 1: calls.append("TS,%d,%s" % (tid, hexs(t.string())))
                elif tt == 2:
                    c = t.rng(-3, I32MAX); calls.append("TC,%d,%d,%s" % (tid, c, lst(t.counted(t.pos))))
                elif tt == 4:
                    ids = t.counted(t.pos); calls.append("TE,%d,%s,%s" % (tid, lst(ids), lst(t.counted(t.lit))))
                elif tt == 5:
                    term = t.pos(); calls.append("TA,%d,%d,%s" % (tid, term, lst(t.counted(t.pos))))
                elif tt == 6:
                    term = t.pos(); es = t.counted(t.pos); op = t.pos(); rhs = t.pos()
                    calls.append("TG,%d,%d,%s,%d,%d" % (tid, term, lst(es), op, rhs))
                else: raise Reject("theory type")
            elif rt == 10: t.skipline()
        calls.append("E")
        if t.eof(): break
        if not inc: raise Reject("extra input")
    return calls

def lines(text):
    n, i = 1, 0
    while i < len(text):
        if text[i] == 13:
            n += 1
            if i + 1 < len(text) and text[i + 1] == 10: i += 1
        elif text[i] == 10: n += 1
        i += 1
    return n
