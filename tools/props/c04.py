"""C04 — readers and lpconvert are total and memory-safe on arbitrary input.

ar <C|I> <hex> / so <ext><cEdge><cHeu><filter> <hex> / tr <C|I> <hex>  and the lpconvert executable with every flag set
impl   : the three real readers (both read modes, all 16 SmodelsInput option sets) at three buffer sizes and lpconvert, all built with
         ASan+UBSan(+LSan); the calls they make are recorded
model  : Model/AspifIn.lean, Model/SmodelsSym.lean, Model/TextIn.lean
oracle : (1) no crash / sanitizer report / leak; the process or call ends with success or a reported error; (2) the consumer contract
         automaton run on the recorded calls: initProgram first, directives only inside beginStep/endStep, atoms in 1..2^31-1,
         literals non-zero with such an atom, rule-body weights >= 0, enumeration values valid, nothing after an error."""
from props import progs, c10, c07
from vlib import runner
import subprocess
ID = "C04"
MODULE = "PotasscoVerif.Props.C04"
THEOREMS = ["PotasscoVerif.C04.C04_contract_aspif", "PotasscoVerif.C04.C04_contract_smodels", "PotasscoVerif.C04.C04_contract_text",
            "PotasscoVerif.C04.C04_structure_aspif", "PotasscoVerif.C04.C04_structure_smodels", "PotasscoVerif.C04.C04_structure_text"]
PARTIAL = {"heap safety / leaks / compiler-level UB": "not expressible in the reader models: observed by running harness and lpconvert under ASan/UBSan/LSan on every generated input "
           "(a report is a violation with that input as replay); buffer-window safety of the stream is C09, totality of the models is their being Lean functions with fuel ≥ input length"}
BSIZES = (16, 17, 4096)
LPCONVERT = True
RULE = ("byte strings of 0..300 bytes (a few up to 3×BUF_SIZE): uniformly random bytes; random bytes over the alphabet of the formats; valid aspif / smodels / ground-text programs "
        "with one to three bytes deleted, replaced, inserted or the text truncated; NUL bytes, CR/LF mixes, 20..40 digit numbers, numbers around 2^31 and 2^32, announced lengths "
        "larger than the rest; every text goes to all three readers (both read modes / 4 random option sets) at BUF_SIZE 16, 17, 4096, and a sample to lpconvert (quick: 160 inputs × 2 rotating flag sets of the 8, one buffer size each; thorough: 1500 inputs × all 8 flag sets × 2 buffer sizes); "
        "distinct = distinct byte strings; non-trivial = at least one directive call delivered by some reader")
TRUSTED = ["g++ 12 AddressSanitizer/UndefinedBehaviorSanitizer/LeakSanitizer detect the memory errors, overflows and leaks they document"]
ASSUMPTIONS = ["inputs containing NUL bytes are run on the implementation (sanitizers, contract) but not compared with the models: a NUL is indistinguishable from the buffer sentinel",
               "exhaustion of memory by sizes the input itself announces is outside the claim (allocation refusals above 256 MB are classified, not counted)",
               "BUF_SIZE >= 12 for the text reader (keyword length)"]
TECHNIQUE = "Lean 4 theorems on the three reader models (consumer contract for EVERY input: call structure and argument ranges) + differential correspondence with the real readers on arbitrary bytes + sanitizer-instrumented execution of readers and lpconvert"
LEVEL_TEXT = ("For EVERY byte string: C04_structure_{aspif,smodels,text} — the calls a reader model delivers (also those before an error) form initProgram, then (beginStep directives* "
              "endStep)*, possibly an unterminated last step, and nothing else; C04_contract_{aspif,smodels,text} — every delivered call has its atoms in 1..2^31−1, literals non-zero with "
              "such an atom, rule-body weights ≥ 0 and valid enumeration values. The models equal the real readers on every generated input (correspondence, incl. reported line), "
              "and the real readers and lpconvert run under ASan/UBSan/LSan without a report. Heap safety, leaks and compiler-level UB are only observed, not proved.")
LEVEL_NOTE = ("Proof of the contract on the models + correspondence (~4k quick / 100k thorough byte strings × 8 reader configurations × 3 buffer sizes; lpconvert sample × 8 flag sets) + "
              "sanitizers. Trusted: Lean kernel+axioms, sanitizers, harness, generator/oracle in props/c04.py. D1, D2, D4, D5, D6, D13, D15 (all C04 violations on the pristine tree) repaired.")

I32 = 2**31 - 1
ALPHA = b"0123456789 \n\r\t-+asp inc.#%{}:;,|=@\"()_xnotB+E\x00[]"

def valid_texts(rng):
    """valid programs in the three input formats (text only; the aspif/smodels bytes come from the corpus below and mutation)"""
    p = c10.gen_program(rng); t, _ = c10.print_program(rng, p)
    return t

ASPIF = [b"asp 1 0 0\n1 0 1 1 0 2 2 -3\n1 1 2 4 5 1 3 2 1 1 -2 2\n2 1 2 1 1 2 -3\n3 2 1 2\n4 3 foo 2 1 -2\n5 3 1\n6 1 -1\n7 1 1 -3 2 1 2\n8 1 2 1 3\n9 0 1 42\n9 1 2 3 foo\n9 2 3 1 2 1 2\n9 4 0 1 3 1 1\n9 5 0 2 1 0\n9 6 7 2 1 0 2 1\n10 comment\n0\n",
         b"asp 1 0 0 incremental\n1 0 1 1 0 0\n0\n1 0 1 2 0 1 1\n0\n", b"asp 1 0 0\n0\n"]
SMODELS = [b"1 2 2 1 3 4\n2 5 3 1 2 2 3 4\n3 2 5 6 1 0 2\n5 7 3 2 1 2 3 1 2\n6 0 2 1 2 3 1 2\n8 2 2 3 1 0 4\n0\n2 a\n3 _heuristic(a,sign,1,2)\n4 _edge(1,2)\n0\nB+\n2\n0\nB-\n1\n0\nE\n5\n0\n1\n",
           b"90 0\n1 2 0 0\n91 3 1\n0\n2 a\n0\nB+\n0\nB-\n0\n1\n90 0\n92 3\n0\n0\nB+\n0\nB-\n0\n1\n", b"0\n0\nB+\n0\nB-\n0\n1\n"]

NUMS = [b"0", b"1", b"2", b"3", b"4", b"5", b"6", b"7", b"8", b"9", b"10", b"11", b"-1", b"-2", b"-3", b"-4", b"2147483647", b"2147483648", b"-2147483648", b"-2147483649", b"4294967295", b"4294967296"]

def mutate(rng, t):
    t = bytearray(t)
    for _ in range(rng.choice([1, 1, 2, 3])):
        k = rng.random(); i = rng.randrange(len(t) + 1)
        if rng.random() < 0.3:
            # replace one whole number token by a value at or just beyond the bounds of the small fields (enumerations, counts)
            toks = [(m.start(), m.end()) for m in __import__("re").finditer(rb"-?[0-9]+", bytes(t))]
            if toks:
                a, b = rng.choice(toks); t[a:b] = rng.choice(NUMS); continue
        if k < 0.25 and t: del t[min(i, len(t) - 1)]
        elif k < 0.5 and t: t[min(i, len(t) - 1)] = rng.choice(ALPHA)
        elif k < 0.7: t[i:i] = bytes([rng.choice(ALPHA)])
        elif k < 0.8: t[i:i] = rng.choice([b"99999999999999999999999", b"2147483648", b"4294967296", b"-2147483649", b"18446744073709551616", b"\x00", b"\r\n", b"\r", b"0" * 40])
        elif k < 0.9: t = t[:i]
        else: t[i:i] = bytes(rng.choice(ALPHA) for _ in range(rng.choice([15, 16, 17, 33, 50])))
    return bytes(t)

def smodels_text(rng):
    """a (mostly) valid smodels program from the C07 generator, clasp extensions in half of them, optionally one field pushed to/over its bound"""
    ext = rng.random() < 0.6; toks = []
    for s in range(rng.choice([1, 1, 2]) if ext else 1):
        if ext and rng.random() < 0.5: toks += [("n", 90), ("n", 0), ("e",)]
        c07.gen_step(rng, ext, toks)
    if rng.random() < 0.5: toks = c07.mutate(rng, toks)
    return c07.render(rng, toks, rng.random() < 0.3)

def theory_cyclic(rng):
    """aspif text whose theory term table is cyclic (a term that contains itself directly or through other terms, also through the
    function position and inside operators) or nested very deeply, used by a theory atom: arbitrary input may say that (D17)"""
    n = rng.choice([1, 2, 3, 5]); L = [b"asp 1 0 0"]
    if rng.random() < 0.15:
        n = rng.choice([30, 300]); L.append(b"9 0 0 7")
        for i in range(1, n + 1): L.append(b"9 2 %d %d 1 %d" % (i, rng.choice([-1, -2, -3]), i - 1))
        L.append(b"9 5 0 %d 0" % n)
    else:
        op = n + 1
        L.append(b"9 1 %d 1 %s" % (op, rng.choice([b"f", b"+", b"-", b"*"])))
        for i in range(n):
            nxt = (i + 1) % n if rng.random() < 0.8 else rng.randrange(n)
            if rng.random() < 0.5: L.append(b"9 2 %d %d 1 %d" % (i, rng.choice([-1, -2, -3]), nxt))
            else: L.append(b"9 2 %d %d %s" % (i, op, b"1 %d" % nxt if rng.random() < 0.5 else b"2 %d %d" % (nxt, rng.randrange(n))))
        k = rng.random()
        if k < 0.4: L.append(b"9 5 0 0 0")
        elif k < 0.7: L += [b"9 4 0 1 %d 0" % rng.randrange(n), b"9 5 0 %d 1 0" % op]
        else: L += [b"9 1 %d 2 <=" % (op + 1), b"9 6 0 %d 0 %d %d" % (op, op + 1, rng.randrange(n))]
    return b"\n".join(L + [b"0", b""])

def theory_incremental(rng):
    """incremental aspif text with theory data over several steps: later steps define new terms/elements/atoms, REDEFINE ids of
    earlier steps (legal: ids may be reused after a step) or use them again; the text writer keeps the store across steps (C04-d)"""
    L = [b"asp 1 0 0 incremental"]
    nt = ne = 0
    for step in range(rng.choice([2, 2, 3])):
        for _ in range(rng.randint(0, 3)):
            i = nt if (nt == 0 or rng.random() < 0.6) else rng.randrange(nt)          # new id or one of an earlier step
            if rng.random() < 0.5: L.append(b"9 0 %d %d" % (i, rng.choice([0, 7, -3])))
            else: L.append(b"9 1 %d 1 %s" % (i, rng.choice([b"a", b"f", b"+"])))
            nt = max(nt, i + 1)
        for _ in range(rng.randint(0, 3)):
            if nt == 0: break
            e = ne if (ne == 0 or rng.random() < 0.5) else rng.randrange(ne)
            ts = [rng.randrange(nt) for _ in range(rng.randint(0, 2))]
            cond = [rng.choice([1, -1]) * rng.randint(1, 3) for _ in range(rng.choice([0, 0, 1, 2]))]
            L.append(b"9 4 %d %d%s %d%s" % (e, len(ts), b"".join(b" %d" % t for t in ts), len(cond), b"".join(b" %d" % c for c in cond)))
            ne = max(ne, e + 1)
        if nt and rng.random() < 0.8:
            es = [rng.randrange(ne) for _ in range(rng.randint(0, 2))] if ne else []
            L.append(b"9 5 0 %d %d%s" % (rng.randrange(nt), len(es), b"".join(b" %d" % e for e in es)))
        if rng.random() < 0.5: L.append(b"1 0 1 %d 0 0" % rng.randint(1, 3))
        L.append(b"0")
    return b"\n".join(L + [b""])

def gen_input(rng):
    k = rng.random()
    if k < 0.03: return theory_cyclic(rng)
    if k < 0.07: return theory_incremental(rng)
    if 0.5 <= k < 0.62: return smodels_text(rng)
    if k < 0.1: return bytes(rng.randrange(256) for _ in range(rng.choice([0, 1, 2, 5, 20, 60])))
    if k < 0.2: return progs.fuzz_symtab(rng, rng.random() < 0.3)
    if k < 0.3: return bytes(rng.choice(ALPHA) for _ in range(rng.choice([1, 3, 10, 30, 80])))
    if k < 0.5: return mutate(rng, rng.choice(ASPIF))
    if k < 0.75: return mutate(rng, rng.choice(SMODELS))
    if k < 0.95: return mutate(rng, valid_texts(rng))
    return rng.choice(ASPIF + SMODELS) if rng.random() < 0.5 else valid_texts(rng)

def corpus(ctx):
    import random
    r = random.Random(17)
    cyc = [b"asp 1 0 0\n9 2 0 -1 1 0\n9 5 0 0 0\n0\n", b"asp 1 0 0\n9 1 2 1 +\n9 2 0 2 2 1 1\n9 2 1 2 1 0\n9 4 0 1 0 0\n9 5 0 2 1 0\n0\n"] + [theory_cyclic(r) for _ in range(6)]
    # D17: every output mode of lpconvert for these (the text writer is the one that walks the term table)
    inc = [theory_incremental(r) for _ in range(6)] + [b"asp 1 0 0 incremental\n9 0 0 7\n9 4 0 1 0 0\n9 5 0 0 1 0\n0\n9 4 0 1 0 1 2\n9 5 0 0 1 0\n0\n"]
    # a step that is given up after some directives were already buffered by a converter/writer: every directive kind (and all together) followed by
    # a truncation, a directive the smodels format cannot express (#assume, #project, theory), a range error, garbage; first step and second step
    heads = [b"1 0 1 1 0 0", b"1 1 2 1 2 1 2 1 1 3 1 2 2", b"2 0 2 1 1 -2 3", b"4 1 a 1 1", b"4 6 p(1,2) 2 1 -2", b"5 1 2", b"5 2 3", b"7 0 1 -1 3 1 2", b"7 4 2 1 0 0",
             b"8 0 1 1 1", b"8 1 0 2 1 -2", b"9 0 0 1", None]
    allh = b"\n".join(h for h in heads if h)
    tails = [b"1 0 1", b"6 1 1\n0\n", b"3 1 1\n0\n", b"9 1 1 1 x\n9 5 0 1 0\n0\n", b"1 0 1 0 0 0\n0\n", b"8 1\n", b"4 3 ab", b"zz\n0\n"]
    aborted = []
    for h in heads:
        for tl in tails:
            aborted.append(b"asp 1 0 0\n" + (h or allh) + b"\n" + tl)
        aborted.append(b"asp 1 0 0 incremental\n" + (h or allh) + b"\n0\n" + (h or allh) + b"\n" + tails[heads.index(h) % len(tails)])
    return [{"text": t.hex(), "all_flags": 1} for t in cyc + inc + aborted] + [{"text": t.hex()} for t in ASPIF + SMODELS + [b"", b"\x00", b"a", b"asp", b"asp 1 0 0\n4 4294967295 x", b"1 0 1 1 1 1 0\n", b"3 _heuristic(a,true,-2147483648)\n", b"1 2 0 0\n0\n1 pppppppppp\",b)\n2 _edge(\"a\\\n0\nB+\n0\nB-\n0\n1\n",
            b"asp 1 0 0\n1 0 1 1 1 2147483647 1 2 2147483647\n0\n", b"x_2147483648.", b"#minimize{a=2147483648}.", b"asp 1 0 0\n4 99999999999999999999 a 0\n0\n"]]

def generate(ctx):
    n = {"quick": 3500, "thorough": 100000}[ctx.tier]
    return [{"text": gen_input(ctx.rng).hex()} for _ in range(n)]

def contract(words):
    """the consumer contract automaton on recorded call words; returns None or a description"""
    L = lambda x: [] if x == "-" else [int(t) for t in x.split("/")]
    W = lambda x: [] if x == "-" else [tuple(int(u) for u in t.split(":")) for t in x.split("/")]
    atom_ok = lambda a: 1 <= a <= I32
    lit_ok = lambda l: l != 0 and atom_ok(abs(l))
    state = "start"
    for k, w in enumerate(words):
        f = w.split(",")
        t = f[0]
        if t.startswith("I") and len(t) == 2 and t[1] in "01":
            if state != "start": return "initProgram not first (call %d)" % k
            state = "idle"; continue
        if state == "start": return "call %r before initProgram" % w
        if t == "B":
            if state != "idle": return "beginStep inside a step (call %d)" % k
            state = "step"; continue
        if t == "E":
            if state != "step": return "endStep outside a step (call %d)" % k
            state = "idle"; continue
        if state != "step": return "directive %r outside beginStep/endStep" % w
        try:
            if t == "R":
                if int(f[1]) not in (0, 1) or not all(atom_ok(a) for a in L(f[2])) or not all(lit_ok(l) for l in L(f[3])): return "bad rule %r" % w
            elif t == "S":
                if int(f[1]) not in (0, 1) or not all(atom_ok(a) for a in L(f[2])) or not all(lit_ok(l) and wt >= 0 for l, wt in W(f[4])): return "bad weight rule %r" % w
                if not -I32 - 1 <= int(f[3]) <= I32: return "bound out of range %r" % w
            elif t == "M":
                if not all(lit_ok(l) and -I32 - 1 <= wt <= I32 for l, wt in W(f[2])): return "bad minimize %r" % w
            elif t == "P":
                if not all(atom_ok(a) for a in L(f[1])): return "bad project %r" % w
            elif t == "O":
                if not all(lit_ok(l) for l in L(f[2])): return "bad output %r" % w
            elif t == "X":
                if not atom_ok(int(f[1])) or int(f[2]) not in (0, 1, 2, 3): return "bad external %r" % w
            elif t == "A":
                if not all(lit_ok(l) for l in L(f[1])): return "bad assume %r" % w
            elif t == "H":
                if not atom_ok(int(f[1])) or int(f[2]) not in range(6) or not 0 <= int(f[4]) <= 2**32 - 1 or not all(lit_ok(l) for l in L(f[5])): return "bad heuristic %r" % w
            elif t == "G":
                if not all(lit_ok(l) for l in L(f[3])): return "bad edge %r" % w
            elif t in ("TN", "TS", "TC", "TE", "TA", "TG"):
                if t == "TE" and not all(lit_ok(l) for l in L(f[3])): return "bad theory element %r" % w
                if t == "TC" and int(f[2]) < -3: return "bad tuple type %r" % w
            else: return "unknown call %r" % w
        except (ValueError, IndexError): return "malformed call word %r" % w
    return None

def announces_huge(hextext):
    """the text contains a number >= 2^22: ids index tables (theory terms and elements up to 2^32-1, atoms up to 2^31-1), so the readers' consumers
    grow a table towards that size — MemoryRegion::grow reallocates on every push, which the sanitizer's allocator turns into a copy each time:
    minutes before the allocation cap refuses.  Slow by design and outside the claim, like the allocations the cap refuses at once."""
    try: t = bytes.fromhex(hextext if hextext != "-" else "")
    except ValueError: return False
    return any(w.isdigit() and len(w) >= 7 and int(w) >= 2**22 for w in t.replace(b"-", b" ").split())

def slow_line(line): return announces_huge(line.split(" ")[-1])

def evaluate(ctx, cases):
    rng = ctx.rng
    for c in cases:
        if "opts" not in c: c["opts"] = ["".join(rng.choice("01") for _ in range(4)) for _ in range(4)]
    confs = [("ar C", None), ("ar I", None), ("tr C", None), ("tr I", None)]
    for B in BSIZES:
        lines, meta = [], []
        for ci, c in enumerate(cases):
            h = c["text"] or "-"
            for cmd in ("ar C", "ar I", "tr C", "tr I"): lines.append("%s %s" % (cmd, h)); meta.append((ci, cmd))
            for o in c["opts"]: lines.append("so %s %s" % (o, h)); meta.append((ci, "so " + o))
        impl = ctx.impl(lines, B=B, exempt=slow_line)
        if B == BSIZES[0]: model = ctx.model(lines)
        delivered = set()
        for k, ((ci, cmd), l, i) in enumerate(zip(meta, lines, impl)):
            c = cases[ci]; m = model[k]
            cc = dict(c, B=B, reader=cmd)
            if runner.is_oom(i):
                ctx.dist["allocation of an announced size refused (outside the claim)"] += 1; continue
            if not isinstance(i, str):
                if "SLOW-BY-DESIGN" in i[2]: ctx.dist["table grown towards an announced id (slow under the sanitizer; outside the claim)"] += 1; continue
                if "TIMEOUT after" in i[2]: ctx.fail("C04:hang", "the reader does not terminate (BUF_SIZE=%d, %s)" % (B, cmd), cc, {"stderr": i[2][-300:]}); continue
                ctx.fail("C04:crash", "reader crashed / sanitizer report (BUF_SIZE=%d, %s)" % (B, cmd), cc, {"stderr": i[2][-1500:]}); continue
            ws = i.split(" ")
            status = ws[-1]
            bad = contract(ws[:-1])
            if bad: ctx.fail("C04:contract", "the calls made on the consumer violate its contract (BUF_SIZE=%d, %s): %s" % (B, cmd, bad), cc, {"calls": i[:600]})
            if B == BSIZES[0]:
                ctx.dist[cmd.split(" ")[0] + ":" + status.split(":")[0]] += 1
                if any(w[0] in "RSMPOXAHGT" for w in ws[:-1]): delivered.add(ci)
            if "00" in [c["text"][j:j + 2] for j in range(0, len(c["text"]), 2)]:
                # a NUL byte looks like the end-of-buffer sentinel: what follows depends on where the refill boundary falls (C09: transparent only for NUL-free input);
                # such inputs are executed for the sanitizer and contract oracles but not compared with the models over the abstract stream
                if B == BSIZES[0] and cmd == "ar C": ctx.dist["with NUL (not compared)"] += 1
                continue
            ctx.compared += 1
            if i != m: ctx.disagree("%s(B%d)" % (cmd, B), cc, i[:600], m[:600])
        if B == BSIZES[0]:
            for ci, c in enumerate(cases):
                ctx.count()
                if ci in delivered: ctx.nontrivial(c["text"])
            ctx.sample({"text": bytes.fromhex(cases[0]["text"]).decode("latin-1")[:120]}, 2)
    # --- the conversion pipelines of lpconvert inside the process with an error handler that returns: whatever a converter/writer had buffered when a
    #     step is given up must be released (the tool itself exits from its handler, so nothing is unwound there)
    npipe = {"quick": 400, "thorough": 6000}[ctx.tier]
    plines, pmeta = [], []
    for ci, c in enumerate(cases[:npipe]):
        for fl in (("00", "10", "01", "11") if ctx.tier == "thorough" or c.get("all_flags") else ("10", "%d%d" % (ci % 2, ci // 2 % 2))):
            plines.append("ap %s %s" % (fl, c["text"] or "-")); pmeta.append((ci, fl))
    for (ci, fl), i in zip(pmeta, ctx.impl(plines, B=BSIZES[0], exempt=slow_line)):
        ctx.dist["pipeline " + (i.split(" ")[0].split(":")[0] if isinstance(i, str) else "crash")] += 1
        if runner.is_oom(i): continue
        if not isinstance(i, str):
            err = i[2]
            if "SLOW-BY-DESIGN" in err: ctx.dist["table grown towards an announced id (slow under the sanitizer; outside the claim)"] += 1; continue
            if "TIMEOUT after" in err: ctx.fail("C04:hang", "conversion pipeline (potassco,text)=%s does not terminate" % fl, dict(cases[ci], pipe=fl), {"stderr": err[-300:]}); continue
            leak = "LeakSanitizer" in err or "detected memory leaks" in err
            ctx.fail("C04:pipeline-leak" if leak else "C04:pipeline-crash", ("conversion pipeline (potassco,text)=%s " % fl) + ("leaks memory" if leak else "crashed / sanitizer report"),
                     dict(cases[ci], pipe=fl), {"stderr": err[-1500:]})
    # --- lpconvert with every flag set
    nlp = {"quick": 160, "thorough": 1500}[ctx.tier]
    flagsets = [[], ["-p"], ["-f"], ["-t"], ["-p", "-f"], ["-p", "-t"], ["-f", "-t"], ["-p", "-f", "-t"]]
    jobs = []
    cyclic_later = [c for c in cases[nlp:] if bytes.fromhex(c["text"]).startswith((b"asp 1 0 0\n9 ", b"asp 1 0 0 incremental\n9 "))][:60]    # generated cyclic/deep term tables always go to lpconvert --text
    # a term nested deeper than any stack allows (only through lpconvert: 200 kB of text would dominate the reader correspondence)
    deep = b"\n".join([b"asp 1 0 0", b"9 0 0 7"] + [b"9 2 %d -1 1 %d" % (i, i - 1) for i in range(1, 60001)] + [b"9 5 0 60000 0", b"0", b""])
    for k, c in enumerate(cases[:nlp] + [dict(c, flags_t=1) for c in cyclic_later] + ([{"text": deep.hex(), "flags_t": 1}] if len(cases) > 1 else [])):
        # quick: two of the eight flag sets and one buffer size per input, rotating (a sanitizer process start + leak check costs ~0.1 s); thorough: all 16 combinations
        fsets = flagsets if ctx.tier == "thorough" or c.get("all_flags") else [flagsets[k % 8], flagsets[(k // 8 + k + 3) % 8]]
        if c.get("flags_t"): fsets = [["-t"], ["-p", "-f", "-t"]]
        for fl in fsets:
            for B in ((16, 4096) if ctx.tier == "thorough" else ((16,) if k % 2 else (4096,))): jobs.append((c, fl, B))
    import json, os, sys
    helper = os.path.join(os.path.dirname(os.path.dirname(os.path.abspath(__file__))), "vlib", "lprun.py")
    hr = subprocess.run([sys.executable, helper], input=json.dumps([[[ctx.lpconvert[B]] + fl, c["text"], 30] for c, fl, B in jobs]).encode(), capture_output=True,
                        env=dict(os.environ, **runner.ASAN_ENV))       # same allocation cap as the harness: sizes the input announces are refused, not zero-filled
    if hr.returncode != 0: raise RuntimeError("lprun helper failed: " + hr.stderr.decode()[-500:])
    class _R:
        def __init__(self, x): self.returncode, self.stderr = x[0], x[1].encode("latin-1")
    results = [None if x is None else x if x == "skip" else _R(x) for x in json.loads(hr.stdout)]
    for (c, fl, B), r in zip(jobs, results):
        if r == "skip": ctx.dist["lpconvert not run (earlier runs did not terminate)"] += 1; continue
        if r is None and announces_huge(c["text"]):
            ctx.dist["table grown towards an announced id (slow under the sanitizer; outside the claim)"] += 1; continue
        if r is None:
            ctx.fail("C04:lpconvert-hang", "lpconvert %s does not terminate (BUF_SIZE=%d)" % (" ".join(fl), B), dict(c, flags=fl, B=B), {}); continue
        ctx.dist["lpconvert rc=%d" % r.returncode] += 1
        err = r.stderr.decode("latin-1")
        if "exceeds maximum supported size" in err or "bad_alloc" in err: ctx.dist["allocation of an announced size refused (outside the claim)"] += 1; continue
        if r.returncode < 0 or "Sanitizer" in err or "runtime error" in err or "LeakSanitizer" in err:
            ctx.fail("C04:lpconvert-crash", "lpconvert %s crashed / sanitizer report (BUF_SIZE=%d)" % (" ".join(fl), B), dict(c, flags=fl, B=B), {"rc": r.returncode, "stderr": err[-1500:]})
        elif r.returncode != 0 and "ERROR" not in err:
            ctx.fail("C04:lpconvert-silent", "lpconvert %s failed without reporting an error" % " ".join(fl), dict(c, flags=fl, B=B), {"rc": r.returncode, "stderr": err[-400:]})

def shrink_candidates(c):
    t = bytes.fromhex(c["text"])
    res = []
    step = max(1, len(t) // 24)
    for i in range(0, len(t), step): res.append(dict(c, text=(t[:i] + t[i + step:]).hex()))
    if 1 < step and len(t) <= 4000:          # single bytes only for small texts (a candidate per byte of a megabyte input is terabytes)
        for i in range(len(t)): res.append(dict(c, text=(t[:i] + t[i + 1:]).hex()))
    return res
