"""C03 — aspif reader accepts exactly well-formed aspif and never alters a number.

ar C <hex> : impl = real readAspif with recording consumer + counting error handler (BUF_SIZE 16/17/4096),
             model = Model/AspifIn.lean.
oracle     : independent reference acceptor (props/aspif_ref.py, from the property text): accepted iff well-formed
             with every number inside its field; on acceptance the calls are the denoted ones; a rejection is
             reported exactly once with 1 <= line <= number of lines."""
from props import progs, aspif_ref
from vlib import runner

ID = "C03"
MODULE = "PotasscoVerif.Props.C03"
EXTRA_MODULES = ["PotasscoVerif.Lemmas.BufferedStream", "PotasscoVerif.Lemmas.AspifLang", "PotasscoVerif.Props.C03b", "PotasscoVerif.Props.C03c", "PotasscoVerif.Props.C03m"]
THEOREMS = ["PotasscoVerif.C03m.C03_complete_steps", "PotasscoVerif.C03m.C03_sound_steps", "PotasscoVerif.C03m.C03_rejects_steps", "PotasscoVerif.C03.C03_number_exact", "PotasscoVerif.C03.C03_reject_out_of_range", "PotasscoVerif.C03.C03_field_bounds",
            "PotasscoVerif.C03.C03_error_once", "PotasscoVerif.Decimal.matchInt_token", "PotasscoVerif.BufferedStream.satVal_exact",
            "PotasscoVerif.C03.C03_line_bound", "PotasscoVerif.C03.C03_complete", "PotasscoVerif.C03.C03_sound", "PotasscoVerif.C03.C03_rejects",
            "PotasscoVerif.C03.C03_strict_lenient", "PotasscoVerif.C03.Spec.directive", "PotasscoVerif.C03.Spec.theory",
            "PotasscoVerif.C03.stepLoop_sound", "PotasscoVerif.C03.stepLoop_complete", "PotasscoVerif.C03.header_sound", "PotasscoVerif.C03.header_complete"]
PARTIAL = {}
BSIZES = (16, 17, 4096)
RULE = ("grammar-directed texts: a valid program rendered with random layout (blank, tab, LF, CR, CRLF, several), '+' signs and leading zeros, then at most one mutation "
        "(a numeric field replaced by max+1, min-1, 2^32+-1, 2^63+-1, 2^64+1, 10^40, 0, -1, value+-1; truncation after any token; token deleted or duplicated; header variants); "
        "distinct = distinct texts; non-trivial = at least 8 tokens")
TRUSTED = ["props/aspif_ref.py is the executable reading of 'well-formed aspif 1.0' used as oracle"]
ASSUMPTIONS = ["texts without NUL bytes"]
TECHNIQUE = "Lean 4 theorems on the reader model (soundness and completeness against a declarative grammar of aspif in every layout; exact-or-rejected numbers for digit strings of any length; reported line within 1..lines) + differential correspondence with AspifInput + reference acceptor oracle"
LEVEL_TEXT = ("Props/C03c.lean: the aspif grammar `Prog` as languages (sets of (word, value) pairs) built from number tokens, strings, sequencing, repetition and case distinction (no stream, look-ahead, fuel or error plumbing), "
              "in a strict reading (whitespace-separated tokens in ANY layout, '+' signs, leading zeros, digit strings of any length) and a lenient one (what the reader also tolerates: tokens glued to a sign, any one character as "
              "string separator, a lone CR after the header). C03_complete: every strict program text is accepted and exactly the denoted directives are delivered in order (weight 0 omitted); C03_sound: whatever the reader accepts "
              "(NUL-free text) is a lenient program text denoting exactly the delivered directives — every delivered number is the written one, inside its field, every count matched; C03_rejects: everything outside the grammar is rejected; "
              "C03_strict_lenient. Props/C03b.lean: C03_line_bound — a rejection reports a line between 1 and 1 + the number of line ends (LF, CR, CRLF). C03_number_exact / C03_reject_out_of_range: for a digit string of ANY "
              "length the field matchers either return exactly the denoted number or fail (64-bit saturation + range check, satVal_exact); C03_error_once. In addition reader model == real AspifInput on generated and "
              "mutated texts and an independent reference acceptor on the implementation.")
LEVEL_NOTE = ("Proof (grammar soundness/completeness, line bound, numbers) + correspondence; model==code on ~3k (quick) / 100k (thorough) texts x 3 buffer sizes. Trusted: Lean kernel+axioms, reference acceptor, harness.")

SEPS = [b" ", b" ", b" ", b"  ", b"\t", b"\n", b"\r\n", b"\r", b" \n"]

def tokens_of(calls):
    """token list of the aspif text of a call list: ('h', inc) header marker, ('n', int), ('s', bytes), ('e',) directive end."""
    toks = []
    for w in calls:
        f = w.split(",")
        k = f[0]
        def N(*xs): toks.extend(("n", int(x)) for x in xs)
        def L(s): 
            xs = [] if s == "-" else s.split("/")
            N(len(xs)); N(*xs)
        def WL(s):
            xs = [] if s == "-" else s.split("/")
            N(len(xs))
            for p in xs: N(*p.split(":"))
        if k in ("I0", "I1"): toks.append(("h", k == "I1")); continue
        if k == "B": continue
        if k == "E": N(0); toks.append(("e",)); continue
        if k == "R": N(1, f[1]); L(f[2]); N(0); L(f[3])
        elif k == "S": N(1, f[1]); L(f[2]); N(1, f[3]); WL(f[4])
        elif k == "M": N(2, f[1]); WL(f[2])
        elif k == "P": N(3); L(f[1])
        elif k == "O": N(4); toks.append(("s", bytes.fromhex(f[1]) if f[1] != "-" else b"")); L(f[2])
        elif k == "X": N(5, f[1], f[2])
        elif k == "A": N(6); L(f[1])
        elif k == "H": N(7, f[2], f[1], f[3], f[4]); L(f[5])
        elif k == "G": N(8, f[1], f[2]); L(f[3])
        elif k == "TN": N(9, 0, f[1], f[2])
        elif k == "TS": N(9, 1, f[1]); toks.append(("s", bytes.fromhex(f[2]) if f[2] != "-" else b""))
        elif k == "TC": N(9, 2, f[1], f[2]); L(f[3])
        elif k == "TE": N(9, 4, f[1]); L(f[2]); L(f[3])
        elif k == "TA": N(9, 5, f[1], f[2]); L(f[3])
        elif k == "TG": N(9, 6, f[1], f[2]); L(f[3]); N(f[4], f[5])
        toks.append(("e",))
    return toks

def render(rng, toks, fancy):
    out = bytearray()
    first = True
    for t in toks:
        if t[0] == "h":
            hv = rng.random()
            if not fancy or hv < 0.7: out += b"asp 1 0 0" + (b" incremental" if t[1] else b"") + b"\n"
            else:
                out += rng.choice([b"", b" ", b"\n"]) + b"asp " + rng.choice([b"", b" "]) + b"1" + rng.choice([b" ", b"  ", b"\t"]) + b"0 " + \
                       str(rng.choice([0, 1, 7, 4294967295])).encode() + (rng.choice([b" ", b"   "]) + b"incremental" if t[1] else rng.choice([b"", b" "])) + rng.choice([b"\n", b"\r\n", b"\r"])
            first = True
        elif t[0] == "e":
            pass
        elif t[0] == "n":
            sep = b"" if first and not fancy else (rng.choice(SEPS) if fancy else b" ")
            if first and not fancy: sep = b""
            if not first or fancy: out += sep if not first else rng.choice([b"", b" ", b"\n"])
            v = t[1]
            txt = str(v).encode()
            if fancy and rng.random() < 0.05 and v >= 0: txt = rng.choice([b"+", b"00", b"0"]) + txt
            elif fancy and rng.random() < 0.04:
                # leading zeros up to and beyond the digit counts of 2^63 and 2^64: the value, not the number of digits, decides
                W = rng.choice([18, 19, 20, 21, 40]); mag = str(abs(v)).encode()
                txt = (b"-" if v < 0 else b"") + b"0" * max(0, W - len(mag)) + mag
            out += txt
            first = False
        elif t[0] == "s":
            out += (b" " if not fancy else rng.choice([b" ", b" ", b"  ", b"\n"])) + str(len(t[1])).encode() + b" " + t[1]
            first = False
        elif t[0] == "c":
            # a comment line: `10` and the rest of the line — also with no text at all
            if out and out[-1:] not in (b"\n", b"\r"): out += b"\n"
            out += b"10" + t[1] + t[2]
            first = True
        if t[0] == "e":
            out += b"\n" if not fancy else rng.choice([b"\n", b"\n", b"\r\n", b" ", b"\n\n"])
            first = True
    return bytes(out)

def add_comments(rng, toks):
    out = []
    for t in toks:
        out.append(t)
        if t[0] == "e" and rng.random() < 0.25:
            out.append(("c", rng.choice([b"", b"", b" a comment", b"x", b" 1 2 3", b"\t"]), rng.choice([b"\n", b"\n", b"\r\n", b"\r"])))
    return out

BAD = [2**31, -2**31 - 1, 2**32, 2**32 - 1, 2**32 + 1, 2**63 - 1, 2**63, 2**63 + 1, 2**64, 2**64 + 1, 10**40, -10**40, 0, -1, 1, 11, 3, 6, 4]

def bad_number(rng):
    """a number outside its field: the fixed boundary values, or one that is k*2^64 (or 2^63) plus/minus a small amount, with either sign —
    the values an accumulator that wraps instead of saturating turns into small legal numbers"""
    if rng.random() < 0.6: return rng.choice(BAD)
    v = rng.choice([2**63, 2**64, 2**64, 2 * 2**64, 3 * 2**64, 4 * 2**64]) + rng.choice([-1, 1]) * rng.choice([0, 1, 2, 5, 7, 2**31 - 1, 2**31, rng.randint(0, 2**32)])
    return v if rng.random() < 0.6 else -v

def mutate(rng, toks):
    idx = [i for i, t in enumerate(toks) if t[0] == "n"]
    if not idx: return toks
    i = rng.choice(idx)
    k = rng.random()
    t = list(toks)
    if k < 0.45: t[i] = ("n", bad_number(rng))
    elif k < 0.60: t[i] = ("n", t[i][1] + rng.choice([1, -1]))
    elif k < 0.75: t = t[:i] + [("e",)] if rng.random() < 0.5 else t[:i]
    elif k < 0.85: del t[i]
    elif k < 0.92: t.insert(i, t[i])
    else: t[i] = ("n", -t[i][1])
    return t

def corpus(ctx):
    return [{"text": b"asp 1 0 0\n1 0 1 18446744073709551617 0 0\n0\n".hex()},          # D1
            {"text": b"asp 1 0 0\n4 10 abc 0\n0\n".hex()},                                   # D2
            {"text": b"asp 1 0 0\n1 0 1 1 0 1 4294967297\n0\n".hex()},
            {"text": b"asp 1 0 0\r\n1 0 1 1 0 0\r\n0\r\n".hex()}]

def generate(ctx):
    n = {"quick": 3000, "thorough": 100000}[ctx.tier]
    out = []
    for _ in range(n):
        calls = progs.program(ctx.rng, max_dirs=8, big=(ctx.rng.random() < 0.03))
        toks = tokens_of(calls)
        r = ctx.rng.random()
        fancy = ctx.rng.random() < 0.5
        if r < 0.65: toks = mutate(ctx.rng, toks)
        if ctx.rng.random() < 0.3: toks = add_comments(ctx.rng, toks)
        text = render(ctx.rng, toks, fancy)
        if r > 0.95:
            text = ctx.rng.choice([text.replace(b"asp 1", b"asp 2", 1), text.replace(b" 0 0", b" 1 0", 1), text[:ctx.rng.randint(0, len(text))],
                                   text + b"1 0 0 0 0\n", text + b" 7", b"asp 1 0 0 incremental \n0\n"])
        out.append({"text": text.hex() or "-"})
    return out

def evaluate(ctx, cases):
    lines = ["ar C " + c["text"] for c in cases]
    model = ctx.model(lines)
    refs = []
    for c in cases:
        t = bytes.fromhex(c["text"]) if c["text"] != "-" else b""
        refs.append((t, aspif_ref.accept(t)))
    for B in BSIZES:
        impl = ctx.impl(lines, B)
        for c, i, m, (t, (ok, calls)) in zip(cases, impl, model, refs):
            if B == 4096:
                ctx.count()
                if len(t.split()) >= 8: ctx.nontrivial(c["text"])
                ctx.dist["well-formed" if ok else "malformed"] += 1
                if b"\r" in t: ctx.dist["has CR"] += 1
                ctx.sample({"text": t[:120].decode("latin-1"), "ref": ok, "impl": (i if isinstance(i, str) else "CRASH")[-40:]}, 5)
            cc = dict(c, B=B)
            if runner.is_oom(i):
                ctx.dist["allocation of an announced size refused (outside the claim)"] += 1; continue
            if not isinstance(i, str):
                ctx.fail("C03:crash", "AspifInput crashed / sanitizer abort", cc, {"stderr": i[2][-1500:]}); continue
            words = i.split(" ")
            status = words[-1]
            if ok:
                want = " ".join(calls) + " OK"
                if status != "OK":
                    ctx.fail("C03:rejects-well-formed", "a well-formed aspif text was rejected", cc, {"impl": i[-300:], "want": want[-300:]})
                elif i != want:
                    ctx.fail("C03:wrong-directives", "accepted, but the delivered directives are not the ones the text denotes", cc, {"impl": i[:1200], "want": want[:1200]})
            else:
                if status == "OK":
                    ctx.fail("C03:accepts-malformed", "a text that is not well-formed aspif (or has a number outside its field) was accepted", cc, {"impl": i[:1200]})
                else:
                    _, line, cnt = status.split(":")
                    if cnt != "1":
                        ctx.fail("C03:error-not-once", "the rejection was reported %s times" % cnt, cc, {"impl": i[-200:]})
                    if not (1 <= int(line) <= aspif_ref.lines(t)):
                        ctx.fail("C03:line-out-of-range", "reported line %s is not within 1..%d" % (line, aspif_ref.lines(t)), cc, {"impl": i[-200:]})
            ctx.compared += 1
            # correspondence: calls + accepted/rejected (error line is only bounded, not compared)
            mi = m.rsplit(" ", 1) if " " in m else ["", m]
            ii = i.rsplit(" ", 1) if " " in i else ["", i]
            if mi[0] != ii[0] or mi[1][:2] != ii[1][:2]:
                ctx.disagree("AspifInput:calls+status", cc, i[-800:], m[-800:])
    _steps_stage(ctx, cases, lines)

def _steps_stage(ctx, cases, lines):
    """the reader driven step by step (accept, parse(Incremental) while more()): model AspifIn.readInc; C01_modes says both ways give the same"""
    li = ["ar I " + c["text"] for c in cases]
    mi_ = ctx.model(li); ii_ = ctx.impl(li, 4096); one = ctx.impl(lines, 4096)
    for c, i, m, o in zip(cases, ii_, mi_, one):
        if runner.is_oom(i) or runner.is_oom(o): continue
        if not isinstance(i, str):
            ctx.fail("C03:crash", "AspifInput crashed / sanitizer abort (step by step)", dict(c, mode="I"), {"stderr": i[2][-1500:]}); continue
        ctx.dist["step-by-step reads"] += 1; ctx.compared += 1
        a = m.rsplit(" ", 1) if " " in m else ["", m]; b = i.rsplit(" ", 1) if " " in i else ["", i]
        if a[0] != b[0] or a[1][:2] != b[1][:2]: ctx.disagree("AspifInput:step-by-step", dict(c, mode="I"), i[-800:], m[-800:])
        if isinstance(o, str):
            d = o.rsplit(" ", 1) if " " in o else ["", o]
            if d[0] != b[0] or d[1][:2] != b[1][:2]:
                ctx.fail("C03:modes-differ", "reading step by step delivers other directives / another result than reading in one go", dict(c, mode="I"), {"one-go": o[-600:], "step-by-step": i[-600:]})

def shrink_candidates(c):
    t = bytes.fromhex(c["text"]) if c["text"] != "-" else b""
    ls = t.split(b"\n")
    for i in range(1, len(ls)):
        yield dict(c, text=(b"\n".join(ls[:i] + ls[i + 1:])).hex() or "-")
