"""C05 — smodels writer and reader are inverses on the smodels-expressible fragment.

sw <ext> <false> <call>* : impl = real SmodelsOutput (bytes, OK/ERR), model = Model/SmodelsOut.lean
sr <ext> <hex>           : impl = real SmodelsInput, model = Model/SmodelsIn.lean
oracle : (1) a program inside the documented fragment is written without error and reading the text back yields canon(p)
             (canon written here from the property text: body literals negative-first, minimize weights >= 0 on the
             complementary literal with priorities 0,1,.., compute statement as integrity constraints, empty
             disjunctive heads as the false atom);
         (2) a program outside the fragment is refused (ERR), never written incorrectly."""
from props import progs
from vlib import runner

ID = "C05"
MODULE = "PotasscoVerif.Props.C05"
EXTRA_MODULES = ["PotasscoVerif.Props.C05m"]
THEOREMS = ["PotasscoVerif.C05m.C05_modes", "PotasscoVerif.C05.C05_roundtrip", "PotasscoVerif.C05.C05_weights_kept", "PotasscoVerif.C05.C05_body_order",
            "PotasscoVerif.C05.C05_refused_rule", "PotasscoVerif.C05.C05_refused_sum", "PotasscoVerif.C05.C05_refused_output",
            "PotasscoVerif.C05.C05_refused_external", "PotasscoVerif.C05.C05_refused_assume", "PotasscoVerif.C05.C05_refused_incremental",
            "PotasscoVerif.C05.C05_refused_unsupported", "PotasscoVerif.C05.C05_value_code",
            "PotasscoVerif.SmRT.ruleLine_rt", "PotasscoVerif.SmRT.rulesLoop_rt", "PotasscoVerif.SmRT.symbolsLoop_rt", "PotasscoVerif.SmRT.compute_rt",
            "PotasscoVerif.SmRT.step_rt", "PotasscoVerif.SmRT.run_step", "PotasscoVerif.SmRT.write_prog", "PotasscoVerif.SmRT.sm_stepsLoop_rt"]
PARTIAL = {"buffering": "C05_roundtrip is about the reader model on the abstract character stream; that the buffered stream shows exactly that stream is C09_transparent (cited); "
           "the optional 'E' section and symbol-table conversions (options of SmodelsInput) are not produced by SmodelsOutput and are outside this property (C07/C08)"}
BSIZES = (16, 17, 4096)
RULE = ("call sequences in the writer's order (rules/minimize/externals, symbols, at most one compute statement per step), 1-3 steps with extensions, any false atom, "
        "bodies with any mix of positive/negative literals, weights 0..2^31-1 (negative for minimize); plus out-of-fragment variants (empty head without false atom, negative bound, "
        "choice head with sum body, compound output condition, two compute statements, rule after symbol, external/steps without extensions, unsupported directives); "
        "distinct = distinct (ext,false,calls); non-trivial = at least 4 calls besides I/B/E")
TRUSTED = []
ASSUMPTIONS = ["symbol names without line ends and NUL; |weights| <= 2^31-1"]
TECHNIQUE = "Lean 4 round-trip theorem read(write(p)) = canon(p) for every program of the fragment (writer section state machine in closed form; reader by induction over lines, sections, steps) + refusal characterisation + differential correspondence of both models with SmodelsOutput/SmodelsInput + canon round-trip oracle"
LEVEL_TEXT = ("C05_roundtrip: for EVERY program of the documented fragment — per step rules/integrity constraints via the false atom/cardinality and weight rules with bound >= 0/"
              "minimize statements/externals (with extensions), then symbol-table entries, then at most one compute statement; one step or any number with extensions; all arguments in "
              "range; any false atom — the writer model refuses nothing and the reader model, run on exactly the bytes written, delivers the canonical program (canonCalls: body literals "
              "negative-first = a permutation (C05_body_order), weights kept (C05_weights_kept), a negative minimize weight as its absolute value on the complementary literal, minimize "
              "priorities 0,1,.., symbol table and externals identical, compute statement as integrity constraints) and no error. C05_refused_*: for every kind of call exactly when the "
              "writer refuses it. Tied to the code per run: writer model == real SmodelsOutput (bytes and refusal), reader model == real SmodelsInput, canon(p) oracle on the implementation "
              "for BUF_SIZE 16/17/4096, extensions on/off.")
LEVEL_NOTE = "Full proof on the models + correspondence (~2.5k quick / 80k thorough programs). Trusted: Lean kernel+axioms, canon() in props/c05.py (written from the property text; the Lean canonCalls is its counterpart), harness."
I32 = 2**31 - 1

def lst(xs): return "-" if not xs else "/".join(str(x) for x in xs)

def gen(rng, in_fragment=True):
    ext = rng.random() < 0.5
    f = rng.choice([0, 1, 1, 7, I32]) if not in_fragment or rng.random() < 0.2 else rng.choice([1, 1, 9, I32])
    steps = rng.choice([1, 2, 3]) if ext and rng.random() < 0.4 else 1
    inc = steps > 1
    g = progs.G(rng, extremes=(rng.random() < 0.5))
    calls = ["I1" if inc else "I0"]
    for _ in range(steps):
        calls.append("B")
        for _ in range(rng.choice([0, 1, 3, rng.randint(0, 10)])):
            k = rng.choice(["R", "R", "R", "S", "S", "M"] + (["X"] if ext else []))
            if k == "R":
                ht = rng.randint(0, 1)
                head = g.atoms()
                if ht == 0 and not head and f == 0: head = [g.atom()]
                calls.append("R,%d,%s,%s" % (ht, lst(head), lst(g.lits())))
            elif k == "S":
                head = [g.atom()] if rng.random() < 0.8 or f == 0 else []
                n = g.n()
                if rng.random() < 0.4: body = [(g.lit(), 1) for _ in range(n)]
                else: body = [(g.lit(), rng.choice([0, 1, 2, I32, rng.randint(0, I32)])) for _ in range(n)]
                calls.append("S,0,%s,%d,%s" % (lst(head), rng.choice([0, 1, 2, I32, rng.randint(0, I32)]), progs.wl(body)))
            elif k == "M":
                body = [(g.lit(), rng.choice([0, 1, -1, I32, -I32, rng.randint(-I32, I32)])) for _ in range(g.n())]
                calls.append("M,%d,%s" % (g.i32(), progs.wl(body)))
            else:
                calls.append("X,%d,%d" % (g.atom(), rng.randint(0, 3)))
        for _ in range(rng.choice([0, 1, 2, 4])):
            name = bytes(rng.choice(b"abcxyz_(),\"0123456789 \t\xc3\xa4") for _ in range(rng.choice([0, 1, 3, 12, 30])))
            calls.append("O,%s,%d" % (progs.hexs(name), g.atom()))
        if rng.random() < 0.5: calls.append("A,%s" % lst(g.lits()))
        calls.append("E")
    if not in_fragment:
        k = rng.choice(["nofalse", "negbound", "choicesum", "output", "twoassume", "ruleaftersym", "ext", "unsupported", "disjsum", "inc"])
        pos = [i for i, c in enumerate(calls) if c == "E"][0]
        if k == "nofalse": f = 0; calls.insert(2, rng.choice(["R,0,-,1/-2", "S,0,-,1,1:1"]))
        elif k == "negbound": calls.insert(2, "S,0,3,%d,1:1/2:2" % rng.choice([-1, -I32 - 1]))
        elif k == "choicesum": calls.insert(2, "S,1,3,1,1:1")
        elif k == "disjsum": calls.insert(2, "S,0,3/4,1,1:1")
        elif k == "output": calls.insert(pos, rng.choice(["O,61,-", "O,61,1/2", "O,61,-3"]))
        elif k == "twoassume": calls.insert(pos, "A,1"); calls.insert(pos, "A,-2")
        elif k == "ruleaftersym": calls.insert(pos, "R,0,1,-"); calls.insert(pos, "O,61,1")
        elif k == "ext": ext = False; calls.insert(2, "X,1,1")
        elif k == "inc": ext = False; calls[0] = "I1"
        elif k == "unsupported": calls.insert(2, rng.choice(["P,1/2", "H,1,0,1,1,-", "G,0,1,-", "TN,1,2", "TA,0,1,-"]))
    return {"ext": 1 if ext else 0, "f": f, "calls": calls}

def canon(c):
    """what reading the written text must deliver (property C05)."""
    f, out = c["f"], []
    for w in c["calls"]:
        k = w.split(",")
        if w in ("I0", "I1", "B"):
            out.append(w)
            if w == "B": prio = 0; fhead = False; assumed = None; outputs = []; step_start = len(out)
            continue
        if k[0] == "R":
            ht, head, body = int(k[1]), ([] if k[2] == "-" else k[2].split("/")), ([] if k[3] == "-" else [int(x) for x in k[3].split("/")])
            if not head:
                if ht == 1: continue
                head = [str(f)]; fhead = True
            body = [x for x in body if x < 0] + [x for x in body if x >= 0]
            out.append("R,%d,%s,%s" % (ht, "/".join(head), lst(body)))
        elif k[0] == "S":
            head = [] if k[2] == "-" else k[2].split("/")
            if not head: head = [str(f)]; fhead = True
            wl = [] if k[4] == "-" else [tuple(int(y) for y in x.split(":")) for x in k[4].split("/")]
            wl = [p for p in wl if p[0] < 0] + [p for p in wl if p[0] >= 0]
            out.append("S,0,%s,%s,%s" % ("/".join(head), k[3], progs.wl(wl)))
        elif k[0] == "M":
            wl = [] if k[2] == "-" else [tuple(int(y) for y in x.split(":")) for x in k[2].split("/")]
            wl = [((l if w_ >= 0 else -l), abs(w_)) for l, w_ in wl]
            wl = [p for p in wl if p[0] < 0] + [p for p in wl if p[0] >= 0]
            out.append("M,%d,%s" % (prio, progs.wl(wl))); prio += 1
        elif k[0] == "X": out.append(w)
        elif k[0] == "O": outputs.append(w)
        elif k[0] == "A": assumed = [] if k[1] == "-" else [int(x) for x in k[1].split("/")]
        elif w == "E":
            out.extend(outputs)
            a = assumed or []
            for x in a:
                if x > 0: out.append("R,0,-,%d" % -x)
            for x in a:
                if x < 0: out.append("R,0,-,%d" % -x)
            if fhead and f: out.append("R,0,-,%d" % f)
            out.append("E")
    return out

def corpus(ctx):
    return [{"ext": 0, "f": 1, "calls": "I0 B M,0,1:-2147483648 E".split(), "frag": False, "corpus_ub": True}]     # |INT_MIN| does not fit: must not be UB

def generate(ctx):
    n = {"quick": 2500, "thorough": 80000}[ctx.tier]
    out = []
    for _ in range(n):
        infrag = ctx.rng.random() < 0.7
        c = gen(ctx.rng, infrag); c["frag"] = infrag
        out.append(c)
    return out

def evaluate(ctx, cases):
    wl = ["sw %d %d %s" % (c["ext"], c["f"], " ".join(c["calls"])) for c in cases]
    wi = ctx.impl(wl, 4096); wm = ctx.model(wl)
    todo = []
    for c, i, m in zip(cases, wi, wm):
        ctx.count()
        nd = sum(1 for w in c["calls"] if "," in w)
        if nd >= 4: ctx.nontrivial((c["ext"], c["f"], " ".join(c["calls"])))
        ctx.dist["in-fragment" if c["frag"] else "out-of-fragment"] += 1
        ctx.sample({"ext": c["ext"], "f": c["f"], "calls": " ".join(c["calls"])[:200]}, 4)
        if not isinstance(i, str):
            ctx.fail("C05:writer-crash", "SmodelsOutput crashed / sanitizer abort", c, {"stderr": i[2][-1500:]}); continue
        ctx.compared += 1
        if i != m: ctx.disagree("SmodelsOutput:bytes+status", c, i[-600:], m[-600:])
        text, st = i.rsplit(" ", 1)
        if c["frag"]:
            if st != "OK": ctx.fail("C05:refuses-fragment", "a program inside the documented fragment was refused by the writer", c, {"impl": i[-200:]})
            else: todo.append((c, text))
        else:
            if c.get("corpus_ub"): continue
            if st == "OK" and not c.get("frag_unknown"):
                ctx.fail("C05:writes-unsupported", "a program outside the smodels fragment was written instead of being refused", c, {"text": bytes.fromhex(text)[:300].decode("latin-1") if text != "-" else ""})
    for B, cmd in [(b, "sr") for b in BSIZES] + [(4096, "sri")]:       # sri: the reader driven step by step (model readInc; C05_modes)
        rl = ["%s %d %s" % (cmd, c["ext"], t) for c, t in todo]
        ri = ctx.impl(rl, B)
        rm = ctx.model(rl) if B == 4096 else None
        for j, (c, t) in enumerate(todo):
            got = ri[j]
            cc = dict(c, B=B) if cmd == "sr" else dict(c, B=B, mode="I")
            if not isinstance(got, str):
                ctx.fail("C05:reader-crash", "SmodelsInput crashed on text written by SmodelsOutput", cc, {"stderr": got[2][-1500:]}); continue
            want = " ".join(canon(c)) + " OK"
            # the argument of initProgram is not part of the claim (the format has no header)
            g2, w2 = got.split(" ", 1)[1] if " " in got else got, want.split(" ", 1)[1]
            if g2 != w2:
                ctx.fail("C05:roundtrip", "reading back the written smodels text does not yield the program (up to the documented normalisation), BUF_SIZE %d" % B, cc,
                         {"got": got[:1200], "want": want[:1200], "text": bytes.fromhex(t)[:400].decode("latin-1") if t != "-" else ""})
            if rm is not None:
                ctx.compared += 1
                if got != rm[j]: ctx.disagree("SmodelsInput:calls", cc, got[:800], rm[j][:800])

def shrink_candidates(c):
    cs = c["calls"]
    for i in range(len(cs)):
        if "," not in cs[i]: continue
        yield dict(c, calls=cs[:i] + cs[i + 1:])
