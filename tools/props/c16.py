"""C16 — string <-> value conversion round-trips and rejects what does not fit.

sc <type> p|P <hex> : impl = Potassco::xconvert(const char*, T&, &end) (P: with a stale errno == ERANGE), model = Model/StringConvert.lean
sc <type> w <value> : impl = Potassco::xconvert(std::string&, T), model likewise
sc enum <E>, sc pair|vec ... : composite round trips on the implementation (oracle only)
oracle (Python big integers, written from the property): a string [sign][0x|0]digits[trailing] is accepted for T iff the
number it denotes in the base the library assigns lies in T's range; the value is exact; 0 <= end <= len; whole-string
casts fail when characters remain; value -> string -> value is the identity for all scalar types, pairs and lists."""
ID = "C16"
MODULE = "PotasscoVerif.Props.C16"
THEOREMS = ["PotasscoVerif.C16.C16_roundtrip_signed", "PotasscoVerif.C16.C16_roundtrip_unsigned", "PotasscoVerif.C16.C16_decimal_exact",
            "PotasscoVerif.C16.C16_roundtrip_bool", "PotasscoVerif.C16.C16_roundtrip_char", "PotasscoVerif.C16.strto_decimal",
            "PotasscoVerif.C16.C16_hex_signed", "PotasscoVerif.C16.C16_hex_unsigned", "PotasscoVerif.C16.C16_octal_signed", "PotasscoVerif.C16.C16_octal_unsigned",
            "PotasscoVerif.C16.C16_keyword_imax", "PotasscoVerif.C16.C16_keyword_imin", "PotasscoVerif.C16.C16_keyword_umax", "PotasscoVerif.C16.C16_keyword_minus_one",
            "PotasscoVerif.C16.C16_unsigned_rejects_negative",
            "PotasscoVerif.C16.matched_signed", "PotasscoVerif.C16.matched_unsigned", "PotasscoVerif.C16.C16_pair_roundtrip", "PotasscoVerif.C16.C16_pair_paren",
            "PotasscoVerif.C16.C16_list_roundtrip", "PotasscoVerif.C16.C16_pair_int_unsigned", "PotasscoVerif.C16.C16_list_int", "PotasscoVerif.C16.C16_decimal_exact_unsigned",
            "PotasscoVerif.C16.C16_enum_Head_t", "PotasscoVerif.C16.C16_enum_Body_t", "PotasscoVerif.C16.C16_enum_Value_t", "PotasscoVerif.C16.C16_enum_Heuristic_t", "PotasscoVerif.C16.C16_enum_Directive_t",
            "PotasscoVerif.C16.C16_enum_Theory_t", "PotasscoVerif.C16.C16_enum_Tuple_t", "PotasscoVerif.C16.C16_enum_Clause_t", "PotasscoVerif.C16.C16_enum_Statistics_t", "PotasscoVerif.C16.C16_enum_roundtrip"]
EXTRA_MODULES = ["PotasscoVerif.Props.C16b", "PotasscoVerif.Props.C16c", "PotasscoVerif.Props.C16d"]
PARTIAL = {}
BSIZES = (4096,)
RULE = ("values: boundary neighbourhoods of every 32/64-bit type, powers of two and ten, random (thorough: additionally a 2^20-value stratified sweep of the 32-bit types); strings: optional sign, "
        "base prefix (0x/0X/0), digit strings of 1..40 digits incl. values around every type limit in bases 8/10/16, keywords imax/imin/umax/-1, optional trailing characters; "
        "distinct = distinct (type, text); non-trivial = numeric text of at least 2 characters")
TRUSTED = ["strtoll/strtoull contract as written out in Model/StringConvert.lean `strto`"]
ASSUMPTIONS = ["strings without leading blanks and without NUL; char 0 and the empty list have no text representation"]
TECHNIQUE = "Lean 4 theorems on the conversion model (decimal round trip for all values, accepted iff in range for digit strings of any length) + differential correspondence with xconvert + big-integer oracle"
LEVEL_TEXT = ("C16_roundtrip_signed/_unsigned: for EVERY value of every signed/unsigned integer type within 64 bit the written text reads back as exactly that value with the end "
              "position at the end (max written as 'umax'); C16_decimal_exact: a decimal text with a digit string of ANY length is accepted for a signed type iff the denoted number "
              "lies in the type's range, value exact, end right behind the digits; bool/char round trips. C16_hex_signed/_unsigned, C16_octal_signed/_unsigned (Props/C16b.lean): `0x`/`0` prefix, a digit string of ANY length in that base, then no digit of the base: accepted iff the denoted "
              "number fits the type (numbers beyond 64 bit are refused, never wrapped), value exact, end right behind the digits; C16_keyword_*: imax, imin, umax, -1; C16_unsigned_rejects_negative; C16_decimal_exact_unsigned (Props/C16c.lean). "
              "Props/C16c.lean: pairs and non-empty lists of matched members (text -> exactly the value, end at the end; with or without parentheses), instances for pair<int,unsigned> and vector<int>. "
              "Props/C16d.lean: for each of the library's nine enumerations (declaration text and constant table regenerated from the headers on every run) every constant is written as its name and the name, alone or "
              "followed by a separator, is converted back to exactly that constant; numbers outside the declared constants are refused (finite tables, decided by the kernel over the whole table).  Composite types and enumerations: decided by "
              "model == xconvert on generated texts/values and by an independent big-integer oracle on the implementation (incl. a stale-errno variant).")
LEVEL_NOTE = ("Proved about Model/StringConvert.lean with strtoll/strtoull as the written-out contract `strto`; model==code on ~12k (quick) / 300k + 2^21 stratified values (thorough). "
              "The exhaustive 2^32 sweep planned in DESIGN.md is replaced by the theorem for all values plus the stratified sweep. Trusted: Lean kernel+axioms, harness, ref_parse() oracle.")

def hexs(b): return "-" if not b else "".join("%02x" % c for c in b)
RANGES = {"i32": (-2**31, 2**31 - 1), "u32": (0, 2**32 - 1), "i64": (-2**63, 2**63 - 1), "u64": (0, 2**64 - 1), "l64": (-2**63, 2**63 - 1), "ul64": (0, 2**64 - 1)}
SIGNED = ("i32", "i64", "l64")

def ref_parse(t, s):
    """expected 'ok:v:end' / 'fail:0' for a numeric type, by the property (not by the code)."""
    lo, hi = RANGES[t]
    if not s: return "fail:0"
    if t in SIGNED:
        if s.startswith(b"imax"): return "ok:%d:4" % hi
        if s.startswith(b"imin"): return "ok:%d:4" % lo
    else:
        if s[0:1] == b"-" and s[1:2] != b"1": return "fail:0"
        if s.startswith(b"imax"): return "ok:%d:4" % (hi >> 1)
        if s.startswith(b"umax"): return "ok:%d:4" % hi
        if s.startswith(b"-1"): return "ok:%d:2" % hi
    # base as the library documents it: 0x -> 16, 0[0-7] -> 8, else 10 (looked up on the unsigned text start)
    base = 10
    if s[0:1] == b"0" and s[1:2] in (b"x", b"X"): base = 16
    elif s[0:1] == b"0" and len(s) > 1 and s[1:2] in b"01234567": base = 8
    i, neg = 0, False
    if s[i:i + 1] in (b"+", b"-"): neg = s[i:i + 1] == b"-"; i += 1
    if base == 16 and s[i:i + 2] in (b"0x", b"0X") and i + 2 < len(s) and s[i + 2:i + 3] in b"0123456789abcdefABCDEF": i += 2
    digs = b"0123456789abcdefghijklmnopqrstuvwxyz"[:base]
    j = i
    while j < len(s) and s[j:j + 1].lower() in digs and s[j:j+1] != b"": j += 1
    if j == i: return "fail:0"
    v = int(s[i:j], base) * (-1 if neg else 1)
    if not (lo <= v <= hi): return "fail:0"
    return "ok:%d:%d" % (v, j)

def numeric_text(rng, t):
    lo, hi = RANGES[t]
    base = rng.choice([10, 10, 10, 16, 8])
    k = rng.random()
    if k < 0.5:
        v = rng.choice([lo, lo - 1, lo + 1, hi, hi + 1, hi - 1, 0, 1, -1, 2**31, 2**31 - 1, 2**32, 2**32 - 1, 2**63, 2**63 - 1, 2**64, 2**64 - 1, 2**64 + 1, -2**63 - 1, -2**31, -2**31 - 1, 10**30])
    elif k < 0.8: v = rng.randint(lo - 5, hi + 5) if rng.random() < 0.5 else rng.randint(-100, 100)
    else: v = rng.randint(-10**40, 10**40)
    mag = abs(v)
    body = {10: "%d" % mag, 16: rng.choice(["0x", "0X"]) + ("%x" % mag if rng.random() < 0.5 else "%X" % mag), 8: "0" + "%o" % mag}[base]
    sign = "-" if v < 0 else rng.choice(["", "", "+"])
    if rng.random() < 0.05: body = "0" * rng.randint(1, 3) + body if base == 10 else body
    trail = rng.choice(["", "", "", ",5", "x", " ", "z9", ".0", "8", "g"])
    return (sign + body + trail).encode()

def corpus(ctx):
    cs = []
    for t in RANGES:
        for s in [b"imax", b"imin", b"umax", b"-1", b"-12", b"-", b"+", b"0x", b"0x10", b"-0x10", b"08", b"00", b"0", b"18446744073709551616", b"-9223372036854775809", b"9223372036854775808"]:
            cs.append({"t": t, "op": "p", "arg": hexs(s)}); cs.append({"t": t, "op": "P", "arg": hexs(s)})
    for e in ENUMS: cs.append({"t": "enum", "op": e, "arg": None})
    # the library's own prefix-sharing constants as a generic enumeration class
    rep = "Learnt = 0, Static = 1, Volatile = 2, VolatileStatic = 3"
    for tx in (b"Volatile", b"VolatileStatic", b"VolatileS", b"Static", b"Statics", b"Volatile,3"): cs.append(enumc_case(rep, 0, 3, "s", tx))
    return cs

ENUMS = ("Head_t", "Body_t", "Value_t", "Heuristic_t", "Directive_t", "Theory_t", "Tuple_t", "Clause_t", "Statistics_t")
ENAMES = ["A", "Ab", "Abc", "B", "Bar", "Barx", "Volatile", "VolatileStatic", "Atom", "AtomWithGuard", "X_1", "x", "True", "Truely", "Level"]

def enumc_case(rep, lo, hi, op, arg):
    return {"t": "enumc", "op": op, "arg": hexs(arg) if op == "s" else str(arg), "rep": rep, "min": lo, "max": hi}

def enum_entries(rep, lo):
    """(name, value) in declaration order; a constant without '= v' is its predecessor + 1 (the first one: the minimum)"""
    out = []; cur = lo
    for i, part in enumerate(rep.split(",")):
        part = part.strip()
        if "=" in part: nm, v = part.split("="); nm = nm.strip(); cur = int(v)
        else: nm = part; cur = lo if i == 0 else cur + 1
        out.append((nm, cur))
    return out

def enumc_expected(c):
    ents = enum_entries(c["rep"], c["min"])
    if c["op"] == "i":
        v = int(c["arg"])
        for nm, x in ents:
            if x == v: return hexs(nm.encode())
        return "none"
    t = bytes.fromhex(c["arg"]).decode() if c["arg"] != "-" else ""
    if t and (t[0].isdigit() or t[0] == "-"):
        v = int(t)
        ok = c["min"] <= v <= c["max"] and any(x == v for _, x in ents)
        return "n:%d:%d" % (len(t), v) if ok else "n:0:-"
    key = t
    for ch in " ,=":
        k = key.find(ch)
        if k >= 0: key = key[:k]
    for nm, x in ents:
        if nm == key: return "n:%d:%d" % (len(key), x)
    return "n:0:-"

def gen_enumc(rng):
    names = rng.sample(ENAMES, rng.randint(2, 6))
    lo = rng.choice([0, 0, 0, -3, 1])
    parts = []; cur = lo; vals = []
    for i, nm in enumerate(names):
        if i == 0 or rng.random() < 0.5:
            cur = lo if i == 0 else cur + rng.randint(1, 3)
            parts.append("%s%s%d" % (nm, rng.choice([" = ", " = ", "=", " =", "= ", "  =  "]), cur))
        else:
            cur += 1; parts.append(nm)
        vals.append(cur)
    sp = rng.choice([", ", ", ", ",", " , ", ",  "])
    rep = sp.join(parts); hi = vals[-1]
    if rng.random() < 0.3: return enumc_case(rep, lo, hi, "i", rng.choice(vals + [hi + 1, lo - 1, rng.randint(lo, hi)]))
    nm = rng.choice(names + ENAMES[:4])
    tx = rng.choice([nm, nm, nm + "x", nm + "1", nm + "_", nm[:-1], nm + ",rest", nm + " ", nm + "=1", nm.lower(), nm + "Static", str(rng.choice(vals)), str(hi + 1), str(rng.randint(lo - 1, hi + 1))])
    return enumc_case(rep, lo, hi, "s", tx.encode())

def generate(ctx):
    n = {"quick": 12000, "thorough": 300000}[ctx.tier]
    rng = ctx.rng
    out = []
    for _ in range(n):
        k = rng.random()
        t = rng.choice(list(RANGES))
        if k < 0.5: out.append({"t": t, "op": rng.choice(["p", "p", "P"]), "arg": hexs(numeric_text(rng, t))})
        elif k < 0.8:
            lo, hi = RANGES[t]
            cand = [lo, lo + 1, hi, hi - 1, 0, 1, -1 if lo < 0 else 2, rng.randint(lo, hi)] + [b for b in (2**15 - 1, 2**16 - 1, 2**31 - 1, 2**31, 2**32 - 1, 2**32, 2**63 - 1, 2**63, -2**31, -2**31 - 1) if lo <= b <= hi]   # the extreme values of EVERY width: one type's 'max' spelling must not leak into a wider one
            v = rng.choice(cand)
            out.append({"t": t, "op": "w", "arg": str(v)})
        elif k < 0.86: out.append({"t": "bool", "op": "p", "arg": hexs(rng.choice([b"1", b"0", b"no", b"on", b"yes", b"off", b"true", b"false", b"maybe", b"", b"truex", b"10", b"t"]))})
        elif k < 0.9: out.append({"t": "char", "op": "p", "arg": hexs(rng.choice([b"a", b"\\t", b"\\n", b"\\v", b"\\", b"\\x", b"", b"ab", bytes([rng.randint(1, 255)])]))})
        elif k < 0.93: out.append({"t": "char", "op": "w", "arg": str(rng.randint(1, 255))})
        elif k < 0.95: out.append({"t": "bool", "op": "w", "arg": str(rng.randint(0, 1))})
        elif k < 0.965: out.append(gen_enumc(rng))
        elif k < 0.972:
            a, b = rng.choice([-2**31, 2**31 - 1, 0, rng.randint(-2**31, 2**31 - 1)]), rng.choice([0, 2**32 - 1, rng.randint(0, 2**32 - 1)])
            out.append({"t": "pair", "op": "w", "arg": "%d,%d" % (a, b)})
        elif k < 0.98:
            vs = [rng.choice([-2**31, 2**31 - 1, 0, rng.randint(-2**31, 2**31 - 1)]) for _ in range(rng.randint(1, 6))]
            out.append({"t": "vec", "op": "w", "arg": ",".join(map(str, vs))})
            if rng.random() < 0.5:      # a list as the second member of a pair: written into a string that already has content
                us = [rng.choice([0, 1, 7, 2**32 - 1, 2**32 - 2, rng.randint(0, 2**32 - 1)]) for _ in range(rng.randint(1, 4))]
                out.append({"t": "pvec", "op": "w", "arg": "%d;%s" % (rng.choice([0, 3, 2**32 - 1]), ",".join(map(str, us)))})
        else:
            # composite TEXTS (model == implementation): elements in every spelling, brackets/parentheses present, missing or unbalanced, separators doubled,
            # trailing or missing, elements out of range or not numeric, junk behind
            def el(): return rng.choice([numeric_text(rng, rng.choice(["i32", "u32"])), b"%d" % rng.randint(-5, 5), b"", b"x", b"imax", b"umax", b"-1", b"2147483648", b"-2147483649", b"4294967296", b"0x1f", b"017"])
            tt = rng.choice(["pair", "vec"])
            parts = [el() for _ in range(rng.choice([0, 1, 2, 2, 2, 3] if tt == "pair" else [0, 1, 2, 3, 5]))]
            body = rng.choice([b",", b",", b",", b",,", b";", b" ,"]).join(parts) if rng.random() < 0.2 else b",".join(parts)
            op, cl = (b"(", b")") if tt == "pair" else (b"[", b"]")
            text = rng.choice([b"", b"", op, op, cl]) + body + rng.choice([b"", b"", cl, cl, b",", cl + b"x", b" "])
            out.append({"t": tt, "op": "p", "arg": hexs(text.replace(b"\x00", b""))})
    if ctx.tier == "thorough":
        for t in ("i32", "u32"):
            lo, hi = RANGES[t]
            step = (hi - lo) // (1 << 20)
            for i in range(1 << 20): out.append({"t": t, "op": "w", "arg": str(lo + i * step + rng.randint(0, step - 1))})
        ctx.note("stratified sweep of 2^20 values of each 32-bit type added (value -> string -> value)")
    return out

def evaluate(ctx, cases):
    def line(c):
        if c["t"] == "enumc": return "sc enumc %s %d %d %s %s" % (hexs(c["rep"].encode()), c["min"], c["max"], c["op"], c["arg"] or "-")
        return "sc %s %s%s" % (c["t"], c["op"], "" if c["arg"] is None else " " + c["arg"])
    lines = [line(c) for c in cases]
    impl = ctx.impl(lines)
    modelable = [k for k, c in enumerate(cases) if c["t"] in RANGES or c["t"] in ("bool", "char", "pair", "vec", "enumc")]
    mres = dict(zip(modelable, ctx.model([lines[k] if cases[k]["t"] == "enumc" else "sc %s %s %s" % (cases[k]["t"], "p" if cases[k]["op"] == "P" else cases[k]["op"], cases[k]["arg"]) for k in modelable])))
    back = []   # round trips: write results to be parsed again
    for k, (c, i) in enumerate(zip(cases, impl)):
        ctx.count()
        ctx.dist["%s:%s" % (c["t"], c["op"] if c["t"] != "enum" else "rt")] += 1
        ctx.sample({"case": lines[k][:120], "impl": (i if isinstance(i, str) else "CRASH")[:100]}, 6)
        if not isinstance(i, str):
            ctx.fail("C16:crash", "crash / sanitizer abort in a conversion", c, {"stderr": i[2][-1500:]}); continue
        if c["t"] == "enumc":
            ctx.compared += 1
            if i != mres[k]: ctx.disagree("enumclass:%s" % c["op"], c, i, mres[k])
            exp = enumc_expected(c)
            if i != exp: ctx.fail("C16:enum-class", "an enumeration name/value is not converted to exactly the constant with that name/value (first declared wins; a longer or shorter word is another word)", c, {"impl": i, "expected": exp})
            else: ctx.nontrivial(("enumc", c["rep"], c["arg"]))
            continue
        if c["t"] == "enum":
            if "!" in i or "ACCEPTS" in i: ctx.fail("C16:enum-roundtrip", "an enumeration constant does not round-trip or an out-of-range code is accepted", c, {"impl": i})
            continue
        if k in mres:
            ctx.compared += 1
            if i != mres[k]: ctx.disagree("xconvert:%s" % c["op"].lower(), c, i, mres[k])
        if c["op"] in ("p", "P"):
            s = bytes.fromhex(c["arg"]) if c["arg"] != "-" else b""
            if len(s) >= 2: ctx.nontrivial((c["t"], c["arg"]))
            if i.startswith("END-OUT"): ctx.fail("C16:end-outside-string", "reported end position outside the string", c, {"impl": i}); continue
            if c["t"] in RANGES:
                want = ref_parse(c["t"], s)
                if i != want:
                    sig = "C16:accepts-out-of-range" if want.startswith("fail") else ("C16:rejects-in-range" if i.startswith("fail") else "C16:wrong-value")
                    ctx.fail(sig, "text %r for %s: library says %s, the denoted number/range says %s" % (s[:50], c["t"], i, want), c, None)
        elif c["op"] == "w":
            back.append((c, i))
    # value -> string -> value
    bl, meta = [], []
    for c, h in back:
        if c["t"] in ("pair", "vec"): bl.append("sc %s p %s" % (c["t"], h)); meta.append(c)
        else: bl.append("sc %s p %s" % (c["t"], h)); meta.append(c)
    bi = ctx.impl(bl) if bl else []
    for c, r in zip(meta, bi):
        if not isinstance(r, str): ctx.fail("C16:crash", "crash while reading back", c, {"stderr": r[2][-800:]}); continue
        if c["t"] in RANGES or c["t"] in ("bool", "char"):
            ok = r.startswith("ok:") and r.split(":")[1] == c["arg"]
        elif c["t"] == "pair": ok = r.startswith("tok2:" + c["arg"] + ":")
        elif c["t"] == "pvec": ok = r.startswith("tok2:" + c["arg"] + ":")
        else: ok = r.startswith("tok%d:%s:" % (len(c["arg"].split(",")), c["arg"]))
        if not ok: ctx.fail("C16:roundtrip", "value %s of %s is written as text that reads back as %s" % (c["arg"], c["t"], r), c, None)

def shrink_candidates(c):
    return []
