"""C08 — heuristic, edge and external directives survive the trip through smodels format.

cv 1 <call>*  ->  sw 1 0 <converter calls>  ->  so 1 1 1 <filter> <smodels text>
impl   : real SmodelsConvert (extensions on), real SmodelsOutput, real SmodelsInput with convertEdges/convertHeuristic[/dropConverted]
model  : Model/Convert.lean, Model/SmodelsOut.lean, Model/SmodelsSym.lean — compared at every stage
oracle : props/asp_sem.py on the ORIGINAL program and on the program read back by the implementation: stable models correspond under
         the converter's own map; in every model the same heuristic modifications are active (target, modifier, bias, priority), the
         same edges up to ONE injective renaming of nodes, externals keep their value, heuristics on atoms outside the program are
         dropped; with filtering no _heuristic/_edge symbol is shown and the other shown names (apart from _atom(n)) are unchanged."""
from props import progs, asp_sem
from itertools import permutations
ID = "C08"
MODULE = "PotasscoVerif.Props.C08"
EXTRA_MODULES = ["PotasscoVerif.Props.C07", "PotasscoVerif.Props.C08b", "PotasscoVerif.Props.C08c", "PotasscoVerif.Lemmas.ConvertHeu", "PotasscoVerif.Props.C02x", "PotasscoVerif.Props.C08d"]
THEOREMS = ["PotasscoVerif.C02.C02_externals_passed", "PotasscoVerif.C08.C08_heuristic_text_roundtrip", "PotasscoVerif.C08.C08_edge_text_roundtrip", "PotasscoVerif.C08.C08_nodes_injective",
            "PotasscoVerif.C08.C08_filter_hides", "PotasscoVerif.C07.C07_assign_values", "PotasscoVerif.C08.C08_symbol_spec", "PotasscoVerif.C08.C08_symbols_fold",
            "PotasscoVerif.C08.C08_heuristics_resolved", "PotasscoVerif.C08.findAtom_remember", "PotasscoVerif.C08.symbolsLoopO_complete", "PotasscoVerif.C08.C08_table_read", "PotasscoVerif.C08.C08_edges_active", "PotasscoVerif.C08.C08_steps_edges_active", "PotasscoVerif.C08.C08_steps_edges_active_ext", "PotasscoVerif.C08.edgeName_inj", "PotasscoVerif.C08.C08_heuristics_active", "PotasscoVerif.C02.flush_heu_outs", "PotasscoVerif.C02.flush_heu_named", "PotasscoVerif.C02.apply_plainJH"]
PARTIAL = {"C08_roundtrip (several steps)": "proved: C08_heuristics_active — for a program step with #heuristic directives converted with the extensions on, answer sets correspond one to one and every directive on an atom of the program is emitted as `_heuristic(name,modifier,bias,priority)` (same modifier, bias, priority) on an atom that is true under E X exactly when the condition holds under X, `name` being a name under which the emitted program shows the target's atom (an output directive's name or the generated `_atom(n)`); C08_edges_active — for a program step with #edge directives converted with the extensions on, answer sets correspond one to one and under corresponding answer sets an edge (s,t) is active iff the emitted program shows `_edge(s,t)` (C02's invariants extended by edge calls); further: the text of each helper predicate written by the converter is parsed back to exactly its fields; reading the TEXT of a whole symbol table of ordinary symbols "
           "and helper names (both conversions on) delivers exactly the entries' contributions — ordinary symbols shown, `_edge` helpers as acyclicity edges on their condition atoms with nodes numbered injectively by first "
           "occurrence, `_heuristic` helpers queued and resolved at the end BY NAME to the atom recorded first under the target name (same modifier, bias, priority, condition atom), unresolvable ones dropped, helpers hidden "
           "exactly under filtering (C08_table_read, C08_symbols_fold, C08_heuristics_resolved, findAtom_remember); the external value coding is a bijection; C02_externals_passed: with the extensions on the converter emits, for every pending external, the image of its atom with the LAST value declared (every external keeps its value), and C08_edges_active / C08_heuristics_active hold for steps with ANY external directives (read by `progOf` on both sides). That whole programs keep their active modifications in every "
           "answer set (the converter's condition atoms being equivalent to the conditions: C02) is decided by the answer-set oracle on the implementation's round trip and by model == implementation at each of the three stages. Several steps: C08_steps_edges_active (edges given in ANY step, programs without external directives, either setting of the extension) and C08_steps_edges_active_ext (any externals, extensions on) are proved from C02_steps_equivalence; heuristics over several steps are covered by the per-step directive oracle only"}
BSIZES = (4096,)
RULE = ("C02-style programs over 2..5 atoms extended with 0..4 heuristic directives (all six modifiers, bias incl. INT_MIN/INT_MAX, priority 0..2^31-1, conditions empty / single / "
        "negative / compound), 0..3 edge directives (node numbers incl. negative and repeated, arbitrary conditions), externals of all values; targets named once, twice, not at all, "
        "or not occurring in the program; with and without filtering; plus a stream of arbitrary symbol names fed to the option-enabled reader for the correspondence; "
        "distinct = distinct call lists; non-trivial = at least one heuristic or edge and 3 directives")
TRUSTED = ["props/asp_sem.py", "sscanf(\"_acyc_%*d_%n%*d_%n%*d%n\") = literal, blanks, optional sign, digits", "strtol base 10"]
ASSUMPTIONS = ["no two atoms share a display name (targets are identified by name)", "display names given by output directives are plain predicate arguments (no unbalanced parenthesis, top-level comma or quote) — otherwise the _heuristic text is ambiguous",
               "priorities <= 2^31-1 (the reader parses them as int)"]
TECHNIQUE = "Lean 4 theorems tying the converter's helper-predicate texts to the reader's string matchers (parse-back of every field, injective node numbering, filtering, external coding) + differential correspondence at three stages + answer-set oracle on the round trip"
LEVEL_TEXT = ("For EVERY name (plain argument), modifier, bias in the int range and priority ≤ 2^31-1: C08_heuristic_text_roundtrip (the text '_heuristic(name,mod,bias,prio)' the converter writes is "
              "matched by matchDomHeuPred to exactly these four fields, nothing left over); C08_edge_text_roundtrip ('_edge(s,t)' gives back the decimal texts of s and t); C08_nodes_injective "
              "(NodeTab numbers two node names equally iff they are equal: the renaming of nodes is injective); C08_filter_hides (with dropConverted a recognised helper produces no output "
              "call, every other symbol exactly one); C07_assign_values (the value coding of rule 91 is decoded to the value that was encoded, for free/true/false; release is rule 92). Whole round trips: oracle + "
              "correspondence.")
LEVEL_NOTE = ("Partial proof + correspondence at three stages (~3k quick / 80k thorough programs × filter on/off, plus ~2k arbitrary symbol tables) + answer-set oracle. Trusted: Lean kernel+axioms, "
              "asp_sem.py, sscanf/strtol contracts, harness, generator in props/c08.py. D15 (INT_MIN bias) repaired.")

I32 = 2**31 - 1
HEU = ["level", "sign", "factor", "init", "true", "false"]
NAMES = [b"a", b"b", b"p(1)", b"q(x,y)", b"c", b'dir("C:\\\\")', b's("a\\"b,c")', b't("x)y")']   # string arguments: escaped backslash before the closing quote, escaped quote, separators inside a string

def gen_case(rng):
    n = rng.randint(2, 5)
    atom = lambda: rng.randint(1, n) + 2
    exts = set(rng.sample(range(3, n + 3), rng.randint(0, min(2, n))))
    hatom = lambda: rng.choice([a for a in range(3, n + 3) if a not in exts] or [n + 3])
    lit = lambda: rng.choice([1, 1, -1]) * atom()
    lits = lambda k=2: [lit() for _ in range(rng.randint(0, k))]
    st = []
    for _ in range(rng.randint(1, 5)):
        k = rng.choice(["R", "R", "S", "X"])
        if k == "R": st.append(("R", rng.randint(0, 1), [hatom() for _ in range(rng.choice([0, 1, 1, 2]))], lits()))
        elif k == "S": st.append(("S", 0, [hatom()], rng.choice([0, 1, 2]), [(lit(), rng.choice([1, 1, 2])) for _ in range(rng.randint(0, 3))]))
        elif exts: st.append(("X", rng.choice(sorted(exts)), rng.randint(0, 3)))
    names = rng.sample(NAMES, len(NAMES))
    for a in range(3, n + 3):
        r = rng.random()
        if r < 0.5: st.append(("O", names[a % len(names)].hex(), [a]))
        if r < 0.1: st.append(("O", (b"second%d" % a).hex(), [a]))          # a second name for the same atom; names are never shared between atoms
    for _ in range(rng.randint(0, 4)):
        tgt = atom() if rng.random() < 0.9 else 30
        st.append(("H", tgt, rng.randint(0, 5), rng.choice([0, 1, -1, 5, -7, I32, -I32 - 1]), rng.choice([0, 1, 2, 9, I32]), lits()))
    for _ in range(rng.randint(0, 3)):
        st.append(("G", rng.choice([0, 1, 2, -1, 7]), rng.choice([0, 1, 2, -1, 7]), lits()))
    rng.shuffle(st)
    return {"filter": rng.randint(0, 1), "steps": [st]}

def gen_case_multi(rng):
    """an incremental program of two or three steps: later steps put heuristics on atoms NAMED in an earlier step and add edges over
    graph nodes of earlier steps (the reader's name and node tables have to live across steps)"""
    c = gen_case(rng)
    st1 = c["steps"][0]
    named = sorted(set(s[2][0] for s in st1 if s[0] == "O" and len(s[2]) == 1 and s[2][0] > 0))
    occurring = sorted(set(a for s in st1 if s[0] in "RS" for a in s[2]) | set(abs(l) for s in st1 if s[0] == "R" for l in s[3]))
    nodes = sorted(set(x for s in st1 if s[0] == "G" for x in (s[1], s[2]))) or [0, 1]
    steps = [st1]
    for _ in range(rng.choice([1, 1, 2])):
        st = []
        for _ in range(rng.randint(1, 3)):
            tgt = rng.choice(named or occurring or [3])
            st.append(("H", tgt, rng.randint(0, 5), rng.choice([1, -1, 5]), rng.choice([0, 1, 2]), [rng.choice(occurring)] if occurring and rng.random() < 0.6 else []))
        for _ in range(rng.randint(0, 2)):
            st.append(("G", rng.choice(nodes + [9]), rng.choice(nodes + [9]), [rng.choice(occurring)] if occurring and rng.random() < 0.6 else []))
        rng.shuffle(st); steps.append(st)
    return {"filter": rng.randint(0, 1), "steps": steps, "multi": 1}

def words_multi(c):
    w = ["I1"]
    for st in c["steps"]: w += words({"steps": [st]})[1:]
    return w

def check_multi(c, back_words, amap):
    """directive-level oracle for several steps: every heuristic on a mapped target comes back in ITS step on the image of its target with the
    same modifier, bias and priority; the edges of all steps agree up to ONE injective renaming of the graph nodes"""
    bsteps = []; cur = None
    for w in back_words:
        if w == "B": cur = []
        elif w == "E": bsteps.append(cur); cur = None
        elif cur is not None: cur.append(w)
    if len(bsteps) != len(c["steps"]): return ("C08:steps", "the number of steps changed", {"want": len(c["steps"]), "got": len(bsteps)})
    allo, allb = [], []
    occurs = set()          # atoms the program has mentioned so far (a heuristic's target alone does not make an atom occur)
    for k, (st, bw) in enumerate(zip(c["steps"], bsteps)):
        orig = parse(words({"steps": [st]})); back = parse(bw)
        for s_ in st:
            if s_[0] == "R" and (s_[2] or s_[1] == 0): occurs |= set(s_[2]) | set(abs(l) for l in s_[3])
            elif s_[0] == "S" and (s_[2] or s_[1] == 0): occurs |= set(s_[2]) | set(abs(l) for l, _ in s_[4])
            elif s_[0] == "O": occurs |= set(abs(l) for l in s_[2])
            elif s_[0] == "X": occurs.add(s_[1])
            elif s_[0] == "H": occurs |= set(abs(l) for l in s_[5])
            elif s_[0] == "G": occurs |= set(abs(l) for l in s_[3])
        ho = sorted((amap[a], t, b, p) for a, t, b, p, cond in orig["heu"] if a in occurs and a in amap)
        hb = sorted((a, t, b, p) for a, t, b, p, cond in back["heu"])
        if ho != hb: return ("C08:heuristic", "step %d: the heuristic directives read back are not those given (target by name, modifier, bias, priority)" % (k + 1), {"want": ho, "got": hb})
        allo.append(sorted((s, t) for s, t, _ in orig["edges"])); allb.append(sorted((s, t) for s, t, _ in back["edges"]))
    onodes = sorted(set(x for es in allo for e in es for x in e)); bnodes = sorted(set(x for es in allb for e in es for x in e))
    if len(onodes) <= 6:
        ok = len(bnodes) == len(onodes) and any(all(sorted((dict(zip(onodes, perm))[s], dict(zip(onodes, perm))[t]) for s, t in eo) == eb for eo, eb in zip(allo, allb)) for perm in permutations(bnodes))
        if not ok and (onodes or bnodes): return ("C08:edges", "no single injective renaming of the graph nodes makes the edges of all steps agree", {"orig": allo, "back": allb})
    return "ok"

def words(c):
    if c.get("multi"): return words_multi(c)
    w = ["I0", "B"]
    for s in c["steps"][0]:
        k = s[0]
        if k == "R": w.append("R,%d,%s,%s" % (s[1], progs.lst(s[2]), progs.lst(s[3])))
        elif k == "S": w.append("S,%d,%s,%d,%s" % (s[1], progs.lst(s[2]), s[3], progs.wl([tuple(x) for x in s[4]])))
        elif k == "O": w.append("O,%s,%s" % (s[1] or "-", progs.lst(s[2])))
        elif k == "X": w.append("X,%d,%d" % (s[1], s[2]))
        elif k == "H": w.append("H,%d,%d,%d,%d,%s" % (s[1], s[2], s[3], s[4], progs.lst(s[5])))
        elif k == "G": w.append("G,%d,%d,%s" % (s[1], s[2], progs.lst(s[3])))
    return w + ["E"]

def parse(ws):
    p = {"rules": [], "externals": {}, "assume": [], "outputs": [], "minimize": [], "heu": [], "edges": []}
    L = lambda x: [] if x == "-" else [int(t) for t in x.split("/")]
    W = lambda x: [] if x == "-" else [tuple(int(u) for u in t.split(":")) for t in x.split("/")]
    for w in ws:
        f = w.split(",")
        if f[0] == "R": p["rules"].append((int(f[1]), L(f[2]), ("n", L(f[3]))))
        elif f[0] == "S": p["rules"].append((int(f[1]), L(f[2]), ("s", int(f[3]), W(f[4]))))
        elif f[0] == "O": p["outputs"].append((f[1], L(f[2])))
        elif f[0] == "X": p["externals"][int(f[1])] = int(f[2])
        elif f[0] == "A": p["assume"] += L(f[1])
        elif f[0] == "H": p["heu"].append((int(f[1]), int(f[2]), int(f[3]), int(f[4]), L(f[5])))
        elif f[0] == "G": p["edges"].append((int(f[1]), int(f[2]), L(f[3])))
    return p

HELPER = lambda hexname: bytes.fromhex(hexname.replace("-", "")).startswith((b"_heuristic(", b"_edge(", b"_atom("))

def check(c, back_words, amap):
    orig = parse(words(c)); back = parse(back_words)
    occ = lambda p: asp_sem.atoms_of(p) | set(abs(l) for h in p["heu"] for l in h[4]) | set(abs(l) for e in p["edges"] for l in e[2])
    oa = sorted(occ(orig)); ba = sorted(occ(back))
    if len(oa) > 6 or len(ba) > 12: return None
    sm_o = asp_sem.stable_models(orig, oa); sm_b = asp_sem.stable_models(back, ba)
    img = {a: amap[a] for a in oa if a in amap}; inv = {v: k for k, v in img.items()}
    key = lambda I, m: tuple(sorted(m[a] for a in I if a in m))
    if sorted(key(I, img) for I in sm_o) != sorted(tuple(sorted(x for x in J if x in inv)) for J in sm_b):
        return ("C08:stable-models", "the program read back has other stable models (on mapped atoms)", {"orig": [sorted(I) for I in sm_o][:6], "back": [sorted(J) for J in sm_b][:6]})
    # externals keep their value (release = no longer external: nothing to compare)
    want_x = {img[a]: v for a, v in orig["externals"].items() if a in img}
    if {a: v for a, v in back["externals"].items()} != {a: v for a, v in want_x.items()}:
        return ("C08:external", "an external atom changed its value", {"want": want_x, "got": back["externals"]})
    onodes = sorted(set(x for s, t, _ in orig["edges"] for x in (s, t))); bnodes = sorted(set(x for s, t, _ in back["edges"] for x in (s, t)))
    pairs = []
    for J in sm_b:
        I = frozenset(inv[x] for x in J if x in inv)
        ho = sorted((img[a], t, b, p) for a, t, b, p, cond in orig["heu"] if a in img and all(asp_sem.holds(l, I) for l in cond))
        hb = sorted((a, t, b, p) for a, t, b, p, cond in back["heu"] if all(asp_sem.holds(l, J) for l in cond))
        if ho != hb: return ("C08:heuristic", "a stable model has different active heuristic modifications", {"model": sorted(I), "want": ho, "got": hb})
        eo = sorted((s, t) for s, t, cond in orig["edges"] if all(asp_sem.holds(l, I) for l in cond))
        eb = sorted((s, t) for s, t, cond in back["edges"] if all(asp_sem.holds(l, J) for l in cond))
        pairs.append((eo, eb))
        so = [n for n in asp_sem.shown(orig, I)]
        sb = [n for n in asp_sem.shown(back, J) if not HELPER(n)]
        if so != sb: return ("C08:shown", "apart from helper names the shown symbols changed", {"model": sorted(I), "want": so, "got": sb})
        if c["filter"] and any(bytes.fromhex(n.replace("-", "")).startswith((b"_heuristic(", b"_edge(")) for n in asp_sem.shown(back, J)):
            return ("C08:filter", "a _heuristic/_edge helper is shown although filtering was requested", {"shown": asp_sem.shown(back, J)})
    if len(onodes) <= 5:
        ok = len(bnodes) == len(onodes) and any(all(sorted((dict(zip(onodes, perm))[s], dict(zip(onodes, perm))[t]) for s, t in eo) == eb for eo, eb in pairs) for perm in permutations(bnodes))
        if not ok and (onodes or bnodes): return ("C08:edges", "no single injective renaming of nodes makes the active edges agree in every stable model", {"pairs": pairs[:4]})
    return "ok"

def corpus(ctx):
    return [
        {"filter": 1, "steps": [[("R", 1, [3, 4], []), ("O", b"a".hex(), [3]), ("H", 3, 1, -3, 2, [4]), ("H", 4, 0, 1, 0, []), ("H", 30, 0, 1, 1, []), ("G", 0, 1, [3]), ("G", 1, 0, [-4])]]},
        {"filter": 0, "steps": [[("R", 1, [3], []), ("H", 3, 4, -I32 - 1, 0, [3])]]},                     # D15 (fixed): INT_MIN bias
        {"filter": 1, "steps": [[("R", 0, [3], [4]), ("X", 4, 0), ("X", 5, 1), ("X", 6, 2), ("G", 7, 7, [])]]},
    ]

def generate(ctx):
    n = {"quick": 3000, "thorough": 80000}[ctx.tier]
    out = [gen_case(ctx.rng) if ctx.rng.random() < 0.8 else gen_case_multi(ctx.rng) for _ in range(n)]
    # arbitrary symbol tables for the option-enabled reader (correspondence only)
    pool = [b"_heuristic(a,sign,1)", b"_heuristic(a,sign,1,2)", b"_heuristic(a,level,-2147483648)", b"_heuristic(a,init,2147483648)", b"_heuristic(a, sign,1)", b"_heuristic(,sign,1)",
            b"_heuristic(a,sign, +5 ,3)", b"_heuristic(f(a,b),true,1,-1)", b"_heuristic(\"x,y\",false,1)", b"_heuristic(\"x", b"_heuristic(a,sign,1)x", b"_heuristic(a,signal,1)",
            b"_edge(1,2)", b"_edge(a,b)x", b"_edge(f(1,2),g)", b"_edge(a", b"_edge(,b)", b"_edge(_heuristic(a,sign,1)\"", b"_acyc_1_2_3", b"_acyc_1_ 2_-3", b"_acyc_1_2_", b"_acyc_x_1_2",
            b"_acyc_1_2_3rest", b"a", b"b", b"", b"_atom(3)", b"_edge(1,2", b"_heuristic(b,factor,99999999999)",
            b'_heuristic("a\\\\",sign,1)', b'_heuristic(p("C:\\\\"),true,1,2)', b'_heuristic("a\\"b",level,3)', b'_heuristic("\\\\\\"",sign,1)', b'_heuristic("a\\",sign,1)', b'_edge("x\\\\","y")', b'_edge("a\\",b")']
    for _ in range(n // 3):
        out.append({"raw": progs.fuzz_symtab(ctx.rng, ctx.rng.random() < 0.3).hex(), "opts": "".join(ctx.rng.choice("01") for _ in range(4))})
    for _ in range(n // 2):
        k = ctx.rng.randint(1, 6)
        body = b"".join(b"%d %s\n" % (ctx.rng.randint(1, 6), ctx.rng.choice(pool)) for _ in range(k))
        inc = ctx.rng.random() < 0.3
        txt = (b"90 0\n" if inc else b"") + b"1 2 0 0\n0\n" + body + b"0\nB+\n0\nB-\n0\n1\n"
        if inc and ctx.rng.random() < 0.5: txt += b"90 0\n0\n" + b"%d %s\n" % (ctx.rng.randint(1, 6), ctx.rng.choice(pool)) + b"0\nB+\n0\nB-\n0\n1\n"
        out.append({"raw": txt.hex(), "opts": "".join(ctx.rng.choice("01") for _ in range(4))})
    return out

def evaluate(ctx, cases):
    raws = [c for c in cases if "raw" in c]; progsC = [dict(c, steps=[[tuple(s) for s in st] for st in c["steps"]]) for c in cases if "raw" not in c]
    lines = ["so %s %s" % (c["opts"], c["raw"]) for c in raws]
    for c, l, i, m in zip(raws, lines, ctx.impl(lines), ctx.model(lines)):
        ctx.count(); ctx.dist["raw-symbols"] += 1
        if not isinstance(i, str): ctx.fail("C08:crash", "crash / sanitizer abort in SmodelsInput::readSymbols", c, {"stderr": i[2][-1500:]}); continue
        ctx.compared += 1
        if i != m: ctx.disagree("SmodelsInput(options)", c, i[:600], m[:600])
    l1 = ["cv 1 " + " ".join(words(c)) for c in progsC]
    i1 = ctx.impl(l1); m1 = ctx.model(l1)
    strip = lambda v: " ".join(w for w in v.split(" ") if w != "EXC" and not w.startswith("M:") and not w.startswith("G:")) if isinstance(v, str) else ""
    l2 = ["sw 1 0 " + strip(v) for v in i1]
    i2 = ctx.impl(l2); m2 = ctx.model(l2)
    l3 = ["so 111%d %s" % (c["filter"], (v.split(" ")[0] if isinstance(v, str) else "-")) for c, v in zip(progsC, i2)]
    i3 = ctx.impl(l3); m3 = ctx.model(l3)
    for k, c in enumerate(progsC):
        ctx.count()
        nd = len(c["steps"][0])
        if nd >= 3 and any(s[0] in "HG" for s in c["steps"][0]): ctx.nontrivial(l1[k])
        ctx.dist["filter=%d" % c["filter"]] += 1
        if c.get("multi"): ctx.dist["multi-step"] += 1
        jc = dict(c, steps=[[list(s) for s in st] for st in c["steps"]])
        ctx.sample({"line": l1[k][:200], "back": (i3[k] if isinstance(i3[k], str) else "CRASH")[:240]}, 3)
        bad = False
        for stage, (iv, mv) in enumerate(((i1[k], m1[k]), (i2[k], m2[k]), (i3[k], m3[k]))):
            if not isinstance(iv, str):
                ctx.fail("C08:crash", "crash / sanitizer abort at stage %d (1 convert, 2 write, 3 read)" % (stage + 1), jc, {"stderr": iv[2][-1500:]}); bad = True; break
            ctx.compared += 1
            if iv != mv: ctx.disagree(["SmodelsConvert", "SmodelsOutput", "SmodelsInput(options)"][stage], jc, iv[:600], mv[:600])
        if bad: continue
        if "EXC" in i1[k].split(" ") or not i2[k].endswith(" OK") or not i3[k].endswith(" OK"):
            ctx.fail("C08:error", "the round trip reports an error for a program with expressible directives", jc, {"convert": i1[k][-200:], "write": i2[k][-60:], "read": i3[k][-200:]}); continue
        g = i1[k].split(" ")[-1][2:]
        amap = dict(tuple(int(t) for t in kv.split("=")) for kv in g.split("/")) if g else {}
        v = check_multi(c, i3[k].split(" ")[:-1], amap) if c.get("multi") else check(c, i3[k].split(" ")[:-1], amap)
        if v is None: ctx.dist["too-large-for-oracle"] += 1
        elif v == "ok": ctx.dist["oracle-ok"] += 1
        else: ctx.fail(v[0], v[1], jc, dict(v[2], back=i3[k][:500]))

def shrink_candidates(c):
    if "raw" in c: return []
    res = []
    for si, st in enumerate(c["steps"]):
        for k in range(len(st)): res.append(dict(c, steps=c["steps"][:si] + [st[:k] + st[k + 1:]] + c["steps"][si + 1:]))
    return res
