"""Brute-force answer-set semantics for small ground programs (oracle of C02/C08): stable models of programs with disjunctive and
choice heads, normal and weight bodies (non-negative weights), external atoms, assumptions; shown symbols; minimize costs.
A program is a dict: rules [(ht, head atoms, ('n', lits) | ('s', bound, [(lit, w)]))], externals {atom: value}, assume [lits],
outputs [(name, cond lits)], minimize [(prio, [(lit, w)])]."""
from itertools import combinations

def holds(l, I): return (l in I) if l > 0 else (-l not in I)

def body_sat(b, I):
    if b[0] == "n": return all(holds(l, I) for l in b[1])
    return sum(w for l, w in b[2] if holds(l, I)) >= b[1]

def reduct_body_sat(b, I, J):
    """body of the reduct w.r.t. I evaluated in J ⊆ I: negative literals are fixed by I, positive ones read in J"""
    if b[0] == "n":
        return all((l in J) if l > 0 else (-l not in I) for l in b[1])
    return sum(w for l, w in b[2] if ((l in J) if l > 0 else (-l not in I))) >= b[1]

def is_model_of_reduct(rules, I, J):
    for ht, head, b in rules:
        if not reduct_body_sat(b, I, J): continue
        if ht == 1:
            # choice: atoms chosen in I must be derived, others are free
            if any(h in I and h not in J for h in head): return False
        else:
            if not any(h in J for h in head): return False
    return True

def stable_models(prog, atoms):
    rules = list(prog["rules"])
    defined = set(h for _, head, _ in rules for h in head)
    for a, v in prog.get("externals", {}).items():
        if a in defined: continue               # an external directive has no effect on an atom that rules define
        if v == 0: rules.append((1, [a], ("n", [])))
        elif v == 1: rules.append((0, [a], ("n", [])))
    atoms = sorted(atoms)
    res = []
    for k in range(len(atoms) + 1):
        for c in combinations(atoms, k):
            I = frozenset(c)
            if not all(holds(l, I) for l in prog.get("assume", [])): continue
            if not is_model_of_reduct(rules, I, I): continue
            # minimality: no proper subset is a model of the reduct
            ok = True
            Il = sorted(I)
            for k2 in range(len(Il)):
                for d in combinations(Il, k2):
                    if is_model_of_reduct(rules, I, frozenset(d)): ok = False; break
                if not ok: break
            if ok: res.append(I)
    return res

def shown(prog, I): return sorted(name for name, cond in prog.get("outputs", []) if all(holds(l, I) for l in cond))

def costs(prog, I):
    out = {}
    for prio, ws in prog.get("minimize", []):
        out[prio] = out.get(prio, 0) + sum(w for l, w in ws if holds(l, I))
    return out

def atoms_of(prog):
    s = set()
    for ht, head, b in prog["rules"]:
        s |= set(head)
        s |= set(abs(l) for l in (b[1] if b[0] == "n" else [x for x, _ in b[2]]))
    s |= set(prog.get("externals", {}))
    for _, cond in prog.get("outputs", []): s |= set(abs(l) for l in cond)
    for _, ws in prog.get("minimize", []): s |= set(abs(l) for l, _ in ws)
    s |= set(abs(l) for l in prog.get("assume", []))
    return s
