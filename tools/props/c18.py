"""C18 — signals: delivered at once when unblocked, deferred exactly once while blocked.

sg <main> <choice>* : main = b|u1|u0|w list (block / unblock with,without delivery / work); choices a<sig> (a signal
                      arrives now) and s1|s0 (the running flow executes its next atomic step; the bit is the result of
                      a callback that ends in this step).
impl  : real Potassco::Application subclass; the yield hook (guard POTASSCO_LIBPOTASSCO_VERIF) lets the scheduler run a
        nested processSignal at every interior point of processSignal / unblockSignals — a handler interrupting there.
model : Model/Signals.lean (small-step machine).   Trace = per executed step `<yield id>:<blocked>:<pending>` + C/R events.
oracle (on the implementation's own trace, independent of the model): callbacks only while unblocked and never nested;
        an arrival that sees blocked_ == 0 is delivered in that very frame; a remembered signal is only removed by the
        release step and each signal reaches the callback at most once; the block count is restored after a callback
        that continues."""
ID = "C18"
MODULE = "PotasscoVerif.Props.C18"
THEOREMS = ["PotasscoVerif.C18.C18_blocked_accounting", "PotasscoVerif.C18.C18_callback_entry_unblocked", "PotasscoVerif.C18.C18_immediate",
            "PotasscoVerif.C18.C18_callstart_step", "PotasscoVerif.C18.C18_blocked_path_no_callback", "PotasscoVerif.C18.C18_no_loss",
            "PotasscoVerif.C18.C18_no_clear_reachable", "PotasscoVerif.C18.C18_delivered_at_most_once", "PotasscoVerif.C18.C18_pristine_loses", "PotasscoVerif.C18.C18_blocked_keeps_first", "PotasscoVerif.C18.C18_blocked_first_remembered",
            "PotasscoVerif.C18.C18_repaired_keeps", "PotasscoVerif.C18.C18_inner_release_keeps"]
PARTIAL = {"callback bodies": "a callback is one opaque step pair (entry, exit) during which signals may arrive; block/unblock calls made from inside a callback are not modelled",
           "C18_one_remembered(first)": "that the remembered signal is the FIRST arrival when arrivals do not overlap is checked by the trace oracle (rule C18:not-first-remembered) and follows in the model from C18_blocked_keeps_first"}
BSIZES = (4096,)
RULE = ("seeded schedules: a balanced main program of nested block/unblock(deliver?)/work operations and a choice list mixing atomic steps with signal arrivals (distinct or repeated "
        "signal numbers, bursts, arrivals inside callbacks, callbacks returning false); thorough adds all schedules with <= 3 arrivals over all main programs of <= 4 operations up to 14 choices; "
        "distinct = distinct (main, choices); non-trivial = at least one arrival while blocked and one callback")
TRUSTED = ["POSIX delivery model: a handler runs to completion before the interrupted flow resumes; a signal number is masked while its own handler runs (sigHandler sets SIG_IGN)",
           "the yield points are exactly before each atomic step; fetch_and_inc/dec/store are atomic"]
ASSUMPTIONS = ["the Windows alarm thread (true parallelism) is outside the model"]
TECHNIQUE = "Lean 4 invariant proofs over a small-step machine of processSignal/unblockSignals (all schedules, unbounded nesting) + schedule replay on the real class through yield hooks"
LEVEL_TEXT = ("For ALL schedules (any length, arrivals at every atomic step incl. inside callbacks, unbounded nesting) over ANY main program: block-count accounting "
              "(C18_blocked_accounting), a callback is entered only when the application is in no block section and no callback runs (C18_callback_entry_unblocked), entered "
              "in the very next step iff the increment read 0 (C18_immediate/_callstart_step/_blocked_path_no_callback), the pending slot is only ever emptied by the atomic release "
              "step which hands the value on or drops it on request (C18_no_loss), every arrival reaches the callback at most once and has exactly one carrier "
              "(C18_delivered_at_most_once); the original two-step read/clear loses a signal on an exhibited schedule (C18_pristine_loses). Tied to the code by replaying "
              "schedules on the real Application through the yield hook and comparing the per-step (blocked_, pending_) trace and callback events.")
LEVEL_NOTE = ("Proved about Model/Signals.lean under the POSIX delivery model stated in the trusted base; model==code on ~4k (quick) / 60k + small-scope exhaustive (thorough) schedules. "
              "The Windows alarm thread and block/unblock inside callbacks are outside the model. That unblockSignals uses one atomic exchange is additionally checked syntactically "
              "(tools/extract_consts.py shape 'application-unblock-atomic') because no yield point can exist inside an atomic operation.")
import itertools

def gen_main(rng):
    ops, depth = [], 0
    for _ in range(rng.randint(0, 7)):
        k = rng.random()
        if k < 0.4: ops.append("b"); depth += 1
        elif k < 0.75 and depth > 0: ops.append(rng.choice(["u1", "u1", "u0"])); depth -= 1
        else: ops.append("w")
    while depth > 0 and rng.random() < 0.8: ops.append(rng.choice(["u1", "u0"])); depth -= 1
    return ops

def gen_choices(rng, distinct):
    cs, nxt = [], 1
    for _ in range(rng.randint(0, 40)):
        if rng.random() < rng.choice([0.1, 0.3, 0.5]):
            if distinct: cs.append("a%d" % nxt); nxt += 1
            else: cs.append("a%d" % rng.randint(1, 3))
        else: cs.append("s1" if rng.random() < 0.9 else "s0")
    return cs

def corpus(ctx):
    # the D11 schedule: a signal handled between the read and the clear of pending_, interrupted inside its callback
    return [{"main": ["b", "u1", "w"], "choices": "s1 s1 s1 s1 a2 s1 s1 a3 s1 s1 s1 s1 s1 s1".split(), "distinct": True},
            {"main": ["b", "u1", "w"], "choices": "s1 a2 s1 s1 s1 s1 s1 s1 s1 s1 a3 s1 s1 s0".split(), "distinct": True}]

def generate(ctx):
    n = {"quick": 4000, "thorough": 60000}[ctx.tier]
    out = []
    for _ in range(n):
        d = ctx.rng.random() < 0.7
        out.append({"main": gen_main(ctx.rng), "choices": gen_choices(ctx.rng, d), "distinct": d})
    if ctx.tier == "thorough":
        mains = [[]]
        for L in range(1, 5):
            for t in itertools.product(["b", "u1", "u0", "w"], repeat=L):
                d, ok = 0, True
                for o in t:
                    if o == "b": d += 1
                    elif o[0] == "u":
                        if d == 0: ok = False; break
                        d -= 1
                if ok: mains.append(list(t))
        k = 0
        for m in mains:
            for L in (6, 10, 14):
                for pos in itertools.combinations(range(L), 3):
                    cs = ["s1"] * L
                    for j, p in enumerate(pos): cs[p] = "a%d" % (j + 1)
                    out.append({"main": m, "choices": cs, "distinct": True}); k += 1
        ctx.note("small-scope schedules added: %d (all balanced main programs of <= 4 ops x all placements of 3 distinct arrivals in 6/10/14 choices)" % k)
    return out

def check_trace(c, toks):
    """direct oracle on the implementation's trace; returns (signature, message) or None."""
    main = c["main"]
    depth, mi = 0, 0
    stack = []          # frames: dict(pre=blocked before inc, saw0=bool, next_own=None)
    active_cb = 0
    calls = {}
    prev = None         # previous snapshot (id, blocked, pending)
    for t in toks:
        if t[0] == "C":
            sig = int(t[1:])
            if prev is None or prev[0] != 2: return ("C18:callback-without-entry", "callback %d not preceded by the unblocked entry step" % sig)
            if prev[1] != 1 + 0: return ("C18:callback-while-blocked", "onSignal(%d) invoked with block count %d" % (sig, prev[1]))
            if depth != 0: return ("C18:callback-while-blocked", "onSignal(%d) invoked inside an application block section (depth %d)" % (sig, depth))
            if active_cb != 0: return ("C18:callback-nested", "onSignal(%d) invoked while another callback is running" % sig)
            active_cb += 1
            calls[sig] = calls.get(sig, 0) + 1
            if c.get("distinct") and calls[sig] > 1: return ("C18:delivered-twice", "signal %d was handed to the callback %d times" % (sig, calls[sig]))
            continue
        if t[0] == "R":
            active_cb -= 1
            if t.endswith(":0") and stack: stack.pop()
            continue
        if t[0] == "F": continue
        i, b, p = (int(x) for x in t.split(":"))
        # the remembered signal may be replaced by an overlapping blocked arrival (its check ran before), but it is only
        # ever *removed* by the release step
        if prev is not None and prev[2] != 0 and p != prev[2] and not (prev[0] == 11 or (prev[0] == 4 and p != 0)):
            return ("C18:remembered-signal-erased", "pending signal %d was replaced by %d in a step (yield %d) that is not the release" % (prev[2], p, prev[0]))
        # "the remembered one is handed to the callback … when the application next releases its OUTERMOST block": a release that leaves the
        # application inside a block section must leave the remembered signal where it is
        if prev is not None and prev[2] != 0 and p == 0 and depth > 0:
            return ("C18:inner-release-drops-remembered", "the remembered signal %d was taken out of the slot by a release that is not the outermost one (application depth %d)" % (prev[2], depth))
        # the outermost release (yield 11 is reached when the count dropped to zero) takes the remembered signal out of the slot —
        # to deliver it or to drop it: unless an arrival interrupts right there, the next observation shows an empty slot
        if prev is not None and prev[0] == 11 and i != 1 and p != 0:
            return ("C18:stale-remembered-signal", "signal %d is still remembered after the outermost release (it would be delivered by some later, unrelated release)" % p)
        # "of the signals that arrive while blocked exactly one is remembered — the first, when arrivals do not interrupt one another":
        # a blocked arrival whose check (yield 3) saw a remembered signal and that was not interrupted before its next step must not store
        if prev is not None and prev[0] == 3 and prev[2] != 0 and i == 4:
            return ("C18:not-first-remembered", "a blocked arrival replaced the remembered signal %d although nothing interrupted it between its check and its store" % prev[2])
        if i == 0:
            if mi < len(main):
                op = main[mi]; mi += 1
                if op == "b": depth += 1
                elif op[0] == "u": depth -= 1
        if stack and stack[-1].get("expect2") and i not in (1,):
            if i != 2: return ("C18:not-delivered-at-once", "an arrival that found delivery unblocked was not handed to the callback at once (next step %d)" % i)
            stack[-1]["expect2"] = False
        if i == 1:
            stack.append({"pre": b, "expect2": b == 0})
        elif i == 5 and stack:
            f = stack.pop()
            if b - 1 != f["pre"]: return ("C18:count-not-restored", "block count %d after processSignal, %d before" % (b - 1, f["pre"]))
        prev = (i, b, p)
    return None

def evaluate(ctx, cases):
    lines = ["sg %s %s" % (",".join(c["main"]) or "-", " ".join(c["choices"])) for c in cases]
    impl = ctx.impl(lines); model = ctx.model(lines)
    for c, i, m in zip(cases, impl, model):
        ctx.count()
        if not isinstance(i, str):
            ctx.fail("C18:crash", "crash / sanitizer abort", c, {"stderr": i[2][-1500:]}); continue
        toks = i.split(" ")
        blocked_arrival = any(t.startswith("3:") for t in toks)
        if blocked_arrival and any(t[0] == "C" for t in toks): ctx.nontrivial(lines[0] if False else (",".join(c["main"]), " ".join(c["choices"])))
        ctx.dist["arrivals=%d" % min(5, sum(1 for x in c["choices"] if x[0] == "a"))] += 1
        if blocked_arrival: ctx.dist["arrival while blocked"] += 1
        if any(t.endswith(":0") and t[0] == "R" for t in toks): ctx.dist["callback returned false"] += 1
        if any(t.startswith("12:") for t in toks): ctx.dist["pending delivered at release"] += 1
        ctx.sample({"case": lines[len(ctx.samples)] if len(ctx.samples) < len(lines) else "", "impl": i[:200]}, 4)
        r = check_trace(c, toks)
        if r: ctx.fail(r[0], r[1], c, {"trace": i[:1500]})
        ctx.compared += 1
        if i != m: ctx.disagree("Application:signal-trace", c, i[:1200], m[:1200])

def shrink_candidates(c):
    cs = c["choices"]
    for i in range(len(cs)):
        yield dict(c, choices=cs[:i] + cs[i + 1:])
