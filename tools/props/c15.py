"""C15 — option values are assigned with first-source-wins precedence and defaults last.

oa <o:…>* <A:<excl|~|->:<k=hex;…|-> | D>*
impl   : real ParsedOptions::assign(ParsedValues, exclude) / OptionContext::assignDefaults on a real context whose options are bound to
         int / string / bool (store_true, store_false) / vector<int> targets, a ValueMap, a mapped enum, a custom notifier and a
         notified int; after every step: error (type, key, value), ParsedOptions::count of every option and size, every target, every
         Value::state()
model  : Model/OptAssign.lean
oracle : the statement evaluated in Python on value strings whose meaning is known by construction (VALUE tables below): first source
         wins, excluded names ignored, duplicates and refused strings reported (type, option, string), composing options get all values
         in order, defaults only for options no source mentioned, parsed set = options that received a value, no value stays 'fixed'."""
ID = "C15"
MODULE = "PotasscoVerif.Props.C15"
THEOREMS = ["PotasscoVerif.C15.C15_no_fixed", "PotasscoVerif.C15.C15_single_occurrence", "PotasscoVerif.C15.C15_earlier_source_wins", "PotasscoVerif.C15.C15_excluded_ignored",
            "PotasscoVerif.C15.C15_duplicate_error", "PotasscoVerif.C15.C15_invalid_error", "PotasscoVerif.C15.C15_composing_all", "PotasscoVerif.C15.C15_parsed_exact",
            "PotasscoVerif.C15.C15_parsed_only_received", "PotasscoVerif.C15.C15_defaults", "PotasscoVerif.C15.C15_first_wins_forever", "PotasscoVerif.C15.C15_implicit"]
PARTIAL = {}
BSIZES = (4096,)
RULE = ("contexts of 1..7 options over 9 target kinds (int, string, store_true, vector<int>, custom notifier, ValueMap int, mapped enum, store_false, notified int), "
        "composing or not, implicit or not, defaults absent / valid / invalid; 1..5 steps: sources of 0..7 (option, string) pairs biased to duplicates, cross-source repeats and "
        "refused strings, exclude sets null / empty / names in and outside the context, defaults at the end, in the middle or twice; "
        "distinct = distinct cases; non-trivial = at least two sources and four pairs")
TRUSTED = ["strtoll semantics as modelled for C16 (Model/StringConvert.lean)"]
ASSUMPTIONS = ["value strings contain no NUL (std::string::c_str)", "what a target holds after its parser REFUSED a string is compared model==code but not part of the oracle"]
TECHNIQUE = "Lean 4 theorems on the assignment model (state-machine invariant, per-option frame/occurrence lemmas by induction over a source) + differential correspondence with the real ParsedOptions/typed values + statement oracle"
LEVEL_TEXT = ("For EVERY context, state, source and exclude set of the model: C15_no_fixed (no value is left 'fixed' by any step sequence), C15_single_occurrence / C15_earlier_source_wins / C15_first_wins_forever (no later step sequence changes a parsed non-composing option) / "
              "C15_excluded_ignored (a non-composing option gets the parser's result for its single occurrence unless an earlier source or the exclude set covers it, and then it is untouched), "
              "C15_duplicate_error, C15_invalid_error (type, option and string of the error), C15_composing_all (fold of the parser over all values in order), C15_parsed_exact "
              "(parsed' = parsed ∪ options fixed by this source, on success and on error), C15_defaults, C15_implicit. The model is tied to the real classes by correspondence on every "
              "step's full observable state; the typed parsers themselves (string_cast etc.) are the C16 model plus sequence/flag/mapping parsers compared by correspondence.")
LEVEL_NOTE = ("Proof on the model + correspondence (~5k quick / 120k thorough step sequences) + statement oracle. Trusted: Lean kernel+axioms, harness (optctx.h, h_oa.cpp), generator/oracle "
              "in props/c15.py, strtoll semantics.")

def hexs(b): return "-" if not b else "".join("%02x" % c for c in b)
NAMES = [b"alpha", b"beta", b"gamma", b"delta", b"num", b"file", b"flag", b"vec", b"mode", b"quiet", b"x"]
IMAX = 2147483647
# (string, meaning) per kind; meaning None = refused
V_INT = [(b"12", 12), (b"-7", -7), (b"0", 0), (b"0x10", 16), (b"imax", IMAX), (b"imin", -IMAX - 1), (b"+5", 5), (b" 3", 3), (b"2147483647", IMAX), (b"007", 7),
         (b"", None), (b"abc", None), (b"12x", None), (b"99999999999", None), (b"2147483648", None), (b"1,2", None), (b"--3", None), (b"3 ", None)]
V_BOOL = [(b"1", True), (b"yes", True), (b"true", True), (b"on", True), (b"0", False), (b"no", False), (b"false", False), (b"off", False),
          (b"maybe", None), (b"yesx", None), (b"2", None), (b"TRUE", None), (b"10", None)]
V_VEC = [(b"1", [1]), (b"1,2", [1, 2]), (b"[3]", [3]), (b"[4,5,6]", [4, 5, 6]), (b"-1,imax", [-1, IMAX]), (b"0x10,010", [16, 8]),
         (b"", None), (b"[1,2", None), (b"1,2,x", None), (b"1,", None), (b"[]", None), (b"a", None), (b"1;2", None), (b"[1]x", None)]
V_STR = [(b"", b""), (b"hello", b"hello"), (b"a b", b"a b"), (b"1,2", b"1,2"), (b"x", b"x"), (b"\xc3\xa4=", b"\xc3\xa4=")]
V_CUST = [(b"a", b"a"), (b"", b""), (b"hello world", b"hello world"), (b"Xx", b"Xx"), (b"x", None), (b"xyz", None)]
V_MAP = [(b"no", 0), (b"yes", 1), (b"YES", 1), (b"Maybe", 2), (b"auto", 7), (b"AUTO", 7), (b"", None), (b"y", None), (b"yess", None), (b"1", None)]
POOL = {0: V_INT, 1: V_STR, 2: V_BOOL, 3: V_VEC, 4: V_CUST, 5: V_INT, 6: V_MAP, 7: V_BOOL, 8: V_INT}
WILD = [b"\t12", b"0x", b"-0", b"[", b"]", b"[[1]]", b"1,,2", b"on ", b"offf", b"nope", b"tru", b"0b1", b"\x0b7", b"+-1", b"imaxx", b"[imin]", b"1,2]", b",", b"00", b"x1"]

def meaning(kind, s):
    for t, m in POOL[kind]:
        if t == s: return (True, m)
    return (False, None)      # unknown to the oracle

def gen_ctx(rng):
    names = rng.sample(NAMES, rng.randint(1, 7))
    opts = []
    for n in names:
        kind = rng.choice([0, 0, 1, 2, 3, 3, 4, 5, 6, 7, 8])
        comp = rng.random() < (0.6 if kind in (3, 4) else 0.15)
        impl = None
        props = ""
        if kind in (2, 7) and rng.random() < 0.8: props += "f"
        elif rng.random() < 0.3:
            props += "i"
            impl = rng.choice([None, b""] + [t for t, m in POOL[kind] if t])
        if comp: props += "c"
        dflt = None
        r = rng.random()
        if r < 0.5:
            good = [t for t, m in POOL[kind] if m is not None]; bad = [t for t, m in POOL[kind] if m is None]
            dflt = rng.choice(bad) if (bad and rng.random() < 0.15) else rng.choice(good)
        # description level of the option / its group: only help output may depend on them (C15-n)
        lvl = rng.choice([1, 2, 3, 5]) if rng.random() < 0.3 else 0
        grp = rng.randint(0, 2)
        glvl = rng.choice([1, 2, 5]) if grp and rng.random() < 0.3 else 0
        opts.append({"name": n, "kind": kind, "props": props, "impl": impl, "dflt": dflt, "lvl": lvl, "grp": grp, "glvl": glvl})
    return opts

def opt_tok(o):
    f = lambda x: "~" if x is None else hexs(x)
    return "o:%s:0:%s:%s:%s:~:~:%d:%d:%d:%d" % (hexs(o["name"]), o["props"], f(o["impl"]), f(o["dflt"]), o.get("lvl", 0), o.get("grp", 0), o["kind"], o.get("glvl", 0))

def gen_case(rng, wild):
    opts = gen_ctx(rng)
    steps = []
    ns = rng.randint(1, 4)
    for si in range(ns):
        pairs = []
        for _ in range(rng.randint(0, 7)):
            k = rng.randrange(len(opts)) if not pairs or rng.random() < 0.75 else rng.choice(pairs)[0]
            pool = POOL[opts[k]["kind"]]
            good = [t for t, m in pool if m is not None]; bad = [t for t, m in pool if m is None]
            if wild and rng.random() < 0.3: v = rng.choice(WILD)
            elif bad and rng.random() < 0.12: v = rng.choice(bad)
            else: v = rng.choice(good)
            pairs.append((k, v))
        r = rng.random()
        excl = None if r < 0.55 else [] if r < 0.7 else [rng.choice([o["name"] for o in opts] + [b"other"]) for _ in range(rng.randint(1, 3))]
        steps.append(("A", excl, pairs))
        if rng.random() < 0.12: steps.append(("D",))
    if rng.random() < 0.85: steps.append(("D",))
    if rng.random() < 0.1: steps.append(("D",))
    return {"opts": opts, "steps": steps}

def step_tok(st):
    if st[0] == "D": return "D"
    ex = "~" if st[1] is None else "-" if not st[1] else ",".join(hexs(n) for n in st[1])
    return "A:%s:%s" % (ex, "-" if not st[2] else ";".join("%d=%s" % (k, hexs(v)) for k, v in st[2]))

def line_of(c): return "oa " + " ".join(opt_tok(o) for o in c["opts"]) + " " + " ".join(step_tok(s) for s in c["steps"])

def corpus(ctx):
    o = lambda n, kind, props="", impl=None, dflt=None: {"name": n, "kind": kind, "props": props, "impl": impl, "dflt": dflt}
    return [
        {"opts": [o(b"num", 0, dflt=b"42"), o(b"vec", 3, "c")], "steps": [("A", None, [(0, b"12"), (1, b"1,2")]), ("A", None, [(0, b"5"), (1, b"[3]")]), ("D",)]},
        {"opts": [o(b"num", 0), o(b"flag", 2, "f")], "steps": [("A", None, [(0, b"1"), (1, b""), (0, b"2")]), ("D",)]},
        # defaults reach options of every description level and of hidden groups (C15-n)
        {"opts": [dict(o(b"num", 0, dflt=b"7"), lvl=2), dict(o(b"x", 0, dflt=b"3"), grp=1, glvl=5), o(b"quiet", 2, "f", dflt=b"yes")], "steps": [("A", None, [(2, b"no")]), ("D",)]},
        {"opts": [o(b"num", 0, dflt=b"abc"), o(b"s", 1, "i", b"impl", b"d")], "steps": [("A", [b"s"], [(1, b"x")]), ("D",), ("D",)]},
        {"opts": [o(b"a", 8), o(b"b", 5, dflt=b"3"), o(b"c", 6, dflt=b"Maybe"), o(b"d", 7, "f"), o(b"e", 4, "c")],
         "steps": [("A", None, [(0, b"-7"), (4, b"a"), (4, b"x")]), ("A", [], [(0, b"12"), (3, b""), (4, b"hello world")]), ("D",)]},
    ]

def generate(ctx):
    n = {"quick": 5000, "thorough": 120000}[ctx.tier]
    return [gen_case(ctx.rng, ctx.rng.random() < 0.3) for _ in range(n)]

INIT = {0: "-777", 1: hexs(b"<unset>"), 2: "2", 3: "e", 4: "e", 5: "n", 6: "-777", 7: "2", 8: "n@e"}

def oracle(c):
    """expected output per step, with None for a target the oracle does not decide; None altogether when a string of unknown meaning was reached."""
    opts = c["opts"]; n = len(opts)
    parsed = set(); defaulted = set()
    val = {k: {"int": None, "str": None, "flag": None, "vec": [], "log": [], "kept": None, "seen": [], "dirty": False} for k in range(n)}
    out = []
    def apply(k, s):
        o = opts[k]; kind = o["kind"]
        if s == b"" and (("i" in o["props"]) or ("f" in o["props"])):
            s = o["impl"] if o["impl"] else b"1"
        known, m = meaning(kind, s)
        if not known:
            if kind in (2, 7) and s == b"": m = True            # store_true/store_false on an empty string without implicit value
            elif kind == 1: m = s
            elif kind == 4: m = None if s[:1] == b"x" else s
            else: return "unknown"
        v = val[k]
        if kind == 4: v["log"].append(s)
        if m is None: v["dirty"] = True; return False
        if kind in (0, 6): v["int"] = m
        elif kind == 1: v["str"] = m
        elif kind == 2: v["flag"] = 1 if m else 0
        elif kind == 7: v["flag"] = 0 if m else 1
        elif kind == 3: v["vec"] = v["vec"] + m
        elif kind == 5: v["kept"] = m
        elif kind == 8:
            v["seen"].append(m)
            if v["kept"] is not None or m >= 0: v["kept"] = m
        return True
    def show(k):
        kind = opts[k]["kind"]; v = val[k]
        if v["dirty"] and kind in (0, 2, 3, 5, 8): return None
        ints = lambda l: "e" if not l else ".".join(str(x) for x in l)
        if kind in (0, 6): return INIT[kind] if v["int"] is None else str(v["int"])
        if kind == 1: return INIT[1] if v["str"] is None else hexs(v["str"])
        if kind in (2, 7): return "2" if v["flag"] is None else str(v["flag"])
        if kind == 3: return ints(v["vec"])
        if kind == 4: return "e" if not v["log"] else ".".join(hexs(s) for s in v["log"])
        if kind == 5: return "n" if v["kept"] is None else str(v["kept"])
        return ("n" if v["kept"] is None else str(v["kept"])) + "@" + ints(v["seen"])
    for st in c["steps"]:
        res = "ok"
        if st[0] == "A":
            excl = st[1]; received = set()
            for k, s in st[2]:
                o = opts[k]; comp = "c" in o["props"]
                if not comp:
                    if k in parsed or (excl is not None and o["name"] in excl): continue
                    if k in received: res = "ERR:multiple:%s:%s" % (hexs(o["name"]), hexs(s)); break
                r = apply(k, s)
                if r == "unknown": return None
                if not r: res = "ERR:invalid:%s:%s" % (hexs(o["name"]), hexs(s)); break
                received.add(k)
            parsed |= received
            defaulted -= received
        else:
            for k, o in enumerate(opts):
                if k in parsed or o["dflt"] is None or k in defaulted: continue
                r = apply(k, o["dflt"])
                if r == "unknown": return None
                if not r: res = "ERR:default:%s:%s" % (hexs(o["name"]), hexs(o["dflt"])); break
                defaulted.add(k)
        out.append((res, "".join("1" if k in parsed else "0" for k in range(n)) + "#%d" % len(parsed), [show(k) for k in range(n)],
                    "".join("1" if (k in defaulted and k not in parsed) else "0" for k in range(n))))
    return out

def parse_out(s):
    steps = []
    for part in s.split(" / "):
        f = part.split("|")
        if len(f) != 4: return None
        steps.append((f[0], f[1][2:], f[2][2:].split(","), f[3][2:]))
    return steps

def to_json(c):
    h = lambda b: None if b is None else b.hex()
    return {"j": 1, "opts": [{"name": h(o["name"]), "kind": o["kind"], "props": o["props"], "impl": h(o["impl"]), "dflt": h(o["dflt"]),
                               "lvl": o.get("lvl", 0), "grp": o.get("grp", 0), "glvl": o.get("glvl", 0)} for o in c["opts"]],
            "steps": [["D"] if st[0] == "D" else ["A", None if st[1] is None else [h(n) for n in st[1]], [[k, h(v)] for k, v in st[2]]] for st in c["steps"]], "line": line_of(c)}
def from_json(j):
    u = lambda x: None if x is None else bytes.fromhex(x)
    return {"opts": [{"name": u(o["name"]), "kind": o["kind"], "props": o["props"], "impl": u(o["impl"]), "dflt": u(o["dflt"]),
                      "lvl": o.get("lvl", 0), "grp": o.get("grp", 0), "glvl": o.get("glvl", 0)} for o in j["opts"]],
            "steps": [("D",) if st[0] == "D" else ("A", None if st[1] is None else [u(n) for n in st[1]], [(k, u(v)) for k, v in st[2]]) for st in j["steps"]]}

def evaluate(ctx, cases):
    cases = [from_json(c) if c.get("j") else c for c in cases]
    lines = [line_of(c) for c in cases]
    impl = ctx.impl(lines); model = ctx.model(lines)
    for c, l, i, m in zip(cases, lines, impl, model):
        ctx.count()
        npairs = sum(len(s[2]) for s in c["steps"] if s[0] == "A")
        if sum(1 for s in c["steps"] if s[0] == "A") >= 2 and npairs >= 4: ctx.nontrivial(l)
        ctx.dist["steps=%d" % len(c["steps"])] += 1
        for o in c["opts"]: ctx.dist["kind%d%s" % (o["kind"], "c" if "c" in o["props"] else "")] += 1
        ctx.sample({"line": l[:260], "impl": (i if isinstance(i, str) else "CRASH")[:200]}, 4)
        if not isinstance(i, str):
            ctx.fail("C15:crash", "crash / sanitizer abort / failed assertion while assigning values", to_json(c), {"stderr": i[2][-1500:]}); continue
        got = parse_out(i)
        want = oracle(c)
        if got is None:
            ctx.fail("C15:format", "unexpected harness output", to_json(c), {"got": i[:400]})
        elif want is not None:
            ctx.dist["oracle"] += 1
            for si, (g, w) in enumerate(zip(got, want)):
                if "2" in g[3]:
                    ctx.fail("C15:left-fixed", "a value is still in state 'fixed' after an assignment step", to_json(c), {"step": si, "states": g[3]}); break
                if g[0] != w[0]:
                    ctx.dist["err:" + w[0].split(":")[1] if w[0] != "ok" else "okstep"] += 0
                    ctx.fail("C15:result", "step result (ok / error type, option, value) differs from the statement", to_json(c), {"step": si, "got": g[0], "want": w[0]}); break
                if g[1] != w[1]:
                    ctx.fail("C15:parsed-set", "the recorded parsed set is not exactly the options that received a value", to_json(c), {"step": si, "got": g[1], "want": w[1]}); break
                bad = [k for k, (gv, wv) in enumerate(zip(g[2], w[2])) if wv is not None and gv != wv]
                if bad:
                    ctx.fail("C15:value", "a target does not hold the value of its winning string(s) / default", to_json(c), {"step": si, "option": bad[0], "got": g[2][bad[0]], "want": w[2][bad[0]]}); break
                if g[3] != w[3]:
                    ctx.fail("C15:state", "Value::state() differs from defaulted-and-not-parsed", to_json(c), {"step": si, "got": g[3], "want": w[3]}); break
                ctx.dist["res:" + (w[0].split(":")[1] if w[0] != "ok" else "ok")] += 1
        ctx.compared += 1
        if i != m: ctx.disagree("ParsedOptions::assign", to_json(c), i[:600], m[:600])

def shrink_candidates(c):
    return [to_json(x) for x in _shrink(from_json(c) if c.get("j") else c)]
def _shrink(c):
    res = []
    for si in range(len(c["steps"])):
        res.append({"opts": c["opts"], "steps": c["steps"][:si] + c["steps"][si + 1:]})
        st = c["steps"][si]
        if st[0] == "A":
            for pi in range(len(st[2])):
                res.append({"opts": c["opts"], "steps": c["steps"][:si] + [("A", st[1], st[2][:pi] + st[2][pi + 1:])] + c["steps"][si + 1:]})
            if st[1]: res.append({"opts": c["opts"], "steps": c["steps"][:si] + [("A", None, st[2])] + c["steps"][si + 1:]})
    used = set(k for st in c["steps"] if st[0] == "A" for k, _ in st[2])
    for k in range(len(c["opts"]) - 1, -1, -1):
        if k not in used and len(c["opts"]) > 1:
            ren = lambda j: j if j < k else j - 1
            res.append({"opts": c["opts"][:k] + c["opts"][k + 1:], "steps": [st if st[0] == "D" else ("A", st[1], [(ren(j), v) for j, v in st[2]]) for st in c["steps"]]})
    return res
