"""C02 — aspif -> smodels conversion preserves answer sets, optimisation and externals.

cv <ext> <call>*           real SmodelsConvert around a recorder: the calls it makes, EXC, maxAtom
(lpconvert)                the same programs as aspif text through the lpconvert executable, its smodels output read back
model  : Model/Convert.lean
oracle : props/asp_sem.py — brute-force stable models of the ORIGINAL program and of the program the IMPLEMENTATION emitted; the
         atom map is recovered from the emitted rules; checked: bijection of stable models under the map, same shown names per
         model, externals' behaviour, per-priority costs equal up to a constant, priorities ascending; injectivity of the map."""
from props import progs, smodels_ref, asp_sem
import subprocess, os
from vlib import runner
ID = "C02"
MODULE = "PotasscoVerif.Props.C02"
EXTRA_MODULES = ["PotasscoVerif.Props.C02o", "PotasscoVerif.Props.C02sem", "PotasscoVerif.Lemmas.AspEnum", "PotasscoVerif.Props.C02x", "PotasscoVerif.Lemmas.ConvertExt", "PotasscoVerif.Props.C02m", "PotasscoVerif.Lemmas.ConvertSteps", "PotasscoVerif.Lemmas.ConvertStepsExt"]
THEOREMS = ["PotasscoVerif.C02.C02_steps_outputs", "PotasscoVerif.C02.C02_steps_equivalence", "PotasscoVerif.C02.C02_steps_equivalence_ext", "PotasscoVerif.C02.C02_steps_minimize", "PotasscoVerif.C02.C02_steps_cost", "PotasscoVerif.C02.C02_steps_cost_ext", "PotasscoVerif.C02.C02_stable_models", "PotasscoVerif.C02.C02_equivalence", "PotasscoVerif.C02.C02_cost", "PotasscoVerif.C02.C02_compute_false",
            "PotasscoVerif.Asp.translation_stable", "PotasscoVerif.Asp.translation_stable_back", "PotasscoVerif.Asp.stableB_iff", "PotasscoVerif.Asp.stableModels_complete", "PotasscoVerif.Asp.stableModels_sound",
            "PotasscoVerif.C02.C02_map_injective", "PotasscoVerif.C02.C02_map_stable", "PotasscoVerif.C02.C02_aux_fresh", "PotasscoVerif.C02.convert_steps",
            "PotasscoVerif.C02.C02_minimize_flip", "PotasscoVerif.C02.C02_minimize_sorted", "PotasscoVerif.C02.flushMinimize_order",
            "PotasscoVerif.C02.C02_externals_passed", "PotasscoVerif.C02.C02_stable_models_ext", "PotasscoVerif.C02.C02_equivalence_ext", "PotasscoVerif.C02.C02_cost_ext",
            "PotasscoVerif.C02.extRules_out", "PotasscoVerif.C02.flushExternal_specT",
            "PotasscoVerif.C02.steps_JX", "PotasscoVerif.C02.C02_steps_translation", "PotasscoVerif.C02.C02_steps_stable_models", "PotasscoVerif.C02.C02_steps_externals",
            "PotasscoVerif.C02.C02_steps_stable_models_ext", "PotasscoVerif.C02.extRules_out_steps", "PotasscoVerif.C02.stepRegs_last"]
PARTIAL = {"several steps with external directives, extension OFF": "proved for several steps: C02_steps_stable_models (no external directives, extension on or off) and C02_steps_stable_models_ext (ANY external "
           "directives, extension on: the directives of all steps read together — an external on an atom no rule of any step defines, the last directive over all steps counts — against the external calls emitted "
           "over all steps). Without the extension the externals of each step are compiled into rules at the end of that step and cannot be taken back in a later step: what such a program means over several "
           "steps is not a property of the converter; there the check compares model == implementation and the atom map only. Shown names and costs are proved over all steps (C02_steps_equivalence, C02_steps_equivalence_ext, C02_steps_outputs, C02_steps_minimize, C02_steps_cost, C02_steps_cost_ext)"}
BSIZES = (4096,)
LPCONVERT = True
RULE = ("programs of 1..8 directives over 2..6 atoms: disjunctive/choice heads incl. empty, normal and weight bodies (bounds < 0, 0, reachable, unreachable; weights 0/1/mixed), "
        "minimize with negative weights and repeated priorities, outputs with empty / negative / compound conditions and repeated atoms and names, externals of all four values "
        "(also on head atoms), with clasp extensions on and off; multi-step programs for the mapping; a sample through the lpconvert executable; "
        "distinct = distinct call lists; non-trivial = at least 4 directives")
TRUSTED = ["props/asp_sem.py (reduct-based stable models for weight constraint programs; cross-checked on every run against the executable enumerator of Spec/Asp.lean, which is proved to decide the declarative definition: stableB_iff)"]
ASSUMPTIONS = ["fewer than 2^28 atoms are mapped (bit-field smId:28)", "output names contain no NUL", "semantic oracle on single-step programs and on multi-step programs without external directives (rules of all steps); multi-step programs with externals only for the atom map",
               "std::sort of symbols with equal atoms is modelled as stable (two names for one smodels atom arise only from an _edge atom that also carries a heuristic)"]
TECHNIQUE = "Lean 4 theorems on the converter model against a stable-model semantics (answer sets, shown names and costs preserved one to one for a program step; atom map injective/stable/fresh auxiliaries; minimize rewriting) + differential correspondence with the real SmodelsConvert and lpconvert + brute-force answer-set oracle"
LEVEL_TEXT = ("Reference semantics Spec/Asp.lean (stable models with disjunctive/choice heads and weight bodies, reduct as a two-interpretation satisfaction relation). "
              "Asp.translation_stable / translation_stable_back: renaming by an injection + false atom for integrity constraints + routing a body through a fresh auxiliary atom preserve stable models one to one. "
              "Lemmas/ConvertSem.lean: for EVERY step of rules, weight rules, minimize and output directives the converter model emits such a translation under its own atom map (invariants J, K, M over the run). "
              "Externals (Lemmas/ConvertFlags.lean): a tracker of heads / registered externals / last values follows the model's flags, and the rules emitted at the end of the step are the renamed rules of the declarative reading `progOf` (an external on an atom no rule defines: fact, choice or nothing; the last directive counts). C02_stable_models / C02_equivalence: restriction to the mapped atoms and the extension E by the auxiliary atoms are mutually inverse bijections between the answer sets of the given and of the emitted rules "
              "(false atom false = the emitted compute statement, C02_compute_false), and corresponding answer sets show exactly the same symbol names. C02_cost: per priority the emitted cost is the given cost minus "
              "the constant sum of negative weights. For EVERY call sequence: C02_map_injective, C02_map_stable, C02_aux_fresh (via convert_steps), C02_minimize_flip, C02_minimize_sorted + flushMinimize_order "
              "(one statement per priority, ascending). "
              "Externals passed on with the clasp extension (Lemmas/ConvertExt.lean, Props/C02x.lean): C02_externals_passed — the external calls of the emitted step are exactly the pending externals (atoms declared external while no rule "
              "had defined them, in order), each as (image, LAST value declared); extRules_out — read like the given ones (`progOf`), they denote the renamed rules of the given externals (an image heads an emitted rule iff its atom heads a given "
              "rule); C02_stable_models_ext / C02_equivalence_ext / C02_cost_ext: answer sets, shown names and costs correspond as above for EVERY step with ANY external directives converted with the extension on. "
              "Several steps (Lemmas/ConvertSteps.lean, Props/C02m.lean): the invariants J and XI are carried from step to step (step_JX, steps_JX: the flags of atoms survive the end of a step, the pending lists are emptied); "
              "C02_steps_translation: after ANY number of steps all emitted rules are a translation of all given rules under one atom map and one table of auxiliary atoms (no external directives, or extension on); "
              "C02_steps_stable_models: hence for incremental programs without external directives the cumulative answer sets correspond one to one; C02_steps_stable_models_ext (Lemmas/ConvertStepsExt.lean): with the extension on and ANY external directives in any steps, the external directives of all steps read together and the external calls emitted over all steps denote renamed rules of one another (extRules_out_steps, stepRegs_last: the last pending entry of an atom carries the value of its last directive over all steps), so the cumulative answer sets correspond; C02_steps_externals: with the extension on, the external calls of ALL steps are, step after step, the atoms declared external while no rule so far had defined them, with image under the final map and last value of that step. The check's answer-set oracle now also runs on such multi-step programs.")
LEVEL_NOTE = ("Proof of the single-step equivalence (answer sets, shown names, cost; externals compiled away AND passed on with the extension); several steps without externals; partial for several steps WITH externals + correspondence (~4k quick / 100k thorough programs × ext on/off, sample through lpconvert) + answer-set oracle on small programs. Trusted: Lean kernel+axioms, "
              "asp_sem.py, harness, generator in props/c02.py. D9 (INT_MIN minimize weight) repaired.")

I32 = 2**31 - 1
NAMES = [b"a", b"b", b"p(1)", b"a", b"q", b"_x"]

def gen_case(rng, multi):
    n = rng.randint(2, 6)
    atom = lambda: rng.randint(1, n) + 2           # input atoms 3..n+2: differ from their images
    exts = set(rng.sample(range(3, n + 3), rng.randint(0, min(2, n))))
    # mostly externals are atoms no rule defines; in a quarter of the programs a head may also be declared external (before or after
    # the rule): the directive then has no effect (the converter tests the head flag when it records AND when it flushes externals)
    strict = rng.random() < 0.75
    hatom = lambda: rng.choice([a for a in range(3, n + 3) if not strict or a not in exts] or [n + 3])
    lit = lambda: rng.choice([1, 1, -1]) * atom()
    lits = lambda k=3: [lit() for _ in range(rng.randint(0, k))]
    steps = []
    for si in range(rng.choice([2, 3]) if multi else 1):
        st = []
        for _ in range(rng.randint(1, 8)):
            k = rng.choice(["R", "R", "R", "S", "S", "M", "O", "O", "X"])
            if k == "R": st.append(("R", rng.randint(0, 1), [hatom() for _ in range(rng.choice([0, 1, 1, 2, 3]))], lits()))
            elif k == "S":
                ws = [(lit(), rng.choice([0, 1, 1, 2, 3])) for _ in range(rng.randint(0, 3))]
                st.append(("S", rng.randint(0, 1), [hatom() for _ in range(rng.choice([0, 1, 1, 2]))], rng.choice([-1, 0, 1, 2, 3, 7]), ws))
            elif k == "M": st.append(("M", rng.choice([0, 0, 1, 2, -1]), [(lit(), rng.choice([1, 2, -1, -3, 0])) for _ in range(rng.randint(0, 3))]))
            elif k == "O": st.append(("O", rng.choice(NAMES), lits(2)))
            elif exts: st.append(("X", rng.choice(sorted(exts)), rng.randint(0, 3)))
        steps.append(st)
    return {"ext": rng.randint(0, 1), "inc": multi, "steps": steps}

def words(c):
    w = ["I%d" % (1 if c["inc"] else 0)]
    for st in c["steps"]:
        w.append("B")
        for s in st:
            k = s[0]
            if k == "R": w.append("R,%d,%s,%s" % (s[1], progs.lst(s[2]), progs.lst(s[3])))
            elif k == "S": w.append("S,%d,%s,%d,%s" % (s[1], progs.lst(s[2]), s[3], progs.wl([tuple(x) for x in s[4]])))
            elif k == "M": w.append("M,%d,%s" % (s[1], progs.wl([tuple(x) for x in s[2]])))
            elif k == "O": w.append("O,%s,%s" % (progs.hexs(bytes(s[1]) if not isinstance(s[1], str) else bytes.fromhex(s[1])), progs.lst(s[2])))
            elif k == "X": w.append("X,%d,%d" % (s[1], s[2]))
        w.append("E")
    return w

def jsonable(c): return dict(c, steps=[[[x.hex() if isinstance(x, bytes) else x for x in s] for s in st] for st in c["steps"]])

def parse_words(ws):
    """emitted call words -> program for asp_sem"""
    p = {"rules": [], "externals": {}, "assume": [], "outputs": [], "minimize": []}
    L = lambda x: [] if x == "-" else [int(t) for t in x.split("/")]
    W = lambda x: [] if x == "-" else [tuple(int(u) for u in t.split(":")) for t in x.split("/")]
    for w in ws:
        f = w.split(",")
        if f[0] == "R": p["rules"].append((int(f[1]), L(f[2]), ("n", L(f[3]))))
        elif f[0] == "S": p["rules"].append((int(f[1]), L(f[2]), ("s", int(f[3]), W(f[4]))))
        elif f[0] == "M": p["minimize"].append((int(f[1]), W(f[2])))
        elif f[0] == "O": p["outputs"].append((f[1], L(f[2])))
        elif f[0] == "X": p["externals"][int(f[1])] = int(f[2])
        elif f[0] == "A": p["assume"] += L(f[1])
    return p

def original(c):
    p = {"rules": [], "externals": {}, "assume": [], "outputs": [], "minimize": []}
    heads = set()
    for s in c["steps"][0]:
        k = s[0]
        if k == "R": p["rules"].append((s[1], s[2], ("n", s[3]))); heads |= set(s[2])
        elif k == "S": p["rules"].append((s[1], s[2], ("s", s[3], [tuple(x) for x in s[4]]))); heads |= set(s[2])
        elif k == "M": p["minimize"].append((s[1], [tuple(x) for x in s[2]]))
        elif k == "O": p["outputs"].append((progs.hexs(bytes(s[1]) if not isinstance(s[1], str) else bytes.fromhex(s[1])), s[2]))
    # the last value given counts (an external on an atom that rules define has no effect: asp_sem)
    for s in c["steps"][0]:
        if s[0] == "X": p["externals"][s[1]] = s[2]
    return p

def corpus(ctx):
    return [
        {"ext": 1, "inc": False, "steps": [[("R", 0, [5], [3, -4]), ("R", 1, [], [3]), ("S", 0, [5], 2, [(3, 2), (4, 1)]), ("M", 1, [(3, 2), (-4, -3)]), ("M", 1, [(5, -1)]), ("O", b"a", [5]), ("O", b"b", [5]), ("O", b"c", []), ("X", 6, 0), ("X", 5, 1)]]},
        {"ext": 0, "inc": False, "steps": [[("R", 0, [], [3]), ("X", 4, 0), ("X", 5, 1), ("X", 6, 2), ("R", 1, [3], [4, 5])]]},
        {"ext": 0, "inc": False, "steps": [[("X", 3, 0), ("R", 1, [4], []), ("R", 0, [3], [4])]]},          # external declared before the atom gets a rule
        {"ext": 0, "inc": False, "steps": [[("X", 3, 1), ("R", 1, [4], []), ("R", 0, [3], [4])]]},
        {"ext": 1, "inc": False, "steps": [[("M", 0, [(3, -2147483648)])]]},                       # D9 (fixed): reported as error
        {"ext": 0, "inc": True, "steps": [[("R", 0, [5], [3]), ("X", 7, 0)], [("R", 0, [7], [5]), ("O", b"b", [7])]]},
    ]

def generate(ctx):
    n = {"quick": 4000, "thorough": 100000}[ctx.tier]
    return [gen_case(ctx.rng, ctx.rng.random() < 0.2) for _ in range(n)]

def check_semantics(c, emitted_words, amap, with_costs=True):
    orig = original(c); conv = parse_words(emitted_words)
    oa = sorted(asp_sem.atoms_of(orig)); ca = sorted(asp_sem.atoms_of(conv))
    if len(oa) > 7 or len(ca) > 11: return None
    # without clasp extensions externals are compiled away; with them they are external() calls
    sm_o = asp_sem.stable_models(orig, oa); sm_c = asp_sem.stable_models(conv, ca)
    img = {a: amap[a] for a in oa if a in amap}
    proj_o = sorted(sorted(img[a] for a in I if a in img) for I in sm_o)
    proj_c = sorted(sorted(x for x in J if x in img.values()) for J in sm_c)
    if len(set(map(tuple, proj_c))) != len(sm_c): return ("C02:not-one-to-one", "two stable models of the emitted program agree on all mapped atoms", {"emitted": emitted_words})
    if proj_o != proj_c:
        return ("C02:stable-models", "the stable models of the emitted program (restricted to mapped atoms) are not those of the original", {"orig": [sorted(I) for I in sm_o][:8], "conv": [sorted(J) for J in sm_c][:8], "map": img})
    # per model: shown names and costs
    inv = {v: k for k, v in img.items()}
    diffs = {}
    for J in sm_c:
        I = frozenset(inv[x] for x in J if x in inv)
        # unmapped input atoms are false in every model (nothing derives them)
        if asp_sem.shown(orig, I) != asp_sem.shown(conv, J):
            return ("C02:shown-symbols", "a stable model shows different symbol names", {"orig": asp_sem.shown(orig, I), "conv": asp_sem.shown(conv, J), "model": sorted(I)})
        if not with_costs: continue
        co, cc = asp_sem.costs(orig, I), asp_sem.costs(conv, J)
        if set(co) != set(cc): return ("C02:cost", "different priorities", {"orig": co, "conv": cc})
        for p in co:
            d = cc[p] - co[p]
            if diffs.setdefault(p, d) != d: return ("C02:cost", "per-priority cost differs by a non-constant amount", {"prio": p, "orig": co, "conv": cc})
    prios = [p for p, _ in conv["minimize"]]
    if with_costs and prios != sorted(set(prios)): return ("C02:cost", "minimize statements not emitted once per priority in ascending order", {"prios": prios})
    return "ok"

def check_steps(c, emitted_words, amap):
    """the rules of all steps against the rules emitted in all steps"""
    orig = {"rules": [], "externals": {}, "assume": [], "outputs": [], "minimize": []}
    for st in c["steps"]:
        for s in st:
            if s[0] == "R": orig["rules"].append((s[1], s[2], ("n", s[3])))
            elif s[0] == "S": orig["rules"].append((s[1], s[2], ("s", s[3], [tuple(x) for x in s[4]])))
            elif s[0] == "X": orig["externals"][s[1]] = s[2]         # the last directive over all steps counts (extension on: C02_steps_stable_models_ext)
            elif s[0] == "O": orig["outputs"].append((progs.hexs(bytes(s[1]) if not isinstance(s[1], str) else bytes.fromhex(s[1])), s[2]))
            elif s[0] == "M": orig["minimize"].append((s[1], [tuple(x) for x in s[2]]))
    conv = parse_words([w for w in emitted_words if w[0] in "RSAXOM"])
    oa = sorted(asp_sem.atoms_of(orig)); ca = sorted(asp_sem.atoms_of(conv))
    if len(oa) > 6 or len(ca) > 8: return None
    if len(set(amap.values())) != len(amap): return ("C02:atom-map", "the atom map is not injective after several steps", {"map": amap})
    sm_o = asp_sem.stable_models(orig, oa); sm_c = asp_sem.stable_models(conv, ca)
    img = {a: amap[a] for a in oa if a in amap}
    proj_o = sorted(sorted(img[a] for a in I if a in img) for I in sm_o)
    proj_c = sorted(sorted(x for x in J if x in img.values()) for J in sm_c)
    if len(set(map(tuple, proj_c))) != len(sm_c): return ("C02:not-one-to-one", "two stable models of the program emitted in several steps agree on all mapped atoms", {})
    if proj_o != proj_c:
        return ("C02:stable-models", "several steps: the stable models of the rules emitted so far (restricted to mapped atoms) are not those of the rules given so far",
                {"orig": [sorted(I) for I in sm_o][:8], "conv": [sorted(J) for J in sm_c][:8], "map": img})
    # C02_steps_equivalence / C02_steps_outputs: under corresponding answer sets the output directives of ALL steps show the same names
    inv = {v: k for k, v in img.items()}
    for J in sm_c:
        I = frozenset(inv[x] for x in J if x in inv)
        if asp_sem.shown(orig, I) != asp_sem.shown(conv, J):
            return ("C02:shown-symbols", "several steps: a stable model shows different symbol names", {"orig": asp_sem.shown(orig, I), "conv": asp_sem.shown(conv, J), "model": sorted(I)})
    # C02_steps_cost: per priority, the statements emitted over all steps cost what the statements given over all steps cost, up to a constant
    diffs = {}
    for J in sm_c:
        I = frozenset(inv[x] for x in J if x in inv)
        co, cc = asp_sem.costs(orig, I), asp_sem.costs(conv, J)
        if set(co) != set(cc): return ("C02:cost", "several steps: different priorities", {"orig": co, "conv": cc})
        for p in co:
            d = cc[p] - co[p]
            if diffs.setdefault(p, d) != d: return ("C02:cost", "several steps: per-priority cost differs by a non-constant amount", {"prio": p, "orig": co, "conv": cc})
    return "ok"

def evaluate(ctx, cases):
    cases = [dict(c, steps=[[tuple(s) for s in st] for st in c["steps"]]) for c in cases]
    lines = ["cv %d %s" % (c["ext"], " ".join(words(c))) for c in cases]
    impl = ctx.impl(lines); model = ctx.model(lines)
    for c, l, i, m in zip(cases, lines, impl, model):
        ctx.count()
        nd = sum(len(s) for s in c["steps"])
        if nd >= 4: ctx.nontrivial(l)
        ctx.dist["ext=%d" % c["ext"]] += 1
        ctx.sample({"line": l[:300], "impl": (i if isinstance(i, str) else "CRASH")[:300]}, 3)
        jc = jsonable(c)
        if not isinstance(i, str):
            ctx.fail("C02:crash", "crash / sanitizer abort in the converter", jc, {"stderr": i[2][-1500:]}); continue
        ws = i.split(" ")
        if "EXC" in ws:
            ctx.dist["reported-error"] += 1
            bad = any(s[0] == "M" and any(w == -I32 - 1 for _, w in s[2]) for st in c["steps"] for s in st)
            if not bad: ctx.fail("C02:exception", "the converter throws on a program smodels can express", jc, {"got": i[:300]})
        else:
            # injectivity + range of the emitted atoms
            maxa = int(ws[-2][2:])
            emitted = [w for w in ws[:-2] if w[0] in "RSMOXA"]
            amap = dict(tuple(int(t) for t in kv.split("=")) for kv in ws[-1][2:].split("/")) if ws[-1][2:] else {}
            if c["ext"]:
                # C02_externals_passed / C02_steps_externals: with the extension on, the external calls of each step are the atoms declared external in that
                # step while no rule so far had defined them (order of declaration, repeated declarations repeated), image and LAST value of the step
                heads, want_x = set(), []
                for st in c["steps"]:
                    regs, val = [], {}
                    for s_ in st:
                        if s_[0] in ("R", "S"): heads |= set(s_[2])
                        elif s_[0] == "X" and s_[1] not in heads: regs.append(s_[1]); val[s_[1]] = s_[2]
                    want_x.append(["X,%d,%d" % (amap.get(a, 0), val[a]) for a in regs])
                got_x, cur = [], None
                for w_ in ws[:-2]:
                    if w_ == "B": cur = []
                    elif w_ == "E" and cur is not None: got_x.append(cur); cur = None
                    elif w_.startswith("X,") and cur is not None: cur.append(w_)
                if got_x != want_x:
                    ctx.fail("C02:externals-passed", "with the extension on, the external calls of a step are not its pending externals with image and last value", jc, {"want": want_x, "got": got_x})
                else: ctx.dist["externals passed as declared"] += 1
            if not c["inc"]:
                if len(set(amap.values())) != len(amap) or any(v < 2 or v > maxa for v in amap.values()):
                    ctx.fail("C02:atom-map", "the atom map is not injective into 2..maxAtom", jc, {"map": amap, "max": maxa})
                else:
                    v = check_semantics(c, emitted, amap)
                    if v is None: ctx.dist["too-large-for-oracle"] += 1
                    elif v == "ok": ctx.dist["oracle-ok"] += 1
                    else: ctx.fail(v[0], v[1], jc, dict(v[2], emitted=" ".join(emitted)[:500]))
            elif c["ext"] or not any(s[0] == "X" for st in c["steps"] for s in st):
                # several steps without external directives (C02_steps_stable_models): the rules given so far and the rules emitted so far have the same answer sets
                v = check_steps(c, emitted, amap)
                if v is None: ctx.dist["too-large-for-oracle"] += 1
                elif v == "ok": ctx.dist["oracle-ok (several steps)"] += 1
                else: ctx.fail(v[0], v[1], jc, dict(v[2], emitted=" ".join(emitted)[:500]))
        ctx.compared += 1
        if i != m: ctx.disagree("SmodelsConvert", jc, i[:600], m[:600])
    # --- "converting any ground program to smodels FORMAT": the emitted calls written by the real SmodelsOutput, the text read by the reference reader
    #     (props/smodels_ref.py), and the answer sets / shown names of what the text denotes compared with the original's (single-step programs)
    wr = [(c, i) for c, i in zip(cases, impl) if isinstance(i, str) and "EXC" not in i.split(" ") and not c["inc"]][:{"quick": 1500, "thorough": 20000}[ctx.tier]]
    strip = lambda v: " ".join(w for w in v.split(" ") if not w.startswith("M:") and not w.startswith("G:"))
    l2 = ["sw %d 0 %s" % (c["ext"], strip(i)) for c, i in wr]
    for (c, i), w in zip(wr, ctx.impl(l2)):
        jc = jsonable(c)
        if not isinstance(w, str): ctx.fail("C02:crash", "crash / sanitizer abort in the smodels writer", jc, {"stderr": w[2][-1500:]}); continue
        hx, st = w.split(" ")[0], w.split(" ")[-1]
        if st != "OK":
            # "either fails with a reported error (for constructs smodels cannot express)": a weight rule with a negative bound is passed on by the
            # converter (behind an auxiliary head) and refused by the writer — lpconvert reports 'unsupported rule type'
            if any(x.startswith("S,") and int(x.split(",")[3]) < 0 for x in i.split(" ")): ctx.dist["reported error: negative bound (writer)"] += 1; continue
            ctx.fail("C02:exception", "the smodels writer throws on what the converter emits", jc, {"got": w[-200:]}); continue
        text = bytes.fromhex(hx) if hx != "-" else b""
        ok, calls = smodels_ref.accept(text, bool(c["ext"]))
        if not ok: ctx.fail("C02:written-text", "the smodels text written for the converted program is not well-formed", jc, {"text": text[:400].decode("latin-1")}); continue
        ws = i.split(" ")
        amap = dict(tuple(int(t) for t in kv.split("=")) for kv in ws[-1][2:].split("/")) if ws[-1][2:] else {}
        v = check_semantics(c, [x for x in calls if x[0] in "RSMOXA"], amap, with_costs=False)
        if v is None: ctx.dist["too-large-for-oracle"] += 1
        elif v == "ok": ctx.dist["oracle-ok (written smodels text)"] += 1
        else: ctx.fail(v[0], "written smodels text: " + v[1], jc, dict(v[2], text=text[:400].decode("latin-1")))
    # --- the oracle against the specification: the stable models asp_sem.py computes for the ORIGINAL rules must be those of the
    #     executable enumerator of Spec/Asp.lean (proved to decide `Stable`: Lemmas/AspEnum.lean), the semantics the theorems are about
    spec = []
    for c in cases:
        if c["inc"]: continue
        o = original(c); oa = sorted(asp_sem.atoms_of(o))
        if len(oa) > 7 or not oa: continue
        # rules and external directives in their original order: the Lean side reads externals declaratively (Spec/AspCalls.lean progOf)
        ws = [w for w in words(dict(c, steps=[c["steps"][0]])) if w[0] in "RSX"]
        spec.append((c, "asp %s %s" % (":".join(map(str, oa)), " ".join(ws)), sorted(sorted(I) for I in asp_sem.stable_models(o, oa))))
        if len(spec) >= {"quick": 1500, "thorough": 20000}[ctx.tier]: break
    for (c, l, want), got in zip(spec, ctx.model([l for _, l, _ in spec])):
        ctx.dist["spec-vs-oracle"] += 1
        ms = got.rsplit(" ", 1)[0]
        gotm = sorted(sorted(int(x) for x in m.split(".")) if m != "-" else [] for m in ms.split("|")) if ms else []
        if gotm != want: ctx.disagree("Spec/Asp.lean stableModels vs asp_sem.py", jsonable(c), str(want)[:300], got[:300])
    # --- a sample through the lpconvert executable: aspif text in, smodels text out == SmodelsOutput(ext, 0) fed with the converter's calls
    nlp = {"quick": 120, "thorough": 1500}[ctx.tier]
    todo = [(c, i) for c, i in zip(cases, impl) if isinstance(i, str)][:nlp]
    if todo and ctx.lpconvert:
        aw = ctx.impl(["aw " + " ".join(words(c)) for c, _ in todo])
        # what the aspif reader delivers for that text (weight-0 literals are dropped by its rule builder), converted, written
        ar = ctx.impl(["ar C " + (a_ if isinstance(a_, str) else "-") for a_ in aw])
        cvw = ctx.impl(["cv %d %s" % (c["ext"], " ".join(r_.split(" ")[:-1]) if isinstance(r_, str) else "") for (c, _), r_ in zip(todo, ar)])
        todo = [(c, v) for (c, _), v in zip(todo, cvw)]
        strip = lambda v: " ".join(w for w in v.split(" ") if w != "EXC" and not w.startswith("M:") and not w.startswith("G:")) if isinstance(v, str) else ""
        sw = ctx.impl(["sw %d 0 %s" % (c["ext"], strip(v)) for c, v in todo])
        for (c, i), a_, s_ in zip(todo, aw, sw):
            if not isinstance(a_, str) or not isinstance(s_, str): continue
            ctx.dist["lpconvert"] += 1
            r = subprocess.run([ctx.lpconvert[4096]] + (["-p"] if c["ext"] else []), input=bytes.fromhex(a_.replace("-", "")), capture_output=True, timeout=60, env=dict(__import__("os").environ, **runner.ASAN_ENV))
            jc = jsonable(c)
            if r.returncode < 0 or b"Sanitizer" in r.stderr or b"runtime error" in r.stderr:
                ctx.fail("C02:lpconvert-crash", "lpconvert crashed / sanitizer report", jc, {"stderr": r.stderr.decode("latin-1")[-1200:], "rc": r.returncode}); continue
            want_hex, want_st = s_.rsplit(" ", 1)
            if not isinstance(i, str): continue
            conv_failed = "EXC" in i.split(" ")
            if want_st == "OK" and not conv_failed:
                if r.returncode != 0 or r.stdout.hex() != want_hex.replace("-", ""):
                    ctx.fail("C02:lpconvert-output", "lpconvert's smodels text is not the converter's calls written by SmodelsOutput", jc,
                             {"rc": r.returncode, "got": r.stdout.decode("latin-1")[:400], "want": bytes.fromhex(want_hex.replace("-", "")).decode("latin-1")[:400], "stderr": r.stderr.decode("latin-1")[-300:]})
            else:
                ctx.dist["lpconvert-reported-error"] += 1
                if r.returncode == 0 or b"ERROR" not in r.stderr:
                    ctx.fail("C02:lpconvert-silent", "lpconvert neither succeeded with the expected text nor reported an error", jc, {"rc": r.returncode, "stderr": r.stderr.decode("latin-1")[-300:]})

def shrink_candidates(c):
    res = []
    for si, st in enumerate(c["steps"]):
        for k in range(len(st)):
            res.append(dict(c, steps=c["steps"][:si] + [st[:k] + st[k + 1:]] + c["steps"][si + 1:]))
    return res
