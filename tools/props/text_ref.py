"""Independent reference parser for the ground text that AspifTextOutput renders (the published ground ASP syntax restricted to
what the writer emits): rules with disjunctive/choice heads, normal/count/sum bodies, #minimize, #project, #show, #external,
#assume, #heuristic, #edge, theory atoms.  Used as the oracle of C06 on the IMPLEMENTATION's bytes; it shares no code with the
Lean model of the writer."""
import re

class ParseError(Exception): pass
OPCH = "/!<=>+-*\\?&@|:;~^."

class S:
    def __init__(self, t): self.t = t; self.i = 0
    def peek(self, n=1): return self.t[self.i:self.i + n]
    def eat(self, w):
        if self.t.startswith(w, self.i): self.i += len(w); return True
        return False
    def need(self, w):
        if not self.eat(w): raise ParseError("expected %r at %d in %r" % (w, self.i, self.t))
    def end(self): return self.i >= len(self.t)
    def int(self):
        m = re.compile(r"-?\d+").match(self.t, self.i)
        if not m: raise ParseError("integer expected at %d in %r" % (self.i, self.t))
        self.i = m.end(); return int(m.group())

def p_primary(s):
    c = s.peek()
    if c in "({[":
        close = {"(": ")", "{": "}", "[": "]"}[c]; s.i += 1
        args = p_args(s, close)
        return ("tuple", c, args)
    if c == '"':
        j = s.i + 1
        while j < len(s.t) and (s.t[j] != '"' or s.t[j - 1] == "\\"): j += 1
        r = s.t[s.i:j + 1]; s.i = j + 1; return ("sym", r)
    m = re.compile(r"-?\d+").match(s.t, s.i)
    if m and (c.isdigit() or (c == "-" and s.t[s.i + 1:s.i + 2].isdigit() and False)):
        s.i = m.end(); return ("num", int(m.group()))
    m = re.compile(r"[A-Za-z_][A-Za-z0-9_]*").match(s.t, s.i)
    if m:
        s.i = m.end(); name = m.group()
        if s.peek() == "(":
            s.i += 1
            return ("fun", name, p_args(s, ")"))
        return ("sym", name)
    raise ParseError("term expected at %d in %r" % (s.i, s.t))

def p_ops(s):
    j = s.i
    while j < len(s.t) and s.t[j] in OPCH: j += 1
    r = s.t[s.i:j]; s.i = j; return r

def p_operand(s):
    c = s.peek()
    if c and c in OPCH and not (c == "-" and s.t[s.i + 1:s.i + 2].isdigit()):
        op = p_ops(s)
        if s.peek() == "(" :
            # an operator used as an ordinary function symbol: op(args)
            s.i += 1
            return ("fun", op, p_args(s, ")"))
        return ("un", op, p_operand(s))
    if c == "-" and s.t[s.i + 1:s.i + 2].isdigit():
        return ("num", s.int())
    return p_primary(s)

def p_term(s):
    """flat operator expression: operand (' ' op ' ' operand)*  — the rendering does not parenthesise nested operator terms"""
    items = [p_operand(s)]
    while True:
        m = re.compile(r" ([/!<=>+\-*\\?&@|:;~^.]+) ").match(s.t, s.i)
        if not m or m.group(1) in (":", ";"): break
        # ' : ' starts an element condition and '; ' separates elements: not operators at this level when followed by a literal/element
        save = s.i; s.i = m.end()
        try:
            rhs = p_operand(s)
        except ParseError:
            s.i = save; break
        items += [m.group(1), rhs]
    return items[0] if len(items) == 1 else ("flat", items)

def p_args(s, close):
    args = []
    if s.eat(close): return args
    while True:
        args.append(p_term(s))
        if s.eat(close): return args
        s.need(", ")

def p_name(s):
    """an atom: x_<n>, a display name (identifier with optional arguments / anything up to a delimiter), or a theory atom"""
    if s.peek() == "&": return p_theory(s)
    j = s.i; depth = 0; q = False
    while j < len(s.t):
        c = s.t[j]
        if q:
            if c == '"' and s.t[j - 1] != "\\": q = False
        elif c == '"': q = True
        elif c in "([": depth += 1
        elif c in ")]":
            if depth == 0: break
            depth -= 1
        elif depth == 0 and c in ",;|{}=:. ": break
        j += 1
    r = s.t[s.i:j]
    if not r: raise ParseError("atom expected at %d in %r" % (s.i, s.t))
    s.i = j
    m = re.fullmatch(r"x_(\d+)", r)
    return ("x", int(m.group(1))) if m else ("n", r)

def p_lit(s):
    neg = s.eat("not ")
    return (-1 if neg else 1, p_name(s))

def p_list(s, sep, close, item=p_lit):
    out = []
    if s.peek(len(close)) == close: return out
    while True:
        out.append(item(s))
        if not s.eat(sep): return out

def p_cond(s):
    return p_list(s, ", ", ".") if s.eat(" : ") else []

def p_element(s):
    terms = []
    if s.peek() not in (":", ";", "}") and not s.t.startswith(" : ", s.i):
        while True:
            terms.append(p_term(s))
            if not s.eat(", "): break
    cond = []
    if s.eat(" : "):
        while True:
            cond.append(p_lit(s))
            if not s.eat(", "): break
    return (terms, cond)

def p_theory(s):
    s.need("&")
    t = p_operand(s)
    s.need("{")
    elems = []
    if not s.eat("}"):
        while True:
            elems.append(p_element(s))
            if s.eat("}"): break
            s.need("; ")
    guard = None
    m = re.compile(r" ([/!<=>+\-*\\?&@|:;~^.]+|[A-Za-z_][A-Za-z0-9_]*) ").match(s.t, s.i)
    if m:
        save = s.i; s.i = m.end()
        try: guard = (m.group(1), p_term(s))
        except ParseError: s.i = save
    return ("theory", t, elems, guard)

def p_wlit(s):
    l = p_lit(s); s.need("="); return (l, s.int())

def parse_line(line):
    s = S(line)
    if line.startswith("%"): return ("comment", line)
    if s.eat("#minimize{"):
        ws = p_list(s, "; ", "}", p_wlit); s.need("}@"); p = s.int(); s.need("."); r = ("minimize", p, ws)
    elif s.eat("#project{"):
        l = p_list(s, ", ", "}", p_name); s.need("}."); r = ("project", l)
    elif s.eat("#show "):
        # the shown term runs up to ' : ' or the final '.'
        k = line.find(" : ", s.i)
        if k < 0:
            if not line.endswith("."): raise ParseError("'.' expected in %r" % line)
            return ("show", line[s.i:-1], [])
        name = line[s.i:k]; s.i = k
        c = p_cond(s); s.need("."); r = ("show", name, c)
    elif s.eat("#external "):
        a = p_name(s); s.need(".")
        v = 2
        if s.eat(" [free]"): v = 0
        elif s.eat(" [true]"): v = 1
        elif s.eat(" [release]"): v = 3
        r = ("external", a, v)
    elif s.eat("#assume{"):
        l = p_list(s, ", ", "}"); s.need("}."); r = ("assume", l)
    elif s.eat("#heuristic "):
        a = p_name(s); c = p_cond(s); s.need(". ["); b = s.int(); p = 0
        if s.eat("@"): p = s.int()
        s.need(", ")
        m = re.compile(r"level|sign|factor|init|true|false").match(s.t, s.i)
        if not m: raise ParseError("modifier expected in %r" % line)
        s.i = m.end(); s.need("]")
        r = ("heuristic", a, c, b, p, m.group())
    elif s.eat("#edge("):
        a = s.int(); s.need(","); b = s.int(); s.need(")"); c = p_cond(s); s.need("."); r = ("edge", a, b, c)
    elif line.startswith("&"):
        t = p_theory(s); s.need("."); r = ("theory0", t)
    else:
        choice = s.eat("{")
        head = []
        if choice:
            head = p_list(s, ";", "}", p_name); s.need("}")
        elif not s.t.startswith(":-", s.i):
            head = p_list(s, "|", ":", p_name)
        body = ("normal", [])
        if s.eat(" :- ") or (not head and s.eat(":- ")):
            c = s.peek()
            if c.isdigit() or c == "-":
                bound = s.int(); s.need("{")
                # count or sum: decided by '=' after the first literal
                save = s.i
                items = []
                if not s.eat("}"):
                    first = p_lit(s)
                    s.i = save
                    if s.t.startswith("=", S_after_lit(s)):
                        items = p_list(s, "; ", "}", p_wlit); s.need("}"); body = ("sum", bound, items)
                    else:
                        items = p_list(s, "; ", "}"); s.need("}"); body = ("count", bound, items)
                else: body = ("count", bound, [])
            else:
                body = ("normal", p_list(s, ", ", "."))
        s.need(".")
        r = ("rule", 1 if choice else 0, head, body)
    if not s.end(): raise ParseError("trailing text %r in %r" % (s.t[s.i:], line))
    return r

def S_after_lit(s):
    t = S(s.t); t.i = s.i; p_lit(t); return t.i

def parse_text(text):
    """list of statements; raises ParseError. Every statement ends with a newline."""
    if text and not text.endswith("\n"): raise ParseError("text does not end with a newline")
    return [parse_line(l) for l in text.split("\n")[:-1]]
