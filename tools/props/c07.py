"""C07 — smodels reader accepts exactly well-formed input and never alters a number.

sr <ext> <hex> : impl = real readSmodels (claspExt = ext) with recording consumer + counting handler
                 (BUF_SIZE 16/17/4096), model = Model/SmodelsIn.lean
oracle         : independent reference acceptor props/smodels_ref.py."""
from props import smodels_ref, aspif_ref
from vlib import runner

ID = "C07"
MODULE = "PotasscoVerif.Props.C07"
EXTRA_MODULES = ["PotasscoVerif.Lemmas.AspifLang", "PotasscoVerif.Props.C07b", "PotasscoVerif.Props.C05m", "PotasscoVerif.Props.C03m"]
THEOREMS = ["PotasscoVerif.C05m.C05_modes", "PotasscoVerif.C03m.C07_complete_steps", "PotasscoVerif.C03m.C07_sound_steps", "PotasscoVerif.C03m.C07_rejects_steps", "PotasscoVerif.C07.C07_fields_exact", "PotasscoVerif.C07.C07_ext_gating", "PotasscoVerif.C07.C07_incremental_needs_ext",
            "PotasscoVerif.C07.C07_assign_values", "PotasscoVerif.C03.C03_number_exact", "PotasscoVerif.C03.C03_reject_out_of_range",
            "PotasscoVerif.C07.C07_complete", "PotasscoVerif.C07.C07_sound", "PotasscoVerif.C07.C07_rejects", "PotasscoVerif.C07.C07_ext_rules_need_ext",
            "PotasscoVerif.C07.Spec.ruleOf", "PotasscoVerif.C07.Spec.sum", "PotasscoVerif.C07.rulesLoop_sound", "PotasscoVerif.C07.rulesLoop_complete",
            "PotasscoVerif.C07.symbolsLoop_sound", "PotasscoVerif.C07.symbolsLoop_complete", "PotasscoVerif.C07.compute_sound", "PotasscoVerif.C07.compute_complete",
            "PotasscoVerif.C07.extra_sound", "PotasscoVerif.C07.extra_complete", "PotasscoVerif.C07.step_sound", "PotasscoVerif.C07.step_complete"]
PARTIAL = {"configurable atom limit": "the reader model and the grammar Prog7 have the default atom limit 2^31-1 (ProgramReader's initial varMax_); with a limit lowered by setMaxVar the implementation is checked against the reference acceptor with that limit (a third of the texts, limits 1..100), not against the model"}
BSIZES = (16, 17, 4096)
RULE = ("well-formed (optionally clasp-extended, 1-3 step) smodels texts with random layout, then at most one mutation (numeric field -> 2^31, 2^32+-1, 2^63, 2^64+1, 10^40, 0, "
        "value+-1, unknown rule type, 90/91/92 without extensions; truncation; token deleted/duplicated); distinct = distinct (ext,text); non-trivial = at least 10 tokens")
TRUSTED = ["props/smodels_ref.py is the executable reading of 'well-formed smodels program' used as oracle"]
ASSUMPTIONS = ["texts without NUL bytes; symbol names without line ends"]
TECHNIQUE = "Lean 4 theorems on the reader model (soundness and completeness against a declarative grammar of (clasp-extended) smodels programs in every layout; number fields exact-or-rejected for any digit count; extension gating) + differential correspondence with SmodelsInput + reference acceptor oracle"
LEVEL_TEXT = ("Props/C07b.lean: the smodels grammar `Prog7` (languages built from number tokens, sequencing, repetition and case distinction: rules of every type incl. the clasp extensions, symbol table, B+/B-, "
              "optional E section, number of models; strict = whitespace-separated tokens in any layout, lenient = what the reader also tolerates). C07_complete: every strict text is accepted and exactly the denoted rules, "
              "outputs, integrity constraints and externals are delivered in order (minimize priorities 0,1,...); C07_sound: whatever the reader accepts (NUL-free) is a lenient text denoting exactly what was delivered — "
              "atoms within 1..2^31-1, bounds and weights within 0..2^31-1, counts matched; C07_rejects; C07_ext_rules_need_ext (types 90/91/92 are no rules of the grammar without extensions). "
              "C07_fields_exact: every numeric field is read by a matcher that, for a digit string of any length, yields exactly the denoted number or fails; C07_ext_gating / C07_incremental_needs_ext. "
              "In addition reader model == real SmodelsInput on generated and mutated texts (3 buffer sizes, ext on/off) and an independent reference acceptor on the implementation.")
LEVEL_NOTE = "Proof (grammar soundness/completeness, numbers, gating) + correspondence (~3k quick / 100k thorough texts x 3 buffer sizes). Trusted: Lean kernel+axioms, reference acceptor, harness."

I32 = 2**31 - 1
BAD = [2**31, 2**32 - 1, 2**32, 2**32 + 1, 2**63, 2**64 + 1, 10**40, 0, 1, 2, 3, 4, 7, 9, 90, 91, 92, 100]

def bad_number(rng):
    """a number outside its field: the fixed boundary values, or one that is k*2^64 (or 2^63) plus/minus a small amount, with either sign —
    the values an accumulator that wraps instead of saturating turns into small legal numbers"""
    r = rng.random()
    if r < 0.25: return rng.choice([2**31, 2**31 + 1, 3000000000, 2**32 - 1, rng.randint(2**31, 2**32 - 1)])   # fits unsigned, not int: the window a wrong cast hides in (C07-a)
    if r < 0.65: return rng.choice(BAD)
    v = rng.choice([2**63, 2**64, 2**64, 2 * 2**64, 3 * 2**64, 4 * 2**64]) + rng.choice([-1, 1]) * rng.choice([0, 1, 2, 5, 7, 2**31 - 1, 2**31, rng.randint(0, 2**32)])
    return v if rng.random() < 0.6 else -v

def gen_step(rng, ext, toks):
    def N(*xs): toks.extend(("n", int(x)) for x in xs)
    def atom(): return rng.choice([1, 2, 3, 4, 5, 9, I32, rng.randint(1, I32)])
    def body():
        n = rng.choice([0, 1, 2, 3, rng.randint(0, 8)]); neg = rng.randint(0, n) if rng.random() < 0.9 else n + rng.randint(1, 3)
        N(n, neg); N(*[atom() for _ in range(n)])
    for _ in range(rng.choice([0, 1, 3, rng.randint(0, 10)])):
        rt = rng.choice([1, 1, 2, 3, 5, 5, 6, 8] + ([90, 91, 92] if ext else []))
        if rt == 1: N(1, atom()); body()
        elif rt in (3, 8):
            n = rng.randint(1, 4); N(rt, n); N(*[atom() for _ in range(n)]); body()
        elif rt == 2:
            n = rng.randint(0, 5); N(2, atom(), n, rng.randint(0, n), rng.choice([0, 1, n, I32])); N(*[atom() for _ in range(n)])
        elif rt in (5, 6):
            n = rng.randint(0, 5)
            if rt == 5: N(5, atom())
            else: N(6)
            N(rng.choice([0, 1, 5, I32]) if rt == 5 else 0, n, rng.randint(0, n)); N(*[atom() for _ in range(n)]); N(*[rng.choice([0, 1, 2, I32, rng.randint(0, I32)]) for _ in range(n)])
        elif rt == 90: N(90, 0)
        elif rt == 91: N(91, atom(), rng.choice([0, 1, 2, rng.randint(0, 3)]))     # 3 is just outside the field
        elif rt == 92: N(92, atom())
        toks.append(("e",))
    N(0); toks.append(("e",))
    for _ in range(rng.choice([0, 1, 2, 5])):
        name = bytes(rng.choice(b"abcxyz_(),\"0123456789 \t\xc3\xa4") for _ in range(rng.choice([0, 1, 3, 12, 30])))
        toks.append(("sym", atom(), name))
    N(0); toks.append(("e",))
    toks.append(("w", b"B+")); toks.append(("e",))
    for _ in range(rng.choice([0, 0, 1, 3])): N(atom()); toks.append(("e",))
    N(0); toks.append(("e",)); toks.append(("w", b"B-")); toks.append(("e",))
    for _ in range(rng.choice([0, 0, 1, 3])): N(atom()); toks.append(("e",))
    N(0); toks.append(("e",))
    if rng.random() < 0.3:
        toks.append(("w", b"E")); toks.append(("e",) if rng.random() < 0.6 else ("sp",))      # the first external may follow on the keyword's line (C07-q)
        for _ in range(rng.choice([0, 1, 3])): N(atom()); toks.append(("e",))
        N(0); toks.append(("e",))
    N(rng.choice([0, 1, 5])); toks.append(("e",))

def render(rng, toks, fancy):
    out = bytearray(); first = True
    for t in toks:
        if t[0] == "n":
            if not first: out += rng.choice([b" ", b" ", b"  ", b"\t", b"\n", b"\r\n"]) if fancy else b" "
            txt = str(t[1]).encode()
            if fancy and rng.random() < 0.03 and t[1] >= 0: txt = b"0" * max(0, rng.choice([18, 19, 20, 21, 40]) - len(txt)) + txt     # leading zeros: the value decides, not the digit count
            out += txt; first = False
        elif t[0] == "sym":
            out += str(t[1]).encode() + b" " + t[2] + (rng.choice([b"\n", b"\r\n", b"\r"]) if fancy else b"\n"); first = True
        elif t[0] == "w":
            if not first: out += b"\n"
            out += t[1]; first = True
            continue
        elif t[0] == "sp":
            out += rng.choice([b" ", b"  ", b"\t"]); first = True
        elif t[0] == "e":
            if not first or (out and out[-1:] not in (b"\n", b"\r")): out += rng.choice([b"\n", b"\r\n"]) if fancy else b"\n"
            first = True
    return bytes(out)

def mutate(rng, toks):
    idx = [i for i, t in enumerate(toks) if t[0] == "n"]
    if not idx: return toks
    i = rng.choice(idx); k = rng.random(); t = list(toks)
    if k < 0.5: t[i] = ("n", bad_number(rng))
    elif k < 0.65: t[i] = ("n", max(0, t[i][1] + rng.choice([1, -1])))
    elif k < 0.8: t = t[:i]
    elif k < 0.9: del t[i]
    else: t.insert(i, t[i])
    return t

def corpus(ctx):
    return [{"ext": 0, "text": b"5 1 3000000000 1 0 2 1\n0\n0\nB+\n0\nB-\n0\n1\n".hex()},      # D4: bound
            {"ext": 0, "text": b"5 1 1 1 0 2 3000000000\n0\n0\nB+\n0\nB-\n0\n1\n".hex()},     # D4: weight
            {"ext": 0, "text": b"1 1 0 0\n0\n3000000000 a\n0\nB+\n0\nB-\n0\n1\n".hex()},      # D4: symbol atom
            {"ext": 0, "text": b"0\n0\nB+\n0\nB-\n0\nE\n4000000000\n0\n1\n".hex()},            # D4: external atom
            {"ext": 0, "text": b"90 0\n0\n0\nB+\n0\nB-\n0\n1\n".hex()}] + [
            # every numeric field of every rule type once with 3000000000 (fits unsigned, not int) and once with 2^31 (C07-a: cardinality bound)
            {"ext": 1, "text": (" ".join(v if j == i else x for j, x in enumerate(rule)) + "\n0\n0\nB+\n0\nB-\n0\n1\n").encode().hex()}
            for rule in (["1", "2", "1", "0", "3"], ["2", "1", "2", "0", "1", "2", "3"], ["3", "2", "1", "2", "1", "0", "3"], ["5", "1", "1", "2", "0", "2", "3", "1", "1"],
                         ["6", "0", "2", "1", "2", "3", "1", "1"], ["8", "2", "1", "2", "1", "0", "3"], ["91", "2", "1"], ["92", "2"])
            for i in range(1, len(rule)) for v in ("3000000000", "2147483648")]

def generate(ctx):
    n = {"quick": 3000, "thorough": 100000}[ctx.tier]
    out = []
    for _ in range(n):
        rng = ctx.rng
        ext = rng.random() < 0.5
        toks = []
        steps = rng.choice([1, 1, 2, 3]) if ext else 1
        for s in range(steps):
            if ext and steps > 1: toks += [("n", 90), ("n", 0), ("e",)]
            gen_step(rng, ext, toks)
        r = rng.random()
        if r < 0.6: toks = mutate(rng, toks)
        text = render(rng, toks, rng.random() < 0.5)
        if r > 0.96: text = rng.choice([b" " + text, text + b"1 1 0 0\n", text[:rng.randint(0, len(text))]])
        out.append({"ext": 1 if (ext if rng.random() < 0.9 else not ext) else 0, "text": text.hex() or "-"})
    return out

def evaluate(ctx, cases):
    lines = ["sr %d %s" % (c["ext"], c["text"]) for c in cases]
    model = ctx.model(lines)
    refs = []
    for c in cases:
        t = bytes.fromhex(c["text"]) if c["text"] != "-" else b""
        refs.append((t, smodels_ref.accept(t, bool(c["ext"]))))
    for B in BSIZES:
        impl = ctx.impl(lines, B)
        for c, i, m, (t, (ok, calls)) in zip(cases, impl, model, refs):
            if B == 4096:
                ctx.count()
                if len(t.split()) >= 10: ctx.nontrivial((c["ext"], c["text"]))
                ctx.dist["well-formed" if ok else "malformed"] += 1
                ctx.dist["ext" if c["ext"] else "plain"] += 1
                ctx.sample({"ext": c["ext"], "text": t[:100].decode("latin-1"), "ref": ok, "impl": (i if isinstance(i, str) else "CRASH")[-40:]}, 5)
            cc = dict(c, B=B)
            if runner.is_oom(i): ctx.dist["allocation refused (outside the claim)"] += 1; continue
            if not isinstance(i, str):
                ctx.fail("C07:crash", "SmodelsInput crashed / sanitizer abort", cc, {"stderr": i[2][-1500:]}); continue
            status = i.split(" ")[-1]
            if ok:
                want = " ".join(calls) + " OK"
                if status != "OK": ctx.fail("C07:rejects-well-formed", "a well-formed smodels text was rejected", cc, {"impl": i[-300:], "want": want[-300:]})
                elif i != want: ctx.fail("C07:wrong-directives", "accepted, but the delivered rules/outputs/externals are not the denoted ones", cc, {"impl": i[:1200], "want": want[:1200]})
            else:
                if status == "OK": ctx.fail("C07:accepts-malformed", "a malformed smodels text (or one with a number outside its field / a clasp extension without extensions) was accepted", cc, {"impl": i[:1200]})
                else:
                    _, line, cnt = status.split(":")
                    if cnt != "1": ctx.fail("C07:error-not-once", "rejection reported %s times" % cnt, cc, {"impl": i[-200:]})
            ctx.compared += 1
            mi = m.rsplit(" ", 1) if " " in m else ["", m]
            ii = i.rsplit(" ", 1) if " " in i else ["", i]
            if mi[0] != ii[0] or mi[1][:2] != ii[1][:2]:
                ctx.disagree("SmodelsInput:calls+status", cc, i[-800:], m[-800:])

    # the reader driven step by step (accept, parse(Incremental) while more()): model SmodelsIn.readInc (C05_modes: equal to one-go reading)
    li = ["sri %d %s" % (c["ext"], c["text"]) for c in cases]
    mi_ = ctx.model(li); ii_ = ctx.impl(li, 4096); one = ctx.impl(lines, 4096)
    for c, i, m, o in zip(cases, ii_, mi_, one):
        if runner.is_oom(i) or runner.is_oom(o): continue
        if not isinstance(i, str):
            ctx.fail("C07:crash", "SmodelsInput crashed / sanitizer abort (step by step)", dict(c, mode="I"), {"stderr": i[2][-1500:]}); continue
        ctx.dist["step-by-step reads"] += 1
        ctx.compared += 1
        a = m.rsplit(" ", 1) if " " in m else ["", m]; b = i.rsplit(" ", 1) if " " in i else ["", i]
        if a[0] != b[0] or a[1][:2] != b[1][:2]: ctx.disagree("SmodelsInput:step-by-step", dict(c, mode="I"), i[-800:], m[-800:])
        if isinstance(o, str):
            d = o.rsplit(" ", 1) if " " in o else ["", o]
            if d[0] != b[0] or d[1][:2] != b[1][:2]:
                ctx.fail("C07:modes-differ", "reading step by step delivers other calls / another result than reading in one go", dict(c, mode="I"), {"one-go": o[-600:], "step-by-step": i[-600:]})

    # the configurable atom limit (ProgramReader::setMaxVar): implementation against the reference acceptor (the Lean model has the default limit)
    sub = [c for k, c in enumerate(cases) if k % 3 == 0]
    mvs = [[1, 2, 3, 4, 5, 9, 100, 2**31 - 2][(k * 7 + len(c["text"])) % 8] for k, c in enumerate(sub)]
    l2 = ["sr %d %s %d" % (c["ext"], c["text"], mv) for c, mv in zip(sub, mvs)]
    for c, mv, i in zip(sub, mvs, ctx.impl(l2, 4096)):
        t = bytes.fromhex(c["text"]) if c["text"] != "-" else b""
        ok, calls = smodels_ref.accept(t, bool(c["ext"]), mv)
        cc = dict(c, maxVar=mv)
        ctx.dist["maxVar %s" % ("well-formed" if ok else "malformed")] += 1
        if runner.is_oom(i): continue
        if not isinstance(i, str): ctx.fail("C07:crash", "SmodelsInput crashed / sanitizer abort", cc, {"stderr": i[2][-1500:]}); continue
        status = i.split(" ")[-1]
        if ok:
            want = " ".join(calls) + " OK"
            if status != "OK": ctx.fail("C07:rejects-well-formed", "a text that is well-formed for atom limit %d was rejected" % mv, cc, {"impl": i[-300:], "want": want[-300:]})
            elif i != want: ctx.fail("C07:wrong-directives", "accepted, but the delivered rules/outputs/externals are not the denoted ones", cc, {"impl": i[:1200], "want": want[:1200]})
        elif status == "OK": ctx.fail("C07:accepts-malformed", "a text with an atom above the reader's atom limit %d (or otherwise malformed) was accepted" % mv, cc, {"impl": i[:1200]})

def shrink_candidates(c):
    t = bytes.fromhex(c["text"]) if c["text"] != "-" else b""
    ls = t.split(b"\n")
    for i in range(len(ls)):
        yield dict(c, text=(b"\n".join(ls[:i] + ls[i + 1:])).hex() or "-")
