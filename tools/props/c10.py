"""C10 — the ground-text reader delivers exactly the statements written in its input syntax.

tr <C|I> <hex text>
impl   : real AspifTextInput through readProgram (C) and through accept/parse(Incremental)/more (I), call log recorded
model  : Model/TextIn.lean on the abstract character stream (C09 ties the buffered stream to it)
oracle : a printer draws a program, a spelling for every atom (letter / x<n> / x_<n>), fillers (blanks, tabs, CR, LF, CRLF, nothing)
         at every optional position and comments between statements; the reader must deliver exactly the program's directives in
         order (weight-0 literals dropped, a trailing '#step.' opening no step). A second stream of damaged texts feeds the
         correspondence (errors and reported lines must agree)."""
from props import progs
ID = "C10"
MODULE = "PotasscoVerif.Props.C10"
THEOREMS = ["PotasscoVerif.C10m.C10_modes", "PotasscoVerif.C10.C10_tok", "PotasscoVerif.C10.C10_int", "PotasscoVerif.C10.C10_atom_spellings", "PotasscoVerif.C10.C10_lit", "PotasscoVerif.C10.C10_lits",
            "PotasscoVerif.C10.C10_layout_irrelevant_token", "PotasscoVerif.C10.C10_atoms", "PotasscoVerif.C10.C10_rule", "PotasscoVerif.C10.stmtLoop_step",
            "PotasscoVerif.C10.C10_read_program", "PotasscoVerif.C10.C10_agg", "PotasscoVerif.C10.C10_wrule", "PotasscoVerif.C10.dMinimize_spec", "PotasscoVerif.C10.dHeuristic_spec",
            "PotasscoVerif.C10.stmtLoop_comment", "PotasscoVerif.C10.str_spec", "PotasscoVerif.C10.argLoop_spec", "PotasscoVerif.C10.term_spec", "PotasscoVerif.C10.dOutput_spec",
            "PotasscoVerif.C10.skipComments_spec", "PotasscoVerif.C10.C10_read_programX", "PotasscoVerif.C10.stepsLoop_spec", "PotasscoVerif.C10.C10_read_incremental"]
EXTRA_MODULES = ["PotasscoVerif.Props.C10b", "PotasscoVerif.Props.C10c", "PotasscoVerif.Props.C10e", "PotasscoVerif.Props.C10p", "PotasscoVerif.Props.C10d", "PotasscoVerif.Props.C10m"]
PARTIAL = {}
BSIZES = (16, 17, 4096)
RULE = ("programs of 0..14 statements over all statement kinds of the input syntax (facts, disjunctive/choice rules, normal and sum bodies, #minimize, #project, #output with "
        "identifier/function/quoted names, #external with all values, #assume, #heuristic with all modifiers, #edge), 1..4 steps with #incremental/#step, atoms from 1..26, small, "
        "and up to 2^31-1, weights incl. 0 and negative, bounds/priorities over the int range; every atom spelled at random (letter / x<n> / x_<n>), every optional position filled "
        "at random, comments between statements; plus damaged texts (byte deleted/replaced/inserted, truncated) for the correspondence; distinct = distinct texts; "
        "non-trivial = at least 4 statements")
TRUSTED = ["std::islower/isalnum in the C locale"]
ASSUMPTIONS = ["the text contains no NUL byte", "output names are expressible in the input syntax: identifier with optional argument list, or quoted string not starting with a blank",
               "BUF_SIZE >= 12 (longest keyword; smaller buffers hit the 'Token too long' assertion by design)"]
TECHNIQUE = "Lean 4 theorems on the reader model (whole programs over every statement kind of the input syntax incl. #output terms, comment lines and #incremental/#step are read back exactly for every filler, atom spelling and list separator) + differential correspondence with the real AspifTextInput at three buffer sizes + printer oracle"
LEVEL_TEXT = ("For EVERY filler (any run of blanks/tabs/CR/LF) and every stream state: C10_tok (a keyword or punctuation followed by any filler is matched and the filler skipped), C10_int, "
              "C10_atom_spellings (each of the spellings letter, x<n>, x_<n> of an atom 1..2^31-1 followed by any filler yields that atom), C10_lit ('not ' + filler + atom), C10_lits "
              "(comma-separated literal lists of any length with fillers everywhere), C10_layout_irrelevant_token (two fillers give the same value and the same remaining input). "
              "Props/C10b.lean: C10_atoms (atom lists with any admissible separator), C10_rule (facts, constraints, disjunctive/choice rules with normal bodies), the directive lemmas, stmtLoop_step, C10_read_program. "
              "Props/C10c.lean: C10_agg (aggregates with optional weights; weight 0 omitted), C10_wrule, #minimize, #heuristic. Props/C10e.lean: comment lines ended by LF, CR or CRLF (stmtLoop_comment), quoted strings with "
              "backslash escapes (str_spec), argument lists with nested parentheses and strings and any filler after every character (argLoop_spec, argsLoop_spec), term_spec, dOutput_spec. Props/C10p.lean: "
              "C10_read_programX — a program (one step) over ALL statement kinds (facts, constraints, disjunctive/choice rules with normal or weight bodies, #minimize, #assume, #project, #external, #edge, "
              "#heuristic, #output, comment lines anywhere incl. before the first statement), printed with ANY filler at every optional position and ANY spelling of every atom, is read as exactly the "
              "corresponding calls in order, without error. Props/C10d.lean: C10_read_incremental — filler and comment lines, `#incremental.`, steps separated by `#step.`: per step beginStep, exactly its "
              "statements, endStep, the boundaries exactly at the markers. C10_modes: for EVERY input text reading step by step (accept, parse(Incremental) while more()) gives exactly the calls and result of reading in one go. In addition model == real reader on every text (also damaged ones, incl. the reported line) and printer oracle on the implementation.")
LEVEL_NOTE = ("Proof (whole programs, all statement kinds, every layout) + correspondence (~5k quick / 120k thorough texts × 2 read modes × 3 buffer sizes) + printer oracle. Not in the proved grammar: stray `.` between "
              "statements and a trailing `#step.` (both covered by the correspondence). Trusted: Lean kernel+axioms, C09 for the stream, islower/isalnum, harness, generator/oracle in props/c10.py.")

I32 = 2**31 - 1
FILL = ["", "", "", " ", " ", "  ", "\t", "\n", "\r\n", " \n ", "\r", "   \t "]
HEU = ["level", "sign", "factor", "init", "true", "false"]
VAL = {0: "free", 1: "true", 2: "false", 3: "release"}

class Pr:
    def __init__(self, rng): self.r = rng; self.out = []
    def f(self): self.out.append(self.r.choice(FILL))
    def t(self, s): self.out.append(s); self.f()
    def atom(self, n):
        ch = ["x%d" % n, "x_%d" % n] + (["x_ %d" % n] if self.r.random() < 0.05 else [])
        if n <= 26: ch += [chr(96 + n)] * 3
        self.t(self.r.choice(ch))
    def lit(self, l):
        if l < 0: self.out.append("not "); self.f()
        self.atom(abs(l))
    def lits(self, ls, sep=","):
        for i, l in enumerate(ls):
            if i: self.t(self.r.choice(sep) if isinstance(sep, list) else sep)
            self.lit(l)
    def int(self, v, plus=True): self.t(self.r.choice([str(v)] + (["+%d" % v] if plus and v >= 0 and self.r.random() < 0.1 else [])))
    def agg(self, ws):
        self.t("{")
        for i, (l, w) in enumerate(ws):
            if i: self.t(",")
            self.lit(l)
            if w != 1 or self.r.random() < 0.3: self.t("="); self.int(w)
        self.t("}")
    def cond(self, c):
        if c or self.r.random() < 0.15:
            self.t(":"); self.lits(c)
    def name(self, nm): self.t(nm)
    def comment(self):
        self.out.append("%" + self.r.choice(["", " comment", " a :- b.", "#step.", "%%"]) + self.r.choice(["\n", "\r\n", "\r"])); self.f()

def gen_name(rng):
    k = rng.random()
    ident = rng.choice(["p", "foo", "_x", "a1", "q_r", "aB9", "x"])
    if k < 0.3: return ident, ident
    if k < 0.7:
        args = [rng.choice(["1", "a", "f(x)", "g(1,2)", "\"s t\"", "\"a,b)\"", "-3", "X", "\"q\\\"r\""]) for _ in range(rng.randint(1, 3))]
        canon = ident + "(" + ",".join(args) + ")"
        sp = lambda: rng.choice(["", "", " ", "\t"])
        text = ident + sp() + "(" + sp() + ("," + sp()).join(a + sp() for a in args) + ")"
        return text, canon
    s = rng.choice(["", "a", "hello world", "x y ", "a\\\"b", "100%", "p(1)", "tab\there", "\\\\"])
    return "\"" + s + "\"", "\"" + s + "\""

def gen_stmt(rng, g):
    k = rng.choice(["R", "R", "R", "S", "S", "M", "P", "O", "O", "X", "A", "H", "G"])
    if k == "R": return ("R", rng.randint(0, 1), g.atoms(), g.lits())
    if k == "S": return ("S", rng.randint(0, 1), g.atoms(), g.i32(), [(l, rng.choice([0, 1, 1, 2, 3, I32, abs(g.i32()) % (I32 + 1)])) for l in g.lits()])
    if k == "M": return ("M", g.i32(), [(l, rng.choice([0, 1, 2, -5, g.i32()])) for l in g.lits()])
    if k == "P": return ("P", g.atoms())
    if k == "O": return ("O", gen_name(rng), g.lits())
    if k == "X": return ("X", g.atom(), rng.randint(0, 3))
    if k == "A": return ("A", g.lits())
    if k == "H": return ("H", g.atom(), rng.randint(0, 5), g.i32(), rng.choice([0, 0, 1, 7, I32]), g.lits())
    return ("G", g.i32(), g.i32(), g.lits())

def gen_program(rng):
    g = progs.G(rng, max_atom=rng.choice([3, 26, 30, None]), extremes=rng.random() < 0.5)
    nsteps = rng.choice([1, 1, 1, 2, 3, 4])
    steps = [[gen_stmt(rng, g) for _ in range(rng.choice([0, 1, 2, 3, 5, 8]))] for _ in range(nsteps)]
    inc = nsteps > 1 or rng.random() < 0.2
    return {"inc": inc, "steps": steps}

def print_program(rng, p):
    pr = Pr(rng)
    pr.f()
    for _ in range(rng.choice([0, 0, 0, 0, 1, 1, 2, 3])): pr.comment()          # any number of comment lines may precede '#incremental'
    if p["inc"]: pr.t("#incremental"); pr.t(".")
    for si, st in enumerate(p["steps"]):
        if si: pr.t("#step"); pr.t(".")
        for s in st:
            if rng.random() < 0.15: pr.comment()
            if rng.random() < 0.05: pr.t(".")
            k = s[0]
            if k in ("R", "S"):
                ht, head = s[1], s[2]
                if ht == 1: pr.t("{"); pr.lits(head, [";", ","]); pr.t("}")
                else: pr.lits(head, [";", "|"])
                if k == "R":
                    if s[3] or not head or rng.random() < 0.1:
                        pr.t(":-"); pr.lits(s[3])
                else:
                    pr.t(":-"); pr.int(s[3], plus=False); pr.agg(s[4])     # a bound is recognised by a digit or '-' 
                pr.t(".")
            elif k == "M":
                pr.t("#minimize"); pr.agg(s[2])
                if s[1] != 0 or rng.random() < 0.3: pr.t("@"); pr.int(s[1])
                pr.t(".")
            elif k == "P":
                pr.t("#project")
                if s[1] or rng.random() < 0.5: pr.t("{"); pr.lits(s[1]); pr.t("}")
                pr.t(".")
            elif k == "O":
                pr.t("#output"); pr.name(s[1][0]); pr.cond(s[2]); pr.t(".")
            elif k == "X":
                pr.t("#external"); pr.atom(s[1]); pr.t(".")
                if s[2] != 2 or rng.random() < 0.5: pr.t("["); pr.t(VAL[s[2]]); pr.t("]")
            elif k == "A":
                pr.t("#assume")
                if s[1] or rng.random() < 0.5: pr.t("{"); pr.lits(s[1]); pr.t("}")
                pr.t(".")
            elif k == "H":
                pr.t("#heuristic"); pr.atom(s[1]); pr.cond(s[5]); pr.t("."); pr.t("["); pr.int(s[3])
                if s[4] != 0 or rng.random() < 0.3: pr.t("@"); pr.int(s[4])
                pr.t(","); pr.t(HEU[s[2]]); pr.t("]")
            else:
                pr.t("#edge"); pr.t("("); pr.int(s[1]); pr.t(","); pr.int(s[2]); pr.t(")"); pr.cond(s[3]); pr.t(".")
    tail = rng.random() < 0.1
    if tail: pr.comment()
    return "".join(pr.out).encode("latin-1"), tail

def expected(p, tail):
    w = ["I%d" % (1 if p["inc"] else 0)]
    steps = p["steps"]
    if len(steps) > 1 and not steps[-1] and not tail: steps = steps[:-1]          # a trailing '#step.' at the end of the input opens no step
    for st in steps:
        w.append("B")
        for s in st:
            k = s[0]
            if k == "R": w.append("R,%d,%s,%s" % (s[1], progs.lst(s[2]), progs.lst(s[3])))
            elif k == "S": w.append("S,%d,%s,%d,%s" % (s[1], progs.lst(s[2]), s[3], progs.wl([x for x in s[4] if x[1] != 0])))
            elif k == "M": w.append("M,%d,%s" % (s[1], progs.wl([x for x in s[2] if x[1] != 0])))
            elif k == "P": w.append("P,%s" % progs.lst(s[1]))
            elif k == "O": w.append("O,%s,%s" % (progs.hexs(s[1][1].encode("latin-1")), progs.lst(s[2])))
            elif k == "X": w.append("X,%d,%d" % (s[1], s[2]))
            elif k == "A": w.append("A,%s" % progs.lst(s[1]))
            elif k == "H": w.append("H,%d,%d,%d,%d,%s" % (s[1], s[2], s[3], s[4], progs.lst(s[5])))
            else: w.append("G,%d,%d,%s" % (s[1], s[2], progs.lst(s[3])))
        w.append("E")
    return " ".join(w) + " OK"

def damage(rng, t):
    if not t: return b"\x01"
    k = rng.random(); i = rng.randrange(len(t))
    if k < 0.3: return t[:i] + t[i + 1:]
    if k < 0.6: return t[:i] + bytes([rng.choice(b" .,;:{}[]()#%@=-_\"\\x0aNz|")]) + t[i + 1:]
    if k < 0.8: return t[:i] + bytes([rng.choice(b" .,;:{}[]()#%@=-_\"\\x09ANz|")]) + t[i:]
    return t[:i]

def corpus(ctx):
    return [{"text": t.hex(), "want": w} for t, w in [
        (b"a :- b, not c.\n{x1;x_2} :- 2{a=1, not b=2}.\n", "I0 B R,0,1,2/-3 S,1,1/2,2,1:1/-2:2 E OK"),
        (b"#incremental.\na.\n#step.\nb | c.\n#step.\n", "I1 B R,0,1,- E B R,0,2/3,- E OK"),
        (b"% one\n% two\n  % three\n#incremental.\na.\n#step.\nb.", "I1 B R,0,1,- E B R,0,2,- E OK"), (b"", "I0 B E OK"), (b":- .{}.", "I0 B R,0,-,- R,1,-,- E OK"),
        (b"#minimize{a=0, b=-2}@-3. #project. #assume. #external z.", "I0 B M,-3,2:-2 P,- A,- X,26,2 E OK"),
        (b"x2147483647 :- not x_2147483647.", "I0 B R,0,2147483647,-2147483647 E OK"),
        (b"a :- 1{b=-1}.", None), (b"x2147483648.", None), (b"a :- 1 {b=2147483648}.", None), (b"#step.", None), (b"a\n\n:- b,\n\n,", None),
    ]]

def generate(ctx):
    n = {"quick": 5000, "thorough": 120000}[ctx.tier]
    out = []
    for _ in range(n):
        p = gen_program(ctx.rng); t, tail = print_program(ctx.rng, p)
        if ctx.rng.random() < 0.25: out.append({"text": damage(ctx.rng, t).hex(), "want": None})
        else: out.append({"text": t.hex(), "want": expected(p, tail), "nst": sum(len(s) for s in p["steps"])})
    return out

def evaluate(ctx, cases):
    for bs in BSIZES:
        lines, meta = [], []
        for ci, c in enumerate(cases):
            for mode in ("C", "I"):
                lines.append("tr %s %s" % (mode, c["text"] or "-")); meta.append((ci, mode))
        impl = ctx.impl(lines, B=bs); model = ctx.model(lines) if bs == BSIZES[0] else None
        if model is not None: cache = model
        for k, ((ci, mode), l, i) in enumerate(zip(meta, lines, impl)):
            c = cases[ci]; m = cache[k]
            if bs == BSIZES[0] and mode == "C":
                ctx.count()
                if c.get("nst", 0) >= 4: ctx.nontrivial(c["text"])
                ctx.dist["valid" if c["want"] else "damaged"] += 1
                ctx.sample({"text": bytes.fromhex(c["text"]).decode("latin-1")[:200], "impl": (i if isinstance(i, str) else "CRASH")[:160]}, 4)
            if not isinstance(i, str):
                ctx.fail("C10:crash", "crash / sanitizer abort in the text reader (BUF_SIZE=%d, mode %s)" % (bs, mode), c, {"stderr": i[2][-1500:]}); continue
            if bs == BSIZES[0]: ctx.dist["status:" + i.rsplit(" ", 1)[-1].split(":")[0]] += 1
            if c["want"] is not None and i != c["want"]:
                ctx.fail("C10:statements", "the reader does not deliver exactly the statements written (BUF_SIZE=%d, mode %s)" % (bs, mode), c, {"got": i[:600], "want": c["want"][:600]})
            ctx.compared += 1
            if i != m: ctx.disagree("AspifTextInput(B%d,%s)" % (bs, mode), c, i[:600], m[:600])

def shrink_candidates(c):
    t = bytes.fromhex(c["text"])
    if c.get("want") is not None: return []
    res = []
    for i in range(len(t)): res.append({"text": (t[:i] + t[i + 1:]).hex(), "want": None})
    return res
