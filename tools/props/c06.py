"""C06 — ground-text rendering is faithful and complete for every program.

tw <call>*
impl   : real AspifTextOutput fed through the AbstractProgram interface, bytes written
model  : Model/TextOut.lean (word buffer, sum→count normalisation, name table, theory string builder)
oracle : props/text_ref.py — an independent parser of the ground syntax — applied to the IMPLEMENTATION's bytes: per step exactly one
         statement per rule / minimize / project / external / assume / heuristic / edge / #show-rendered output / theory directive,
         in order, nothing else, and each equal to the directive given (heads, kinds, literals by name, bounds with the sum≍count
         equivalence checked by satisfaction table, priorities, values, modifiers, conditions, theory term structure)."""
from props import progs, text_ref
from vlib import runner
ID = "C06"
MODULE = "PotasscoVerif.Props.C06"
THEOREMS = ["PotasscoVerif.C06.C06_count_equiv", "PotasscoVerif.C06.C06_count_only_if_uniform", "PotasscoVerif.C06.directive_enc", "PotasscoVerif.C06.apply_dir",
            "PotasscoVerif.C06.C06_statement_count", "PotasscoVerif.C06.C06_total", "PotasscoVerif.C06.C06_rule_shape", "PotasscoVerif.C06.C06_name_lookup",
            "PotasscoVerif.C06.write_plain", "PotasscoVerif.C06.C06_parse_back"]
EXTRA_MODULES = ["PotasscoVerif.Props.C06p"]
PARTIAL = {"C06_faithful (parse back) beyond C06_parse_back": "C06_parse_back proves parse-back (by the library's own reader model) for steps of rules with normal bodies, #project, #external, #assume, "
           "#heuristic, #edge, and #minimize / weight rules with at most one aggregate element, over unnamed atoms; for aggregates with two or more elements (written with ';' between elements, which the library's reader does not accept), named atoms, #show statements, theory atoms "
           "and several steps, that a parser of the ground syntax recovers every statement is decided by the reference parser run on the implementation's bytes (oracle) and by model == implementation; "
           "proved there are the satisfaction equivalence of the sum→count rewriting, the one-line-per-directive count, totality, the shape of rule lines and the name lookup"}
BSIZES = (4096,)
RULE = ("programs of 0..12 directives per step over 1..3 steps (incremental or not) through the AbstractProgram interface: rules with empty/one/many head atoms, normal bodies, "
        "sums with no literals / zero weights / equal weights / mixed weights / bounds <= 0, huge, unreachable; empty and non-empty minimize/project/assume lists; outputs naming "
        "atoms or rendered as #show (quoted, upper-case, conditional); externals with all values; heuristics with all modifiers; edges; theory terms (numbers, symbols, functions, "
        "operators, all tuple kinds), elements with conditions, theory atoms with and without guard, as directives and as body atoms; named and unnamed atoms mixed; "
        "distinct = distinct call lists; non-trivial = at least 5 directives")
TRUSTED = ["std::ostream integer formatting = decimal"]
ASSUMPTIONS = ["display names are pairwise distinct, contain no blank-delimited separators and are not of the form x_<n>; every named atom occurs in some statement",
               "sum weights are >= 0 (aspif); theory tuples are Paren/Brace/Bracket; term tables have no cycles and no term is nested deeper than 10000 levels (the writer reports an error beyond that: D17); ':' and ';' are not used as theory operators",
               "the name table is a vector indexed by atom id: naming atom 2^31-1 allocates 8 GB (allocation refusals are classified, not counted)", "D8: nested operator terms render without parentheses and only the last of several names of an atom is shown (known findings)"]
TECHNIQUE = "Lean 4 theorems on the writer model (sum≍count satisfaction equivalence, line count, totality, rule shape, name lookup) + differential correspondence with the real AspifTextOutput + independent reference parser as oracle"
LEVEL_TEXT = ("C06_count_equiv: for EVERY bound, weight w > 0 and number of true literals, w·n ≥ bound ⇔ n ≥ (bound + w − 1) / w with C++ division — the count the writer stores has the same "
              "satisfaction condition as the sum; C06_count_only_if_uniform: the rewriting happens only when all weights are equal and positive (so zero and mixed weights stay sums: no "
              "division by zero); directive_enc + apply_dir + C06_statement_count: every directive call appends exactly the words of its directive, the writer's own cursor reads them back, and a step's text is exactly one line per buffered directive, in order, each being the stated text of that directive (all ten kinds; empty lists and aggregates keep their braces), and nothing else; C06_total: no call sequence without theory calls makes the writer fail; "
              "C06_rule_shape: a rule line is head + ' :- ' + body + '.' with the stated separators, also for empty heads/bodies; C06_name_lookup: the last name given to an atom is the one "
              "printed, unnamed atoms print as x_<n>. "
              "C06_parse_back (Props/C06p.lean) composes the writer model with the READER model of C10: for EVERY step made of rules with disjunctive or choice heads (also empty) and normal bodies (also empty), "
              "#project, #external (all four values), #assume, #heuristic (all modifiers, any bias, priority, condition), #edge directives, and #minimize statements / weight rules with no or one aggregate element, over unnamed atoms — any number, any list lengths — "
              "TextIn.read (TextOut.write step).out delivers exactly the calls that were rendered, in order, without an error (write_plain: the text is one grammar line of the reader per directive). "
              "The check replays this on the code: the bytes the real writer produced for such steps are read by the real AspifTextInput and by its model and must give back the rendered calls. "
              "Parse-back of the other texts: reference parser on the implementation's bytes + model == implementation.")
LEVEL_NOTE = ("Partial proof + correspondence (~4k quick / 100k thorough programs) + reference-parser oracle. Trusted: Lean kernel+axioms, harness, props/text_ref.py, generator in props/c06.py. "
              "D5, D6 repaired (fix: commits); D8 recorded as known finding.")

I32 = 2**31 - 1
NAMES = ["a", "b", "c", "p(1)", "q(a,b)", "_x", "foo", "r(\"s t\")", "bar(f(1),2)", "aB_9", "z"]
SHOWS = ["\"str\"", "X", "Foo(1)", "\"a b\"", "1", "-", "a", "p(2)"]
IDENTS = ["t", "diff", "sum", "f", "g", "x", "end", "_f", "_g2", "_"]      # also names starting with an underscore (a name, not an operator)
OPS = ["+", "-", "*", "<=", "=", "!=", "..", "<", ">", "/", "?", "@"]

def hexs(b): return progs.hexs(b)

class Gen:
    def __init__(self, rng):
        self.r = rng
        self.natoms = rng.choice([3, 6, 12])
        self.big = rng.random() < 0.15
        self.names = {}
        for a in rng.sample(range(1, self.natoms + 1), rng.randint(0, self.natoms)):
            self.names[a] = NAMES[(a * 7 + rng.randint(0, 3)) % len(NAMES)] + ("" if rng.random() < 0.7 else str(a))
        # distinct names
        seen = {}
        for a in list(self.names):
            if self.names[a] in seen: del self.names[a]
            else: seen[self.names[a]] = a
        self.used = set()
        self.tid = 0; self.eid = 0; self.terms = {}; self.theory_names = {}
        # term ids: consecutive from 0, or 0 handed out late (a guard's right-hand side may be term 0: C06-n), or with gaps
        self.idmode = rng.choice(["seq", "seq", "late0", "late0", "sparse"]); self.zero_free = self.idmode == "late0"
        if self.idmode != "seq": self.tid = 1
        self.elem_pool = []          # elements defined so far (also in earlier steps): later theory atoms may refer to them again
    def atom(self):
        a = self.r.randint(1, self.natoms) if not (self.big and self.r.random() < 0.2) else self.r.choice([I32, 100000, 4711])
        self.used.add(a); return a
    def lit(self): return self.r.choice([1, 1, -1]) * self.atom()
    def n(self): return self.r.choice([0, 0, 1, 1, 2, 3, 5])
    def atoms(self): return [self.atom() for _ in range(self.n())]
    def lits(self): return [self.lit() for _ in range(self.n())]
    def i32(self): return self.r.choice([0, 1, -1, 2, 3, 7, I32, -I32 - 1, self.r.randint(-50, 50)])
    def wlits(self, minimize=False):
        k = self.n(); mode = self.r.choice(["eq", "eq", "mixed", "zero", "one"])
        w0 = self.r.choice([1, 2, 3, I32])
        out = []
        for _ in range(k):
            w = w0 if mode == "eq" else 0 if mode == "zero" else 1 if mode == "one" else self.r.choice([0, 1, 2, 5, I32])
            if minimize and self.r.random() < 0.3: w = -w
            out.append((self.lit(), w))
        return out
    # --- theory
    def alloc(self):
        if self.zero_free and self.r.random() < 0.25: self.zero_free = False; return 0
        i = self.tid; self.tid += 1 if self.idmode != "sparse" else self.r.choice([1, 1, 2, 5]); return i
    def term(self, depth=0):
        r = self.r.random()
        if depth > 2 or r < 0.3:
            i = self.alloc()
            if self.r.random() < 0.5: v = self.r.choice([0, 1, 42, -3, I32]); self.terms[i] = ("num", v); w = "TN,%d,%d" % (i, v)
            else: nm = self.r.choice(IDENTS); self.terms[i] = ("sym", nm); w = "TS,%d,%s" % (i, hexs(nm.encode()))
            return i, [w]
        ws = []
        if r < 0.75:       # function / operator
            isop = self.r.random() < 0.5
            nm = self.r.choice(OPS) if isop else self.r.choice(IDENTS)
            f = self.alloc(); self.terms[f] = ("sym", nm); ws.append("TS,%d,%s" % (f, hexs(nm.encode())))
            nargs = self.r.choice([1, 2, 2, 3] if isop else [0, 1, 2, 3])
            args = []
            for _ in range(nargs):
                a, w = self.term(depth + 1); args.append(a); ws += w
            i = self.alloc(); self.terms[i] = ("comp", f, args); ws.append("TC,%d,%d,%s" % (i, f, progs.lst(args)))
            return i, ws
        base = self.r.choice([-1, -2, -3]); args = []
        for _ in range(self.r.choice([0, 1, 2, 3])):
            a, w = self.term(depth + 1); args.append(a); ws += w
        i = self.alloc(); self.terms[i] = ("comp", base, args); ws.append("TC,%d,%d,%s" % (i, base, progs.lst(args)))
        return i, ws
    def theory_atom(self, atom):
        ws = []
        nm = self.r.choice(IDENTS); t = self.alloc(); self.terms[t] = ("sym", nm); ws.append("TS,%d,%s" % (t, hexs(nm.encode())))
        elems = []; estruct = []
        for _ in range(self.r.choice([0, 1, 1, 2])):
            if self.elem_pool and self.r.random() < 0.3:
                # an element of an earlier atom (possibly of an earlier step): ids of terms and elements are persistent
                e, ts, cond = self.r.choice(self.elem_pool)
                if e not in elems: elems.append(e); estruct.append((ts, cond))
                continue
            ts = []
            for _ in range(self.r.choice([0, 1, 1, 2])):
                a, w = self.term(); ts.append(a); ws += w
            cond = [self.r.choice([1, -1]) * self.r.randint(1, self.natoms) for _ in range(self.r.choice([0, 0, 1, 2]))]
            if not ts and not cond: a, w = self.term(); ts.append(a); ws += w
            e = self.eid; self.eid += 1
            ws.append("TE,%d,%s,%s" % (e, progs.lst(ts), progs.lst(cond))); elems.append(e); estruct.append((ts, cond))
            self.elem_pool.append((e, ts, cond))
        guard = None
        if self.r.random() < 0.4:
            op = self.alloc(); o = self.r.choice(["<=", "=", ">", "!="]); self.terms[op] = ("sym", o); ws.append("TS,%d,%s" % (op, hexs(o.encode())))
            rhs, w = self.term(); ws += w
            guard = (op, rhs)
            ws.append("TG,%d,%d,%s,%d,%d" % (atom, t, progs.lst(elems), op, rhs))
        else: ws.append("TA,%d,%d,%s" % (atom, t, progs.lst(elems)))
        return ws, (t, estruct, guard)

def gen_case(rng, fragment=False):
    g = Gen(rng)
    nsteps = rng.choice([1, 1, 2, 3]); inc = nsteps > 1 or rng.random() < 0.2
    if fragment: nsteps = 1; inc = False; g.names = {}      # the fragment the library's own reader reads back (Props/C06p.lean)
    steps = []
    next_theory_atom = g.natoms + 1
    for si in range(nsteps):
        st = []
        for _ in range(rng.choice([0, 1, 2, 4, 7, 12])):
            k = rng.choice(["R", "R", "R", "S", "S", "S", "M", "P", "O", "X", "A", "H", "G", "T", "TB"]) if not fragment else rng.choice(["R", "R", "R", "P", "X", "A", "H", "G", "S1", "M1"])
            if k == "S1": st.append(("S", rng.randint(0, 1), g.atoms(), g.i32(), rng.choice([[], [(g.lit(), 1)]])))
            elif k == "M1": st.append(("M", g.i32(), rng.choice([[], [(g.lit(), rng.choice([1, -1, 2, I32, -I32 - 1, 7]))]])))
            elif k == "R": st.append(("R", rng.randint(0, 1), g.atoms(), g.lits()))
            elif k == "S": st.append(("S", rng.randint(0, 1), g.atoms(), g.i32(), g.wlits()))
            elif k == "M": st.append(("M", g.i32(), g.wlits(True)))
            elif k == "P": st.append(("P", g.atoms()))
            elif k == "O": st.append(("O", rng.choice(SHOWS), g.lits() if rng.random() < 0.7 else [g.atom(), g.atom()]))
            elif k == "X": st.append(("X", g.atom(), rng.randint(0, 3)))
            elif k == "A": st.append(("A", g.lits()))
            elif k == "H": st.append(("H", g.atom(), rng.randint(0, 5), g.i32(), rng.choice([0, 0, 1, 7, I32]), g.lits()))
            elif k == "G": st.append(("G", g.i32(), g.i32(), g.lits()))
            elif k == "T":
                ws, struct = g.theory_atom(0); st.append(("T0", ws, struct))
            else:
                a = next_theory_atom; next_theory_atom += 1
                ws, struct = g.theory_atom(a); st.append(("TA", ws, struct, a))
                st.append(("R", 0, [g.atom()] if rng.random() < 0.7 else [], [a] + g.lits()[:1]))
        steps.append(st)
    # naming outputs go to the first step, at random positions; only for atoms that are used
    for a, nm in g.names.items():
        if a in g.used: steps[0].insert(rng.randint(0, len(steps[0])), ("N", nm, a))
    return {"inc": inc, "steps": steps, "terms": {str(k): v for k, v in g.terms.items()}}

def words(c):
    w = ["I%d" % (1 if c["inc"] else 0)]
    for st in c["steps"]:
        w.append("B")
        for s in st:
            k = s[0]
            if k == "R": w.append("R,%d,%s,%s" % (s[1], progs.lst(s[2]), progs.lst(s[3])))
            elif k == "S": w.append("S,%d,%s,%d,%s" % (s[1], progs.lst(s[2]), s[3], progs.wl([tuple(x) for x in s[4]])))
            elif k == "M": w.append("M,%d,%s" % (s[1], progs.wl([tuple(x) for x in s[2]])))
            elif k == "P": w.append("P,%s" % progs.lst(s[1]))
            elif k == "O": w.append("O,%s,%s" % (hexs(s[1].encode("latin-1")), progs.lst(s[2])))
            elif k == "N": w.append("O,%s,%d" % (hexs(s[1].encode("latin-1")), s[2]))
            elif k == "X": w.append("X,%d,%d" % (s[1], s[2]))
            elif k == "A": w.append("A,%s" % progs.lst(s[1]))
            elif k == "H": w.append("H,%d,%d,%d,%d,%s" % (s[1], s[2], s[3], s[4], progs.lst(s[5])))
            elif k == "G": w.append("G,%d,%d,%s" % (s[1], s[2], progs.lst(s[3])))
            else: w += s[1]
        w.append("E")
    return w

# --- expected structure (mirrors text_ref's result types)
def t_struct(terms, i, nested):
    t = terms[str(i)] if str(i) in terms else terms[i]
    if t[0] == "num": return ("num", t[1])
    if t[0] == "sym": return ("sym", t[1])
    base, args = t[1], t[2]
    sub = [t_struct(terms, a, nested) for a in args]
    if base < 0: return ("tuple", {-1: "(", -2: "{", -3: "["}[base], sub)
    f = terms[str(base)] if str(base) in terms else terms[base]
    nm = f[1]
    if f[0] == "sym" and nm and nm[0] in text_ref.OPCH:
        if len(args) == 1:
            if sub[0][0] == "num" and nm == "-" and sub[0][1] >= 0: nested.append("unary-minus-number"); return ("num", -sub[0][1])
            if sub[0][0] == "tuple" and sub[0][1] == "(": nested.append("unary-operator-on-tuple"); return ("fun", nm, sub[0][2])
            if (sub[0][0] == "num" and sub[0][1] < 0) or sub[0][0] in ("flat", "un") or (sub[0][0] == "fun" and sub[0][1][:1] and sub[0][1][0] in text_ref.OPCH): nested.append("nested-operator")
            return ("un", nm, sub[0])
        if len(args) == 2:
            items = []
            for k, x in enumerate(sub):
                if x[0] == "flat": nested.append("nested-operator"); items += x[1]
                else:
                    if x[0] == "un" and k == 1: nested.append("nested-operator")
                    items.append(x)
                if k == 0: items.append(nm)
            return ("flat", items)
    return ("fun", nm, sub)

def in_reader_fragment(c):
    """Props/C06p.lean (C06_parse_back): one non-incremental step of rules with normal bodies, #project, #external, #assume, #heuristic, #edge
    over unnamed atoms, numbers the reader takes back"""
    if c["inc"] or len(c["steps"]) != 1: return False
    for s in c["steps"][0]:
        if s[0] not in ("R", "P", "X", "A", "H", "G", "S", "M"): return False
        if s[0] == "H" and s[4] > I32: return False
        # aggregates: no element, or one (weight 1 in a rule — written as the count —, non-zero in #minimize)
        if s[0] == "S" and not (len(s[4]) == 0 or (len(s[4]) == 1 and s[4][0][1] == 1)): return False
        if s[0] == "M" and not (len(s[2]) == 0 or (len(s[2]) == 1 and s[2][0][1] != 0)): return False
    return True

def evaluate(ctx, cases):
    lines = ["tw " + " ".join(words(c)) for c in cases]
    impl = ctx.impl(lines); model = ctx.model(lines)
    # second stage for the fragment of C06_parse_back: the bytes the real writer produced are read by the real AspifTextInput (and by its model):
    # both must deliver exactly the calls that were rendered
    frag = [k for k, c in enumerate(cases) if in_reader_fragment(c) and isinstance(impl[k], str) and not impl[k].startswith("EXC")]
    l2 = ["tr C " + (impl[k] or "-") for k in frag]
    i2 = ctx.impl(l2); m2 = ctx.model(l2)
    for k, l, i, m in zip(frag, l2, i2, m2):
        ctx.dist["read back by AspifTextInput"] += 1
        want = " ".join(words(cases[k])) + " OK"
        if not isinstance(i, str): ctx.fail("C06:crash", "crash / sanitizer abort while the library's reader reads the rendered text", cases[k], {"stderr": i[2][-1500:]}); continue
        if i != want: ctx.fail("C06:reader-parse-back", "the library's own reader does not read the rendered text back as the calls that were rendered", cases[k], {"text": l[5:600], "got": i[:600], "want": want[:600]})
        ctx.compared += 1
        if i != m: ctx.disagree("AspifTextInput(rendered text)", cases[k], i[:600], m[:600])
    for c, l, i, m in zip(cases, lines, impl, model):
        ctx.count()
        ndir = sum(len(s) for s in c["steps"])
        if ndir >= 5: ctx.nontrivial(l)
        for st in c["steps"]:
            for s in st: ctx.dist[s[0]] += 1
        ctx.sample({"calls": l[:300], "text": (bytes.fromhex(i.replace("EXC ", "").replace("-", "")).decode("latin-1") if isinstance(i, str) else "CRASH")[:300]}, 3)
        if runner.is_oom(i):
            ctx.dist["name table sized by the largest named atom: allocation refused (outside the claim)"] += 1; continue
        if not isinstance(i, str):
            ctx.fail("C06:crash", "crash / sanitizer abort / arithmetic fault while rendering", c, {"stderr": i[2][-1500:]}); continue
        if i.startswith("EXC"):
            ctx.fail("C06:exception", "rendering a valid program throws", c, {"got": i[:300]})
        else:
            text = bytes.fromhex(i.replace("-", "")).decode("latin-1")
            verdict = check_text(c, text)
            if verdict: ctx.fail(verdict[0], verdict[1], c, {"text": text[:700], "detail": verdict[2]})
            else: ctx.dist["oracle-ok"] += 1
        ctx.compared += 1
        if i != m: ctx.disagree("AspifTextOutput", c, i[:600], m[:600])

def check_text(c, text):
    try: got = text_ref.parse_text(text)
    except text_ref.ParseError as e: return ("C06:unparsable", "the rendered text is not in the ground syntax", str(e))
    except RecursionError as e: return ("C06:unparsable", "the rendered text is not in the ground syntax", "recursion")
    terms = c["terms"]
    names = {}; theory_names = {}; nested_all = []; given = {}
    def naming(s):
        if s[0] == "N": return (s[2], s[1])
        if s[0] == "O" and len(s[2]) == 1 and s[2][0] > 0 and s[1][:1] and (s[1][0].islower() or s[1][0] == "_"): return (s[2][0], s[1])
        return None
    for st in c["steps"]:
        for s in st:
            n_ = naming(s)
            if n_: given.setdefault(n_[0], []).append(n_[1])
    multi = [a for a, l in given.items() if len(set(l)) > 1]
    if multi:
        return ("C06:output-not-represented:several-names", "an atom was given several names by output directives; only the last one is rendered",
                "atom %d names %r" % (multi[0], given[multi[0]]))
    def nm(a):
        if a in theory_names: return theory_names[a]
        if a in names: return ("n", names[a])
        return ("x", a)
    def lit(l): return (-1 if l < 0 else 1, nm(abs(l)))
    def th(struct, nested):
        t, estruct, guard = struct
        return ("theory", t_struct(terms, t, nested),
                [([t_struct(terms, x, nested) for x in ts], [lit(l) for l in cond]) for ts, cond in estruct],
                None if guard is None else (terms[str(guard[0])][1], t_struct(terms, guard[1], nested)))
    want = []
    step_no = 0
    for si, st in enumerate(c["steps"]):
        if c["inc"]: want.append(("comment", "% #program base." if si == 0 else "%% #program step(%d)." % si))
        t0 = []; rest = []
        for s in st:
            n_ = naming(s)
            if n_: names[n_[0]] = n_[1]
        for s in st:
            k = s[0]
            if k == "TA":
                nested = []; theory_names[s[3]] = th(s[2], nested); nested_all += nested
        for s in st:
            k = s[0]
            if k == "T0":
                nested = []; t0.append(("theory0", th(s[2], nested))); nested_all += nested
            elif k == "R": rest.append(("rule", s[1], [nm(a) for a in s[2]], ("normal", [lit(l) for l in s[3]])))
            elif k == "S": rest.append(("rule", s[1], [nm(a) for a in s[2]], ("sum", s[3], [(lit(l), w) for l, w in s[4]])))
            elif k == "M": rest.append(("minimize", s[1], [(lit(l), w) for l, w in s[2]]))
            elif k == "P": rest.append(("project", [nm(a) for a in s[1]]))
            elif k == "O":
                if not naming(s): rest.append(("show", s[1], [lit(l) for l in s[2]]))
            elif k == "X": rest.append(("external", nm(s[1]), s[2]))
            elif k == "A": rest.append(("assume", [lit(l) for l in s[1]]))
            elif k == "H": rest.append(("heuristic", nm(s[1]), [lit(l) for l in s[5]], s[3], s[4], ["level", "sign", "factor", "init", "true", "false"][s[2]]))
            elif k == "G": rest.append(("edge", s[1], s[2], [lit(l) for l in s[3]]))
        want += t0 + rest
    # names given by 'O' inside evaluate order: recompute literals lazily → rebuild once more with the final name table
    if len(got) != len(want):
        return ("C06:statement-count", "the text does not hold exactly one statement per directive", "got %d statements, want %d" % (len(got), len(want)))
    for gi, (g_, w_) in enumerate(zip(got, want)):
        if not same(g_, w_):
            sig = "C06:statement"
            if nested_all and g_[0] in ("theory0", "rule"): sig = "C06:theory-structure:nested-operator"
            return (sig, "statement %d differs from the directive given" % gi, "got %r want %r" % (g_, w_))
    return None

def same(g, w):
    if g[0] != w[0]: return False
    if g[0] == "rule":
        if g[1] != w[1] or g[2] != w[2]: return False
        gb, wb = g[3], w[3]
        if wb[0] == "normal": return gb == wb
        if gb[0] == "sum": return gb == wb
        if gb[0] == "count":
            lits = [l for l, _ in wb[2]]
            if gb[2] != lits: return False
            ws = set(x for _, x in wb[2])
            if not lits: return (wb[1] <= 0) == (gb[1] <= 0)
            if len(ws) != 1: return False
            wgt = ws.pop()
            return all((wgt * n >= wb[1]) == (n >= gb[1]) for n in range(len(lits) + 1))
        return False
    return g == w

def corpus(ctx):
    base = {"terms": {}}
    return [
        dict(base, inc=False, steps=[[("S", 0, [1], 1, []), ("S", 0, [1], 0, [(2, 0), (3, 0)]), ("S", 0, [1], I32, [(2, 2), (3, 2)]), ("S", 1, [], -5, [(2, 3)])]]),     # D5/D6 (fixed)
        dict(base, inc=True, steps=[[("M", 0, []), ("P", []), ("A", []), ("R", 1, [], []), ("R", 0, [], [])], [("R", 0, [1], [])]]),                                      # D5 (fixed)
        dict(base, inc=False, steps=[[("N", "a", 1), ("N", "b", 1), ("R", 1, [1], [])]]),                                                                                  # D8 (known): two names
        wide_atom(10050), wide_atom(300),
    ]

def wide_atom(n):
    """one flat theory atom whose element lists the same unary operator term n times (nesting depth 2, any width must render)"""
    ws = ["TN,0,1", "TS,1,%s" % hexs(b"-"), "TC,2,1,%s" % progs.lst([0]), "TS,3,%s" % hexs(b"p"), "TE,0,%s,%s" % (progs.lst([2] * n), progs.lst([])), "TA,0,3,%s" % progs.lst([0])]
    terms = {"0": ("num", 1), "1": ("sym", "-"), "2": ("comp", 1, [0]), "3": ("sym", "p")}
    return {"inc": False, "steps": [[("T0", ws, (3, [([2] * n, [])], None))]], "terms": terms}


def generate(ctx):
    n = {"quick": 4000, "thorough": 100000}[ctx.tier]
    return [gen_case(ctx.rng, ctx.rng.random() < 0.2) for _ in range(n)]

def shrink_candidates(c):
    res = []
    for si, st in enumerate(c["steps"]):
        for k in range(len(st)):
            if st[k][0] in ("TA",): continue
            res.append(dict(c, steps=c["steps"][:si] + [st[:k] + st[k + 1:]] + c["steps"][si + 1:]))
    if len(c["steps"]) > 1: res.append(dict(c, steps=c["steps"][:-1]))
    return res
