"""C14 — option lookup resolves a key to the unique matching option or fails correctly.

oi <o:hexname:alias | a:hexaliasname:opt | q:hexkey:type>* : builds an option context, then queries find/tryFind
impl   : real OptionContext (options added through groups; extra alias names through addAlias)
model  : Model/OptIndex.lean (sorted index, lower bound, prefix range)
oracle : brute force over all index names, written from the property: exact-name match wins for name / name-or-prefix / alias
         lookups; otherwise the names having the key as a prefix (prefix lookups only); unique -> that option, none -> unknown,
         several -> ambiguous listing exactly the candidates; tryFind is 'not found' in precisely the non-unique cases;
         adding a taken long/short/alias name is refused (duplicate)."""
ID = "C14"
MODULE = "PotasscoVerif.Props.C14"
THEOREMS = ["PotasscoVerif.C14.C14_prefix_range", "PotasscoVerif.C14.C14_find_exact", "PotasscoVerif.C14.C14_find_prefix",
            "PotasscoVerif.C14.C14_find_unknown", "PotasscoVerif.C14.C14_duplicate", "PotasscoVerif.C14.insert_spec",
            "PotasscoVerif.C14.C14_refused_short_unchanged", "PotasscoVerif.C14.C14_refused_noalias_unchanged",
            "PotasscoVerif.C14.C14_merge_step", "PotasscoVerif.C14.C14_merge_refused"]
PARTIAL = {}
BSIZES = (4096,)
RULE = ("contexts of 1..12 options over an alphabet that forces heavy prefix sharing (names that are prefixes of other names, bytes 0x7e/0x7f/0x80/0xc3/0xff after a shared prefix, "
        "optional one-character aliases, extra alias names, deliberate duplicates); queries: existing names, proper prefixes, extensions, keys sorting between two names, alias "
        "characters with and without '-'; all four lookup kinds; distinct = distinct (context, query); non-trivial = context of >= 3 options")
TRUSTED = ["std::map / std::string ordering = bytewise unsigned lexicographic order (modelled by lexLt)"]
ASSUMPTIONS = ["non-empty keys; name lookups with keys not starting with '-'"]
TECHNIQUE = "Lean 4 theorem that the prefix range of a strictly sorted index is exactly the set of entries having the key as prefix (for all byte values) + lookup characterisation + differential correspondence + brute-force oracle"
LEVEL_TEXT = ("For EVERY sorted index (insert_spec: every index that can be built is sorted and holds exactly the inserted names; taken names are refused: C14_duplicate) and every key over "
              "all byte values: the prefix range equals the set of names starting with the key (C14_prefix_range, incl. bytes >= 0x7f), an exact name is resolved to its option for "
              "name / name-or-prefix / alias lookups (C14_find_exact), otherwise prefix lookups return the unique prefixed name, 'unknown' for none, 'ambiguous' with exactly the "
              "candidates for several, and tryFind succeeds in precisely the unique case (C14_find_prefix + definition of find/tryFind), non-prefix lookups of a missing name are "
              "'unknown' (C14_find_unknown). A refused add whose short name is the taken one, or that has no short name, leaves the context exactly as it was "
              "(C14_refused_short_unchanged, C14_refused_noalias_unchanged): histories go on after a refusal and every later lookup is checked against the oracle; when only the long name is taken the code has "
              "already entered the new short name (modelled: Ctx.afterRefused) — that context is not a successfully built one, later lookups on it are compared with the model only. Adding a whole context (OptionContext::add(const OptionContext&)) is modelled as adding its options group by group (Ctx.addCtx: mergeOrder, addAll; C14_merge_step / C14_merge_refused: each accepted option is a single add, the first refusal ends the merge with what was inserted so far); the other context's extra alias names are not taken over. Tied to the code by running generated contexts/queries through the real OptionContext and by a brute-force oracle.")
LEVEL_NOTE = ("Proved about Model/OptIndex.lean (std::map modelled as a strictly sorted list under unsigned lexicographic order); model==code on ~5k (quick) / 120k (thorough) contexts "
              "with heavy prefix sharing and high bytes. Trusted: Lean kernel+axioms, harness, generator, reference() in props/c14.py.")

def hexs(b): return "-" if not b else "".join("%02x" % c for c in b)
STEMS = [b"f", b"fo", b"foo", b"foo-", b"foo-bar", b"bar", b"b", b"help", b"he", b"verbose", b"verb", b"x"]
TAILS = [b"", b"o", b"a", b"\x7e", b"\x7f", b"\x80", b"\xc3\xa4", b"\xff", b"-", b"1", b"z"]

def name(rng): return rng.choice(STEMS) + rng.choice(TAILS) + rng.choice([b"", b"", b"x", b"\x7f"])

def gen(rng):
    ops, names, aliases = [], [], set()
    n = rng.randint(1, 12)
    for i in range(n):
        nm = name(rng)
        if nm in names and rng.random() < 0.8: nm += b"%d" % i
        al = 0
        if rng.random() < 0.4:
            al = rng.choice(b"abcfhvx")
            if al in aliases and rng.random() < 0.8: al = 0
        if rng.random() < 0.03: al = rng.choice(b"abcfhvx"); nm = b"-" + bytes([al])          # long name equal to the option's own short index name
        names.append(nm); aliases.add(al)
        ops.append("o:%s:%d" % (hexs(nm), al))
    given = []
    for _ in range(rng.choice([0, 0, 1, 2, 3])):
        # an extra alias name: fresh, or TAKEN — the long name of the option itself or of another one, the "-x" index name of a one-character alias
        # (its own or another option's), or an alias name given before (to the same or to another option)
        k = rng.random()
        used = [a for a in aliases if a]
        if k < 0.4 or not names: an = name(rng) + b"!"
        elif k < 0.62: an = rng.choice(names)
        elif k < 0.8 and used: an = b"-" + bytes([rng.choice(used)])
        elif given: an = rng.choice(given)
        else: an = name(rng) + b"!"
        tgt = rng.randint(0, n)
        if names and rng.random() < 0.35 and an in names: tgt = names.index(an)          # the name's own option
        given.append(an)
        ops.append("a:%s:%d" % (hexs(an), tgt))
    if rng.random() < 0.25:
        # a second context whose groups are added to the first (OptionContext::add(const OptionContext&)): its options arrive group by group; its own
        # extra alias names are not taken over; names may clash with the first context (the merge is then refused half way)
        m = rng.randint(1, 5); onames = []
        for i in range(m):
            nm = name(rng) + (b"%d" % i if rng.random() < 0.8 else b"")
            al = rng.choice(b"klmnpqrs") if rng.random() < 0.4 else 0
            if rng.random() < 0.1 and names: nm = rng.choice(names)
            if rng.random() < 0.1: al = rng.choice(b"abcfhvx")
            onames.append(nm); ops.append("O:%s:%d" % (hexs(nm), al))
        for _ in range(rng.choice([0, 1, 2])): ops.append("A:%s:%d" % (hexs(name(rng) + b"?"), rng.randint(0, m)))
        ops.append("m:-:0")
        names = names + onames
    for _ in range(rng.randint(3, 12)):
        k = rng.random()
        base = rng.choice(names) if names else b"f"
        if k < 0.3: key = base
        elif k < 0.55: key = base[:rng.randint(1, max(1, len(base)))]
        elif k < 0.7: key = base + rng.choice([b"x", b"\x7f", b"\x80", b"-"])
        elif k < 0.8: key = name(rng)
        elif k < 0.9: key = bytes([rng.choice(b"abcfhvxq")])
        else: key = b"-" + bytes([rng.choice(b"abcfhvxq")])
        t = rng.choice([1, 2, 3, 4]) if key[0:1] != b"-" else 4
        if t == 4 and len(key) > 2: t = 3
        ops.append("q:%s:%d" % (hexs(key), t))
    return {"ops": ops}

def corpus(ctx):
    return [{"ops": ["o:%s:0" % hexs(b"fo\xc3\xa4"), "o:%s:0" % hexs(b"bar"), "q:%s:2" % hexs(b"fo"), "q:%s:3" % hexs(b"fo")]},     # D10
            {"ops": ["o:%s:102" % hexs(b"foo"), "o:%s:0" % hexs(b"foo-bar"), "q:%s:3" % hexs(b"foo"), "q:%s:2" % hexs(b"foo"), "q:66:4", "q:2d66:4", "q:%s:1" % hexs(b"fo")]}]

def generate(ctx):
    n = {"quick": 5000, "thorough": 120000}[ctx.tier]
    return [gen(ctx.rng) for _ in range(n)]

def reference(ops):
    """brute force by the property text."""
    index, nopt, out = {}, 0, []
    oindex, oopts = {}, []          # the second context: its own names (refusals inside it), its options (name, alias, group) in order of addition
    for o in ops:
        f = o.split(":")
        unh = lambda h: b"" if h == "-" else bytes.fromhex(h)
        if f[0] == "O":
            nm, al = unh(f[1]), int(f[2])
            if al and (b"-" + bytes([al])) in oindex: out.append("DUP"); continue
            if nm and (nm in oindex or (al and nm == b"-" + bytes([al]))):
                out.append("DUP")
                if al: oindex[b"-" + bytes([al])] = len(oopts)      # what the refused insert leaves in the OTHER context does not reach the first one
                continue
            if al: oindex[b"-" + bytes([al])] = len(oopts)
            if nm: oindex[nm] = len(oopts)
            oopts.append((nm, al, len(oopts) % 2)); out.append("ok")
        elif f[0] == "A":
            nm, o_ = unh(f[1]), int(f[2])
            if o_ < len(oopts) and nm:
                if nm in oindex: out.append("DUP"); continue
                oindex[nm] = o_
            out.append("ok")
        elif f[0] == "m":
            # the groups of the other context one after the other (order of creation), each with its options in order; alias names are not taken over
            order = []
            for g in dict.fromkeys(x[2] for x in oopts): order += [x for x in oopts if x[2] == g]
            clash = False
            for nm, al, _ in order:
                if (al and (b"-" + bytes([al])) in index) or (nm and (nm in index or (al and nm == b"-" + bytes([al])))): clash = True; break
                if al: index[b"-" + bytes([al])] = nopt
                if nm: index[nm] = nopt
                nopt += 1
            out.append("DUP" if clash else "ok")
            if clash: break          # refused half way: what the context answers from here on is compared with the model only
        elif f[0] == "o":
            nm, al = unh(f[1]), int(f[2])
            # a refused add leaves a successfully built context as it was: lookups go on as before
            if al and (b"-" + bytes([al])) in index: out.append("DUP"); continue
            if nm and (nm in index or (al and nm == b"-" + bytes([al]))):     # taken — also by the option's own short index name
                out.append("DUP")
                if al: break      # long name taken, short name new: the code has entered the short name before it looks at the long one; what the context
                                  # answers from here on is outside the claim (not a successfully built context) and is compared with the model only
                continue
            if al: index[b"-" + bytes([al])] = nopt
            if nm: index[nm] = nopt
            nopt += 1; out.append("ok")
        elif f[0] == "a":
            nm, o_ = unh(f[1]), int(f[2])
            if o_ < nopt and nm:
                if nm in index: out.append("DUP"); continue
                index[nm] = o_
            out.append("ok")
        else:
            key, t = unh(f[1]), int(f[2])
            if t == 4 and key and key[0:1] != b"-": key = b"-" + key[1:] + key[0:1]
            exact = key in index and t in (1, 3, 4)
            if exact: cands = [key]
            elif t in (2, 3): cands = sorted(n_ for n_ in index if n_.startswith(key))
            else: cands = []
            if len(cands) == 1: out.append("=%d/=%d" % (index[cands[0]], index[cands[0]]))
            elif not cands: out.append("U/-")
            else: out.append("A" + ",".join(hexs(c) for c in cands) + "/-")
    return " ".join(out)

def evaluate(ctx, cases):
    lines = ["oi " + " ".join(c["ops"]) for c in cases]
    impl = ctx.impl(lines); model = ctx.model(lines)
    for c, l, i, m in zip(cases, lines, impl, model):
        ctx.count()
        no = sum(1 for o in c["ops"] if o[0] == "o")
        if no >= 3: ctx.nontrivial(l)
        ctx.sample({"case": l[:200], "impl": (i if isinstance(i, str) else "CRASH")[:120]}, 4)
        if not isinstance(i, str):
            ctx.fail("C14:crash", "crash / sanitizer abort", c, {"stderr": i[2][-1500:]}); continue
        want = reference(c["ops"])
        for tok in i.split(" "):
            ctx.dist["unknown" if tok.startswith("U") else "ambiguous" if tok.startswith("A") else "found" if tok.startswith("=") else tok] += 1
        if " ".join(i.split(" ")[:len(want.split(" "))]) != want:
            gi, gw = i.split(" "), want.split(" ")
            j = next((x for x in range(min(len(gi), len(gw))) if gi[x] != gw[x]), min(len(gi), len(gw)))
            a_, b_ = (gi[j] if j < len(gi) else None), (gw[j] if j < len(gw) else None)
            sig = "C14:duplicate" if "DUP" in (a_, b_) else "C14:lookup"
            ctx.fail(sig, "op #%d %s: context answers %s, the property requires %s" % (j, c["ops"][j] if j < len(c["ops"]) else "?", a_, b_), c, {"impl": i[:600], "want": want[:600]})
        ctx.compared += 1
        if i != m: ctx.disagree("OptionContext:find/tryFind", c, i[:600], m[:600])

def shrink_candidates(c):
    ops = c["ops"]
    for i in range(len(ops)):
        yield {"ops": ops[:i] + ops[i + 1:]}
