"""Seeded generator of logic programs as call-word lists (the encoding of harness/recorder.h and
lean/PotasscoVerif/Drv/Calls.lean), shared by the reader/writer/converter properties."""
I32 = 2**31 - 1
U32 = 2**32 - 1

def hexs(b): return "-" if not b else "".join("%02x" % c for c in b)
def lst(xs): return "-" if not xs else "/".join(str(x) for x in xs)
def wl(ps): return "-" if not ps else "/".join("%d:%d" % p for p in ps)

class G:
    def __init__(self, rng, max_atom=None, extremes=True, big=False):
        self.r, self.max_atom, self.ext, self.big = rng, max_atom, extremes, big
    def atom(self):
        if self.max_atom: return self.r.randint(1, self.max_atom)
        return self.r.choice([1, 2, 3, 7, 100, I32, I32 - 1, self.r.randint(1, I32)]) if self.ext else self.r.randint(1, 50)
    def lit(self): return self.r.choice([1, -1]) * self.atom()
    def i32(self):
        return self.r.choice([0, 1, -1, 2, I32, -I32 - 1, -I32, self.r.randint(-I32 - 1, I32)]) if self.ext else self.r.randint(-20, 20)
    def id(self): return self.r.choice([0, 1, 5, I32, I32 + 1, U32, self.r.randint(0, U32)]) if self.ext else self.r.randint(0, 30)
    def n(self):
        if self.big and self.r.random() < 0.03: return self.r.randint(50, 400)
        return self.r.choice([0, 0, 1, 1, 2, 3, 5, self.r.randint(0, 12)])
    def atoms(self): return [self.atom() for _ in range(self.n())]
    def lits(self): return [self.lit() for _ in range(self.n())]
    def ids(self): return [self.id() for _ in range(self.n())]
    def wlits(self, minw=0):
        out = []
        for _ in range(self.n()):
            w = self.r.choice([0, 1, 1, 2, I32, self.r.randint(0, I32)]) if minw == 0 else self.i32()
            if not self.ext: w = self.r.randint(0 if minw == 0 else -5, 5)
            out.append((self.lit(), w))
        return out
    def string(self, nul_ok=False):
        k = self.r.random()
        L = self.r.choice([0, 1, 2, 5, 9, 15, 16, 17, 33]) if k < 0.9 else self.r.choice([100, 4090, 4096, 4097, 5000]) if self.big else 40
        alpha = b"abcxyz_(),\" \t\n\r0123456789\xc3\xa4\xff\x01-+"
        return bytes(self.r.choice(alpha) for _ in range(L))
    def directive(self, kinds):
        k = self.r.choice(kinds)
        if k == "R": return "R,%d,%s,%s" % (self.r.randint(0, 1), lst(self.atoms()), lst(self.lits()))
        if k == "S": return "S,%d,%s,%d,%s" % (self.r.randint(0, 1), lst(self.atoms()), self.i32(), wl(self.wlits(0)))
        if k == "M": return "M,%d,%s" % (self.i32(), wl(self.wlits(-1)))
        if k == "P": return "P,%s" % lst(self.atoms())
        if k == "O": return "O,%s,%s" % (hexs(self.string()), lst(self.lits()))
        if k == "X": return "X,%d,%d" % (self.atom(), self.r.randint(0, 3))
        if k == "A": return "A,%s" % lst(self.lits())
        if k == "H": return "H,%d,%d,%d,%d,%s" % (self.atom(), self.r.randint(0, 5), self.i32(), self.r.choice([0, 1, I32, self.r.randint(0, I32)]), lst(self.lits()))
        if k == "G": return "G,%d,%d,%s" % (self.r.choice([0, 1, I32, self.r.randint(0, I32)]), self.r.choice([0, 2, I32, self.r.randint(0, I32)]), lst(self.lits()))
        if k == "TN": return "TN,%d,%d" % (self.id(), self.i32())
        if k == "TS": return "TS,%d,%s" % (self.id(), hexs(self.string()))
        if k == "TC": return "TC,%d,%d,%s" % (self.id(), self.r.choice([-3, -2, -1, 0, 1, I32, self.r.randint(-3, I32)]), lst(self.ids()))
        if k == "TE": return "TE,%d,%s,%s" % (self.id(), lst(self.ids()), lst(self.lits()))
        if k == "TA": return "TA,%d,%d,%s" % (self.r.choice([0, self.atom()]), self.id(), lst(self.ids()))
        if k == "TG": return "TG,%d,%d,%s,%d,%d" % (self.r.choice([0, self.atom()]), self.id(), lst(self.ids()), self.id(), self.id())
        raise ValueError(k)

ALL_KINDS = ["R", "R", "S", "S", "M", "P", "O", "O", "X", "A", "H", "G", "TN", "TS", "TC", "TE", "TA", "TG"]

def program(rng, kinds=ALL_KINDS, max_dirs=25, steps=None, **kw):
    g = G(rng, **kw)
    nsteps = steps if steps is not None else rng.choice([1, 1, 1, 2, 3])
    inc = nsteps > 1 or rng.random() < 0.2
    out = ["I1" if inc else "I0"]
    for _ in range(nsteps):
        out.append("B")
        nd = rng.choice([0, 1, 2, 5, rng.randint(0, max_dirs)])
        for _ in range(nd): out.append(g.directive(kinds))
        out.append("E")
    return out

def normalise(calls):
    """the permitted difference of a round trip: weight-0 literals are omitted."""
    out = []
    for c in calls:
        f = c.split(",")
        if f[0] in ("S", "M"):
            i = 4 if f[0] == "S" else 2
            if f[i] != "-":
                keep = [p for p in f[i].split("/") if p.split(":")[1] != "0"]
                f[i] = "/".join(keep) if keep else "-"
            c = ",".join(f)
        out.append(c)
    return out


NAME_PIECES = [b"_edge(", b"_heuristic(", b"_acyc_", b"_atom(", b"\"", b"\\", b",", b"(", b")", b"a", b"b", b"1", b"-2", b"sign", b"level", b"true", b"init", b" ", b"_", b"x\"y", b"\\\"", b"12345678901"]
def fuzz_name(rng):
    """a symbol name assembled from the pieces the helper-predicate matchers react to (quotes, backslashes, parentheses, commas)"""
    return b"".join(rng.choice(NAME_PIECES) for _ in range(rng.randint(1, 9))).replace(b"\n", b"")
def fuzz_symtab(rng, inc=False):
    """a smodels text whose symbol table holds fuzzed names of varying lengths (a later, shorter name follows a longer one)"""
    names = [fuzz_name(rng) for _ in range(rng.randint(1, 6))]
    if rng.random() < 0.5: names.sort(key=len, reverse=True)
    body = b"".join(b"%d %s\n" % (rng.randint(1, 6), n) for n in names)
    return (b"90 0\n" if inc else b"") + b"1 2 0 0\n0\n" + body + b"0\nB+\n0\nB-\n0\n1\n"
