"""C09 — Buffered input is transparent.

case line:  bs <B> <hexinput> <op>*     (ops: p g w i I e l u:<byte> m:<hextoken> c:<n>)
impl      : harness_B<B> drives the real Potassco::BufferedStream over a std::istringstream
model     : driver `bs` = Model/BufferedStream.lean (window/refill model)
oracle    : driver `as` = Spec/CharStream.lean (the abstract character stream = the property); a
            disagreement between implementation and spec on an admissible history IS a failing history.
"""
import itertools

ID = "C09"
MODULE = "PotasscoVerif.Props.C09"
EXTRA_MODULES = ["PotasscoVerif.Props.C09l"]
THEOREMS = ["PotasscoVerif.C09.C09_simulation", "PotasscoVerif.C09.C09_transparent",
            "PotasscoVerif.C09.C09_buffer_independent", "PotasscoVerif.C09.C09_transparent_adaptive",
            "PotasscoVerif.C09.C09_memsafe", "PotasscoVerif.C09.C09_refill_progress",
            "PotasscoVerif.C09.C09_current_buffer", "PotasscoVerif.C09.C09_needs_two",
            "PotasscoVerif.BufferedStream.satVal_exact", "PotasscoVerif.C09.C09_line_number"]
PARTIAL = {}
TECHNIQUE = "Lean 4 refinement proof (window model of BufferedStream simulates an abstract character stream, for every BUF_SIZE >= 2) + differential correspondence run of model vs. real code"
LEVEL_TEXT = ("Theorems C09_simulation/transparent/transparent_adaptive/memsafe/refill_progress/line_number: for every BUF_SIZE >= 2, every NUL-free input and "
              "every finite or adaptive sequence of admissible operations the buffer model returns exactly the observations of the abstract character stream "
              "(CR/CRLF folding, failed match consumes nothing, copy = exactly the requested bytes or all that remain, line = 1 + newlines extracted), never "
              "indexes past the sentinel, and a refill always makes progress; satVal_exact: the digit loop returns the exact value or INT64_MAX. "
              "The model is tied to the C++ by running the same histories (5 buffer sizes via the BUF_SIZE hook) through the real class and the compiled model; "
              "the abstract spec itself is the oracle on the implementation.")
LEVEL_NOTE = ("Proved about the hand-written model Model/BufferedStream.lean, not about the C++; model==code is checked only on the sampled histories "
              "(quick ~6.5k, thorough ~170k + exhaustive small scope). istream::read contract assumed. Trusted: Lean kernel, propext/Quot.sound/Classical.choice, harness, generator.")
BSIZES = (2, 3, 16, 17, 4096)
RULE = ("seeded histories: an input assembled from segments (numbers up to 18 digits and longer, tokens, CR/LF/CRLF, "
        "blanks, raw strings) sized around multiples of BUF_SIZE, with the operation that consumes each segment plus "
        "random extra operations (failing matches, unget after extraction, copies past the end); run for "
        "BUF_SIZE in {2,3,16,17,4096} (hook POTASSCO_VERIF_BUF_SIZE); distinct = distinct (B, input, ops); "
        "non-trivial = at least 3 operations and input longer than BUF_SIZE (so at least one refill happens) or, for 4096, any history with >= 3 ops")
TRUSTED = ["std::istream::read delivers min(n, remaining) bytes and sets failbit on a short read (modelled in `underflow`)",
           "modelled, not verified: the memcpy of the compaction path of match() is modelled as dropping the consumed prefix of the window"]
ASSUMPTIONS = ["inputs without NUL bytes for the transparency theorem (NUL inputs are only compared model-vs-code)",
               "match tokens non-empty, NUL/newline free and no longer than BUF_SIZE; unget only directly after an extracting operation",
               "the line counter is the 32-bit `unsigned` of this platform: the model keeps a representative modulo 2^32 (fewer than 2^32 line ends per input; "
               "a put-back of a newline that was never extracted wraps at 0 as in the code — compared model-vs-code by a corpus history on every run)"]

def hexs(bs): return "-" if not bs else "".join("%02x" % b for b in bs)

WORDS = [b"asp", b"incremental", b"abc", b"x", b"#show", b"not", b":-", b"a(b,c)"]

def gen_history(rng, B, malformed=False):
    inp = bytearray(); ops = []
    target = rng.choice([0, 1, B - 1, B, B + 1, 2 * B - 1, 2 * B, 2 * B + 1, 3 * B, rng.randint(0, 4 * B + 8)])
    if B == 4096: target = rng.choice([rng.randint(0, 60), 4090 + rng.randint(0, 12), 8185 + rng.randint(0, 12), rng.randint(0, 9000)])
    extracted = False
    steps = 0
    while len(inp) < target and steps < 400:
        steps += 1
        k = rng.random()
        if k < 0.22:      # number
            nd = rng.choice([1, 1, 2, 3, 9, 10, 18, 18, 19, 20, 25, 40]) if rng.random() < 0.5 else rng.randint(1, 18)
            sign = rng.choice([b"", b"", b"-", b"+"])
            ws = b"".join(rng.choice([b" ", b"\t", b"\n", b"\r\n", b"\r"]) for _ in range(rng.choice([0, 1, 1, 2])))
            digs = bytes(rng.choice(b"0123456789") for _ in range(nd))
            if rng.random() < 0.1: digs = b"0" * rng.choice([1, 5, 17, 18, 19, 30]) + digs        # leading zeros: the value decides, not the digit count
            inp += ws + sign + digs
            ops.append("i" if ws or rng.random() < 0.5 else "I"); extracted = True
        elif k < 0.40:    # token
            w = rng.choice(WORDS)
            if B < len(w): w = w[:B]
            if rng.random() < 0.25:   # failing match: same length different token / prefix only
                inp += w
                bad = bytes((c ^ 1) if i == len(w) - 1 else c for i, c in enumerate(w))
                ops.append("m:" + hexs(bad)); extracted = False
                ops.append("m:" + hexs(w)); extracted = True
            else:
                inp += w; ops.append("m:" + hexs(w)); extracted = True
        elif k < 0.55:    # line ends through get
            e = rng.choice([b"\n", b"\r\n", b"\r", b"\r\r\n", b"\n\r"])
            inp += e
            n = {b"\n": 1, b"\r\n": 1, b"\r": 1, b"\r\r\n": 2, b"\n\r": 2}[bytes(e)]
            ops += ["g"] * n + ["l"]; extracted = True
        elif k < 0.68:    # blanks
            inp += bytes(rng.choice(b" \t\n\r\x0b\x0c") for _ in range(rng.randint(1, 4)))
            ops.append("w"); extracted = True
        elif k < 0.82:    # raw string via copy
            n = rng.choice([0, 1, 2, B - 1, B, B + 1, rng.randint(0, 2 * B + 3)]) if B < 100 else rng.choice([0, 1, 5, 40, rng.randint(0, 300), 4096, 5000])
            s = bytes(rng.choice(b"abcXYZ \r\n0129\xc3\xa4\xff\x01") for _ in range(n))
            inp += s; ops.append("c:%d" % n); extracted = n > 0
        else:             # single chars
            c = rng.choice(b"az09-+ \n")
            inp.append(c); ops.append(rng.choice(["g", "p", "g"]))
            if ops[-1] == "p": ops.append("g")
            extracted = True
        # extras
        r = rng.random()
        if r < 0.10 and extracted:
            c = rng.choice([10, 32, 97, 13, 48]); ops.append("u:%d" % c); ops.append("g"); extracted = True
        elif r < 0.16: ops.append(rng.choice(["e", "l", "p"]))
        elif r < 0.19: ops.append("m:" + hexs(rng.choice(WORDS)[:max(1, min(B, 3))])); extracted = False
        elif r < 0.21 and malformed:
            ops.append(rng.choice(["u:97", "u:0", "u:10", "m:" + hexs(b"q" * (B + 1)) if B < 100 else "e"]))
        elif r < 0.24 and malformed:
            # a put-back that may be refused (after a failed long match the window starts at the read position): line and next char are observed around it
            if B < 100 and rng.random() < 0.5: ops.append("m:" + hexs(b"q" * rng.choice([B - 1, B])))
            ops += ["l", "p", "u:%d" % rng.choice([10, 10, 97]), "l"]
    # run past the end
    tail = rng.choice([[], ["g"], ["c:%d" % rng.choice([1, 5, B, 2 * B + 1])], ["i"], ["w", "e"], ["g", "g", "e", "l"]])
    ops += tail
    if malformed and rng.random() < 0.3 and inp:
        inp[rng.randrange(len(inp))] = 0
    return bytes(inp), ops

def mk(B, inp, ops, malformed=False):
    return {"B": B, "input": hexs(inp), "ops": ops, "malformed": malformed}

def corpus(ctx):
    cs = []
    # D1: 2^64+1 must not come back as 1; D2: copy past a short input must not return unread bytes
    cs.append(mk(4096, b"18446744073709551617 9223372036854775808 -9223372036854775808 x", ["i", "i", "i", "g"]))
    cs.append(mk(4096, b"abc", ["c:10", "e"]))
    for B in (2, 3, 16, 17):
        cs.append(mk(B, b"18446744073709551617 7", ["i", "i", "e"]))
        cs.append(mk(B, b"abc 0", ["c:10", "e", "l"]))
        cs.append(mk(B, b" -12\r\nabc 7", ["i", "g", "l", "m:6162", "u:98", "c:3", "w", "I", "e", "g"]))
    # a newline that was never extracted is put back twice: `--line_` on the unsigned counter wraps at 0
    # (the model keeps a representative modulo 2^32; DESIGN 8.5)
    cs.append(mk(4096, b"abcd\nx", ["g", "g", "u:10", "l", "u:10", "l", "g", "l", "g", "l", "g", "g", "g", "l"], True))
    return cs

def generate(ctx):
    n = {"quick": 1500, "thorough": 40000}[ctx.tier]
    cases = []
    for B in BSIZES:
        k = n if B != 4096 else n // 3
        for _ in range(k):
            mal = ctx.rng.random() < 0.12
            inp, ops = gen_history(ctx.rng, B, mal)
            cases.append(mk(B, inp, ops, mal))
    if ctx.tier == "thorough":
        # exhaustive small scope: all op sequences of length <= 3 over a 7-op alphabet on all inputs of
        # length <= 5 over {a,1,' ',CR,LF}, for B = 2 and 3
        alpha = ["g", "w", "i", "c:2", "m:61", "m:6131", "e"]
        for B in (2, 3):
            for L in range(0, 6):
                for tup in itertools.product(b"a1 \r\n", repeat=L):
                    for ol in range(1, 4):
                        for ops in itertools.product(alpha, repeat=ol):
                            cases.append(mk(B, bytes(tup), list(ops) + ["l"]))
        ctx.note("exhaustive small scope added: inputs over {a,1,' ',CR,LF} up to length 5, op sequences up to length 3 over 7 ops, B in {2,3}")
    return cases

def line(c, comp): return "%s %d %s %s" % (comp, c["B"], c["input"], " ".join(c["ops"]))

def evaluate(ctx, cases):
    byB = {}
    for c in cases: byB.setdefault(c["B"], []).append(c)
    for B, cs in sorted(byB.items()):
        impl = ctx.impl([line(c, "bs") for c in cs], B)
        model = ctx.model([line(c, "bs") for c in cs])
        spec = ctx.model([line(c, "as") for c in cs])
        for c, i, m, s in zip(cs, impl, model, spec):
            ctx.count()
            key = (B, c["input"], " ".join(c["ops"]))
            nb = len(c["input"]) // 2 if c["input"] != "-" else 0
            if len(c["ops"]) >= 3 and (nb > B or B == 4096): ctx.nontrivial(key)
            ctx.dist["B=%d" % B] += 1
            for o in c["ops"]: ctx.dist["op:" + o.split(":")[0]] += 1
            if nb > B: ctx.dist["input>B"] += 1
            if nb and nb % B in (0, 1, B - 1): ctx.dist["len near k*B"] += 1
            ctx.sample({"case": line(c, "bs"), "impl": i if isinstance(i, str) else "CRASH"})
            if not isinstance(i, str):
                ctx.fail("C09:crash", "sanitizer abort / crash of BufferedStream on this history", c, {"stderr": i[2][-2500:]})
                continue
            if "GUARD" in i:
                ctx.fail("C09:copy-outside-caller-buffer", "copy wrote outside the caller's buffer or returned a bad count", c, {"impl": i})
                continue
            adm = s.endswith("ADM1")
            sobs = s.rsplit(" ", 1)[0] if " " in s else ""
            ctx.dist["admissible" if adm else "inadmissible"] += 1
            if adm and i != sobs:
                ctx.fail("C09:transparency", "the buffered stream shows a client something else than the characters of the underlying stream",
                         c, {"impl": i, "spec": sobs})
            # a refused put-back (unget returns false) changes nothing: the line number reported before and after it is the same (C09-n)
            toks = i.split(" ")
            if len(toks) == len(c["ops"]):
                for k in range(2, len(toks) - 1):
                    if c["ops"][k].startswith("u:") and toks[k] == "b0" and c["ops"][k - 2] == "l" and c["ops"][k + 1] == "l":
                        ctx.dist["refused put-back observed"] += 1
                        if toks[k - 2] != toks[k + 1]:
                            ctx.fail("C09:refused-unget-moves-line", "an unget that was refused changed the line number", c, {"op": k, "before": toks[k - 2], "after": toks[k + 1]}); break
            ctx.compared += 1
            if i != m:
                ctx.disagree("BufferedStream:observations", c, i, m)

def shrink_candidates(c):
    ops = c["ops"]
    for i in range(len(ops)):
        yield dict(c, ops=ops[:i] + ops[i + 1:])
    if c["input"] != "-":
        b = bytes.fromhex(c["input"])
        for i in range(len(b)):
            yield dict(c, input=hexs(b[:i] + b[i + 1:]))
