"""C17 — string builder content equals the appended text and never leaves its buffer.

sb <kind> <cap|hexinit> <op>* : kinds 0 self-contained, 1 caller's std::string, 2 caller's array (fixed), 3 caller's array (dynamic)
impl   : real Potassco::StringBuilder, guard bytes around the caller's array, ASan; after every op c_str/size/errno
model  : Model/StringBuilder.lean
oracle : written here from the property: text == concatenation of everything appended (after the initial content), for
         the fixed kind its longest fitting prefix with errno==ERANGE iff something was cut; size()==strlen(c_str());
         guard bytes intact."""
ID = "C17"
MODULE = "PotasscoVerif.Props.C17"
THEOREMS = ["PotasscoVerif.C17.C17_history", "PotasscoVerif.C17.C17_init", "PotasscoVerif.C17.C17_truncation", "PotasscoVerif.C17.step_spec",
            "PotasscoVerif.C17.formatOut_inv", "PotasscoVerif.C17.formatOut_text", "PotasscoVerif.C17.append_inv",
            "PotasscoVerif.C17.C17_format_truncation", "PotasscoVerif.C17.formatOut_errno"]
PARTIAL = {"vsnprintf": "the formatting itself (vsnprintf) is an assumed-contract function: the model takes the formatted text as given; which text a format yields is not modelled"}
BSIZES = (4096,)
RULE = ("seeded histories over the four builder kinds; capacities 0,1,2,3,62,63,64,65,100; pieces (strings, char runs, numbers incl. 64-bit extremes, printf formats with "
        "%s/%lld and a literal prefix) with lengths hitting the 63-character inline capacity, the caller's capacity and capacity+-1 exactly; resizes and clears; "
        "distinct = distinct (kind, cap, ops); non-trivial = at least 3 ops and total appended length >= 60 or >= capacity")
TRUSTED = ["vsnprintf contract (stores min(len, lim-1) chars + NUL for lim > 0, returns len); std::string append/resize"]
ASSUMPTIONS = ["pieces do not contain NUL; format prefixes do not contain '%'"]
TECHNIQUE = "Lean 4 invariant proof over a representation-level model of StringBuilder (every store index checked against its array) + differential correspondence with guard bytes/ASan"
LEVEL_TEXT = ("C17_history: for EVERY history of appends (strings, char runs, numbers, printf formats), resizes and clears on a builder of any of the four kinds and any capacity, "
              "the model's text equals the reference (concatenation; for the fixed-array kind its longest fitting prefix; resize beyond a fixed array refused) and no store of the "
              "run left the array it targeted — every store index of the two-phase vsnprintf logic, the inline-buffer tag byte and the caller's array is checked in the model "
              "(formatOut_inv). Tied to the C++ by running the same histories through the real class with guard bytes/ASan and comparing text, size and errno after every op.")
LEVEL_NOTE = ("Proved about Model/StringBuilder.lean with vsnprintf as an assumed-contract function; model==code on ~6k (quick) / 150k (thorough) histories concentrated on the "
              "capacities 0,1,2,62..65 and piece lengths at capacity and capacity+-1. Pieces containing NUL excluded. Trusted: Lean kernel+axioms, harness, generator, expected() in props/c17.py.")

CAPS = [0, 1, 2, 3, 10, 62, 63, 64, 65, 100]
def hexs(b): return "-" if not b else "".join("%02x" % c for c in b)

def gen(rng):
    kind = rng.randint(0, 3)
    cap = rng.choice(CAPS)
    init = bytes(rng.choice(b"xyz 0") for _ in range(rng.choice([0, 1, 5, 62, 63, 64]))) if kind == 1 else b""
    ops = []
    used = len(init)
    for _ in range(rng.randint(1, 8)):
        limit = 63 if kind in (0, 1) else max(cap - 1, 0)
        room = limit - used
        L = rng.choice([0, 1, 2, 5, 21, 62, 63, 64, 65, 130] + [max(room, 0), max(room - 1, 0), room + 1, room + 2])
        L = max(0, min(L, 300))
        # lengths around the multiples of 256 and the powers of two (a length or a remaining-space computation narrowed to 8 or 16 bits), also just
        # what still fits the small buffer modulo 256
        if rng.random() < 0.12:
            L = rng.choice([255, 256, 257, 256 + max(room, 0), 256 + max(room, 0) + 1, 300, 319, 320, 511, 512, 513, 575, 1023, 1024])
            if rng.random() < 0.08: L = rng.choice([4095, 4096, 65535, 65536, 65536 + max(room, 0)])      # the 16-bit boundary: rare, each costs 64k characters in harness and model
        s = bytes(rng.choice(b"abcdefgh-_ 12%") for _ in range(L)).replace(b"%", b"q")
        k = rng.random()
        if k < 0.25: ops.append("a:" + hexs(s)); used += L
        elif k < 0.35: ops.append("s:" + hexs(s)); used += L
        elif k < 0.5: ops.append("c:%d:%d" % (L, rng.choice(b"x.# "))); used += L
        elif k < 0.62:
            x = rng.choice([0, 1, -1, 9, 10, -10, 2**31 - 1, -2**31, 2**63 - 1, -2**63, rng.randint(-10**18, 10**18)])
            ops.append("i:%d" % x); used += len(str(x))
        elif k < 0.78:
            pre = s[:rng.choice([0, 0, 1, 3, len(s)])]
            arg = bytes(rng.choice(b"ABC ") for _ in range(rng.choice([0, 1, 5, 62, 63, 64, 70, max(room - len(pre), 0), max(room - len(pre) + 1, 0), max(room - len(pre) - 1, 0)])))
            ops.append("f:%s:%s" % (hexs(pre), hexs(arg))); used += len(pre) + len(arg)
        elif k < 0.84:
            pre = s[:rng.choice([0, 2, 10])]
            x = rng.choice([0, -1, 123456789, -2**63, 2**63 - 1])
            ops.append("g:%s:%d" % (hexs(pre), x)); used += len(pre) + len(str(x))
        elif k < 0.88: ops.append("p:" + hexs(s[:10])); used += min(10, L)
        elif k < 0.96:
            nsz = rng.choice([0, 1, used, max(used - 1, 0), used + 1, 63, 64, cap, max(cap - 1, 0), used + 256, 256, 300, 512] + ([used + 65536] if rng.random() < 0.1 else []))
            ops.append("r:%d:%d" % (nsz, rng.choice(b"x_"))); used = nsz
        else: ops.append("k"); used = 0
    return {"kind": kind, "p": (hexs(init) if kind == 1 else str(cap)), "ops": ops}

def corpus(ctx):
    return [{"kind": 0, "p": "0", "ops": ["c:63:120", "f:-:41", "i:-9223372036854775808"]},
            {"kind": 2, "p": "0", "ops": ["a:6162", "f:61:4242", "r:0:120"]},
            {"kind": 2, "p": "5", "ops": ["f:-:41424344", "f:-:41", "g:61:-1"]},
            {"kind": 0, "p": "0", "ops": ["c:40:120", "f:-:" + "41" * 23, "f:-:42"]}]

def generate(ctx):
    n = {"quick": 6000, "thorough": 150000}[ctx.tier]
    return [gen(ctx.rng) for _ in range(n)]

def expected(c):
    """property C17, computed independently: list of per-op expected (text, errno) or 'X'."""
    kind = c["kind"]
    cap = int(c["p"]) if kind >= 2 else None
    text = bytes.fromhex(c["p"]) if kind == 1 and c["p"] != "-" else b""
    fixed_cap = (max(cap - 1, 0)) if kind == 2 else None
    out = []
    for o in c["ops"]:
        t = o.split(":")
        unh = lambda h: b"" if h == "-" else bytes.fromhex(h)
        if t[0] in ("a", "s"): add = unh(t[1])
        elif t[0] == "c": add = bytes([int(t[2])]) * int(t[1])
        elif t[0] == "i": add = t[1].encode()
        elif t[0] == "f": add = unh(t[1]) + unh(t[2])
        elif t[0] == "g": add = unh(t[1]) + t[2].encode()
        elif t[0] == "p": add = unh(t[1])
        elif t[0] == "k": text = b""; out.append((text, False)); continue
        elif t[0] == "r":
            n = int(t[1])
            if n <= len(text): text = text[:n]; out.append((text, False)); continue
            if fixed_cap is not None and n > fixed_cap: out.append("X"); continue
            add = bytes([int(t[2])]) * (n - len(text))
        full = text + add
        if fixed_cap is not None:
            text = full[:fixed_cap]; out.append((text, len(full) > fixed_cap))
        else:
            text = full; out.append((text, False))
    return out

def evaluate(ctx, cases):
    lines = ["sb %d %s %s" % (c["kind"], c["p"], " ".join(c["ops"])) for c in cases]
    impl = ctx.impl(lines); model = ctx.model(lines)
    for c, l, i, m in zip(cases, lines, impl, model):
        ctx.count()
        ctx.dist["kind=%d" % c["kind"]] += 1
        for o in c["ops"]: ctx.dist["op:" + o[0]] += 1
        ctx.sample({"case": l[:200], "impl": (i if isinstance(i, str) else "CRASH")[:160]}, 4)
        if not isinstance(i, str):
            ctx.fail("C17:crash", "sanitizer abort / crash (a store outside the builder's or the caller's buffer)", c, {"stderr": i[2][-1500:]}); continue
        got = i.split(" ")
        exp = expected(c)
        total = sum(len(e[0]) for e in exp if e != "X")
        if len(c["ops"]) >= 3 and total >= 60: ctx.nontrivial(l)
        for j, (g, e) in enumerate(zip(got, exp)):
            if g == "GUARD": ctx.fail("C17:wrote-outside-caller-array", "guard bytes around the caller's array were overwritten (op #%d)" % j, c, {"impl": i[:800]}); break
            if g.startswith("SIZE-MISMATCH"): ctx.fail("C17:size-not-strlen", "size() differs from the C-string length (op #%d)" % j, c, {"impl": g}); break
            if e == "X":
                if g != "X": ctx.fail("C17:resize-beyond-fixed", "resize beyond a fixed array did not fail (op #%d)" % j, c, {"impl": g}); break
                continue
            want = "%s:%d:e%d" % (hexs(e[0]), len(e[0]), 1 if e[1] else 0)
            if g != want:
                sig = "C17:truncation-flag" if g.rsplit(":", 1)[0] == want.rsplit(":", 1)[0] else "C17:content"
                ctx.fail(sig, "op #%d (%s): builder shows %s, expected %s" % (j, c["ops"][j][:40], g[:80], want[:80]), c, {"impl": i[:600]}); break
        ctx.compared += 1
        if i != m: ctx.disagree("StringBuilder:text/size/errno", c, i[:800], m[:800])

def shrink_candidates(c):
    ops = c["ops"]
    for i in range(len(ops)):
        yield dict(c, ops=ops[:i] + ops[i + 1:])
