"""C19 — help and default-command-line output list exactly the visible options, safely.

of <level> <n> <o:…>*
impl   : real OptionContext (groups added in token order, with group levels), setActiveDescLevel, description() through StringOut,
         defaults(n), and the defaults text parsed back with parseCommandString against the same context; ASan/UBSan on the sprintf buffer
model  : Model/OptFormat.lean (sprintf stages with a ghost overrun flag), Model/Options.lean for the parse-back
oracle : (1) every visible option has exactly one entry line matching the statement's shape (name, [no-], alias, argument, |no,
         ': ' + description with %D %A %I %% substituted), no other entry lines; (2) the whitespace-separated words of defaults() are
         exactly '--name=default' of the visible options with a default, in print order, and parse back to (option, default);
         (3) no sanitizer report."""
import re
ID = "C19"
MODULE = "PotasscoVerif.Props.C19"
THEOREMS = ["PotasscoVerif.C19.C19_sprintf_safe", "PotasscoVerif.C19.C19_column", "PotasscoVerif.C19.C19_placeholders", "PotasscoVerif.C19.C19_description_shape",
            "PotasscoVerif.C19.C19_visible_exactly_once", "PotasscoVerif.C19.C19_defaults_tokens", "PotasscoVerif.C19.C19_defaults_parse_back"]
PARTIAL = {"C19_defaults_parse_back": "proved for defaults and names that are single plain non-empty tokens (no blank, quote, backslash); outside that region the real code does not round-trip (known finding D12)"}
BSIZES = (4096,)
RULE = ("contexts of 0..9 options in 1..4 groups (group levels 0..5, order of first appearance random), option levels 0..5, names of 1..60 bytes incl. '%', optional alias, "
        "argument names absent / empty / short / long, implicit / flag / negatable in all combinations, descriptions with %D %A %I %% (and a stream with other %x, trailing % and "
        "newlines for the correspondence), defaults absent / plain / with blanks, quotes, backslashes / empty; active level 0..6; prefix width 0..40; "
        "distinct = distinct cases; non-trivial = at least 3 options and 2 groups")
TRUSTED = ["sprintf(\"%s\"/\"%c\"/\"%-*.*s\") writes its arguments and one terminating NUL", "std::isspace in the C locale"]
ASSUMPTIONS = ["names, argument names, descriptions and defaults contain no NUL; names contain no '=' and do not start with 'no-'"]
TECHNIQUE = "Lean 4 theorems on the formatter model (sprintf stages never exceed the computed buffer, placeholder substitution, visibility, tokenizer inverse of the defaults line, parse-back) + differential correspondence with the real formatter + shape oracle"
LEVEL_TEXT = ("For EVERY option, width and context of the model: C19_sprintf_safe (each sprintf of DefaultFormat::format, including its NUL, fits the buffer computed from Option::maxColumn: "
              "any name/argument/alias/implicit/negatable combination), C19_column (the option column is exactly max(maxW, written)), C19_placeholders (a description built from literal "
              "pieces and %D %A %I %% renders as the pieces with default, argument name, implicit value and '%'), C19_description_shape + C19_visible_exactly_once (the text is the "
              "concatenation, over sub-groups then the first group, of caption and one entry per member option with level ≤ active; the printed options are duplicate-free and are exactly those "
              "whose level and group level are ≤ the active level), C19_defaults_tokens / C19_defaults_parse_back (tokenizing the defaults text gives exactly '--name=default' of the "
              "visible options with a default, and parsing them yields (option, default) in order) for single-token defaults. The model is tied to the real formatter by correspondence on the "
              "full output text.")
LEVEL_NOTE = ("Proof on the model + correspondence (~4k quick / 100k thorough contexts) + shape oracle. Trusted: Lean kernel+axioms, sprintf/isspace contracts, harness (optctx.h, h_of.cpp), "
              "generator/oracle in props/c19.py. Known finding D12 (unquoted defaults) is reported as KNOWN-FINDING.")

def hexs(b): return "-" if not b else "".join("%02x" % c for c in b)
NAMES = [b"help", b"h", b"number", b"num", b"verbose", b"x", b"100%", b"a-very-long-option-name-that-exceeds-the-default-column-width", b"opt", b"file", b"time-limit", b"q%s", b"stats", b"z" * 40]
ARGS = [None, None, b"", b"<n>", b"<file>", b"ARG", b"<a-rather-long-argument-name|with|alternatives>", b"%d"]
DESCS = [b"", b"Print help", b"Use %A as input", b"Default: %D", b"[%D] implicit %I", b"100%% sure", b"%A%D%I%%", b"a" * 70, b"Set %A (%D) or omit (%I)", b"%%%%"]
ODD_DESCS = [b"%", b"trailing %", b"%x %y", b"line1\nline2", b"%d %s %n", b"50% off", b"%%%", b"%\n"]
DEFAULTS_PLAIN = [b"1", b"42", b"no", b"auto", b"x,y", b"a=b", b"-1", b"%D", b"tab\there", b"[1,2]"]
DEFAULTS_ODD = [b"a b", b"", b"\"q\"", b"it's", b"back\\\\slash", b" lead", b"trail ", b"a\\\"b"]

def gen_case(rng, odd):
    nopt = rng.choice([0, 1, 2, 3, 4, 5, 6, 7, 9])
    names = rng.sample(NAMES, min(nopt, len(NAMES)))
    groups = rng.sample([0, 1, 2, 3, 12], rng.randint(1, 4))
    glev = {g: rng.choice([0, 0, 0, 1, 2, 3, 4, 5]) for g in groups}
    aliases = set(); opts = []
    for n in names:
        al = 0
        if rng.random() < 0.5:
            al = rng.choice(b"abcdhnvxz%")
            if al in aliases: al = 0
            aliases.add(al)
        props = ""
        r = rng.random()
        if r < 0.3: props += "f"
        elif r < 0.55: props += "i"
        if rng.random() < 0.35: props += "n"
        impl = rng.choice([None, b"", b"yes", b"2"]) if "i" in props else None
        arg = rng.choice(ARGS)
        desc = rng.choice(ODD_DESCS) if (odd and rng.random() < 0.4) else rng.choice(DESCS)
        dflt = None
        if rng.random() < 0.55: dflt = rng.choice(DEFAULTS_ODD) if rng.random() < 0.12 else rng.choice(DEFAULTS_PLAIN)
        g = rng.choice(groups)
        opts.append({"name": n, "alias": al, "props": props, "impl": impl, "dflt": dflt, "arg": arg, "desc": desc, "level": rng.choice([0, 0, 0, 1, 2, 3, 4, 5]), "group": g,
                     "glevel": glev[g] if rng.random() < 0.8 else rng.choice([0, 1, 2, 3, 4, 5])})
    return {"level": rng.choice([0, 0, 1, 2, 3, 4, 4, 5, 6]), "n": rng.choice([0, 0, 6, 12, 40, 70]), "opts": opts}

def opt_tok(o):
    f = lambda x: "~" if x is None else hexs(x)
    return "o:%s:%d:%s:%s:%s:%s:%s:%d:%d:%d:%d" % (hexs(o["name"]), o["alias"], o["props"], f(o["impl"]), f(o["dflt"]), f(o["arg"]), hexs(o["desc"]) if o["desc"] else "~",
                                                     o["level"], o["group"], 2 if "f" in o["props"] else 1, o["glevel"])

def line_of(c): return ("of %d %d " % (c["level"], c["n"]) + " ".join(opt_tok(o) for o in c["opts"])).rstrip()

def to_json(c):
    h = lambda b: None if b is None else b.hex()
    return {"j": 1, "level": c["level"], "n": c["n"], "opts": [{k: (h(v) if k in ("name", "impl", "dflt", "arg", "desc") else v) for k, v in o.items()} for o in c["opts"]], "line": line_of(c)}
def from_json(j):
    u = lambda x: None if x is None else bytes.fromhex(x)
    return {"level": j["level"], "n": j["n"], "opts": [{k: (u(v) if k in ("name", "impl", "dflt", "arg", "desc") else v) for k, v in o.items()} for o in j["opts"]]}

def corpus(ctx):
    o = lambda n, **kw: dict({"name": n, "alias": 0, "props": "", "impl": None, "dflt": None, "arg": None, "desc": b"", "level": 0, "group": 0, "glevel": 0}, **kw)
    return [
        {"level": 4, "n": 0, "opts": []},                                                                     # D14 (fixed): no group at all
        {"level": 0, "n": 4, "opts": [o(b"bar", dflt=b"a b")]},                                              # D12 (known)
        {"level": 0, "n": 0, "opts": [o(b"x", props="n", arg=b""), o(b"y" * 30, props="in", alias=121, arg=b"<v>", impl=b"7", dflt=b"3", desc=b"%D %A %I %%")]},
        {"level": 2, "n": 70, "opts": [o(b"a", level=3), o(b"b", group=1, glevel=3, dflt=b"1"), o(b"c", group=2, level=2, dflt=b"2"), o(b"d", group=2, dflt=b"3")]},
    ]

def generate(ctx):
    n = {"quick": 4000, "thorough": 100000}[ctx.tier]
    return [gen_case(ctx.rng, ctx.rng.random() < 0.3) for _ in range(n)]

def unhex(s): return b"" if s in ("-", "") else bytes.fromhex(s)

def arg_name(o): return o["arg"] if o["arg"] is not None else (b"" if "f" in o["props"] else b"<arg>")
def implicit(o):
    if not ("i" in o["props"] or "f" in o["props"]): return b""
    return o["impl"] if o["impl"] else b"1"
def subst(o):
    d = o["desc"]; out = b""; i = 0
    while i < len(d):
        if d[i:i + 1] != b"%": out += d[i:i + 1]; i += 1; continue
        nx = d[i + 1:i + 2]
        if nx == b"D": out += o["dflt"] or b""
        elif nx == b"A": out += arg_name(o)
        elif nx == b"I": out += implicit(o)
        elif nx == b"%": out += b"%"
        else: return None                                   # outside the statement
        i += 2
    return out

def visible(c):
    dl = min(c["level"], 4)
    order = []
    for o in c["opts"]:
        if o["group"] not in order: order.append(o["group"])
    glev = {g: min(o["glevel"] for o in c["opts"] if o["group"] == g) for g in order}
    order = order[1:] + order[:1]
    res = []
    for g in order:
        if glev[g] <= dl: res += [k for k, o in enumerate(c["opts"]) if o["group"] == g and o["level"] <= dl]
    return res

def entry_regex(o):
    e = re.escape
    a = arg_name(o); imp = "i" in o["props"] or "f" in o["props"]; neg = "n" in o["props"]
    np = e(b"[no-]") if neg and not a else b""
    ap = e(b"|no") if neg and a else b""
    r = b"  --" + np + e(o["name"])
    if imp and a: r += e(b"[=") + e(a) + ap + e(b"]")
    if o["alias"]: r += e(b",-" + bytes([o["alias"]]))
    if not imp: r += (b" " if o["alias"] else b"=") + e(a) + ap
    d = subst(o)
    if d is None or b"\n" in d: return None
    return re.compile(b"^" + r + b" *: " + e(d) + b"$")

PLAIN_BAD = set(b" \"'\\")
def plain(b): return len(b) > 0 and not any(ch in PLAIN_BAD for ch in b)

def evaluate(ctx, cases):
    cases = [from_json(c) if c.get("j") else c for c in cases]
    lines = [line_of(c) for c in cases]
    impl = ctx.impl(lines); model = ctx.model(lines)
    for c, l, i, m in zip(cases, lines, impl, model):
        ctx.count()
        ngroups = len(set(o["group"] for o in c["opts"]))
        if len(c["opts"]) >= 3 and ngroups >= 2: ctx.nontrivial(l)
        ctx.dist["opts=%d" % len(c["opts"])] += 1; ctx.dist["level=%d" % c["level"]] += 1
        ctx.sample({"line": l[:260], "impl": (i if isinstance(i, str) else "CRASH")[:200]}, 3)
        if not isinstance(i, str):
            ctx.fail("C19:crash", "crash / sanitizer abort / failed assertion while formatting", to_json(c), {"stderr": i[2][-1500:]}); continue
        if i == "DUP": ctx.dist["dup"] += 1
        elif not i.startswith("D:"):
            ctx.fail("C19:format", "unexpected harness output", to_json(c), {"got": i[:300]})
        else:
            f = i.split("|")
            desc = unhex(f[0][2:]); defs = unhex(f[1][2:]); back = f[2][2:]
            for nb in [x for x in f[3][2:].split(",") if x]:
                n_, cap_ = [int(x) for x in nb.split("/")]
                if n_ + 1 > cap_:
                    ctx.fail("C19:sprintf-overrun", "sprintf wrote %d characters plus NUL into a buffer of %d" % (n_, cap_), to_json(c), {"written": n_, "buffer": cap_}); break
            vis = visible(c)
            # (1) description: one entry line per visible option, nothing else that looks like an entry
            regs = {k: entry_regex(c["opts"][k]) for k in vis}
            if all(r is not None for r in regs.values()) and not any(b"\n" in (c["opts"][k]["name"] + arg_name(c["opts"][k])) for k in vis):
                ctx.dist["oracle-desc"] += 1
                dl = desc.split(b"\n")
                entries = [x for x in dl if x.startswith(b"  --")]
                bad = None
                for k in vis:
                    cnt = sum(1 for x in entries if regs[k].match(x))
                    if cnt != 1: bad = ("option %d (%r) has %d entry lines" % (k, c["opts"][k]["name"], cnt)); break
                if bad is None and len(entries) != len(vis): bad = "%d entry lines for %d visible options" % (len(entries), len(vis))
                # "… and nothing else": when no description text contains a line break, every other line is empty or the caption line of a group
                if bad is None and not any(b"\n" in c["opts"][k]["desc"] for k in vis):
                    caps = set(b"Group%d:" % c["opts"][k]["group"] for k in range(len(c["opts"])) if c["opts"][k]["group"] != 0)
                    other = [x for x in dl if x and not x.startswith(b"  --") and x not in caps]
                    if other: bad = "a line that is neither an option entry nor a caption: %r" % other[0][:80]
                if bad: ctx.fail("C19:description", "the description does not list exactly the visible options once each in the stated shape", to_json(c), {"what": bad, "desc": desc.decode("latin-1")[:600]})
            # (2) defaults
            want = [(k, c["opts"][k]["dflt"]) for k in vis if c["opts"][k]["dflt"] is not None]
            words = [w for w in re.split(rb"[ \n]+", defs) if w]
            all_plain = all(plain(d) and plain(c["opts"][k]["name"]) for k, d in want)
            want_words = [b"--" + c["opts"][k]["name"] + b"=" + d for k, d in want]
            want_back = "-" if not want else ";".join("%d=%s" % (k, hexs(d)) for k, d in want)
            if words != want_words or back != want_back:
                sig = "C19:defaults-roundtrip" if all_plain else "C19:defaults-roundtrip:unquoted-default"
                ctx.fail(sig, "the default command line does not mention exactly the visible options with a default / does not parse back to their defaults", to_json(c),
                         {"defaults": defs.decode("latin-1")[:300], "parsed": back[:300], "want": want_back[:300]})
            else: ctx.dist["roundtrip-ok"] += 1
            # wrapping: no line longer than 78 + one option
            ctx.dist["wrapped"] += 1 if b"\n" in defs else 0
        ctx.compared += 1
        if i != m: ctx.disagree("OptionContext::description/defaults", to_json(c), i[:600], m[:600])

def shrink_candidates(c):
    c = from_json(c) if c.get("j") else c
    res = []
    for k in range(len(c["opts"])):
        res.append({"level": c["level"], "n": c["n"], "opts": c["opts"][:k] + c["opts"][k + 1:]})
    for k, o in enumerate(c["opts"]):
        for fld, v in (("desc", b""), ("arg", None), ("alias", 0), ("impl", None), ("props", ""), ("dflt", None), ("group", 0), ("glevel", 0), ("level", 0)):
            if o[fld] != v: res.append({"level": c["level"], "n": c["n"], "opts": c["opts"][:k] + [dict(o, **{fld: v})] + c["opts"][k + 1:]})
    if c["n"]: res.append(dict(c, n=0))
    return [to_json(x) for x in res]
