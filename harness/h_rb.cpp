// `rb <op>*` : drives three real Potassco::RuleBuilder objects (property C11); see lean/PotasscoVerif/Drv/RuleBuilder.lean
#include "util.h"
#include <potassco/rule_utils.h>
#include <cstdlib>
using namespace hv;
namespace {
struct Rec : Potassco::AbstractProgram {
	std::string last;
	static std::string atoms(const Potassco::AtomSpan& a) { std::string r; for (const Potassco::Atom_t* x = Potassco::begin(a); x != Potassco::end(a); ++x) { if (!r.empty()) r += ","; r += str(*x); } return r; }
	virtual void rule(Potassco::Head_t ht, const Potassco::AtomSpan& head, const Potassco::LitSpan& body) {
		std::string b; for (const Potassco::Lit_t* x = Potassco::begin(body); x != Potassco::end(body); ++x) { if (!b.empty()) b += ","; b += str(*x) + "=1"; }
		last = str((unsigned)ht) + "|" + atoms(head) + "|0|-1|" + b;
	}
	virtual void rule(Potassco::Head_t ht, const Potassco::AtomSpan& head, Potassco::Weight_t bound, const Potassco::WeightLitSpan& body) {
		std::string b; for (const Potassco::WeightLit_t* x = Potassco::begin(body); x != Potassco::end(body); ++x) { if (!b.empty()) b += ","; b += str(x->lit) + "=" + str(x->weight); }
		last = str((unsigned)ht) + "|" + atoms(head) + "|1|" + str(bound) + "|" + b;
	}
	virtual void minimize(Potassco::Weight_t prio, const Potassco::WeightLitSpan& body) {
		std::string b; for (const Potassco::WeightLit_t* x = Potassco::begin(body); x != Potassco::end(body); ++x) { if (!b.empty()) b += ","; b += str(x->lit) + "=" + str(x->weight); }
		last = "2||1|" + str(prio) + "|" + b;
	}
};
// The observable state of a builder: what a *copy* of it passes on at end(), cross-checked against the
// query functions (head(), bodyType(), body()/sum(), bound(), and rule() for non-minimize rules).
std::string view(const Potassco::RuleBuilder& rb) {
	Potassco::RuleBuilder tmp(rb);
	Rec rec; tmp.end(&rec);
	std::vector<std::string> f = split(rec.last, '|');
	if (f.size() != 5) return "NO-CALL";
	unsigned bt = static_cast<unsigned>(rb.bodyType());
	if ((f[2] == "0") != (bt == 0)) return "ACCESSOR-MISMATCH(bodyType)";
	f[2] = str(bt);
	std::string h, b;
	Potassco::AtomSpan hs = rb.head();
	for (const Potassco::Atom_t* x = Potassco::begin(hs); x != Potassco::end(hs); ++x) { if (!h.empty()) h += ","; h += str(*x); }
	int bound = rb.bound();
	if (bt == 0) {
		Potassco::LitSpan ls = rb.body();
		for (const Potassco::Lit_t* x = Potassco::begin(ls); x != Potassco::end(ls); ++x) { if (!b.empty()) b += ","; b += str(*x) + "=1"; }
	}
	else {
		Potassco::Sum_t sm = rb.sum();
		if (sm.bound != bound) return "ACCESSOR-MISMATCH(bound)";
		for (const Potassco::WeightLit_t* x = Potassco::begin(sm.lits); x != Potassco::end(sm.lits); ++x) { if (!b.empty()) b += ","; b += str(x->lit) + "=" + str(x->weight); }
	}
	if (h != f[1] || b != f[4] || str(bound) != f[3]) return "ACCESSOR-MISMATCH[" + rec.last + "]vs[" + h + "|" + str(bound) + "|" + b + "]";
	if (f[0] != "2") {
		Potassco::Rule_t r = rb.rule();
		if (str((unsigned)r.ht) != f[0] || (unsigned)r.bt != bt || Potassco::size(r.head) != Potassco::size(hs)) return "ACCESSOR-MISMATCH(rule)";
	}
	return join(f, "|");
}
std::string run_rb(const Args& a) {
	Potassco::RuleBuilder b[3];
	std::vector<std::string> out;
	for (std::size_t k = 0; k < a.size(); ++k) {
		std::vector<std::string> t = split(a[k], ':');
		const std::string& o = t[0];
		if (t.size() < 2) return "bad-op";
		unsigned i = (unsigned)std::atoi(t[1].c_str()) % 3;
		long long x = t.size() > 2 ? std::atoll(t[2].c_str()) : 0, y = t.size() > 3 ? std::atoll(t[3].c_str()) : 0;
		try {
			if      (o == "S") b[i].start(static_cast<Potassco::Head_t>((unsigned)x));
			else if (o == "H") b[i].addHead((Potassco::Atom_t)x);
			else if (o == "B") b[i].startBody();
			else if (o == "U") b[i].startSum((Potassco::Weight_t)x);
			else if (o == "M") b[i].startMinimize((Potassco::Weight_t)x);
			else if (o == "G") b[i].addGoal((Potassco::Lit_t)x, (Potassco::Weight_t)y);
			else if (o == "b") b[i].setBound((Potassco::Weight_t)x);
			else if (o == "ch") b[i].clearHead();
			else if (o == "cb") b[i].clearBody();
			else if (o == "c") b[i].clear();
			else if (o == "W") b[i].weaken(static_cast<Potassco::Body_t>((unsigned)x), y != 0);
			else if (o == "E") {
				std::string before = view(b[i]);
				Rec rec; b[i].end(&rec);
				std::vector<std::string> f = split(rec.last, '|'), g = split(before, '|');
				if (f.size() == 5 && g.size() == 5) { f[2] = g[2]; }
				if (join(f, "|") != before) { out.push_back("END-MISMATCH[" + rec.last + "]vs[" + before + "]"); continue; }
			}
			else if (o == "cp") { unsigned j = (unsigned)x % 3; Potassco::RuleBuilder tmp(b[i]); b[j].swap(tmp); i = j; }
			else if (o == "as") { unsigned j = (unsigned)x % 3; b[j] = b[i]; i = j; }
			else if (o == "sw") { unsigned j = (unsigned)x % 3; b[i].swap(b[j]); out.push_back(view(b[i]) + ";" + view(b[j])); continue; }
			else return "bad-op";
		}
		catch (const std::exception&) { out.push_back("A"); break; }
		out.push_back(view(b[i]));
	}
	return join(out);
}
hv::Reg reg_rb("rb", &run_rb);
}
