// `sc <type> p <hex>` : xconvert(const char*, T&, &end)  -> ok:<value>:<end offset> | fail:<end offset> | keep (bool only)
// `sc <type> w <val>` : xconvert(std::string&, T)        -> hex of the text
// `sc enum <E> ...`, `sc pair ...`, `sc vec ...` : composite round trips (see props/c16.py)
#include "util.h"
#include <potassco/string_convert.h>
#include <potassco/basic_types.h>
#include <potassco/theory_data.h>
#include <potassco/clingo.h>
#include <cerrno>
#include <cstdlib>
using namespace hv;
namespace {
template <class T> std::string parseT(const std::string& s, bool stale) {
	T out = T(); const char* end = 0;
	errno = stale ? ERANGE : 0;            // a stale errno must not influence the result
	int tok = Potassco::xconvert(s.c_str(), out, &end, 0);
	long off = end - s.c_str();
	if (off < 0 || off > (long)s.size()) return "END-OUT-OF-STRING:" + str(off);
	if (!tok) return "fail:" + str(off);
	return "ok:" + str(out) + ":" + str(off);
}
template <class T> std::string writeT(T v) { std::string o; Potassco::xconvert(o, v); return hex(o); }
template <class E> std::string enumRT() {
	// every constant of the enumeration: value -> string -> value, and the numeric spelling
	Potassco::EnumClass ec = E::enumClass();
	std::string res;
	for (int v = ec.min; v <= ec.max; ++v) {
		if (!ec.isValid(v)) continue;
		std::string s; Potassco::xconvert(s, static_cast<E>(static_cast<typename E::E>(v)));
		E back; bool ok = Potassco::string_cast(s, back);
		E back2; bool ok2 = Potassco::string_cast(str(v), back2);
		res += s + "=" + str(v) + (ok && static_cast<int>(back) == v ? "+" : "!") + (ok2 && static_cast<int>(back2) == v ? "+" : "!") + ",";
	}
	E bad; bool okBad = Potassco::string_cast(str(ec.max + 1), bad);
	res += okBad ? "ACCEPTS-OUT-OF-RANGE" : "rejects-max+1";
	// a constant's name followed by more identifier characters, or cut short, is not that constant
	std::vector<std::string> names;
	for (int v = ec.min; v <= ec.max; ++v) { if (ec.isValid(v)) { std::string s; Potassco::xconvert(s, static_cast<E>(static_cast<typename E::E>(v))); names.push_back(s); } }
	for (std::size_t i = 0; i < names.size(); ++i) {
		std::string alt[3] = {names[i] + "x", names[i] + "1", names[i].substr(0, names[i].size() - 1)};
		for (int k = 0; k < 3; ++k) {
			bool isName = false;
			for (std::size_t j = 0; j < names.size(); ++j) isName = isName || names[j] == alt[k];
			E out; if (!isName && !alt[k].empty() && Potassco::string_cast(alt[k], out)) res += ",!ACCEPTS-NON-CONSTANT:" + alt[k];
		}
	}
	// inside a pair and a list
	for (int v = ec.min; v <= ec.max; ++v) {
		if (!ec.isValid(v)) continue;
		E e = static_cast<E>(static_cast<typename E::E>(v));
		std::string s; Potassco::xconvert(s, std::make_pair(e, 7));
		std::pair<E, int> pb; bool okp = Potassco::string_cast(s, pb) && static_cast<int>(pb.first) == v && pb.second == 7;
		std::vector<E> ve(2, e); std::string sv; Potassco::xconvert(sv, ve);
		std::vector<E> vb; bool okv = Potassco::string_cast(sv, vb) && vb.size() == 2 && static_cast<int>(vb[0]) == v && static_cast<int>(vb[1]) == v;
		res += std::string(",") + (okp ? "+" : "!pair:" + s) + (okv ? "+" : "!vec:" + sv);
	}
	return res;
}
// `sc enumc <hex rep> <min> <max> s <hex text>` : EnumClass::convert(text, out)  -> n:<consumed>:<value>
// `sc enumc <hex rep> <min> <max> i <int>`      : EnumClass::convert(int, name)  -> hex of the name | none
std::string enumClassOp(const Args& a) {
	if (a.size() != 6) return "bad-op";
	std::string rep = unhex(a[1]);
	Potassco::EnumClass ec = {"E", rep.c_str(), std::atoi(a[2].c_str()), std::atoi(a[3].c_str())};
	if (a[4] == "s") {
		std::string t = unhex(a[5]); int out = -12345;
		std::size_t n = ec.convert(t.c_str(), out);
		if (n > t.size()) return "END-OUT-OF-STRING:" + str((long)n);
		return "n:" + str((long)n) + ":" + (n ? str(out) : std::string("-"));
	}
	if (a[4] == "i") {
		const char* nm = 0; std::size_t n = ec.convert(std::atoi(a[5].c_str()), nm);
		return n ? hex(std::string(nm, n)) : std::string("none");
	}
	return "bad-op";
}
std::string run_sc(const Args& a) {
	if (a.size() < 2) return "bad-op";
	const std::string& t = a[0];
	if (t == "enum") {
		if (a[1] == "Head_t") return enumRT<Potassco::Head_t>();
		if (a[1] == "Body_t") return enumRT<Potassco::Body_t>();
		if (a[1] == "Value_t") return enumRT<Potassco::Value_t>();
		if (a[1] == "Heuristic_t") return enumRT<Potassco::Heuristic_t>();
		if (a[1] == "Directive_t") return enumRT<Potassco::Directive_t>();
		if (a[1] == "Theory_t") return enumRT<Potassco::Theory_t>();
		if (a[1] == "Tuple_t") return enumRT<Potassco::Tuple_t>();
		if (a[1] == "Clause_t") return enumRT<Potassco::Clause_t>();
		if (a[1] == "Statistics_t") return enumRT<Potassco::Statistics_t>();
		return "bad-op";
	}
	if (t == "enumc") return enumClassOp(a);
	if (a.size() != 3) return "bad-op";
	bool stale = a[1] == "P";
	if (a[1] == "p" || a[1] == "P") {
		std::string s = unhex(a[2]);
		if (t == "i32") return parseT<int>(s, stale);
		if (t == "u32") return parseT<unsigned>(s, stale);
		if (t == "i64") return parseT<long long>(s, stale);
		if (t == "u64") return parseT<unsigned long long>(s, stale);
		if (t == "l64") return parseT<long>(s, stale);
		if (t == "ul64") return parseT<unsigned long>(s, stale);
		if (t == "bool") { bool out = false; const char* end = 0; int tok = Potassco::xconvert(s.c_str(), out, &end, 0); long off = end - s.c_str(); if (!tok) return "fail:" + str(off); if (off == 0) return "keep"; return std::string("ok:") + (out ? "1" : "0") + ":" + str(off); }
		if (t == "char") { char out = 0; const char* end = 0; int tok = Potassco::xconvert(s.c_str(), out, &end, 0); long off = end - s.c_str(); if (!tok) return "fail:" + str(off); return "ok:" + str((int)(unsigned char)out) + ":" + str(off); }
		if (t == "pair") { std::pair<int, unsigned> out(0, 0); const char* end = 0; int tok = Potassco::xconvert(s.c_str(), out, &end, 0); return "tok" + str(tok) + ":" + str(out.first) + "," + str(out.second) + ":" + str(end - s.c_str()); }
		if (t == "vec")  { std::vector<int> out; const char* end = 0; int tok = Potassco::xconvert(s.c_str(), out, &end, 0); std::string r = "tok" + str(tok) + ":"; for (std::size_t i = 0; i < out.size(); ++i) r += (i ? "," : "") + str(out[i]); return r + ":" + str(end - s.c_str()); }
		if (t == "pvec") {   // a pair whose second member is a list: the list is written into a string that already has content
			std::pair<unsigned, std::vector<unsigned> > out; out.first = 0; const char* end = 0;
			int tok = Potassco::xconvert(s.c_str(), out.first, &end, 0);
			if (tok && *end == ',') { tok += Potassco::xconvert(end + 1, out.second, &end, 0) ? 1 : 0; }
			std::string r = "tok" + str(tok) + ":" + str(out.first) + ";";
			for (std::size_t i = 0; i < out.second.size(); ++i) r += (i ? "," : "") + str(out.second[i]);
			return r + ":" + str(end - s.c_str());
		}
		if (t == "cast32") { int out = 0; return Potassco::string_cast(s, out) ? "ok:" + str(out) : std::string("fail"); }
		if (t == "castu64") { unsigned long long out = 0; return Potassco::string_cast(s, out) ? "ok:" + str(out) : std::string("fail"); }
		return "bad-op";
	}
	if (a[1] == "w") {
		if (t == "i32") return writeT<int>((int)std::atoll(a[2].c_str()));
		if (t == "u32") return writeT<unsigned>((unsigned)std::strtoull(a[2].c_str(), 0, 10));
		if (t == "i64") return writeT<long long>(std::atoll(a[2].c_str()));
		if (t == "u64") return writeT<unsigned long long>(std::strtoull(a[2].c_str(), 0, 10));
		if (t == "l64") return writeT<long>(std::atol(a[2].c_str()));
		if (t == "ul64") return writeT<unsigned long>(std::strtoul(a[2].c_str(), 0, 10));
		if (t == "bool") return writeT<bool>(a[2] == "1");
		if (t == "char") return writeT<char>((char)std::atoi(a[2].c_str()));
		if (t == "pair") { std::vector<std::string> p = split(a[2], ','); return writeT(std::make_pair((int)std::atoll(p[0].c_str()), (unsigned)std::strtoull(p[1].c_str(), 0, 10))); }
		if (t == "pvec") {
			std::vector<std::string> h = split(a[2], ';'); std::vector<unsigned> v;
			if (h.size() > 1 && h[1] != "-") { std::vector<std::string> p = split(h[1], ','); for (std::size_t i = 0; i < p.size(); ++i) v.push_back((unsigned)std::strtoull(p[i].c_str(), 0, 10)); }
			return hex(Potassco::toString((unsigned)std::strtoull(h[0].c_str(), 0, 10), v));     // toString(x, list): the list is appended to a string that already has content
		}
		if (t == "vec")  { std::vector<int> v; if (a[2] != "-") { std::vector<std::string> p = split(a[2], ','); for (std::size_t i = 0; i < p.size(); ++i) v.push_back((int)std::atoll(p[i].c_str())); } return writeT(v); }
		return "bad-op";
	}
	return "bad-op";
}
hv::Reg r1("sc", &run_sc);
}
