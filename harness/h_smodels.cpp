// `sw <ext> <false> <call>*` : plays the calls on a real SmodelsOutput; bytes (hex) then OK / ERR (exception)
// `sr <ext> <hex>`           : reads with the real SmodelsInput (claspExt = ext, no predicate conversion)
#include "recorder.h"
#include <potassco/smodels.h>
#include <sstream>
#include <cstdlib>
using namespace hv;
namespace {
std::string run_sw(const Args& a) {
	if (a.size() < 2) return "bad-op";
	std::ostringstream os;
	Potassco::SmodelsOutput out(os, a[0] == "1", (Potassco::Atom_t)std::atoll(a[1].c_str()));
	try { for (std::size_t i = 2; i < a.size(); ++i) play(a[i], out); }
	catch (const std::exception&) { return hex(os.str()) + " ERR"; }
	return hex(os.str()) + " OK";
}
int g_line = 0, g_calls = 0;
int onError(int line, const char*) { g_line = line; ++g_calls; return 1; }
std::string run_sr(const Args& a) {
	if (a.size() != 2 && a.size() != 3) return "bad-op";
	std::istringstream in(unhex(a[1]));
	Recorder rec;
	g_line = 0; g_calls = 0;
	Potassco::SmodelsInput::Options opts;
	if (a[0] == "1") opts.enableClaspExt();
	int rc;
	if (a.size() == 3) {
		// `sr <ext> <hex> <maxVar>`: the reader's atom limit lowered with setMaxVar
		Potassco::SmodelsInput reader(rec, opts);
		reader.setMaxVar((unsigned)std::atoll(a[2].c_str()));
		rc = Potassco::readProgram(in, reader, &onError);
	}
	else rc = Potassco::readSmodels(in, rec, &onError, opts);
	rec.log.push_back(rc != 0 || g_calls ? "ERR:" + str(g_line) + ":" + str(g_calls) : std::string("OK"));
	return join(rec.log);
}
// `sri <ext> <hex>`: the real reader driven step by step: accept, then parse(Incremental) while more()  (model: SmodelsIn.readInc; C05_modes)
std::string run_sri(const Args& a) {
	if (a.size() != 2) return "bad-op";
	std::istringstream in(unhex(a[1]));
	Recorder rec;
	Potassco::SmodelsInput::Options opts;
	if (a[0] == "1") opts.enableClaspExt();
	Potassco::SmodelsInput reader(rec, opts);
	std::string status = "OK";
	int exc = 0;
	try {
		if (!reader.accept(in)) { status = "ERR:" + str(reader.line()) + ":1"; }
		else {
			do { if (!reader.parse(Potassco::ProgramReader::Incremental)) { status = "ERR:" + str(reader.line()) + ":1"; break; } } while (reader.more());
		}
	}
	catch (const std::exception&) { ++exc; status = "ERR:" + str(reader.line()) + ":" + str(exc); }
	rec.log.push_back(status);
	return join(rec.log);
}
// `so <ext><cEdge><cHeu><filter> <hex>` : reads with the real SmodelsInput and the given option set (four 0/1 digits)
std::string run_so(const Args& a) {
	if (a.size() != 2 || a[0].size() != 4) return "bad-op";
	std::istringstream in(unhex(a[1]));
	Recorder rec;
	g_line = 0; g_calls = 0;
	Potassco::SmodelsInput::Options opts;
	if (a[0][0] == '1') opts.enableClaspExt();
	if (a[0][1] == '1') opts.convertEdges();
	if (a[0][2] == '1') opts.convertHeuristic();
	if (a[0][3] == '1') opts.dropConverted();
	int rc = Potassco::readSmodels(in, rec, &onError, opts);
	rec.log.push_back(rc != 0 || g_calls ? "ERR:" + str(g_line) + ":" + str(g_calls) : std::string("OK"));
	return join(rec.log);
}
hv::Reg r1("sw", &run_sw);
hv::Reg r3("so", &run_so);
hv::Reg r2("sr", &run_sr);
hv::Reg r2i("sri", &run_sri);
}
