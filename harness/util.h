// Shared helpers of the C++ side of the line protocol (see lean/Driver.lean for the model side).
#pragma once
#include <string>
#include <vector>
#include <sstream>
#include <cstdint>
#include <cstdio>
#include <stdexcept>
namespace hv {
typedef std::vector<std::string> Args;
inline Args words(const std::string& line) {
	Args r; std::istringstream is(line); std::string w;
	while (is >> w) r.push_back(w);
	return r;
}
inline int hexVal(char c) {
	if (c >= '0' && c <= '9') return c - '0';
	if (c >= 'a' && c <= 'f') return c - 'a' + 10;
	if (c >= 'A' && c <= 'F') return c - 'A' + 10;
	throw std::runtime_error("bad hex");
}
inline std::string unhex(const std::string& s) {
	std::string r;
	if (s == "-") return r;
	if (s.size() % 2) throw std::runtime_error("bad hex");
	for (std::size_t i = 0; i < s.size(); i += 2) r.push_back(static_cast<char>(hexVal(s[i]) * 16 + hexVal(s[i+1])));
	return r;
}
inline std::string hex(const std::string& s) {
	static const char* d = "0123456789abcdef";
	if (s.empty()) return "-";
	std::string r;
	for (std::size_t i = 0; i < s.size(); ++i) { unsigned char c = static_cast<unsigned char>(s[i]); r.push_back(d[c >> 4]); r.push_back(d[c & 15]); }
	return r;
}
inline std::string hex(const char* p, std::size_t n) { return hex(std::string(p, n)); }
inline std::vector<std::string> split(const std::string& s, char sep) {
	std::vector<std::string> r; std::string cur;
	for (std::size_t i = 0; i < s.size(); ++i) { if (s[i] == sep) { r.push_back(cur); cur.clear(); } else cur.push_back(s[i]); }
	r.push_back(cur);
	return r;
}
inline std::string join(const std::vector<std::string>& v, const char* sep = " ") {
	std::string r;
	for (std::size_t i = 0; i < v.size(); ++i) { if (i) r += sep; r += v[i]; }
	return r;
}
template <class T> inline std::string str(T x) { std::ostringstream os; os << x; return os.str(); }
}
// component registry: each h_*.cpp registers its runner (`static hv::Reg r("name", &fn);`)
namespace hv {
typedef std::string (*Runner)(const Args&);
struct Reg { Reg(const char* name, Runner r); };
}
