// Line-protocol harness: calls the real libpotassco code in-process. One case per line on stdin (or in the
// file given as argv[1]); one result line per case on stdout. Sanitizer aborts are results too: the
// check bisects the case file.
#include "util.h"
#include <iostream>
#include <fstream>
#include <map>
using hv::Runner;
static std::map<std::string, Runner>& table() { static std::map<std::string, Runner> t; return t; }
hv::Reg::Reg(const char* name, Runner r) { table()[name] = r; }
int main(int argc, char** argv) {
	std::map<std::string, Runner>& tab = table();
	std::ifstream file;
	if (argc > 1) { file.open(argv[1]); }
	std::istream& in = argc > 1 ? static_cast<std::istream&>(file) : std::cin;
	std::string line;
	while (std::getline(in, line)) {
		hv::Args w = hv::words(line);
		std::string res;
		if (w.empty()) { res = "bad-component"; }
		else {
			std::map<std::string, Runner>::const_iterator it = tab.find(w[0]);
			if (it == tab.end()) { res = "bad-component"; }
			else {
				hv::Args args(w.begin() + 1, w.end());
				try { res = it->second(args); }
				catch (const std::exception& e) { res = std::string("EXC ") + e.what(); }
			}
		}
		std::cout << res << "\n" << std::flush;
	}
	return 0;
}
