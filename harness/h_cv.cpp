// `cv <ext> <call>*` : plays the calls on a real SmodelsConvert wrapped around a recorder; prints the calls it makes,
//                      `EXC` if it threw, `M:<maxAtom>` and the atom map `G:<in>=<out>/…` of the input atoms 1..40
#include "recorder.h"
#include <potassco/convert.h>
using namespace hv;
namespace {
std::string run_cv(const Args& a) {
	if (a.empty()) return "bad-op";
	Recorder rec;
	bool exc = false;
	unsigned maxAtom = 0;
	std::string gmap;
	{
		Potassco::SmodelsConvert conv(rec, a[0] == "1");
		try { for (std::size_t i = 1; i < a.size(); ++i) play(a[i], conv); }
		catch (const std::exception&) { exc = true; }
		maxAtom = conv.maxAtom();
		// the converter's own atom map for the input atoms 1..40 (get() maps unmapped atoms to fresh ids > maxAtom: those are skipped)
		if (!exc) {
			for (int x = 1; x <= 40; ++x) {
				Potassco::Lit_t g = conv.get(x);
				if (static_cast<unsigned>(g) <= maxAtom) { if (!gmap.empty()) gmap += "/"; gmap += str(x) + "=" + str(g); }
			}
		}
	}
	if (exc) rec.log.push_back("EXC");
	rec.log.push_back("M:" + str(maxAtom));
	rec.log.push_back("G:" + gmap);
	return join(rec.log);
}
hv::Reg r1("cv", &run_cv);
}
