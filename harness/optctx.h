// Builds a real OptionContext from option tokens (shared by op / oa / of components):
//   o:<hexname>:<alias>:<props>[:<heximpl|~>:<hexdefault|~>:<hexarg|~>:<hexdesc|~>:<level>:<group>:<kind>:<grouplevel>]
//   props: i implicit, f flag, n negatable, c composing; kind: 0 int, 1 string, 2 flag (store_true), 3 vector<int>,
//   4 custom notifier (refuses strings starting with 'x'), 5 ValueMap int, 6 mapped enum (no/yes/maybe/auto -> 0/1/2/7),
//   7 flag (store_false), 8 notified int (kept only when >= 0)
#pragma once
#include "util.h"
#include <potassco/program_opts/program_options.h>
#include <potassco/program_opts/typed_value.h>
#include <potassco/program_opts/mapped_value.h>
#include <deque>
#include <cstdlib>
namespace hv {
enum HvEnum { hv_no = 0, hv_yes = 1, hv_maybe = 2, hv_auto = 7 };
struct OptCtx {
	struct Log { std::vector<std::string> strs; };
	struct NLog { std::vector<int> seen; int* kept; NLog() : kept(0) {} ~NLog() { delete kept; } };
	static bool customNotify(Log* l, const std::string&, const std::string& v) { l->strs.push_back(v); return v.empty() || v[0] != 'x'; }
	static bool intNotify(NLog* l, const std::string&, const int* v) {
		l->seen.push_back(*v);
		if (l->kept == v) return true;           // already ours (the value parses in place from now on)
		if (*v >= 0 && !l->kept) { l->kept = const_cast<int*>(v); return true; }
		return false;
	}
	Potassco::ProgramOptions::ValueMap vmap;
	std::deque<Log> logs; std::deque<NLog> nlogs;
	Potassco::ProgramOptions::OptionContext ctx;
	std::deque<std::string> strs;                 // storage for const char* descriptions
	std::deque<int> ints; std::deque<std::string> svals; std::deque<char> flags; std::deque<std::vector<int> > vecs;
	std::vector<int> kinds; std::vector<void*> targets;
	std::vector<Potassco::ProgramOptions::OptionGroup> groups;
	OptCtx() : ctx("ctx") {}
	const char* keep(const std::string& s) { strs.push_back(s); return strs.back().c_str(); }
	// returns false on a malformed token; throws DuplicateOption from the library
	bool add(const std::string& tok) {
		using namespace Potassco::ProgramOptions;
		std::vector<std::string> t = split(tok, ':');
		if (t.size() < 4 || t[0] != "o") return false;
		std::string name = unhex(t[1]); char alias = (char)std::atoi(t[2].c_str()); const std::string& props = t[3];
		int kind = t.size() > 10 ? std::atoi(t[10].c_str()) : (props.find('f') != std::string::npos ? 2 : 0);
		Value* v = 0;
		static bool dummyB;
		if (kind == 0) { ints.push_back(-777); targets.push_back(&ints.back()); v = storeTo(ints.back()); }
		else if (kind == 1) { svals.push_back("<unset>"); targets.push_back(&svals.back()); v = storeTo(svals.back()); }
		else if (kind == 2) { flags.push_back(2); targets.push_back(&flags.back()); v = storeTo(reinterpret_cast<bool&>(flags.back()), store_true.parser()); (void)dummyB; }
		else if (kind == 3) { vecs.push_back(std::vector<int>()); targets.push_back(&vecs.back()); v = storeTo(vecs.back()); }
		else if (kind == 4) { logs.push_back(Log()); targets.push_back(&logs.back()); v = notify(&logs.back(), &OptCtx::customNotify); }
		else if (kind == 5) { targets.push_back(0); v = store<int>(vmap); }
		else if (kind == 6) {
			static bool init = false;
			if (!init) { values<HvEnum>()("no", hv_no)("yes", hv_yes)("maybe", hv_maybe)("auto", hv_auto); init = true; }
			ints.push_back(-777); targets.push_back(&ints.back()); v = storeTo(ints.back(), values<HvEnum>());
		}
		else if (kind == 7) { flags.push_back(2); targets.push_back(&flags.back()); v = storeTo(reinterpret_cast<bool&>(flags.back()), store_false.parser()); }
		else { nlogs.push_back(NLog()); targets.push_back(&nlogs.back()); v = notify<int>(&nlogs.back(), &OptCtx::intNotify); }
		kinds.push_back(kind);
		if (props.find('f') != std::string::npos) v->flag();
		if (props.find('i') != std::string::npos) v->implicit(t.size() > 4 && t[4] != "~" ? keep(unhex(t[4])) : "");
		if (props.find('n') != std::string::npos) v->negatable();
		if (props.find('c') != std::string::npos) v->composing();
		if (t.size() > 5 && t[5] != "~") v->defaultsTo(keep(unhex(t[5])));
		if (t.size() > 6 && t[6] != "~") v->arg(keep(unhex(t[6])));
		const char* desc = t.size() > 7 && t[7] != "~" ? keep(unhex(t[7])) : "";
		if (t.size() > 8) v->level(static_cast<DescriptionLevel>(std::atoi(t[8].c_str())));
		unsigned g = t.size() > 9 ? (unsigned)std::atoi(t[9].c_str()) : 0;
		OptionGroup grp(g == 0 ? "" : "Group" + str(g), static_cast<DescriptionLevel>(t.size() > 11 ? std::atoi(t[11].c_str()) : 0));
		grp.addOption(SharedOptPtr(new Option(name, alias, desc, v)));
		ctx.add(grp);
		return true;
	}
	int indexOf(const Potassco::ProgramOptions::Option* o) const {
		int i = 0;
		for (Potassco::ProgramOptions::OptionContext::option_iterator it = ctx.begin(); it != ctx.end(); ++it, ++i) { if (it->get() == o) return i; }
		return -1;
	}
};
}
