// `sb <kind> <cap|hexinit> <op>*` : drives a real Potassco::StringBuilder of the given kind (property C17).
//  kinds: 0 self-contained, 1 caller's std::string (initial content), 2 caller's array (fixed), 3 caller's array (dynamic)
//  after every op: <hex c_str()>:<size()>:e<errno==ERANGE>; guard bytes around the caller's array.
#include "util.h"
#include <potassco/string_convert.h>
#include <cerrno>
#include <cstring>
#include <cstdlib>
using namespace hv;
namespace {
std::string run_sb(const Args& a) {
	if (a.size() < 2) return "bad-op";
	int kind = std::atoi(a[0].c_str());
	std::string ext;                       // caller's string
	std::vector<char> arr;                 // caller's array with 16 guard bytes on each side
	std::size_t n = 0;
	Potassco::StringBuilder* sb = 0;
	if      (kind == 0) sb = new Potassco::StringBuilder();
	else if (kind == 1) { ext = unhex(a[1]); sb = new Potassco::StringBuilder(ext); }
	else {
		n = (std::size_t)std::atoll(a[1].c_str());
		arr.assign(n + 32, '\x5a');
		sb = new Potassco::StringBuilder(&arr[16], n, kind == 2 ? Potassco::StringBuilder::Fixed : Potassco::StringBuilder::Dynamic);
	}
	std::vector<std::string> out;
	for (std::size_t k = 2; k < a.size(); ++k) {
		std::vector<std::string> t = split(a[k], ':');
		errno = 0;
		try {
			if      (t[0] == "a") { std::string s = unhex(t[1]); sb->append(s.data(), s.size()); }
			else if (t[0] == "s") { std::string s = unhex(t[1]); sb->append(s.c_str()); }
			else if (t[0] == "c") { sb->append((std::size_t)std::atoll(t[1].c_str()), (char)std::atoi(t[2].c_str())); }
			else if (t[0] == "i") { sb->append((long long)std::atoll(t[1].c_str())); }
			else if (t[0] == "f") { std::string p = unhex(t[1]) + "%s", o = unhex(t[2]); sb->appendFormat(p.c_str(), o.c_str()); }
			else if (t[0] == "g") { std::string p = unhex(t[1]) + "%lld"; sb->appendFormat(p.c_str(), (long long)std::atoll(t[2].c_str())); }
			else if (t[0] == "p") { std::string p = unhex(t[1]); sb->appendFormat(p.c_str()); }
			else if (t[0] == "r") { sb->resize((std::size_t)std::atoll(t[1].c_str()), (char)std::atoi(t[2].c_str())); }
			else if (t[0] == "k") { sb->clear(); }
			else { delete sb; return "bad-op"; }
		}
		catch (const std::exception&) { out.push_back("X"); continue; }
		int e = errno;
		bool guard = true;
		if (kind >= 2) { for (int g = 0; g < 16; ++g) guard = guard && arr[g] == '\x5a' && arr[16 + n + g] == '\x5a'; }
		std::size_t sz = sb->size();
		const char* cs = sb->c_str();
		if (!guard) out.push_back("GUARD");
		else if (std::strlen(cs) != sz) out.push_back("SIZE-MISMATCH:" + hex(std::string(cs)) + ":" + str(sz));
		else out.push_back(hex(std::string(cs, sz)) + ":" + str(sz) + ":e" + (e == ERANGE ? "1" : "0"));
		if (kind == 1 && sb->c_str() != ext.c_str() && false) out.push_back("?");
	}
	delete sb;
	return join(out);
}
hv::Reg r1("sb", &run_sb);
}
