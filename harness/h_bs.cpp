// `bs <B> <hexinput> <op>*` : drives the real Potassco::BufferedStream (property C09).
#include "util.h"
#include <potassco/match_basic_types.h>
#include <cstring>
#include <cstdlib>
using namespace hv;
static std::string run_bs(const Args& a);
static hv::Reg reg_bs("bs", &run_bs);
static std::string run_bs(const Args& a) {
	if (a.size() < 2) return "bad-op";
	if (std::atoi(a[0].c_str()) != static_cast<int>(Potassco::BufferedStream::BUF_SIZE)) return "wrong-B";
	std::istringstream in(unhex(a[1]));
	Potassco::BufferedStream bs(in);
	std::vector<std::string> out;
	for (std::size_t i = 2; i < a.size(); ++i) {
		std::vector<std::string> t = split(a[i], ':');
		const std::string& o = t[0];
		if      (o == "p") { out.push_back("c" + str((int)(unsigned char)bs.peek())); }
		else if (o == "g") { out.push_back("c" + str((int)(unsigned char)bs.get())); }
		else if (o == "w") { bs.skipWs(); out.push_back("_"); }
		else if (o == "i" || o == "I") {
			int64_t v = 0;
			bool ok = bs.match(v, o == "I");
			out.push_back(ok ? "i" + str(v) : std::string("iF"));
		}
		else if (o == "e") { out.push_back(bs.end() ? "b1" : "b0"); }
		else if (o == "l") { out.push_back("n" + str(bs.line())); }
		else if (o == "u" && t.size() == 2) { out.push_back(bs.unget((char)std::atoi(t[1].c_str())) ? "b1" : "b0"); }
		else if (o == "m" && t.size() == 2) {
			std::string w = unhex(t[1]);
			try { out.push_back(bs.match(w.c_str()) ? "b1" : "b0"); }
			catch (const std::exception&) { out.push_back("A"); }
		}
		else if (o == "c" && t.size() == 2) {
			int n = std::atoi(t[1].c_str());
			// guard bytes around the caller's buffer: copy must stay inside [0, n)
			std::vector<char> buf(static_cast<std::size_t>(n) + 16, '\x5a');
			int r = bs.copy(&buf[8], n);
			bool guard = true;
			for (int k = 0; k < 8; ++k) { guard = guard && buf[k] == '\x5a' && buf[8 + n + k] == '\x5a'; }
			if (r < 0 || r > n || !guard) { out.push_back("GUARD"); }
			else { out.push_back("x" + hex(&buf[8], static_cast<std::size_t>(r))); }
		}
		else return "bad-op";
	}
	return join(out);
}
