// `vs <op>*` : four real ValueStore holders with instrumented payload types (property C20).
//   payload identity is an id stored INSIDE the object (in-place payloads are relocated bitwise by swap); what is stored is id - 1
//   (untracked prototypes: ~0), so that the first tracked object of a history with value 0 is an in-place payload whose bytes are all zero.
// `rc <op>*` : four IntrusiveSharedPtr to a RefCountable with a counting destructor.
// `rcopt <perm>` : an Option shared between a group, two contexts and parsed values; holders destroyed in the given order.
#include "util.h"
#include <potassco/program_opts/value_store.h>
#include <potassco/program_opts/program_options.h>
#include <potassco/program_opts/typed_value.h>
#include <potassco/program_opts/mapped_value.h>
#include <potassco/program_opts/detail/refcountable.h>
#include <cstdlib>
#include <map>
using namespace hv;
using namespace Potassco::ProgramOptions;
namespace {
std::vector<int> g_dtor;     // destroy count per id
unsigned g_next = 1;
unsigned freshId() { g_dtor.resize(g_next + 1, 0); return g_next++; }
template <int TY, int PAD> struct P {
	P(int v) : id(0), val(v) {}                                   // untracked prototype
	P(int v, bool) : id(freshId()), val(v) {}                     // tracked (adopted objects)
	P(const P& o) : id(freshId()), val(o.val) {}                  // every copy is a new tracked object
	~P() { if (id) { if (id < g_dtor.size()) ++g_dtor[id]; } }
	unsigned id; int val; char pad[PAD ? PAD : 1];
};
typedef P<0, 0> S0;   // sizeof == 12? keep it <= 8: see static check below
struct Small0 { Small0(int v) : sid(~0u), val(v) {} Small0(int v, bool) : sid(freshId() - 1), val(v) {} Small0(const Small0& o) : sid(freshId() - 1), val(o.val) {} ~Small0() { unsigned id_ = id(); if (id_ && id_ < g_dtor.size()) ++g_dtor[id_]; } unsigned id() const { return sid + 1u; } unsigned sid; int val; };
struct Small1 { Small1(int v) : sid(~0u), val(v) {} Small1(int v, bool) : sid(freshId() - 1), val(v) {} Small1(const Small1& o) : sid(freshId() - 1), val(o.val) {} ~Small1() { unsigned id_ = id(); if (id_ && id_ < g_dtor.size()) ++g_dtor[id_]; } unsigned id() const { return sid + 1u; } unsigned sid; int val; };
struct Large2 { Large2(int v) : sid(~0u), val(v) {} Large2(int v, bool) : sid(freshId() - 1), val(v) {} Large2(const Large2& o) : sid(freshId() - 1), val(o.val) {} ~Large2() { unsigned id_ = id(); if (id_ && id_ < g_dtor.size()) ++g_dtor[id_]; } unsigned id() const { return sid + 1u; } unsigned sid; int val; char pad[24]; };
struct Large3 { Large3(int v) : sid(~0u), val(v) {} Large3(int v, bool) : sid(freshId() - 1), val(v) {} Large3(const Large3& o) : sid(freshId() - 1), val(o.val) {} ~Large3() { unsigned id_ = id(); if (id_ && id_ < g_dtor.size()) ++g_dtor[id_]; } unsigned id() const { return sid + 1u; } unsigned sid; int val; char pad[40]; };
typedef char static_check_small[sizeof(Small0) <= sizeof(void*) ? 1 : -1];
typedef char static_check_large[sizeof(Large2) > sizeof(void*) ? 1 : -1];
template <class T> bool show(const ValueStore& h, int ty, std::string& out) {
	const T* p = value_cast<T>(&h);
	if (!p) return false;
	out = str(ty) + ":" + str(p->val) + ":" + str(p->id());
	return true;
}
std::string holders(ValueStore* h, const std::map<int, bool>& heapOf) {
	std::string r;
	for (int i = 0; i < 4; ++i) {
		if (i) r += ",";
		std::string s;
		if (h[i].empty()) { r += "E"; continue; }
		if (!(show<Small0>(h[i], 0, s) || show<Small1>(h[i], 1, s) || show<Large2>(h[i], 2, s) || show<Large3>(h[i], 3, s))) { r += "?"; continue; }
		int id = std::atoi(s.substr(s.rfind(':') + 1).c_str());
		// heap or in place: in place iff the object's address lies inside the holder
		const char* obj = static_cast<const char*>(h[i].extract_raw());
		const char* hb = reinterpret_cast<const char*>(&h[i]);
		bool inplace = obj >= hb && obj < hb + sizeof(ValueStore);
		(void)heapOf; (void)id;
		r += s + ":" + (inplace ? "0" : "1");
	}
	return r;
}
std::string run_vs(const Args& a) {
	g_dtor.assign(1, 0); g_next = 1;
	std::vector<std::string> out;
	std::vector<std::pair<int, void*> > surrendered;   // (type, heap pointer or 0)
	std::vector<unsigned> surrIds;
	std::map<int, bool> heapOf;
	{
		ValueStore h[4];
		for (std::size_t k = 0; k < a.size(); ++k) {
			std::vector<std::string> t = split(a[k], ':');
			const std::string& o = t[0];
			unsigned i = t.size() > 1 ? (unsigned)std::atoi(t[1].c_str()) : 0;
			if (i >= 4) { out.push_back(o == "vc" ? "badcast" : holders(h, heapOf)); continue; }
			if (o == "set") {
				int ty = std::atoi(t[2].c_str()), v = std::atoi(t[3].c_str());
				if (ty == 0) { Small0 p(v); h[i] = p; } else if (ty == 1) { Small1 p(v); h[i] = p; } else if (ty == 2) { Large2 p(v); h[i] = p; } else { Large3 p(v); h[i] = p; }
			}
			else if (o == "cp") { unsigned j = (unsigned)std::atoi(t[2].c_str()); if (j < 4) h[j] = h[i]; }
			else if (o == "sw") { unsigned j = (unsigned)std::atoi(t[2].c_str()); if (j < 4) h[i].swap(h[j]); }
			else if (o == "ad") {
				int ty = std::atoi(t[2].c_str()), v = std::atoi(t[3].c_str());
				if (ty == 0) h[i].assimilate(new Small0(v, true)); else if (ty == 1) h[i].assimilate(new Small1(v, true)); else if (ty == 2) h[i].assimilate(new Large2(v, true)); else h[i].assimilate(new Large3(v, true));
			}
			else if (o == "cl") h[i].clear();
			else if (o == "su") {
				if (!h[i].empty()) {
					const char* obj = static_cast<const char*>(h[i].extract_raw());
					const char* hb = reinterpret_cast<const char*>(&h[i]);
					bool inplace = obj >= hb && obj < hb + sizeof(ValueStore);
					int ty = value_cast<Small0>(&h[i]) ? 0 : value_cast<Small1>(&h[i]) ? 1 : value_cast<Large2>(&h[i]) ? 2 : 3;
					unsigned id = ty == 0 ? value_cast<Small0>(&h[i])->id() : ty == 1 ? value_cast<Small1>(&h[i])->id() : ty == 2 ? value_cast<Large2>(&h[i])->id() : value_cast<Large3>(&h[i])->id();
					surrIds.push_back(id);
					surrendered.push_back(std::make_pair(ty, inplace ? (void*)0 : h[i].extract_raw()));
				}
				h[i].surrender();
			}
			else if (o == "ra") {
				// the caller takes a heap object out of the holder and hands the very same object back
				if (!h[i].empty()) {
					const char* obj = static_cast<const char*>(h[i].extract_raw());
					const char* hb = reinterpret_cast<const char*>(&h[i]);
					bool inplace = obj >= hb && obj < hb + sizeof(ValueStore);
					if (!inplace) {
						int ty = value_cast<Small0>(&h[i]) ? 0 : value_cast<Small1>(&h[i]) ? 1 : value_cast<Large2>(&h[i]) ? 2 : 3;
						void* p = h[i].extract_raw();
						h[i].surrender();
						if (ty == 0) h[i].assimilate(static_cast<Small0*>(p)); else if (ty == 1) h[i].assimilate(static_cast<Small1*>(p));
						else if (ty == 2) h[i].assimilate(static_cast<Large2*>(p)); else h[i].assimilate(static_cast<Large3*>(p));
					}
				}
			}
			else if (o == "sa") {
				// typed assignment whose right-hand side is the object the holder currently owns: h = value_cast<T>(h)
				if (!h[i].empty()) {
					if (const Small0* p0 = value_cast<Small0>(&h[i])) h[i] = *p0;
					else if (const Small1* p1 = value_cast<Small1>(&h[i])) h[i] = *p1;
					else if (const Large2* p2 = value_cast<Large2>(&h[i])) h[i] = *p2;
					else if (const Large3* p3 = value_cast<Large3>(&h[i])) h[i] = *p3;
				}
			}
			else if (o == "vc") {
				int ty = std::atoi(t[2].c_str());
				std::string r;
				try {
					int v = ty == 0 ? value_cast<Small0>(h[i]).val : ty == 1 ? value_cast<Small1>(h[i]).val : ty == 2 ? value_cast<Large2>(h[i]).val : value_cast<Large3>(h[i]).val;
					r = "v" + str(v);
				}
				catch (const bad_value_cast&) { r = "badcast"; }
				out.push_back(r);
				continue;
			}
			else return "bad-op";
			out.push_back(holders(h, heapOf));
		}
	}   // all holders destroyed here
	std::vector<int> counts(g_dtor);
	// the caller owns surrendered heap objects: delete them now (not counted)
	for (std::size_t k = 0; k < surrendered.size(); ++k) {
		void* p = surrendered[k].second; if (!p) continue;
		switch (surrendered[k].first) { case 0: delete static_cast<Small0*>(p); break; case 1: delete static_cast<Small1*>(p); break; case 2: delete static_cast<Large2*>(p); break; default: delete static_cast<Large3*>(p); }
	}
	std::string d = "D[";
	for (unsigned id = 1; id < g_next; ++id) {
		if (id > 1) d += ",";
		bool s = false; for (std::size_t k = 0; k < surrIds.size(); ++k) s = s || surrIds[k] == id;
		d += str(id) + ":" + str(counts[id]) + (s ? "s" : "");
	}
	out.push_back(d + "]");
	return join(out);
}
struct Counted : detail::RefCountable { Counted(unsigned i) : id(i) {} ~Counted() { freed->push_back(id); } unsigned id; std::vector<unsigned>* freed; };
std::string run_rc(const Args& a) {
	std::vector<unsigned> freed; unsigned next = 1;
	std::vector<std::string> out;
	{
		detail::IntrusiveSharedPtr<Counted> p[4];
		for (std::size_t k = 0; k < a.size(); ++k) {
			std::vector<std::string> t = split(a[k], ':');
			unsigned i = (unsigned)std::atoi(t[1].c_str());
			if (i < 4) {
				if (t[0] == "new") { Counted* c = new Counted(next++); c->freed = &freed; p[i] = detail::IntrusiveSharedPtr<Counted>(c); }
				else if (t[0] == "as") { unsigned j = (unsigned)std::atoi(t[2].c_str()); if (j < 4) p[j] = p[i]; }
				else if (t[0] == "rs") p[i].reset();
				else if (t[0] == "sw") { unsigned j = (unsigned)std::atoi(t[2].c_str()); if (j < 4) p[i].swap(p[j]); }
				else return "bad-op";
			}
			std::string s;
			for (int q = 0; q < 4; ++q) { if (q) s += ","; s += p[q].get() ? str(p[q]->id) + "/" + str(p[q].count()) : std::string("0"); }
			s += "|F";
			for (std::size_t q = 0; q < freed.size(); ++q) { if (q) s += ","; s += str(freed[q]); }
			out.push_back(s);
		}
	}
	return join(out);
}
// an option shared by a group, two contexts and parsed values lives until its last holder goes away
struct CountingValue : Value {
	CountingValue(int* d) : Value(0), dead(d) {}
	~CountingValue() { ++*dead; }
	virtual bool doParse(const std::string&, const std::string&) { return true; }
	int* dead;
};
std::string run_rcopt(const Args& a) {
	if (a.empty()) return "bad-op";
	int dead = 0;
	OptionGroup* g = new OptionGroup("G");
	g->addOptions()("opt,o", new CountingValue(&dead), "an option");
	OptionContext* c1 = new OptionContext("c1"); c1->add(*g);
	OptionContext* c2 = new OptionContext("c2"); c2->add(*c1);
	ParsedValues* pv = new ParsedValues(parseCommandString("--opt=1", *c2));
	OptionGroup* g2 = new OptionGroup(*g);
	std::string out;
	for (std::size_t k = 0; k < a[0].size(); ++k) {
		switch (a[0][k]) { case 'g': delete g; g = 0; break; case 'h': delete g2; g2 = 0; break; case '1': delete c1; c1 = 0; break; case '2': delete c2; c2 = 0; break; case 'p': delete pv; pv = 0; break; default: return "bad-op"; }
		out += str(dead);
	}
	delete g; delete g2; delete c1; delete c2; delete pv;
	return out + ":" + str(dead);
}
// `vmap <op>*` : a real ValueMap with typed, instrumented values (property C20: "adding typed values to a value map").
//   a:<key>:<ty>:<val>  ValueMap::add<T>(&vm, key, new T) — the caller keeps (and deletes) the object iff add returns false
//   n:<key>:<ty>:<val>  the same through `store<T>(vm)`: a NotifiedValue creates the object, parses <val> into it and notifies the map
//   r:<key>             add the object the map already holds under <key> once more (same pointer)
//   g:<key>  lookup     c  clear
//   output per op: add=<0|1> | parse=<0|1> | <ty>:<val>:<id> | unknown | ok ; at the end the destroy count of every object
struct MSmall { MSmall() : id(freshId()), val(0) {} MSmall(const MSmall& o) : id(freshId()), val(o.val) {} ~MSmall() { if (id < g_dtor.size()) ++g_dtor[id]; } unsigned id; int val; };
struct MLarge { MLarge() : id(freshId()), val(0) {} MLarge(const MLarge& o) : id(freshId()), val(o.val) {} ~MLarge() { if (id < g_dtor.size()) ++g_dtor[id]; } unsigned id; int val; char pad[40]; };
template <class T> bool parseM(const std::string& s, T& out) { if (s.empty() || s == "x") return false; out.val = std::atoi(s.c_str()); return true; }
template <class T> std::string vmAdd(ValueMap& vm, const std::string& key, int v) {
	T* p = new T(); p->val = v;
	bool took = ValueMap::add<T>(&vm, key, p);
	if (!took) delete p;              // the documented contract of the notifier: false = the map did not take the object
	return took ? "add=1" : "add=0";
}
template <class T> std::string vmNotify(ValueMap& vm, const std::string& key, const std::string& text) {
	NotifiedValue<T>* v = store<T>(vm, &parseM<T>);
	bool ok = v->parse(key, text);
	delete v;
	return ok ? "parse=1" : "parse=0";
}
std::string run_vmap(const Args& a) {
	g_dtor.assign(1, 0); g_next = 1;
	std::vector<std::string> out;
	{
		ValueMap vm;
		for (std::size_t k = 0; k < a.size(); ++k) {
			std::vector<std::string> t = split(a[k], ':');
			const std::string& o = t[0];
			if (o == "a" && t.size() == 4) out.push_back(t[2] == "0" ? vmAdd<MSmall>(vm, t[1], std::atoi(t[3].c_str())) : vmAdd<MLarge>(vm, t[1], std::atoi(t[3].c_str())));
			else if (o == "n" && t.size() == 4) out.push_back(t[2] == "0" ? vmNotify<MSmall>(vm, t[1], t[3]) : vmNotify<MLarge>(vm, t[1], t[3]));
			else if (o == "r" && t.size() == 2) {
				if (!vm.count(t[1])) { out.push_back("unknown"); continue; }
				const ValueStore& h = vm[t[1]];
				bool took = true;
				if (const MSmall* p0 = value_cast<MSmall>(&h)) took = ValueMap::add<MSmall>(&vm, t[1], p0);
				else if (const MLarge* p1 = value_cast<MLarge>(&h)) took = ValueMap::add<MLarge>(&vm, t[1], p1);
				out.push_back(took ? "add=1" : "add=0");
			}
			else if (o == "g" && t.size() == 2) {
				if (!vm.count(t[1])) { out.push_back("unknown"); continue; }
				const ValueStore& h = vm[t[1]];
				if (const MSmall* p0 = value_cast<MSmall>(&h)) out.push_back("0:" + str(p0->val) + ":" + str(p0->id));
				else if (const MLarge* p1 = value_cast<MLarge>(&h)) out.push_back("1:" + str(p1->val) + ":" + str(p1->id));
				else out.push_back(h.empty() ? "E" : "?");
			}
			else if (o == "c") { vm.clear(); out.push_back("ok"); }
			else return "bad-op";
		}
	}   // the map is destroyed here
	std::string d = "D[";
	for (unsigned id = 1; id < g_next; ++id) { if (id > 1) d += ","; d += str(id) + ":" + str(g_dtor[id]); }
	out.push_back(d + "]");
	return join(out);
}
hv::Reg r0("vmap", &run_vmap);
hv::Reg r1("vs", &run_vs);
hv::Reg r2("rc", &run_rc);
hv::Reg r3("rcopt", &run_rcopt);
}
