// `op <a|s|c|t> <allowUnreg> <allowFlagValue> <posName|~> <o:…>* <T:hex>* | S:<hex> | F:<hex>` : real option parsers (property C13)
#include "optctx.h"
#include <sstream>
#include <cstring>
#include <cstdlib>
using namespace hv;
using namespace Potassco::ProgramOptions;
namespace {
std::string g_posName;
bool posHandler(const std::string&, std::string& out) { out = g_posName; return true; }
std::string values(const OptCtx& oc, const ParsedValues& pv) {
	std::string r;
	for (ParsedValues::iterator it = pv.begin(); it != pv.end(); ++it) {
		if (!r.empty()) r += ";";
		r += str(oc.indexOf(it->first.get())) + "=" + hex(it->second);
	}
	return r.empty() ? "-" : r;
}
std::string run_op(const Args& a) {
	if (a.size() < 4) return "bad-op";
	OptCtx oc;
	bool allowU = a[1] == "1"; unsigned flags = a[2] == "1" ? unsigned(command_line_allow_flag_value) : 0u;
	PosOption po = 0;
	if (a[3] != "~") { g_posName = unhex(a[3]); po = &posHandler; }
	std::size_t k = 4;
	try { for (; k < a.size() && a[k].compare(0, 2, "o:") == 0; ++k) { if (!oc.add(a[k])) return "bad-op"; } }
	catch (const DuplicateOption&) { return "DUP"; }
	std::vector<std::string> payload;
	int argc0 = -1; std::vector<std::string> junk;  // N:<k> = the caller's argc (1..real count); J:<hex> = cells behind the null pointer
	for (; k < a.size(); ++k) {
		std::vector<std::string> t = split(a[k], ':'); if (t.size() != 2) return "bad-op";
		if (t[0] == "N") { argc0 = std::atoi(t[1].c_str()); continue; }
		if (t[0] == "J") { junk.push_back(unhex(t[1])); continue; }
		payload.push_back(unhex(t[1]));
	}
	try {
		if (a[0] == "a") {
			// argv[0] is the program name; argc/argv are rewritten to the remaining arguments
			std::vector<std::string> store; store.push_back("prog"); store.insert(store.end(), payload.begin(), payload.end());
			std::vector<char*> argv; for (std::size_t i = 0; i < store.size(); ++i) argv.push_back(const_cast<char*>(store[i].c_str()));
			argv.push_back(0);
			for (std::size_t i = 0; i < junk.size(); ++i) argv.push_back(const_cast<char*>(junk[i].c_str()));
			int argc = argc0 >= 1 && argc0 <= (int)store.size() ? argc0 : (int)store.size();
			ParsedValues pv = parseCommandLine(argc, &argv[0], oc.ctx, allowU, po, flags);
			std::string rem, vec;
			if (argc < 1 || argc > (int)store.size() || argv[argc] != 0 || std::strcmp(argv[0], "prog") != 0) return "ARGV-NOT-TERMINATED";
			for (int i = 1; i < argc; ++i) { if (i > 1) rem += ","; rem += hex(std::string(argv[i])); }
			for (std::size_t i = 0; i < argv.size(); ++i) { if (i) vec += ","; vec += argv[i] ? hex(std::string(argv[i])) : std::string("~"); }
			return values(oc, pv) + "|R:" + rem + "|V:" + vec;
		}
		if (a[0] == "s") {
			// remaining arguments are not reported by parseCommandString: parse through a context to get them? use the same API as users do
			ParsedValues pv = parseCommandString(payload.empty() ? std::string() : payload[0], oc.ctx, allowU, po, flags);
			return values(oc, pv) + "|R:";
		}
		if (a[0] == "c") {
			std::istringstream in(payload.empty() ? std::string() : payload[0]);
			ParsedValues pv = parseCfgFile(in, oc.ctx, allowU);
			return values(oc, pv) + "|R:";
		}
		return "bad-op";
	}
	catch (const UnknownOption& e)   { return "ERR:unknown:" + hex(e.key()); }
	catch (const AmbiguousOption& e) { return "ERR:ambiguous:" + hex(e.key()); }
	catch (const SyntaxError& e)     { return std::string("ERR:") + (e.type() == SyntaxError::missing_value ? "missing" : e.type() == SyntaxError::extra_value ? "extra" : "format") + ":" + hex(e.key()); }
}
hv::Reg r1("op", &run_op);
}
