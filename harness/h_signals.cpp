// `sg <main> <choice>*` : replays a schedule on a real Potassco::Application through the yield hook
// (a nested processSignal call at a yield point is exactly a POSIX handler interrupting the flow there).
#include "util.h"
#include <potassco/application.h>
#include <set>
#include <cstdlib>
namespace Potassco { extern void (*verifYield)(int); }
using namespace hv;
namespace {
struct App;
struct Sched {
	std::vector<std::string> cs; std::size_t i; std::set<int> masked; App* app; std::vector<std::string> out; bool lastR;
};
Sched* g = 0;
struct App : Potassco::Application {
	virtual const char* getName() const { return "verif"; }
	virtual const char* getVersion() const { return "0"; }
	virtual void initOptions(Potassco::ProgramOptions::OptionContext&) {}
	virtual void validateOptions(const Potassco::ProgramOptions::OptionContext&, const Potassco::ProgramOptions::ParsedOptions&, const Potassco::ProgramOptions::ParsedValues&) {}
	virtual void setup() {}
	virtual void run() {}
	virtual void info(const char*) const {}
	virtual bool onSignal(int sig);
	int  block() { return blockSignals(); }
	void unblock(bool d) { unblockSignals(d); }
	void signal(int s) { processSignal(s); }
};
std::string snap(int n) { return str(n) + ":" + str(g->app->verifBlocked()) + ":" + str(g->app->verifPending()); }
// consumes choices up to and including the next `step`; arrivals are delivered reentrantly
void consume(int n) {
	for (;;) {
		if (g->i >= g->cs.size()) { g->lastR = true; g->out.push_back(snap(n)); return; }
		const std::string c = g->cs[g->i++];
		if (c[0] == 'a') {
			int sig = std::atoi(c.c_str() + 1);
			if (sig == 0 || g->masked.count(sig)) continue;
			g->masked.insert(sig);
			g->app->signal(sig);
			g->masked.erase(sig);
		}
		else { g->lastR = c == "s1"; g->out.push_back(snap(n)); return; }
	}
}
void yield(int n) { consume(n); }
bool App::onSignal(int sig) {
	g->out.push_back("C" + str(sig));
	consume(6);
	bool r = g->lastR;
	g->out.push_back("R" + str(sig) + ":" + (r ? "1" : "0"));
	return r;
}
std::string run_sg(const Args& a) {
	if (a.empty()) return "bad-op";
	App app; Sched s; s.i = 0; s.app = &app; s.lastR = true;
	s.cs.assign(a.begin() + 1, a.end());
	g = &s;
	Potassco::verifYield = &yield;
	std::vector<std::string> main = a[0] == "-" ? std::vector<std::string>() : split(a[0], ',');
	long depth = 0; bool halted = false;
	for (std::size_t k = 0; k < main.size() && !halted; ++k) {
		const std::string& op = main[k];
		// the step that starts this main operation (arrivals before it are delivered at top level)
		for (;;) {
			if (s.i >= s.cs.size()) break;
			const std::string c = s.cs[s.i++];
			if (c[0] == 'a') { int sig = std::atoi(c.c_str() + 1); if (sig == 0 || s.masked.count(sig)) continue; s.masked.insert(sig); app.signal(sig); s.masked.erase(sig); continue; }
			if (op[0] == 'u' && depth == 0) continue;   // impossible step: skipped
			break;
		}
		if (op[0] == 'u' && depth == 0) { halted = true; break; }
		s.out.push_back(snap(0));
		if (op == "b") { app.block(); ++depth; }
		else if (op == "u1" || op == "u0") { --depth; app.unblock(op == "u1"); }
	}
	// remaining choices: only arrivals can still happen
	while (s.i < s.cs.size()) {
		const std::string c = s.cs[s.i++];
		if (c[0] == 'a') { int sig = std::atoi(c.c_str() + 1); if (sig == 0 || s.masked.count(sig)) continue; s.masked.insert(sig); app.signal(sig); s.masked.erase(sig); }
	}
	Potassco::verifYield = 0; g = 0;
	s.out.push_back("F" + str(app.verifBlocked()) + ":" + str(app.verifPending()));
	return join(s.out);
}
hv::Reg r1("sg", &run_sg);
}
