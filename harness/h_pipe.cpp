// `ap <pt> <hex>` : the conversion pipelines of app/lpconvert.cpp inside the process, with an error handler that RETURNS (the tool's handler
//                   exits the process, so nothing is unwound there): p = potassco extensions, t = text output.
//                   aspif input  -> SmodelsConvert(ext) -> SmodelsOutput(ext)   or -> AspifTextOutput
//                   smodels input (options as the tool sets them) -> AspifOutput or -> AspifTextOutput
//                   prints OK / ERR:<line> and the number of bytes written (run for the sanitizers: nothing may be lost when a step is given up)
#include "recorder.h"
#include <potassco/aspif.h>
#include <potassco/aspif_text.h>
#include <potassco/smodels.h>
#include <potassco/convert.h>
#include <sstream>
#include <cctype>
using namespace hv;
namespace {
int g_line = 0, g_calls = 0;
int onError(int line, const char*) { g_line = line; ++g_calls; return 1; }
std::string run_ap(const Args& a) {
	if (a.size() != 2 || a[0].size() != 2) return "bad-op";
	bool potassco = a[0][0] == '1', text = a[0][1] == '1';
	std::istringstream in(unhex(a[1]));
	std::ostringstream os;
	g_line = 0; g_calls = 0;
	std::string status = "OK";
	int pk = in.peek();
	if (!(pk == 'a' || (pk != EOF && std::isdigit(pk)))) return "ERR:format 0";
	try {
		Potassco::AspifTextOutput txt(os);
		int rc;
		if (pk == 'a') {
			Potassco::SmodelsOutput  writer(os, potassco, 0);
			Potassco::SmodelsConvert smodels(writer, potassco);
			rc = Potassco::readAspif(in, !text ? static_cast<Potassco::AbstractProgram&>(smodels) : txt, &onError);
		}
		else {
			Potassco::AspifOutput aspif(os);
			Potassco::SmodelsInput::Options opts;
			if (potassco) { opts.enableClaspExt().convertEdges().convertHeuristic(); }
			rc = Potassco::readSmodels(in, !text ? static_cast<Potassco::AbstractProgram&>(aspif) : txt, &onError, opts);
		}
		if (rc != 0 || g_calls) status = "ERR:" + str(g_line);
	}
	catch (const std::exception&) { status = "EXC"; }
	return status + " " + str((int)os.str().size());
}
hv::Reg r1("ap", &run_ap);
}
