// `tr <C|I> <hex>`   : reads the bytes with the real AspifTextInput (C: readProgram/Complete, I: step by step);
//                      prints the call log and `OK` or `ERR:<line>:<handler calls>`
// `tw <call>*`       : plays the calls on a real AspifTextOutput, prints the text written (hex)
#include "recorder.h"
#include <potassco/aspif_text.h>
#include <sstream>
using namespace hv;
namespace {
int g_errLine = 0, g_errCalls = 0;
int onError(int line, const char*) { g_errLine = line; ++g_errCalls; return 1; }
std::string run_tr(const Args& a) {
	if (a.size() != 2) return "bad-op";
	std::istringstream in(unhex(a[1]));
	Recorder rec;
	g_errLine = 0; g_errCalls = 0;
	std::string status = "OK";
	Potassco::AspifTextInput reader(&rec);
	if (a[0] == "C") {
		int rc = Potassco::readProgram(in, reader, &onError);
		if (rc != 0 || g_errCalls) status = "ERR:" + str(g_errLine) + ":" + str(g_errCalls);
	}
	else {
		int exc = 0;
		try {
			if (!reader.accept(in)) { status = "ERR:" + str(reader.line()) + ":1"; }
			else {
				do { if (!reader.parse(Potassco::ProgramReader::Incremental)) { status = "ERR:" + str(reader.line()) + ":1"; break; } } while (reader.more());
			}
		}
		catch (const std::exception&) { ++exc; status = "ERR:" + str(reader.line()) + ":" + str(exc); }
	}
	rec.log.push_back(status);
	return join(rec.log);
}
std::string run_tw(const Args& a) {
	std::ostringstream os;
	Potassco::AspifTextOutput out(os);
	try { for (std::size_t i = 0; i < a.size(); ++i) play(a[i], out); }
	catch (const std::exception& e) { return std::string("EXC ") + hex(os.str()); }
	return hex(os.str());
}
hv::Reg r1("tr", &run_tr);
hv::Reg r2("tw", &run_tw);
}
