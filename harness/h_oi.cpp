// `oi <o:hexname:alias | a:hexalias:opt | q:hexkey:type>*` : builds a real OptionContext (every option in its own
// call to add(group) of a two-group context) and queries find/tryFind (property C14).
#include "util.h"
#include <potassco/program_opts/program_options.h>
#include <potassco/program_opts/typed_value.h>
#include <cstdlib>
using namespace hv;
using namespace Potassco::ProgramOptions;
namespace {
std::string run_oi(const Args& a) {
	OptionContext ctx("ctx");
	OptionContext other("other");      // a second context (`O:`/`A:` tokens) that `m:-:0` adds to the first one
	static int sink = 0;
	std::vector<std::string> out;
	unsigned n = 0, n2 = 0;
	for (std::size_t i = 0; i < a.size(); ++i) {
		std::vector<std::string> t = split(a[i], ':');
		if (t.size() != 3) return "bad-op";
		try {
			if (t[0] == "o") {
				OptionGroup g(n % 2 ? "B" : "A");
				g.addOption(SharedOptPtr(new Option(unhex(t[1]), (char)std::atoi(t[2].c_str()), "", storeTo(sink))));
				ctx.add(g); ++n;
				out.push_back("ok");
			}
			else if (t[0] == "O") {
				OptionGroup g(n2 % 2 ? "B" : "A");
				g.addOption(SharedOptPtr(new Option(unhex(t[1]), (char)std::atoi(t[2].c_str()), "", storeTo(sink))));
				other.add(g); ++n2;
				out.push_back("ok");
			}
			else if (t[0] == "A") {
				unsigned o = (unsigned)std::atoi(t[2].c_str());
				other.addAlias(unhex(t[1]), o < other.size() ? other.begin() + o : other.end());
				out.push_back("ok");
			}
			else if (t[0] == "m") { ctx.add(other); out.push_back("ok"); }
			else if (t[0] == "a") {
				unsigned o = (unsigned)std::atoi(t[2].c_str());
				ctx.addAlias(unhex(t[1]), o < ctx.size() ? ctx.begin() + o : ctx.end());
				out.push_back("ok");
			}
			else if (t[0] == "q") {
				std::string key = unhex(t[1]);
				OptionContext::FindType ft = static_cast<OptionContext::FindType>(std::atoi(t[2].c_str()));
				std::string r;
				try { OptionContext::option_iterator it = ctx.find(key.c_str(), ft); r = "=" + str(it - ctx.begin()); }
				catch (const UnknownOption&) { r = "U"; }
				catch (const AmbiguousOption& e) {
					// candidates are listed one per line ("  name\n") in the error's alternative text: recover them from what()
					std::string w = e.what(); r = "A";
					std::vector<std::string> names;
					std::string::size_type p = w.find(" could be:\n");
					if (p != std::string::npos) {
						std::vector<std::string> ls = split(w.substr(p + 11), '\n');
						for (std::size_t j = 0; j < ls.size(); ++j) { if (ls[j].size() >= 2) names.push_back(hex(ls[j].substr(2))); }
					}
					r += join(names, ",");
				}
				OptionContext::option_iterator it2 = ctx.tryFind(key.c_str(), ft);
				r += it2 == ctx.end() ? std::string("/-") : "/=" + str(it2 - ctx.begin());
				out.push_back(r);
			}
			else return "bad-op";
		}
		catch (const DuplicateOption&) { out.push_back("DUP"); }   // the caller goes on using the context
	}
	return join(out);
}
hv::Reg r1("oi", &run_oi);
}
