// `oa <o:…>* <A:<excl|~|->:<k=hex;…|-> | D>*` : real ParsedOptions::assign / OptionContext::assignDefaults on typed targets (property C15)
#include "optctx.h"
using namespace hv;
using namespace Potassco::ProgramOptions;
namespace {
std::string ints(const std::vector<int>& v) { std::string r; for (std::size_t i = 0; i < v.size(); ++i) { if (i) r += "."; r += str(v[i]); } return v.empty() ? "e" : r; }
std::string stored(OptCtx& oc, std::size_t i, const Option& o) {
	void* t = oc.targets[i];
	switch (oc.kinds[i]) {
		case 0: case 6: return str(*static_cast<int*>(t));
		case 1: return hex(*static_cast<std::string*>(t));
		case 2: case 7: return str((int)*static_cast<char*>(t));
		case 3: return ints(*static_cast<std::vector<int>*>(t));
		case 4: { OptCtx::Log* l = static_cast<OptCtx::Log*>(t); std::string r; for (std::size_t k = 0; k < l->strs.size(); ++k) { if (k) r += "."; r += hex(l->strs[k]); } return l->strs.empty() ? "e" : r; }
		case 5: return oc.vmap.count(o.name()) ? str(value_cast<int>(oc.vmap[o.name()])) : "n";
		default: { OptCtx::NLog* l = static_cast<OptCtx::NLog*>(t); return (l->kept ? str(*l->kept) : std::string("n")) + "@" + ints(l->seen); }
	}
}
std::string state(OptCtx& oc, const ParsedOptions& po) {
	std::string p, v, s; std::size_t i = 0;
	for (OptionContext::option_iterator it = oc.ctx.begin(); it != oc.ctx.end(); ++it, ++i) {
		const Option& o = **it;
		p += po.count(o.name()) ? "1" : "0";
		if (i) v += ",";
		v += stored(oc, i, o);
		s += str((int)o.value()->state());
	}
	return "P:" + p + "#" + str(po.size()) + "|V:" + v + "|S:" + s;
}
std::string run_oa(const Args& a) {
	OptCtx oc;
	std::size_t k = 0;
	try { for (; k < a.size() && a[k].compare(0, 2, "o:") == 0; ++k) { if (!oc.add(a[k])) return "bad-op"; } }
	catch (const DuplicateOption&) { return "DUP"; }
	std::size_t nOpts = oc.kinds.size();
	ParsedOptions po;
	std::string out;
	for (; k < a.size(); ++k) {
		std::vector<std::string> t = split(a[k], ':');
		std::string res = "ok";
		try {
			if (t.size() == 1 && t[0] == "D") { oc.ctx.assignDefaults(po); }
			else if (t.size() == 3 && t[0] == "A") {
				ParsedValues pv(oc.ctx);
				if (t[2] != "-") {
					std::vector<std::string> kvs = split(t[2], ';');
					for (std::size_t i = 0; i < kvs.size(); ++i) {
						std::vector<std::string> kv = split(kvs[i], '=');
						if (kv.size() != 2) return "bad-op";
						std::size_t idx = (std::size_t)std::atoi(kv[0].c_str());
						if (idx >= nOpts) return "bad-op";
						pv.add(*(oc.ctx.begin() + idx), unhex(kv[1]));
					}
				}
				ParsedOptions ex;
				if (t[1] != "~" && t[1] != "-") { std::vector<std::string> ns = split(t[1], ','); for (std::size_t i = 0; i < ns.size(); ++i) ex.add(unhex(ns[i])); }
				po.assign(pv, t[1] == "~" ? 0 : &ex);
			}
			else return "bad-op";
		}
		catch (const ValueError& e) {
			res = std::string("ERR:") + (e.type() == ValueError::multiple_occurrences ? "multiple" : e.type() == ValueError::invalid_default ? "default" : "invalid") + ":" + hex(e.key()) + ":" + hex(e.value());
		}
		if (!out.empty()) out += " / ";
		out += res + "|" + state(oc, po);
	}
	return out;
}
hv::Reg r1("oa", &run_oa);
}
