// `of <level> <n> <o:…>*` : real OptionContext::description through StringOut, OptionContext::defaults(n), and the defaults
// parsed back with parseCommandString against the same context (property C19)
#include "optctx.h"
using namespace hv;
using namespace Potassco::ProgramOptions;
namespace {
// DefaultFormat with the buffer bookkeeping of the option column made observable: characters written / buffer size
struct CheckedFormat : DefaultFormat {
	std::string* log;
	CheckedFormat(std::string* l = 0) : log(l) {}
	using DefaultFormat::format;
	std::size_t format(std::vector<char>& buf, const Option& o, std::size_t maxW) {
		std::size_t n = DefaultFormat::format(buf, o, maxW);
		if (log) { if (!log->empty()) *log += ","; *log += str(n) + "/" + str(buf.size()); }
		return n;
	}
};
std::string run_of(const Args& a) {
	if (a.size() < 2) return "bad-op";
	OptCtx oc;
	std::size_t k = 2;
	try { for (; k < a.size(); ++k) { if (!oc.add(a[k])) return "bad-op"; } }
	catch (const DuplicateOption&) { return "DUP"; }
	oc.ctx.setActiveDescLevel(static_cast<DescriptionLevel>(std::atoi(a[0].c_str())));
	std::string desc;
	std::string blog;
	{ OptionOutputImpl<StringWriter, CheckedFormat> out((StringWriter(desc)), CheckedFormat(&blog)); oc.ctx.description(out); }
	std::string defs = oc.ctx.defaults((std::size_t)std::atoi(a[1].c_str()));
	std::string back;
	try {
		ParsedValues pv = parseCommandString(defs, oc.ctx, false, 0, command_line_allow_flag_value);
		for (ParsedValues::iterator it = pv.begin(); it != pv.end(); ++it) {
			if (!back.empty()) back += ";";
			back += str(oc.indexOf(it->first.get())) + "=" + hex(it->second);
		}
		if (back.empty()) back = "-";
	}
	catch (const UnknownOption& e)   { back = "ERR:unknown:" + hex(e.key()); }
	catch (const AmbiguousOption& e) { back = "ERR:ambiguous:" + hex(e.key()); }
	catch (const SyntaxError& e)     { back = std::string("ERR:") + (e.type() == SyntaxError::missing_value ? "missing" : e.type() == SyntaxError::extra_value ? "extra" : "format") + ":" + hex(e.key()); }
	return "D:" + hex(desc) + "|F:" + hex(defs) + "|P:" + back + "|B:" + blog;
}
hv::Reg r1("of", &run_of);
}
