// `td <op>*` : drives a real Potassco::TheoryData (property C12); after every op a dump of every lookup,
// at the end the visitation orders (visit_all / visit_current) of a fully recursive visitor and a check that
// print() re-emits the stored directives. Heap: LSan/ASan + the model's block count L (compared as a number: the
// harness counts blocks through the lookups: symbol/compound terms, elements, atoms).
#include "recorder.h"
#include <potassco/theory_data.h>
#include <cstdlib>
#include <cstring>
using namespace hv;
using namespace Potassco;
namespace {
std::string ids(const IdSpan& s) { return list(s); }
std::string termStr(const TheoryTerm& t) {
	switch (t.type()) {
		case Theory_t::Number: return "n" + str(t.number());
		case Theory_t::Symbol: return "s" + hex(std::string(t.symbol()));
		default: return "c" + str(t.compound()) + "(" + ids(t.terms()) + ")";
	}
}
std::string dump(const TheoryData& d, Id_t W) {
	std::string T, E, A; unsigned live = 0;
	for (Id_t i = 0; i != W; ++i) {
		if (i) T += ",";
		if (d.hasTerm(i)) { const TheoryTerm& t = d.getTerm(i); T += termStr(t); if (t.type() != Theory_t::Number) ++live; } else T += "-";
		if (d.isNewTerm(i)) T += "*";
	}
	for (Id_t i = 0; i != W; ++i) {
		if (i) E += ",";
		if (d.hasElement(i)) { const TheoryElement& e = d.getElement(i); E += ids(e.terms()) + ":" + str(e.condition()); ++live; } else E += "-";
		if (d.isNewElement(i)) E += "*";
	}
	for (TheoryData::atom_iterator it = d.begin(); it != d.end(); ++it) {
		if (it != d.begin()) A += ",";
		const TheoryAtom& a = **it;
		A += str(a.atom()) + ":" + str(a.term()) + ":" + ids(a.elements());
		if (a.guard()) A += ":" + str(*a.guard()) + ":" + str(*a.rhs());
		++live;
	}
	return "T[" + T + "]E[" + E + "]A[" + A + "]cb" + str(d.currBegin() - d.begin()) + "L" + str(live);
}
struct Vis : TheoryData::Visitor {
	TheoryData::VisitMode m; std::vector<std::string> out;
	virtual void visit(const TheoryData& d, Id_t id, const TheoryTerm& t) { out.push_back("t" + str(id)); d.accept(t, *this, m); }
	virtual void visit(const TheoryData& d, Id_t id, const TheoryElement& e) { out.push_back("e" + str(id)); d.accept(e, *this, m); }
	virtual void visit(const TheoryData& d, const TheoryAtom& a) { out.push_back("a" + str(&a == 0 ? 0 : idx)); ++idx; d.accept(a, *this, m); }
	unsigned idx;
};
std::string visit(const TheoryData& d, TheoryData::VisitMode m) {
	Vis v; v.m = m; v.idx = m == TheoryData::visit_all ? 0 : (unsigned)(d.currBegin() - d.begin());
	try { d.accept(v, m); } catch (const std::exception&) { return "EXC"; }
	return v.out.empty() ? "-" : join(v.out, ",");
}
struct ModFilter { unsigned m; bool operator()(const TheoryAtom& a) const { return a.atom() % m == 0; } };
std::string run_td(const Args& a) {
	TheoryData d;
	std::vector<std::string> out;
	if (a.empty()) return "bad-op";
	Id_t W = (Id_t)std::atoi(a[0].c_str());
	for (std::size_t k = 1; k < a.size(); ++k) {
		std::vector<std::string> t = split(a[k], ':');
		const std::string& o = t[0];
		std::vector<Id_t> v1, v2;
		#define IDS(dst, s) do { std::vector<long long> n_ = nums(s); dst.clear(); for (std::size_t j_ = 0; j_ < n_.size(); ++j_) dst.push_back((Id_t)n_[j_]); } while (0)
		try {
			if      (o == "tn") d.addTerm((Id_t)std::atoll(t[1].c_str()), (int)std::atoll(t[2].c_str()));
			else if (o == "ts") { std::string s = unhex(t[2]); d.addTerm((Id_t)std::atoll(t[1].c_str()), toSpan(s.data(), s.size())); }
			else if (o == "tf") { IDS(v1, t[3]); d.addTerm((Id_t)std::atoll(t[1].c_str()), (Id_t)std::atoll(t[2].c_str()), toSpan(v1)); }
			else if (o == "tt") { IDS(v1, t[3]); d.addTerm((Id_t)std::atoll(t[1].c_str()), static_cast<Tuple_t>((int)std::atoll(t[2].c_str())), toSpan(v1)); }
			else if (o == "rm") d.removeTerm((Id_t)std::atoll(t[1].c_str()));
			else if (o == "el") { IDS(v1, t[2]); d.addElement((Id_t)std::atoll(t[1].c_str()), toSpan(v1), (Id_t)std::atoll(t[3].c_str())); }
			else if (o == "at") { IDS(v1, t[3]); d.addAtom((Id_t)std::atoll(t[1].c_str()), (Id_t)std::atoll(t[2].c_str()), toSpan(v1)); }
			else if (o == "ag") { IDS(v1, t[3]); d.addAtom((Id_t)std::atoll(t[1].c_str()), (Id_t)std::atoll(t[2].c_str()), toSpan(v1), (Id_t)std::atoll(t[4].c_str()), (Id_t)std::atoll(t[5].c_str())); }
			else if (o == "sc") d.setCondition((Id_t)std::atoll(t[1].c_str()), (Id_t)std::atoll(t[2].c_str()));
			else if (o == "fl") { ModFilter f = {(unsigned)std::atoi(t[1].c_str())}; d.filter(f); }
			else if (o == "up") d.update();
			else if (o == "rs") d.reset();
			else return "bad-op";
		}
		catch (const std::exception&) { out.push_back("X"); continue; }
		out.push_back(dump(d, W));
	}
	// print(): re-emitting the stored terms/atoms through the program interface reproduces them
	Recorder rec;
	bool printOk = true; std::string printed;
	for (Id_t i = 0; i != W; ++i) {
		if (!d.hasTerm(i)) continue;
		rec.log.clear(); print(rec, i, d.getTerm(i));
		const TheoryTerm& t = d.getTerm(i);
		std::string want = t.type() == Theory_t::Number ? "TN," + str(i) + "," + str(t.number()) : t.type() == Theory_t::Symbol ? "TS," + str(i) + "," + hex(std::string(t.symbol())) : "TC," + str(i) + "," + str(t.compound()) + "," + ids(t.terms());
		printOk = printOk && rec.log.size() == 1 && rec.log[0] == want;
		for (std::size_t j = 0; j < rec.log.size(); ++j) { if (!printed.empty()) printed += ";"; printed += rec.log[j]; }
	}
	for (TheoryData::atom_iterator it = d.begin(); it != d.end(); ++it) {
		rec.log.clear(); print(rec, **it);
		const TheoryAtom& x = **it;
		std::string want = (x.guard() ? "TG," : "TA,") + str(x.atom()) + "," + str(x.term()) + "," + ids(x.elements()) + (x.guard() ? "," + str(*x.guard()) + "," + str(*x.rhs()) : std::string());
		printOk = printOk && rec.log.size() == 1 && rec.log[0] == want;
		for (std::size_t j = 0; j < rec.log.size(); ++j) { if (!printed.empty()) printed += ";"; printed += rec.log[j]; }
	}
	// the calls print() made (terms by id, then atoms in storage order) are compared with Model/TheoryPrint.lean
	out.push_back("V[" + visit(d, TheoryData::visit_all) + "]C[" + visit(d, TheoryData::visit_current) + "]P[" + printed + "]" + (printOk ? "" : "PRINT-MISMATCH"));
	return join(out);
}
hv::Reg r1("td", &run_td);
}
