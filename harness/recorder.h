// Call-log encoding shared by all reader/writer components (mirrors lean/PotasscoVerif/Drv/Calls.lean):
//   I<0|1>  B  E  R,ht,atoms,lits  S,ht,atoms,bound,wlits  M,prio,wlits  P,atoms  O,hexname,lits  X,atom,v
//   A,lits  H,atom,type,bias,prio,lits  G,s,t,lits  TN,id,n  TS,id,hex  TC,id,cid,ids  TE,id,ids,lits
//   TA,atom,term,ids  TG,atom,term,ids,op,rhs        lists: '/'-separated, '-' when empty; wlits: l:w
#pragma once
#include "util.h"
#include <potassco/basic_types.h>
#include <cstdlib>
namespace hv {
template <class T> inline std::string list(const Potassco::Span<T>& s) {
	if (Potassco::size(s) == 0) return "-";
	std::string r;
	for (const T* x = Potassco::begin(s); x != Potassco::end(s); ++x) { if (!r.empty()) r += "/"; r += str(*x); }
	return r;
}
inline std::string wlist(const Potassco::WeightLitSpan& s) {
	if (Potassco::size(s) == 0) return "-";
	std::string r;
	for (const Potassco::WeightLit_t* x = Potassco::begin(s); x != Potassco::end(s); ++x) { if (!r.empty()) r += "/"; r += str(x->lit) + ":" + str(x->weight); }
	return r;
}
// records every call as one word
struct Recorder : Potassco::AbstractProgram {
	std::vector<std::string> log;
	virtual void initProgram(bool inc) { log.push_back(inc ? "I1" : "I0"); }
	virtual void beginStep() { log.push_back("B"); }
	virtual void endStep() { log.push_back("E"); }
	virtual void rule(Potassco::Head_t ht, const Potassco::AtomSpan& h, const Potassco::LitSpan& b) { log.push_back("R," + str((unsigned)ht) + "," + list(h) + "," + list(b)); }
	virtual void rule(Potassco::Head_t ht, const Potassco::AtomSpan& h, Potassco::Weight_t bnd, const Potassco::WeightLitSpan& b) { log.push_back("S," + str((unsigned)ht) + "," + list(h) + "," + str(bnd) + "," + wlist(b)); }
	virtual void minimize(Potassco::Weight_t p, const Potassco::WeightLitSpan& l) { log.push_back("M," + str(p) + "," + wlist(l)); }
	virtual void project(const Potassco::AtomSpan& a) { log.push_back("P," + list(a)); }
	virtual void output(const Potassco::StringSpan& s, const Potassco::LitSpan& c) { log.push_back("O," + hex(Potassco::begin(s), Potassco::size(s)) + "," + list(c)); }
	virtual void external(Potassco::Atom_t a, Potassco::Value_t v) { log.push_back("X," + str(a) + "," + str((unsigned)v)); }
	virtual void assume(const Potassco::LitSpan& l) { log.push_back("A," + list(l)); }
	virtual void heuristic(Potassco::Atom_t a, Potassco::Heuristic_t t, int bias, unsigned prio, const Potassco::LitSpan& c) { log.push_back("H," + str(a) + "," + str((unsigned)t) + "," + str(bias) + "," + str(prio) + "," + list(c)); }
	virtual void acycEdge(int s, int t, const Potassco::LitSpan& c) { log.push_back("G," + str(s) + "," + str(t) + "," + list(c)); }
	virtual void theoryTerm(Potassco::Id_t id, int n) { log.push_back("TN," + str(id) + "," + str(n)); }
	virtual void theoryTerm(Potassco::Id_t id, const Potassco::StringSpan& s) { log.push_back("TS," + str(id) + "," + hex(Potassco::begin(s), Potassco::size(s))); }
	virtual void theoryTerm(Potassco::Id_t id, int c, const Potassco::IdSpan& a) { log.push_back("TC," + str(id) + "," + str(c) + "," + list(a)); }
	virtual void theoryElement(Potassco::Id_t id, const Potassco::IdSpan& t, const Potassco::LitSpan& c) { log.push_back("TE," + str(id) + "," + list(t) + "," + list(c)); }
	virtual void theoryAtom(Potassco::Id_t a, Potassco::Id_t t, const Potassco::IdSpan& e) { log.push_back("TA," + str(a) + "," + str(t) + "," + list(e)); }
	virtual void theoryAtom(Potassco::Id_t a, Potassco::Id_t t, const Potassco::IdSpan& e, Potassco::Id_t op, Potassco::Id_t rhs) { log.push_back("TG," + str(a) + "," + str(t) + "," + list(e) + "," + str(op) + "," + str(rhs)); }
};
// parses call words and plays them on a program
inline std::vector<long long> nums(const std::string& s) {
	std::vector<long long> r;
	if (s == "-") return r;
	std::vector<std::string> p = split(s, '/');
	for (std::size_t i = 0; i < p.size(); ++i) r.push_back(std::atoll(p[i].c_str()));
	return r;
}
inline void play(const std::string& word, Potassco::AbstractProgram& out) {
	using namespace Potassco;
	std::vector<std::string> f = split(word, ',');
	const std::string& k = f[0];
	std::vector<Atom_t> as; std::vector<Lit_t> ls; std::vector<WeightLit_t> ws; std::vector<Id_t> is;
	#define ATOMS(i) do { std::vector<long long> t_ = nums(f[i]); as.clear(); for (std::size_t j_ = 0; j_ < t_.size(); ++j_) as.push_back((Atom_t)t_[j_]); } while(0)
	#define IDS(i)   do { std::vector<long long> t_ = nums(f[i]); is.clear(); for (std::size_t j_ = 0; j_ < t_.size(); ++j_) is.push_back((Id_t)t_[j_]); } while(0)
	#define LITS(i)  do { std::vector<long long> t_ = nums(f[i]); ls.clear(); for (std::size_t j_ = 0; j_ < t_.size(); ++j_) ls.push_back((Lit_t)t_[j_]); } while(0)
	#define WLITS(i) do { ws.clear(); if (f[i] != "-") { std::vector<std::string> p_ = split(f[i], '/'); for (std::size_t j_ = 0; j_ < p_.size(); ++j_) { std::vector<std::string> q_ = split(p_[j_], ':'); WeightLit_t w_ = {(Lit_t)std::atoll(q_[0].c_str()), (Weight_t)std::atoll(q_[1].c_str())}; ws.push_back(w_); } } } while(0)
	if      (k == "I0" || k == "I1") out.initProgram(k == "I1");
	else if (k == "B") out.beginStep();
	else if (k == "E") out.endStep();
	else if (k == "R") { ATOMS(2); LITS(3); out.rule(static_cast<Head_t>((unsigned)std::atoi(f[1].c_str())), toSpan(as), toSpan(ls)); }
	else if (k == "S") { ATOMS(2); WLITS(4); out.rule(static_cast<Head_t>((unsigned)std::atoi(f[1].c_str())), toSpan(as), (Weight_t)std::atoll(f[3].c_str()), toSpan(ws)); }
	else if (k == "M") { WLITS(2); out.minimize((Weight_t)std::atoll(f[1].c_str()), toSpan(ws)); }
	else if (k == "P") { ATOMS(1); out.project(toSpan(as)); }
	else if (k == "O") { std::string s = unhex(f[1]); LITS(2); out.output(toSpan(s.data(), s.size()), toSpan(ls)); }
	else if (k == "X") { out.external((Atom_t)std::atoll(f[1].c_str()), static_cast<Value_t>((unsigned)std::atoi(f[2].c_str()))); }
	else if (k == "A") { LITS(1); out.assume(toSpan(ls)); }
	else if (k == "H") { LITS(5); out.heuristic((Atom_t)std::atoll(f[1].c_str()), static_cast<Heuristic_t>((unsigned)std::atoi(f[2].c_str())), (int)std::atoll(f[3].c_str()), (unsigned)std::atoll(f[4].c_str()), toSpan(ls)); }
	else if (k == "G") { LITS(3); out.acycEdge((int)std::atoll(f[1].c_str()), (int)std::atoll(f[2].c_str()), toSpan(ls)); }
	else if (k == "TN") { out.theoryTerm((Id_t)std::atoll(f[1].c_str()), (int)std::atoll(f[2].c_str())); }
	else if (k == "TS") { std::string s = unhex(f[2]); out.theoryTerm((Id_t)std::atoll(f[1].c_str()), toSpan(s.data(), s.size())); }
	else if (k == "TC") { IDS(3); out.theoryTerm((Id_t)std::atoll(f[1].c_str()), (int)std::atoll(f[2].c_str()), toSpan(is)); }
	else if (k == "TE") { IDS(2); LITS(3); out.theoryElement((Id_t)std::atoll(f[1].c_str()), toSpan(is), toSpan(ls)); }
	else if (k == "TA") { IDS(3); out.theoryAtom((Id_t)std::atoll(f[1].c_str()), (Id_t)std::atoll(f[2].c_str()), toSpan(is)); }
	else if (k == "TG") { IDS(3); out.theoryAtom((Id_t)std::atoll(f[1].c_str()), (Id_t)std::atoll(f[2].c_str()), toSpan(is), (Id_t)std::atoll(f[4].c_str()), (Id_t)std::atoll(f[5].c_str())); }
	else throw std::runtime_error("bad call word " + word);
	#undef ATOMS
	#undef IDS
	#undef LITS
	#undef WLITS
}
}
