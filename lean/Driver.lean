/-
  Line-protocol driver: one case per input line, one result line per case.
  `<component> <args…>`; the C++ harness (harness/) answers the same lines by calling the real code.
-/
import PotasscoVerif.Drv.BufferedStream
import PotasscoVerif.Drv.RuleBuilder
import PotasscoVerif.Drv.Aspif
import PotasscoVerif.Drv.Smodels
import PotasscoVerif.Drv.Signals
import PotasscoVerif.Drv.StringBuilder
import PotasscoVerif.Drv.StringConvert
import PotasscoVerif.Drv.OptIndex
import PotasscoVerif.Drv.TheoryData
import PotasscoVerif.Drv.ValueStore
import PotasscoVerif.Drv.Options
import PotasscoVerif.Drv.OptAssign
import PotasscoVerif.Drv.OptFormat
import PotasscoVerif.Drv.Text
import PotasscoVerif.Drv.Convert
import PotasscoVerif.Drv.Asp
open PotasscoVerif.Drv

def dispatch (line : String) : String :=
  match words line with
  | "bs" :: args => runBS args
  | "as" :: args => runAS args
  | "rb" :: args => runRB args
  | "rs" :: args => runRS args
  | "aw" :: args => runAW args
  | "ar" :: args => runAR args
  | "sw" :: args => runSW args
  | "sr" :: args => runSR args
  | "sri" :: args => runSRI args
  | "sg" :: args => runSG args
  | "sb" :: args => runSB args
  | "sc" :: args => runSC args
  | "oi" :: args => runOI args
  | "td" :: args => runTD args
  | "vs" :: args => runVS args
  | "rc" :: args => runRC args
  | "op" :: args => runOP args
  | "oa" :: args => runOA args
  | "of" :: args => runOF args
  | "tr" :: args => runTR args
  | "tw" :: args => runTW args
  | "cv" :: args => runCV args
  | "so" :: args => runSO args
  | "asp" :: args => runASP args
  | _ => "bad-component"

partial def loop (h : IO.FS.Stream) (out : IO.FS.Stream) : IO Unit := do
  let line ← h.getLine
  if line.isEmpty then return ()
  out.putStrLn (dispatch line.trimAscii.toString)
  loop h out

def main : IO Unit := do
  let out ← IO.getStdout
  loop (← IO.getStdin) out
