import PotasscoVerif.Props.C09
