import PotasscoVerif.Props.C09
import PotasscoVerif.Props.C09l
