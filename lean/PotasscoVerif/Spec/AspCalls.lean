/-
  The rules of a program given as calls on the program interface (Model/Program.lean), read as rules of the reference
  semantics (Spec/Asp.lean).
-/
import PotasscoVerif.Spec.Asp
import PotasscoVerif.Model.Program
namespace PotasscoVerif.C02
open PotasscoVerif PotasscoVerif.Asp

def inRule : Call → Option Rule
  | .rule ht h b => some ⟨ht != 0, h, .normal b⟩
  | .sumRule ht h bnd b => some ⟨ht != 0, h, .sum bnd b⟩
  | _ => none

def rulesOf (cs : List Call) : List Rule := cs.filterMap inRule

end PotasscoVerif.C02
