/-
  The rules of a program given as calls on the program interface (Model/Program.lean), read as rules of the reference
  semantics (Spec/Asp.lean).
-/
import PotasscoVerif.Spec.Asp
import PotasscoVerif.Model.Program
namespace PotasscoVerif.C02
open PotasscoVerif PotasscoVerif.Asp

def inRule : Call → Option Rule
  | .rule ht h b => some ⟨ht != 0, h, .normal b⟩
  | .sumRule ht h bnd b => some ⟨ht != 0, h, .sum bnd b⟩
  | _ => none

def rulesOf (cs : List Call) : List Rule := cs.filterMap inRule


/-! ### external directives (read without the clasp extension: compiled into the program)
  An external directive on an atom that some rule of the step defines has no effect.  For the others the LAST directive on
  the atom counts: value `true` (1) is a fact, `free` (0) a choice, `false`/`release` nothing. -/
def headsOf (cs : List Call) : List Nat := (rulesOf cs).flatMap (·.head)

def extOf : Call → Option (Nat × Nat)
  | .external a v => some (a, v)
  | _ => none
def extCalls (cs : List Call) : List (Nat × Nat) := cs.filterMap extOf

/-- value of the last external directive on `a` (0 if there is none) -/
def lastExt (es : List (Nat × Nat)) (a : Nat) : Nat := ((es.reverse.find? (fun p => p.1 == a)).map (·.2)).getD 0

def extRules (cs : List Call) : List Rule :=
  let eff := ((extCalls cs).map (·.1)).filter (fun a => !(headsOf cs).contains a)
  let facts := eff.filter (fun a => lastExt (extCalls cs) a == 1)
  let free := eff.filter (fun a => lastExt (extCalls cs) a == 0)
  facts.map (fun a => ⟨false, [a], .normal []⟩) ++ (if free.isEmpty then [] else [⟨true, free, .normal []⟩])

/-- the program a step denotes when externals are compiled away -/
def progOf (cs : List Call) : List Rule := rulesOf cs ++ extRules cs

end PotasscoVerif.C02
