/-
  The abstract character stream: what a client of `BufferedStream` is *meant* to observe (property C09).
  No buffer, no refill, no sentinel: just the characters that are left and a line counter.
-/
import PotasscoVerif.Model.BufferedStream
namespace PotasscoVerif.CharStream
open PotasscoVerif.BufferedStream (Op Obs IntRes isWs isDigit toDigit I64MAX decLine)

structure AS where
  rest     : List Nat
  line     : Nat
  canUnget : Bool := false     -- ghost: the last operation extracted ≥ 1 character (one-character put-back)
deriving Repr, DecidableEq

def AS.init (input : List Nat) : AS := { rest := input, line := 1 }

def AS.peek (a : AS) : Nat := a.rest.headD 0

/-- `get`: one character, CR and CRLF folded into LF, line counted. A 0 byte (or the end) yields 0 and
    extracts nothing. -/
def AS.get (a : AS) : Nat × AS :=
  match a.rest with
  | [] => (0, { a with canUnget := false })
  | c :: r =>
    if c == 0 then (0, { a with canUnget := false })
    else if c == 13 then
      match r with
      | 10 :: r' => (10, { rest := r', line := a.line + 1, canUnget := true })
      | _ => (10, { rest := r, line := a.line + 1, canUnget := true })
    else if c == 10 then (10, { rest := r, line := a.line + 1, canUnget := true })
    else (c, { rest := r, line := a.line, canUnget := true })

/-- `skipWs`: `get` while the next byte is in `[9, 33)`. -/
def AS.skipWsF : Nat → AS → AS
  | 0, a => a
  | f + 1, a => if isWs a.peek then AS.skipWsF f a.get.2 else a

def AS.skipWs (a : AS) : AS := AS.skipWsF (a.rest.length + 1) { a with canUnget := false }

def AS.unget (a : AS) (c : Nat) : AS :=
  { rest := c :: a.rest, line := if c == 10 then decLine a.line else a.line, canUnget := false }

/-- token match: drops `w` iff the stream starts with `w`; otherwise nothing changes. -/
def AS.matchTok (a : AS) (w : List Nat) : Bool × AS :=
  if w.isPrefixOf a.rest then (true, { a with rest := a.rest.drop w.length, canUnget := true })
  else (false, { a with canUnget := false })

/-- maximal run of decimal digits, and the number it denotes (unbounded). -/
def digitRun : List Nat → List Nat × List Nat
  | [] => ([], [])
  | c :: r => if isDigit c then let (ds, k) := digitRun r; (c :: ds, k) else ([], c :: r)

/-- value of a digit string, most significant first, continuing from `acc`. -/
def val : List Nat → Nat → Nat
  | [], acc => acc
  | c :: r, acc => val r (acc * 10 + toDigit c)

/-- integer match: optional blanks, optional sign, at least one digit; the result is the denoted number,
    capped at the largest 64-bit integer (every caller checks a much smaller range). A sign without
    digit is extracted and the match fails (as in the code). -/
def AS.matchIntDigits (a1 : AS) (sg : Nat) : IntRes × AS :=
  if !isDigit a1.peek then (.fail, a1) else
  let v := min (val (digitRun a1.rest).1 0) I64MAX
  (.val (if sg == 45 then - (v : Int) else (v : Int)), { a1 with rest := (digitRun a1.rest).2, canUnget := true })

def AS.matchIntCore (a0 : AS) : IntRes × AS :=
  AS.matchIntDigits (if a0.peek == 43 || a0.peek == 45 then { a0 with rest := a0.rest.tail, canUnget := true } else a0)
    a0.peek

def AS.matchInt (a : AS) (noSkipWs : Bool) : IntRes × AS :=
  AS.matchIntCore (if noSkipWs then { a with canUnget := false } else a.skipWs)

/-- raw copy: exactly the requested bytes or all that remain (up to a 0 byte); no folding, no line counting. -/
def AS.copy (a : AS) (n : Nat) : List Nat × AS :=
  let avail := a.rest.takeWhile (· != 0)
  let out := avail.take n
  (out, { a with rest := a.rest.drop out.length, canUnget := decide (0 < out.length) })

def AS.step (a : AS) : Op → Obs × AS
  | .peek => (.char a.peek, a)
  | .get => let (c, a') := a.get; (.char c, a')
  | .unget c => (.bool true, a.unget c)
  | .skipWs => (.unit, a.skipWs)
  | .matchTok w => let (b, a') := a.matchTok w; (.bool b, a')
  | .matchInt n => let (r, a') := a.matchInt n; (.int r, a')
  | .copy n => let (bs, a') := a.copy n; (.bytes bs, a')
  | .atEnd => (.bool (a.peek == 0), a)
  | .line => (.nat (a.line % 4294967296), a)

/-- what the property quantifies over: admissible operations in an abstract state. -/
def Adm (B : Nat) (a : AS) : Op → Prop
  | .unget c => a.canUnget = true ∧ c ≠ 0
  | .matchTok w => w ≠ [] ∧ w.length ≤ B ∧ ∀ c ∈ w, c ≠ 0 ∧ c ≠ 10 ∧ c ≠ 13
  | _ => True

def AS.run : AS → List Op → List Obs
  | _, [] => []
  | a, op :: ops => let (o, a') := a.step op; o :: AS.run a' ops

/-- all operations of a list are admissible along the abstract run. -/
def AdmAll (B : Nat) : AS → List Op → Prop
  | _, [] => True
  | a, op :: ops => Adm B a op ∧ AdmAll B (a.step op).2 ops

end PotasscoVerif.CharStream
