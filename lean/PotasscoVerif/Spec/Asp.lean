/-
  Reference semantics of ground logic programs (the semantics C02 and C08 talk about and the test-suite has no
  notion of): stable models of programs with disjunctive and choice heads, normal and weight bodies.

  An interpretation is the characteristic function of a set of atoms.  The reduct is folded into a satisfaction
  relation over TWO interpretations: positive body literals and heads are read in the candidate `Y`, negative literals
  (and the "was chosen" test of a choice head) in the guess `X`.  `X` is stable when it satisfies its own reduct and no
  proper subset does.  For bodies whose weights are non-negative (the interface contract, C04) this is the usual
  definition (Simons/Niemelä/Soininen for weight constraints, Gelfond/Lifschitz for normal rules, choice `{a} :- B`
  read as `a :- B, not not a`).
-/
namespace PotasscoVerif.Asp

abbrev I := Nat → Bool

inductive Body where
  | normal (lits : List Int)
  | sum (bound : Int) (wl : List (Int × Int))
deriving DecidableEq, Repr

structure Rule where
  choice : Bool
  head   : List Nat
  body   : Body
deriving DecidableEq, Repr

/-- a literal in the reduct: positive in the candidate, negative in the guess -/
def litR (X Y : I) (l : Int) : Bool := if 0 < l then Y l.natAbs else !X l.natAbs

def wsum (X Y : I) (wl : List (Int × Int)) : Int := (wl.map (fun p => if litR X Y p.1 then p.2 else 0)).sum

def bodyR (X Y : I) : Body → Bool
  | .normal ls => ls.all (litR X Y)
  | .sum b wl => decide (b ≤ wsum X Y wl)

def headR (X Y : I) (r : Rule) : Bool :=
  if r.choice then r.head.all (fun a => !X a || Y a) else r.head.any Y

def satR (X Y : I) (r : Rule) : Bool := !bodyR X Y r.body || headR X Y r

def ModelR (P : List Rule) (X Y : I) : Prop := ∀ r ∈ P, satR X Y r = true

def Sub (Y X : I) : Prop := ∀ a, Y a = true → X a = true

/-- `X` is a stable model (answer set) of `P` -/
def Stable (P : List Rule) (X : I) : Prop := ModelR P X X ∧ ∀ Y, Sub Y X → ModelR P X Y → Sub X Y

def Body.atoms : Body → List Nat
  | .normal ls => ls.map Int.natAbs
  | .sum _ wl => wl.map (fun p => p.1.natAbs)

def Body.lits : Body → List Int
  | .normal ls => ls
  | .sum _ wl => wl.map (·.1)

/-- the interface contract on bodies: literals are not 0, weights are not negative -/
def Body.Ok : Body → Prop
  | .normal ls => ∀ l ∈ ls, l ≠ 0
  | .sum _ wl => ∀ p ∈ wl, p.1 ≠ 0 ∧ 0 ≤ p.2

/-- value of a minimize statement under `X` -/
def cost (X : I) (ws : List (Int × Int)) : Int := wsum X X ws

/-! ### brute force: the executable enumerator used as the run-time oracle of C02/C08 -/
def ofList (l : List Nat) : I := fun a => l.contains a

def sublists : List Nat → List (List Nat)
  | [] => [[]]
  | a :: r => (sublists r) ++ (sublists r).map (a :: ·)

def modelRb (P : List Rule) (X Y : I) : Bool := P.all (satR X Y)

/-- `xs` (a sub-list of `atoms`) is stable: model of its reduct, and no proper sub-list is -/
def stableB (P : List Rule) (xs : List Nat) : Bool :=
  modelRb P (ofList xs) (ofList xs) &&
  (sublists xs).all (fun ys => !(modelRb P (ofList xs) (ofList ys)) || xs.all (fun a => ys.contains a))

def stableModels (P : List Rule) (atoms : List Nat) : List (List Nat) := (sublists atoms).filter (stableB P)

end PotasscoVerif.Asp
