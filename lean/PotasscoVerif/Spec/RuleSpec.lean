/-
  Abstract specification of the rule builder (property C11): a rule under construction is just a head
  (kind + atoms), a body (kind + bound + weighted literals) and a frozen flag.  `none` = the operation is
  outside the documented protocol (head and body definitions contiguous, no update after `end()`).
-/
import PotasscoVerif.Model.RuleBuilder
namespace PotasscoVerif.RuleSpec
open PotasscoVerif.RuleBuilder (View wrap32)

inductive Part where | none | head | body
deriving Repr, DecidableEq

structure AR where
  frozen   : Bool := false
  hStarted : Bool := false
  ht       : Nat := 0
  head     : List Int := []
  bStarted : Bool := false
  bt       : Nat := 0
  bound    : Int := -1
  body     : List (Int × Int) := []
  last     : Part := .none          -- the part whose definition was started last
deriving Repr, DecidableEq

def AR.init : AR := {}

def AR.unfreeze (a : AR) (discard : Bool) : AR :=
  if a.frozen then (if discard then AR.init else { a with frozen := false }) else a

def AR.start (a : AR) (ht : Nat) : Option AR :=
  let a := a.unfreeze true
  if ht ≥ 2 then none else           -- `Head_t` is Disjunctive = 0 or Choice = 1
  if a.hStarted && !a.head.isEmpty then none else
  some { a with hStarted := true, ht := ht, head := [], last := .head }

def AR.addHead (a : AR) (x : Int) : Option AR :=
  if a.frozen then none else
  if !a.hStarted then some { a with hStarted := true, ht := 0, head := [x], last := .head }
  else if a.last != .head then none
  else some { a with head := a.head ++ [x] }

/-- (a minimize statement has no head and keeps its priority in the body: clearing parts of it is not
    part of the protocol) -/
def AR.clearHead (a : AR) : Option AR :=
  let a := a.unfreeze false
  if a.ht == 2 then none else
  some { a with hStarted := false, ht := 0, head := [],
                last := if a.last == .head then (if a.bStarted then .body else .none) else a.last }

def AR.startBodyT (a : AR) (bt : Nat) (bnd : Int) : Option AR :=
  let a := a.unfreeze true
  if !a.bStarted then some { a with bStarted := true, bt := bt, bound := if bt == 0 then -1 else bnd, body := [], last := .body }
  else if a.body.isEmpty then some a else none

def AR.startBody (a : AR) : Option AR := a.startBodyT 0 (-1)
def AR.startSum (a : AR) (b : Int) : Option AR := a.startBodyT 1 b

def AR.startMinimize (a : AR) (prio : Int) : Option AR :=
  let a := a.unfreeze true
  if a.hStarted || a.bStarted then none else
  some { a with hStarted := true, ht := 2, head := [], bStarted := true, bt := 1, bound := prio, body := [], last := .body }

def AR.addGoal (a : AR) (lit w : Int) : Option AR :=
  if a.frozen then none else
  if !a.bStarted then
    some { a with bStarted := true, bt := 0, bound := -1, body := if w == 0 then [] else [(lit, 1)], last := .body }
  else if a.last != .body then none
  else if w == 0 then some a
  else some { a with body := a.body ++ [(lit, if a.bt == 0 then 1 else w)] }

def AR.setBound (a : AR) (b : Int) : Option AR :=
  if a.frozen || a.bt == 0 then none else some { a with bound := b }

def AR.clearBody (a : AR) : Option AR :=
  let a := a.unfreeze false
  if a.ht == 2 then none else
  some { a with bStarted := false, bt := 0, bound := -1, body := [],
                last := if a.last == .body then (if a.hStarted then .head else .none) else a.last }

def minWeight (l : List (Int × Int)) : Int :=
  l.foldl (fun m p => if m > p.2 then p.2 else m) (l.headD (0, 0)).2

def AR.weaken (a : AR) (to : Nat) (w : Bool) : Option AR :=
  if a.ht == 2 then none else        -- weakening applies to rule bodies, not to minimize statements
  if a.bt == 0 || a.bt == to then some a else
  if to == 0 then some { a with bt := 0, bound := -1, body := a.body.map (fun p => (p.1, 1)) }
  else if to == 2 && w && !a.body.isEmpty then
    if a.frozen then none else
    let mn := minWeight a.body
    if mn == 0 then none else
    some { a with bt := 2, bound := wrap32 (Int.tdiv (a.bound + (mn - 1)) mn), body := a.body.map (fun p => (p.1, 1)) }
  else some { a with bt := to }

def AR.end_ (a : AR) : AR := { a with frozen := true }

def AR.view (a : AR) : View :=
  { ht := a.ht, head := a.head, bt := a.bt, bound := if a.bt == 0 then -1 else a.bound, body := a.body }

end PotasscoVerif.RuleSpec
