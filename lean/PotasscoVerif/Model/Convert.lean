/-
  Model of `Potassco::SmodelsConvert` with its `SmData` (src/convert.cpp): atom mapping, head mapping with the
  false atom, weight rules through an auxiliary atom, minimize statements per priority, externals, heuristic and
  edge directives as named atoms, the symbol table, `flush` at `endStep`.
  The calls made on the wrapped program are collected in `out`; an exception is `fail`.

  Not modelled: the bit-field widths (`smId : 28`, `Symbol::atom : 31`) — reaching them needs 2^28 mapped atoms; the dense
  `atoms_` vector (allocation sized by the largest input atom).
-/
import PotasscoVerif.Model.Program
import PotasscoVerif.Model.AspifOut
namespace PotasscoVerif.Convert
open PotasscoVerif
open PotasscoVerif.AspifOut (printInt printNat)

structure CAtom where
  smId : Nat
  head : Bool := false
  shown : Bool := false
  extn : Nat := 0
deriving Repr, DecidableEq

structure Heu where
  atom : Nat
  type : Nat
  bias : Int
  prio : Nat
  cond : Nat
deriving Repr, DecidableEq

structure CS where
  ext      : Bool
  atoms    : List (Nat × CAtom) := []            -- atoms_ (input atom ↦ entry), in order of mapping
  next     : Nat := 2
  minimize : List (Int × List (Int × Int)) := [] -- minimize_: priority ↦ literals, ascending priorities
  externs   : List Nat := []
  heur     : List Heu := []
  symTab   : List (Nat × List Nat) := []         -- first insertion wins
  output   : List (Nat × List Nat) := []         -- output_: (smodels atom, name)
  out      : List Call := []
  fail     : Bool := false
  aux      : List Nat := []                      -- ghost: the auxiliary atoms created so far (newAtom)
deriving Repr, DecidableEq

def s (x : String) : List Nat := x.toList.map Char.toNat

def CS.find (c : CS) (a : Nat) : Option CAtom := (c.atoms.find? (fun p => p.1 == a)).map (·.2)
def CS.mapped (c : CS) (a : Nat) : Bool := (c.find a).isSome

/-- update of the flags of an entry through the reference `mapAtom` returned -/
def CS.updAtom (c : CS) (a : Nat) (f : CAtom → CAtom) : CS :=
  { c with atoms := c.atoms.map (fun p => if p.1 == a then (p.1, f p.2) else p) }

/-- `mapAtom(a)` -/
def CS.mapAtom (c : CS) (a : Nat) : CS × CAtom :=
  match c.find a with
  | some x => (c, x)
  | none => ({ c with atoms := c.atoms ++ [(a, { smId := c.next })], next := c.next + 1 }, { smId := c.next })

def CS.mapLit (c : CS) (l : Int) : CS × Int :=
  let r := c.mapAtom l.natAbs
  (r.1, if l < 0 then -(r.2.smId : Int) else (r.2.smId : Int))

def CS.mapLits (c : CS) : List Int → List Int → CS × List Int
  | [], acc => (c, acc)
  | l :: r, acc => let m := c.mapLit l; m.1.mapLits r (acc ++ [m.2])

def CS.mapWLits (c : CS) : List (Int × Int) → List (Int × Int) → CS × List (Int × Int)
  | [], acc => (c, acc)
  | p :: r, acc => let m := c.mapLit p.1; m.1.mapWLits r (acc ++ [(m.2, p.2)])

/-- `mapHead(h)`: every head atom is mapped and marked; an empty head becomes the false atom -/
def CS.mapHeadAtoms (c : CS) : List Nat → List Nat → CS × List Nat
  | [], acc => (c, acc)
  | a :: r, acc =>
    let m := c.mapAtom a
    (m.1.updAtom a (fun x => { x with head := true })).mapHeadAtoms r (acc ++ [m.2.smId])

def CS.mapHead (c : CS) (h : List Nat) : CS × List Nat :=
  let r := c.mapHeadAtoms h []
  (r.1, if r.2.isEmpty then [1] else r.2)

def CS.emit (c : CS) (x : Call) : CS := { c with out := c.out ++ [x] }

/-- `aux :- cond.` with a new atom `aux` -/
def CS.auxAtom (c1 : CS) (cond : List Int) : CS × Nat :=
  let aux := c1.next
  let b := ({ c1 with next := c1.next + 1, aux := c1.aux ++ [aux] } : CS).mapLits cond []
  (b.1.emit (.rule 0 [aux] b.2), aux)

/-- `makeAtom(cond, named)`: the atom of a single positive literal (unless it already carries a name and another one is
    wanted), otherwise an auxiliary atom defined by the condition -/
def CS.makeAtom (c : CS) (cond : List Int) (named : Bool) : CS × Nat :=
  if cond.length == 1 && 0 ≤ cond.headD 0 then
    let m := c.mapAtom (cond.headD 0).natAbs
    if m.2.shown && named then m.1.auxAtom cond
    else (m.1.updAtom (cond.headD 0).natAbs (fun x => { x with shown := named }), m.2.smId)
  else c.auxAtom cond

def CS.addOutput (c : CS) (atom : Nat) (name : List Nat) (addHash : Bool) : CS :=
  let st := if addHash && !(c.symTab.any (fun p => p.1 == atom)) then c.symTab ++ [(atom, name)] else c.symTab
  { c with symTab := st, output := c.output ++ [(atom, name)] }

def CS.getName (c : CS) (a : Nat) : Option (List Nat) := (c.symTab.find? (fun p => p.1 == a)).map (·.2)

/-- `addMinimize(prio, lits)`: negative weights are moved to the complementary literal; `INT_MIN` is refused (repaired) -/
def flipNeg (p : Int × Int) : Int × Int := if p.2 < 0 then (-p.1, -p.2) else p

def insertMin (m : List (Int × List (Int × Int))) (prio : Int) (ls : List (Int × Int)) : List (Int × List (Int × Int)) :=
  match m with
  | [] => [(prio, ls)]
  | (p, l) :: r => if p == prio then (p, l ++ ls) :: r else if prio < p then (prio, ls) :: (p, l) :: r else (p, l) :: insertMin r prio ls

def isSmodelsRule (head : List Nat) (ht : Nat) (bound : Int) : Bool := head.length == 1 && ht == 0 && 0 ≤ bound

def heuName (x : Nat) : List Nat :=
  if x == 0 then s "level" else if x == 1 then s "sign" else if x == 2 then s "factor" else if x == 3 then s "init"
  else if x == 4 then s "true" else if x == 5 then s "false" else []

/-- stable insertion by atom (the code uses `std::sort` on the atom field) -/
def insertSym (x : Nat × List Nat) : List (Nat × List Nat) → List (Nat × List Nat)
  | [] => [x]
  | y :: r => if x.1 < y.1 then x :: y :: r else y :: insertSym x r
def sortSyms (l : List (Nat × List Nat)) : List (Nat × List Nat) := l.foldl (fun acc x => insertSym x acc) []

def CS.flushMinimize (c : CS) : CS :=
  c.minimize.foldl (fun c pl => let m := c.mapWLits pl.2 []; m.1.emit (.minimize pl.1 m.2)) c

def CS.flushExternal (c : CS) : CS :=
  let r := c.externs.foldl (fun (st : CS × List Nat) a =>
    let m := st.1.mapAtom a
    if !st.1.ext then
      if m.2.head then (m.1, st.2)
      else if m.2.extn == 0 then (m.1, st.2 ++ [m.2.smId])
      else if m.2.extn == 1 then (m.1.emit (.rule 0 [m.2.smId] []), st.2)
      else (m.1, st.2)
    else (m.1.emit (.external m.2.smId m.2.extn), st.2)) (c, [])
  if r.2.isEmpty then r.1 else r.1.emit (.rule 1 r.2 [])

def CS.flushHeuristic (c : CS) : CS :=
  c.heur.foldl (fun c h =>
    match c.find h.atom with
    | none => c
    | some ma =>
      let nm := if ma.shown then c.getName ma.smId else none
      let r : CS × List Nat := match nm with
        | some n => (c, n)
        | none =>
          let n := s "_atom(" ++ printNat ma.smId ++ [41]
          ((c.updAtom h.atom (fun x => { x with shown := true })).addOutput ma.smId n true, n)
      r.1.emit (.output (s "_heuristic(" ++ r.2 ++ [44] ++ heuName h.type ++ [44] ++ printInt h.bias ++ [44] ++ printNat h.prio ++ [41]) [(h.cond : Int)])) c

def CS.flushSymbols (c : CS) : CS :=
  (sortSyms c.output).foldl (fun c p => c.emit (.output p.2 [(p.1 : Int)])) c

def CS.flush (c : CS) : CS :=
  let c := c.flushMinimize.flushExternal.flushHeuristic.flushSymbols
  { (c.emit (.assume [-1])) with minimize := [], externs := [], heur := [], output := [] }

def I32MINc : Int := -2147483648

def CS.apply (c : CS) (x : Call) : CS :=
  if c.fail then c else
  match x with
  | .initProgram inc => c.emit (.initProgram inc)
  | .beginStep => c.emit .beginStep
  | .rule ht head body =>
    if !head.isEmpty || ht == 0 then
      let h := c.mapHead head
      let b := h.1.mapLits body []
      b.1.emit (.rule ht h.2 b.2)
    else c
  | .sumRule ht head bound body =>
    if !head.isEmpty || ht == 0 then
      let h := c.mapHead head
      let b := h.1.mapWLits body []
      if isSmodelsRule h.2 ht bound then b.1.emit (.sumRule ht h.2 bound b.2)
      else
        let aux := b.1.next
        ({ b.1 with next := b.1.next + 1, aux := b.1.aux ++ [aux] }.emit (.sumRule 0 [aux] bound b.2)).emit (.rule ht h.2 [(aux : Int)])
    else c
  | .minimize prio lits =>
    if lits.any (fun p => p.2 == I32MINc) then
      -- literals before the offending one are already stored when the exception is thrown
      { c with fail := true, minimize := insertMin c.minimize prio ((lits.takeWhile (fun p => p.2 != I32MINc)).map flipNeg) }
    else { c with minimize := insertMin c.minimize prio (lits.map flipNeg) }
  | .output str cond =>
    let m := c.makeAtom cond true
    m.1.addOutput m.2 str true
  | .external a v =>
    let m := c.mapAtom a
    if !m.2.head then { (m.1.updAtom a (fun x => { x with extn := v })) with externs := m.1.externs ++ [a] } else m.1
  | .heuristic a t bias prio cond =>
    let c1 := if !c.ext then c.emit (.heuristic a t bias prio cond) else c
    let m := c1.makeAtom cond true
    { m.1 with heur := m.1.heur ++ [{ atom := a, type := t, bias := bias, prio := prio, cond := m.2 }] }
  | .acycEdge a b cond =>
    let c1 := if !c.ext then c.emit (.acycEdge a b cond) else c
    let m := c1.makeAtom cond true
    m.1.addOutput m.2 (s "_edge(" ++ printInt a ++ [44] ++ printInt b ++ [41]) false
  | .endStep => (c.flush).emit .endStep
  | _ => { c with fail := true }          -- project, assume, theory: "… not supported"

def convert (ext : Bool) (cs : List Call) : CS := cs.foldl CS.apply { ext := ext }

end PotasscoVerif.Convert
