/-
  Model of `Potassco::AspifTextInput` (src/aspif_text.cpp:41-295) with the `ProgramReader` driver
  (src/match_basic_types.cpp: accept / parse / more / readProgram) over the abstract character stream
  (Spec/CharStream.lean; the buffered stream behaves like it: C09).

  The reader drives a `RuleBuilder` (start / addHead / startBody / startSum / addGoal / end): what the builder hands on is
  C11; here its effect is written down directly (heads and literals in order, weight-0 literals dropped).
-/
import PotasscoVerif.Model.AspifIn
namespace PotasscoVerif.TextIn
open PotasscoVerif PotasscoVerif.CharStream
open PotasscoVerif.BufferedStream (IntRes isDigit)
open PotasscoVerif.AspifIn (P Result skipLine more)

def isLower (c : Nat) : Bool := 97 ≤ c && c ≤ 122
def isAlnum (c : Nat) : Bool := isLower c || (65 ≤ c && c ≤ 90) || isDigit c

/-- `peek(true)` -/
def peekWs (a : AS) : Nat × AS := ((a.skipWs).peek, a.skipWs)

/-- `AspifTextInput::match(term, required)`: no blanks skipped before, blanks skipped after a match -/
def tok (w : List Nat) (req : Bool) : P Bool := fun a =>
  let r := a.matchTok w
  if r.1 then .ok (true, r.2.skipWs) else if req then .error r.2.line else .ok (false, r.2)

/-- `AspifTextInput::matchInt()` -/
def int : P Int := fun a =>
  match a.matchInt false with
  | (.val v, a') => if I32MIN ≤ v ∧ v ≤ I32MAX then .ok (v, a'.skipWs) else .error a'.line
  | (.fail, a') => .error a'.line

/-- `matchId()`: a lower-case letter (a=1 … z=26) or `x<n>` / `x_<n>` -/
def ident : P Nat := fun a =>
  let g := a.get
  let n := g.2.peek
  if !isLower g.1 then .error g.2.line
  else if isLower n then .error g.2.line
  else if g.1 == 120 && (isDigit n || n == 95) then
    match int (if n == 95 then g.2.get.2 else g.2) with
    | .ok (i, a3) => if 0 < i then .ok (i.toNat, a3) else .error a3.line
    | .error l => .error l
  else .ok (g.1 - 97 + 1, g.2.skipWs)

/-- `matchLit()` -/
def lit : P Int := fun a =>
  match tok [110, 111, 116, 32] false a with            -- "not "
  | .error l => .error l
  | .ok (neg, a1) =>
    match ident a1 with
    | .error l => .error l
    | .ok (x, a2) => .ok (if neg then -(x : Int) else (x : Int), a2)

/-- the do-while of `matchAtoms(seps)`; fuel = characters left + 1 -/
def atomsLoop (seps : List Nat) : Nat → AS → List Nat → Except Nat (List Nat × AS)
  | 0, a, _ => .error a.line
  | f + 1, a, acc =>
    match lit a with
    | .error l => .error l
    | .ok (x, a1) =>
      if x ≤ 0 then .error a1.line else
      -- `strchr(seps, peek())` also finds the terminating NUL of `seps`: at the end `get()` returns 0 and the loop stops
      if seps.contains a1.peek || a1.peek == 0 then
        let g := a1.get
        if g.1 != 0 then atomsLoop seps f g.2.skipWs (acc ++ [x.toNat]) else .ok (acc ++ [x.toNat], g.2)
      else .ok (acc ++ [x.toNat], a1)

def atoms (seps : List Nat) : P (List Nat) := fun a =>
  let p := peekWs a
  if isLower p.1 then atomsLoop seps (p.2.rest.length + 1) p.2 [] else .ok ([], p.2)

def litsLoop : Nat → AS → List Int → Except Nat (List Int × AS)
  | 0, a, _ => .error a.line
  | f + 1, a, acc =>
    match lit a with
    | .error l => .error l
    | .ok (x, a1) =>
      match tok [44] false a1 with
      | .error l => .error l
      | .ok (true, a2) => litsLoop f a2 (acc ++ [x])
      | .ok (false, a2) => .ok (acc ++ [x], a2)

/-- `matchLits()` -/
def lits : P (List Int) := fun a =>
  let p := peekWs a
  if isLower p.1 then litsLoop (p.2.rest.length + 1) p.2 [] else .ok ([], p.2)

/-- `matchCondition()` -/
def condition : P (List Int) := fun a =>
  match tok [58] false a with
  | .error l => .error l
  | .ok (true, a1) => lits a1
  | .ok (false, a1) => .ok ([], a1)

def aggLoop : Nat → AS → List (Int × Int) → Except Nat (List (Int × Int) × AS)
  | 0, a, _ => .error a.line
  | f + 1, a, acc =>
    match lit a with
    | .error l => .error l
    | .ok (x, a1) =>
      match tok [61] false a1 with
      | .error l => .error l
      | .ok (hasW, a2) =>
        match (if hasW then int a2 else .ok (1, a2)) with
        | .error l => .error l
        | .ok (w, a3) =>
          match tok [44] false a3 with
          | .error l => .error l
          | .ok (true, a4) => aggLoop f a4 (acc ++ [(x, w)])
          | .ok (false, a4) =>
            match tok [125] true a4 with
            | .error l => .error l
            | .ok (_, a5) => .ok (acc ++ [(x, w)], a5)

/-- `matchAgg()`: the weight literals the rule builder keeps (weight 0 is dropped) -/
def agg : P (List (Int × Int)) := fun a =>
  match tok [123] true a with
  | .error l => .error l
  | .ok (_, a1) =>
    match tok [125] false a1 with
    | .error l => .error l
    | .ok (true, a2) => .ok ([], a2)
    | .ok (false, a2) =>
      match aggLoop (a2.rest.length + 1) a2 [] with
      | .error l => .error l
      | .ok (ws, a3) => .ok (ws.filter (fun p => p.2 ≠ 0), a3)

/-! ### output terms -/
/-- `matchStr()`: the opening quote (blanks after it are skipped!), characters up to the closing unescaped quote -/
def strLoop : Nat → AS → Bool → List Nat → (List Nat × AS)
  | 0, a, _, acc => (acc, a)
  | f + 1, a, quoted, acc =>
    let c := a.peek
    if c != 0 && (c != 34 || quoted) then
      let g := a.get
      strLoop f g.2 (!quoted && c == 92) (acc ++ [g.1])
    else (acc, a)

def str (sym : List Nat) : P (List Nat) := fun a =>
  match tok [34] true a with
  | .error l => .error l
  | .ok (_, a1) =>
    let r := strLoop (a1.rest.length + 1) a1 false (sym ++ [34])
    match tok [34] true r.2 with
    | .error l => .error l
    | .ok (_, a2) => .ok (r.1 ++ [34], a2)

/-- `matchAtomArg()`; `p` = parenthesis depth -/
def argLoop : Nat → AS → Int → List Nat → Except Nat (List Nat × AS)
  | 0, a, _, _ => .error a.line
  | f + 1, a, p, sym =>
    let c := a.peek
    if c == 0 then .ok (sym, a)
    else if c == 34 then
      match str sym a with
      | .error l => .error l
      | .ok (sym', a1) => argLoop f a1 p sym'
    else if c == 41 && p - 1 < 0 then .ok (sym, a)
    else
      let p1 := if c == 41 then p - 1 else p
      if c == 44 && p1 == 0 then .ok (sym, a)
      else
        let g := a.get
        argLoop f g.2.skipWs (p1 + (if c == 40 then 1 else 0)) (sym ++ [g.1])

def argsLoop : Nat → AS → List Nat → Except Nat (List Nat × AS)
  | 0, a, _ => .error a.line
  | f + 1, a, sym =>
    match argLoop (a.rest.length + 1) a 0 sym with
    | .error l => .error l
    | .ok (sym1, a1) =>
      match tok [44] false a1 with
      | .error l => .error l
      | .ok (true, a2) => argsLoop f a2 (sym1 ++ [44])
      | .ok (false, a2) => .ok (sym1, a2)

def nameLoop : Nat → AS → List Nat → (List Nat × AS)
  | 0, a, acc => (acc, a)
  | f + 1, a, acc =>
    let g := a.get
    let acc := acc ++ [g.1]
    if isAlnum g.2.peek || g.2.peek == 95 then nameLoop f g.2 acc else (acc, g.2)

/-- `matchTerm()` -/
def term : P (List Nat) := fun a =>
  let c := a.peek
  if isLower c || c == 95 then
    let r := nameLoop (a.rest.length + 1) a []
    match tok [40] false r.2.skipWs with
    | .error l => .error l
    | .ok (false, a1) => .ok (r.1, a1.skipWs)
    | .ok (true, a1) =>
      match argsLoop (a1.rest.length + 1) a1 (r.1 ++ [40]) with
      | .error l => .error l
      | .ok (sym, a2) =>
        match tok [41] true a2 with
        | .error l => .error l
        | .ok (_, a3) => .ok (sym ++ [41], a3.skipWs)
  else if c == 34 then
    match str [] a with
    | .error l => .error l
    | .ok (sym, a1) => .ok (sym, a1.skipWs)
  else .error a.line

/-! ### statements -/
/-- the head of `matchRule(c)`: head type and atoms -/
def ruleHead (c : Nat) : P (Nat × List Nat) := fun a =>
  if c == 123 then do
    let (_, a) ← tok [123] true a
    let (hd, a) ← atoms [59, 44] a
    let (_, a) ← tok [125] true a
    pure ((1, hd), a)
  else do
    let (hd, a) ← atoms [59, 124] a
    pure ((0, hd), a)

/-- the rest of `matchRule`: optional body, final `.` -/
def ruleBody (ht : Nat) (hd : List Nat) : P Call := fun a => do
  let (hasBody, a) ← tok [58, 45] false a
  if hasBody then
    let p := peekWs a
    if !isDigit p.1 && p.1 != 45 then do
      let (b, a) ← lits p.2
      let (_, a) ← tok [46] true a
      pure (.rule ht hd b, a)
    else do
      let (bnd, a) ← int p.2
      let (ws, a) ← agg a
      if ws.any (fun q => q.2 < 0) then .error a.line else         -- repaired (D16): "non-negative weight expected"
      let (_, a) ← tok [46] true a
      pure (.sumRule ht hd bnd ws, a)
  else do
    let (_, a) ← tok [46] true a
    pure (.rule ht hd [], a)

/-- `matchRule(c)` -/
def rule (c : Nat) : P Call := fun a =>
  match ruleHead c a with
  | .error l => .error l
  | .ok (h, a1) => ruleBody h.1 h.2 a1

def heuNames : List (List Nat) :=
  [[108, 101, 118, 101, 108], [115, 105, 103, 110], [102, 97, 99, 116, 111, 114], [105, 110, 105, 116], [116, 114, 117, 101], [102, 97, 108, 115, 101]]

def heuMod : List (List Nat) → Nat → AS → Option (Nat × AS)
  | [], _, _ => none
  | w :: ws, x, a => if (a.matchTok w).1 then some (x, (a.matchTok w).2.skipWs) else heuMod ws (x + 1) a

inductive Stmt where
  | call (c : Call) | step | nothing
deriving Repr, DecidableEq

/-- try keyword `kw`: if it is there run `p` behind it, otherwise go on with `els` -/
def alt (kw : List Nat) (p els : P Stmt) : P Stmt := fun a =>
  match tok kw false a with
  | .error l => .error l
  | .ok (true, a1) => p a1
  | .ok (false, a1) => els a1

def dMinimize : P Stmt := fun a => do
  let (ws, a) ← agg a
  let (hasP, a) ← tok [64] false a
  let (prio, a) ← (if hasP then int a else .ok (0, a))
  let (_, a) ← tok [46] true a
  pure (.call (.minimize prio ws), a)

def dProject : P Stmt := fun a => do
  let (br, a) ← tok [123] false a
  let (l, a) ← (if br then do
      let (l, a) ← atoms [44] a
      let (_, a) ← tok [125] true a
      pure (l, a) else .ok ([], a))
  let (_, a) ← tok [46] true a
  pure (.call (.project l), a)

def dOutput : P Stmt := fun a => do
  let (sym, a) ← term a
  let (c, a) ← condition a
  let (_, a) ← tok [46] true a
  pure (.call (.output sym c), a)

/-- the value between `[` and `]` of `#external`: true, free, release, or (required) false -/
def extValue : P Nat := fun a => do
  let (t, a) ← tok [116, 114, 117, 101] false a
  if t then pure (1, a) else
  let (f, a) ← tok [102, 114, 101, 101] false a
  if f then pure (0, a) else
  let (r, a) ← tok [114, 101, 108, 101, 97, 115, 101] false a
  if r then pure (3, a) else
  let (_, a) ← tok [102, 97, 108, 115, 101] true a
  pure (2, a)

def dExternal : P Stmt := fun a => do
  let (x, a) ← ident a
  let (_, a) ← tok [46] true a
  let (br, a) ← tok [91] false a
  if br then
    let (v, a) ← extValue a
    let (_, a) ← tok [93] true a
    pure (.call (.external x v), a)
  else pure (.call (.external x 2), a)

def dAssume : P Stmt := fun a => do
  let (br, a) ← tok [123] false a
  let (l, a) ← (if br then do
      let (l, a) ← lits a
      let (_, a) ← tok [125] true a
      pure (l, a) else .ok ([], a))
  let (_, a) ← tok [46] true a
  pure (.call (.assume l), a)

def dHeuristic : P Stmt := fun a => do
  let (x, a) ← ident a
  let (c, a) ← condition a
  let (_, a) ← tok [46] true a
  let (_, a) ← tok [91] true a
  let (v, a) ← int a
  let (hasP, a) ← tok [64] false a
  let (p, a) ← (if hasP then do
      let (p, a) ← int a
      if 0 ≤ p then pure (p, a) else .error a.line else .ok (0, a))
  let (_, a) ← tok [44] true a
  match heuMod heuNames 0 a with
  | none => .error a.line
  | some (h, a) => do
    let (_, a) ← tok [93] true a.skipWs
    pure (.call (.heuristic x h v p.toNat c), a)

def dEdge : P Stmt := fun a => do
  let (_, a) ← tok [40] true a
  let (s, a) ← int a
  let (_, a) ← tok [44] true a
  let (t, a) ← int a
  let (_, a) ← tok [41] true a
  let (c, a) ← condition a
  let (_, a) ← tok [46] true a
  pure (.call (.acycEdge s t c), a)

def dStep (inc : Bool) : P Stmt := fun a =>
  if !inc then .error a.line else do
  let (_, a) ← tok [46] true a
  pure (.step, a)

def dIncremental : P Stmt := fun a => do
  let (_, a) ← tok [46] true a
  pure (.nothing, a)

/-- `matchDirective()` -/
def directive (inc : Bool) : P Stmt :=
  alt [35, 109, 105, 110, 105, 109, 105, 122, 101] dMinimize <|                        -- #minimize
  alt [35, 112, 114, 111, 106, 101, 99, 116] dProject <|                               -- #project
  alt [35, 111, 117, 116, 112, 117, 116] dOutput <|                                    -- #output
  alt [35, 101, 120, 116, 101, 114, 110, 97, 108] dExternal <|                         -- #external
  alt [35, 97, 115, 115, 117, 109, 101] dAssume <|                                     -- #assume
  alt [35, 104, 101, 117, 114, 105, 115, 116, 105, 99] dHeuristic <|                   -- #heuristic
  alt [35, 101, 100, 103, 101] dEdge <|                                                -- #edge
  alt [35, 115, 116, 101, 112] (dStep inc) <|                                          -- #step
  alt [35, 105, 110, 99, 114, 101, 109, 101, 110, 116, 97, 108] dIncremental <|        -- #incremental
  fun a => .error a.line

/-- `parseStatements()`: calls of one step; `.ok a` = end of step (end of input or `#step.`). fuel = characters left + 1 -/
def stmtLoop (inc : Bool) : Nat → AS → List Call → (List Call × Except Nat AS)
  | 0, a, acc => (acc, .error a.line)
  | f + 1, a, acc =>
    let p := peekWs a
    if p.1 == 0 then (acc, .ok p.2)
    else if p.1 == 46 then
      match tok [46] true p.2 with
      | .error l => (acc, .error l)
      | .ok (_, a1) => stmtLoop inc f a1 acc
    else if p.1 == 35 then
      match directive inc p.2 with
      | .error l => (acc, .error l)
      | .ok (.call c, a1) => stmtLoop inc f a1 (acc ++ [c])
      | .ok (.nothing, a1) => stmtLoop inc f a1 acc
      | .ok (.step, a1) => (acc, .ok a1)
    else if p.1 == 37 then stmtLoop inc f (skipLine p.2) acc
    else
      match rule p.1 p.2 with
      | .error l => (acc, .error l)
      | .ok (c, a1) => stmtLoop inc f a1 (acc ++ [c])

/-- `parse(Complete)`: steps while `more()`. fuel = characters left + 1 -/
def stepsLoop : Nat → Bool → AS → List Call → Result
  | 0, _, _, acc => { calls := acc, err := some 0 }
  | f + 1, inc, a, acc =>
    let r := stmtLoop inc (a.rest.length + 1) a []
    let acc1 := acc ++ [.beginStep] ++ r.1
    match r.2 with
    | .error l => { calls := acc1, err := some l }
    | .ok a1 =>
      let acc2 := acc1 ++ [.endStep]
      let m := more a1
      if m.1 && !inc then { calls := acc2, err := some m.2.line }
      else if m.1 then stepsLoop f inc m.2 acc2
      else { calls := acc2, err := none }

def skipComments : Nat → AS → AS
  | 0, a => a
  | f + 1, a => if a.peek == 37 then skipComments f (skipLine a).skipWs else a

/-- `doAttach`: `none` = not accepted -/
def attach (a : AS) : Option (Except Nat (Bool × AS)) :=
  let p := peekWs a
  if p.1 == 0 || isLower p.1 || [46, 35, 37, 123, 58].contains p.1 then
    let a1 := skipComments (p.2.rest.length + 1) p.2
    some (match tok [35, 105, 110, 99, 114, 101, 109, 101, 110, 116, 97, 108] false a1 with
      | .error l => .error l
      | .ok (false, a2) => .ok (false, a2)
      | .ok (true, a2) =>
        match tok [46] true a2 with
        | .error l => .error l
        | .ok (_, a3) => .ok (true, a3))
  else none

/-- `readProgram(str, AspifTextInput(out), handler)` -/
def read (input : List Nat) : Result :=
  let a := AS.init input
  match attach a with
  | none => { calls := [], err := some (a.skipWs).line }
  | some (.error l) => { calls := [], err := some l }
  | some (.ok (inc, a1)) => stepsLoop (a1.rest.length + 1) inc a1 [.initProgram inc]

/-! #### reading step by step: `accept`, then `do parse(Incremental) while (more())` (as Model/AspifIn.lean) -/

/-- one `parse(Incremental)`: the statements of one step, `stream()->skipWs()`, `require(!more() || incremental())` -/
def parseInc (inc : Bool) (a : AS) : List Call × Except Nat AS :=
  let r := stmtLoop inc (a.rest.length + 1) a []
  match r.2 with
  | .error l => (.beginStep :: r.1, .error l)
  | .ok a1 =>
    let m := more a1.skipWs
    if m.1 && !inc then (.beginStep :: r.1 ++ [.endStep], .error m.2.line)
    else (.beginStep :: r.1 ++ [.endStep], .ok m.2)

def incLoop : Nat → Bool → AS → List Call → Result
  | 0, _, _, acc => { calls := acc, err := some 0 }
  | f + 1, inc, a, acc =>
    let p := parseInc inc a
    match p.2 with
    | .error l => { calls := acc ++ p.1, err := some l }
    | .ok a1 =>
      let m := more a1
      if m.1 then incLoop f inc m.2 (acc ++ p.1) else { calls := acc ++ p.1, err := none }

def readInc (input : List Nat) : Result :=
  let a := AS.init input
  match attach a with
  | none => { calls := [], err := some (a.skipWs).line }
  | some (.error l) => { calls := [], err := some l }
  | some (.ok (inc, a1)) => incLoop (a1.rest.length + 1) inc a1 [.initProgram inc]

end PotasscoVerif.TextIn
