/-
  Model of `Potassco::SmodelsOutput` (src/smodels.cpp:250-373): section state `sec_`, `fHead_`, false atom,
  clasp extension rules 90/91/92.  A failed `POTASSCO_REQUIRE` (or a directive the class does not override) is
  `.error` carrying the bytes written so far.
-/
import PotasscoVerif.Model.AspifOut
namespace PotasscoVerif.SmodelsOut
open PotasscoVerif PotasscoVerif.AspifOut

structure W where
  out   : List Nat := []
  sec   : Nat := 0
  fHead : Bool := false
  inc   : Bool := false
deriving Repr, DecidableEq

def W.put (w : W) (bs : List Nat) : W := { w with out := w.out ++ bs }

/-- `smLit`: a weight literal with negative weight counts as the complementary literal. -/
def smLit (p : Int × Int) : Int := if p.2 ≥ 0 then p.1 else -p.1

/-- `print(os, span, neg, pos, op)`: first the negative ones in order, then the others. -/
def ordered {α} (isNeg : α → Bool) (l : List α) : List α := l.filter isNeg ++ l.filter (fun x => !isNeg x)

def natsSp (l : List Nat) : List Nat := (l.map addN).flatten

/-- `add(const LitSpan&)`. -/
def addBody (b : List Int) : List Nat :=
  let neg := (b.filter (· < 0)).length
  addN b.length ++ addN neg ++ natsSp ((ordered (fun (l : Int) => decide (l < 0)) b).map Int.natAbs)

/-- `add(Weight_t bnd, const WeightLitSpan&, bool card)`; `static_cast<unsigned>(bnd)` for `bnd ≥ 0`. -/
def addSum (bnd : Int) (b : List (Int × Int)) (card : Bool) : List Nat :=
  let isNeg := fun (p : Int × Int) => decide (smLit p < 0)
  let neg := (b.filter isNeg).length
  let o := ordered isNeg b
  (if card then [] else addN bnd.toNat) ++ addN b.length ++ addN neg ++ (if card then addN bnd.toNat else []) ++
  natsSp (o.map (fun p => p.1.natAbs)) ++ (if card then [] else natsSp (o.map (fun p => p.2.natAbs)))

/-- `add(Head_t, const AtomSpan&)`. -/
def addHead (ht : Nat) (h : List Nat) : List Nat :=
  (if ht = 1 ∨ h.length > 1 then addN h.length else []) ++ natsSp h

def ln (n : Nat) : List Nat := printNat n ++ nl

/-- `assume(lits)` once the section checks passed. -/
def computeText (f : Nat) (w : W) (lits : List Int) : List Nat :=
  str "B+\n" ++ ((lits.filter (· > 0)).map (fun l => ln l.natAbs)).flatten ++ str "0\nB-\n" ++
  ((lits.filter (· < 0)).map (fun l => ln l.natAbs)).flatten ++ (if w.fHead && f != 0 then ln f else []) ++ str "0\n"

def doAssume (f : Nat) (w : W) (lits : List Int) : Except W W :=
  if w.sec ≥ 2 then .error w else
  let w1 := w.put ((List.replicate (2 - w.sec) (str "0\n")).flatten)
  .ok { (w1.put (computeText f w lits)) with sec := 2 }

def step (ext : Bool) (f : Nat) (w : W) : Call → Except W W
  | .initProgram b => if b && !ext then .error { w with inc := b } else .ok { w with inc := b }
  | .beginStep => .ok { (if ext && w.inc then w.put (str "90 0\n") else w) with sec := 0, fHead := false }
  | .rule ht head body =>
    if w.sec ≠ 0 then .error w else
    if head.isEmpty then
      if ht = 1 then .ok w
      else if f = 0 then .error w
      else .ok ({ w with fHead := true }.put (str "1" ++ addHead ht [f] ++ addBody body ++ nl))
    else
      let rt := if ht = 1 then 3 else if head.length = 1 then 1 else 8
      .ok (w.put (printNat rt ++ addHead ht head ++ addBody body ++ nl))
  | .sumRule ht head bound body =>
    if w.sec ≠ 0 then .error w else
    if head.isEmpty ∧ f = 0 then .error w else
    let w1 := if head.isEmpty then { w with fHead := true } else w
    let head := if head.isEmpty then [f] else head
    -- isSmodelsRule
    if ht = 1 ∨ head.length ≠ 1 ∨ bound < 0 then .error w1 else
    let card := body.all (fun p => p.2 == 1)
    .ok (w1.put (printNat (if card then 2 else 5) ++ addHead ht head ++ addSum bound body card ++ nl))
  | .minimize _ lits => .ok (w.put (str "6" ++ addSum 0 lits false ++ nl))
  | .output name cond =>
    if w.sec > 1 then .error w else
    match cond with
    | [l] =>
      if l ≤ 0 then .error w else
      let w1 := if w.sec = 0 then { (w.put (str "0\n")) with sec := 1 } else w
      .ok (w1.put (printNat l.toNat ++ sp ++ name ++ nl))
    | _ => .error w
  | .external a v =>
    if !ext then .error w else
    if v ≠ 3 then .ok (w.put (str "91" ++ addN a ++ addN ((v ^^^ 3) - 1) ++ nl))
    else .ok (w.put (str "92" ++ addN a ++ nl))
  | .assume lits => doAssume f w lits
  | .endStep =>
    match (if w.sec < 2 then doAssume f w [] else .ok w) with
    | .error e => .error e
    | .ok w1 => .ok (w1.put (str "1\n"))
  | _ => .error w     -- project / heuristic / edge / theory: not overridden (`std::logic_error`)

def run (ext : Bool) (f : Nat) : W → List Call → Except W W
  | w, [] => .ok w
  | w, c :: cs => match step ext f w c with
    | .error e => .error e
    | .ok w' => run ext f w' cs

/-- bytes written and whether every call was accepted. -/
def write (ext : Bool) (f : Nat) (cs : List Call) : List Nat × Bool :=
  match run ext f {} cs with
  | .ok w => (w.out, true)
  | .error w => (w.out, false)

end PotasscoVerif.SmodelsOut
