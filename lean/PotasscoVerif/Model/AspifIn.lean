/-
  Model of `Potassco::AspifInput` + `ProgramReader` + `readProgram` (src/aspif.cpp:38-193,
  src/match_basic_types.cpp:143-200, potassco/match_basic_types.h:96-140) over the abstract character
  stream (Spec/CharStream.lean; that the buffered stream behaves like it is C09).

  A parser is `AS → Except Nat (α × AS)`; the error value is the line number reported (`stream line` at the
  point of the failed `require`).  The calls made on the consumer are collected by the step/program
  loops; `Result.calls` are all calls delivered, also those before an error.
-/
import PotasscoVerif.Model.Program
import PotasscoVerif.Spec.CharStream
namespace PotasscoVerif.AspifIn
open PotasscoVerif PotasscoVerif.CharStream
open PotasscoVerif.BufferedStream (IntRes)

abbrev P (α : Type) := AS → Except Nat (α × AS)

/-- `matchInt(min, max)` / `matchPos(max)` / `matchAtom` / `matchLit`: `match(int64)` (skips blanks first),
    then the range check. -/
def intIn (lo hi : Int) : P Int := fun a =>
  match a.matchInt false with
  | (.val v, a') => if lo ≤ v ∧ v ≤ hi then .ok (v, a') else .error a'.line
  | (.fail, a') => .error a'.line

def posMax (max : Nat) : P Nat := fun a => do
  let (v, a') ← intIn 0 max a
  pure (v.toNat, a')

def pos : P Nat := posMax U32MAX
def atom : P Nat := fun a => do
  let (v, a') ← intIn Gen.atomMin Gen.atomMax a     -- varMax_ = INT_MAX
  pure (v.toNat, a')
def lit : P Int := fun a =>
  match a.matchInt false with
  | (.val v, a') => if v ≠ 0 ∧ -(Gen.atomMax : Int) ≤ v ∧ v ≤ Gen.atomMax then .ok (v, a') else .error a'.line
  | (.fail, a') => .error a'.line
def wlit (minW : Int) : P (Int × Int) := fun a => do
  let (l, a1) ← lit a
  let (w, a2) ← intIn minW I32MAX a1
  pure ((l, w), a2)

/-- `for (len = …; len--;) f()`. -/
def rep {α} (p : P α) : Nat → List α → P (List α)
  | 0, acc => fun a => .ok (acc.reverse, a)
  | n + 1, acc => fun a => do
    let (x, a') ← p a
    rep p n (x :: acc) a'

def counted {α} (p : P α) : P (List α) := fun a => do
  let (n, a') ← pos a
  rep p n [] a'

def atoms : P (List Nat) := counted atom
def lits : P (List Int) := counted lit
def ids : P (List Nat) := counted pos
/-- `matchWLits(minW)`: literals of weight 0 are dropped by the rule builder. -/
def wlits (minW : Int) : P (List (Int × Int)) := fun a => do
  let (l, a') ← counted (wlit minW) a
  pure (l.filter (fun p => p.2 ≠ 0), a')

/-- `matchString()`: length, one separator character (whatever it is), then exactly `len` raw bytes. -/
def string : P (List Nat) := fun a => do
  let (n, a1) ← pos a
  let a2 := a1.get.2
  let (bs, a3) := a2.copy n
  if bs.length = n then .ok (bs, a3) else .error a3.line

/-- `skipLine()`. -/
def skipLineF : Nat → AS → AS
  | 0, a => a
  | f + 1, a => if a.peek == 0 then a else
      let (c, a') := a.get
      if c == 10 then a' else skipLineF f a'
def skipLine (a : AS) : AS := skipLineF (a.rest.length + 1) a

def N (x : Int) : Nat := x.toNat

/-- `matchTheory(rt)`. -/
def theory (rt : Nat) : P Call := fun a => do
  let (tId, a) ← pos a
  if rt = N Gen.Theory_t_Number then
    let (n, a) ← intIn I32MIN I32MAX a
    pure (.theoryNum tId n, a)
  else if rt = N Gen.Theory_t_Symbol then
    let (s, a) ← string a
    pure (.theorySym tId s, a)
  else if rt = N Gen.Theory_t_Compound then
    let (t, a) ← intIn Gen.Tuple_t_eMin I32MAX a
    let (args, a) ← ids a
    pure (.theoryCompound tId t args, a)
  else if rt = N Gen.Theory_t_Element then
    let (ts, a) ← ids a
    let (c, a) ← lits a
    pure (.theoryElement tId ts c, a)
  else if rt = N Gen.Theory_t_Atom then
    let (term, a) ← pos a
    let (es, a) ← ids a
    pure (.theoryAtom tId term es none, a)
  else if rt = N Gen.Theory_t_AtomWithGuard then
    let (term, a) ← pos a
    let (es, a) ← ids a
    let (op, a) ← pos a
    let (rhs, a) ← pos a
    pure (.theoryAtom tId term es (some (op, rhs)), a)
  else .error a.line

/-- one directive of type `rt ≠ 0` (the body of the `switch` in `doParse`); `none` = comment. -/
def directive (rt : Nat) : P (Option Call) := fun a =>
  if rt = N Gen.Directive_t_Rule then do
    let (ht, a) ← posMax (N Gen.Head_t_eMax) a
    let (hd, a) ← atoms a
    let (bt, a) ← posMax (N Gen.Body_t_eMax) a
    if bt = N Gen.Body_t_Normal then
      let (b, a) ← lits a
      pure (some (.rule ht hd b), a)
    else
      let (bnd, a) ← intIn I32MIN I32MAX a
      let (b, a) ← wlits 0 a
      pure (some (.sumRule ht hd bnd b), a)
  else if rt = N Gen.Directive_t_Minimize then do
    let (p, a) ← intIn I32MIN I32MAX a
    let (b, a) ← wlits I32MIN a
    pure (some (.minimize p b), a)
  else if rt = N Gen.Directive_t_Project then do
    let (l, a) ← atoms a
    pure (some (.project l), a)
  else if rt = N Gen.Directive_t_Output then do
    let (s, a) ← string a
    let (c, a) ← lits a
    pure (some (.output s c), a)
  else if rt = N Gen.Directive_t_External then do
    let (x, a) ← atom a
    let (v, a) ← posMax (N Gen.Value_t_eMax) a
    pure (some (.external x v), a)
  else if rt = N Gen.Directive_t_Assume then do
    let (l, a) ← lits a
    pure (some (.assume l), a)
  else if rt = N Gen.Directive_t_Heuristic then do
    let (t, a) ← posMax (N Gen.Heuristic_t_eMax) a
    let (x, a) ← atom a
    let (bias, a) ← intIn I32MIN I32MAX a
    let (prio, a) ← posMax (N I32MAX) a
    let (c, a) ← lits a
    pure (some (.heuristic x t bias prio c), a)
  else if rt = N Gen.Directive_t_Edge then do
    let (s, a) ← posMax (N I32MAX) a
    let (t, a) ← posMax (N I32MAX) a
    let (c, a) ← lits a
    pure (some (.acycEdge s t c), a)
  else if rt = N Gen.Directive_t_Theory then do
    let (tt, a) ← pos a
    let (c, a) ← theory tt a
    pure (some c, a)
  else if rt = N Gen.Directive_t_Comment then .ok (none, skipLine a)
  else .error a.line

/-- result of reading: every call delivered (in order) and, on failure, the reported line. -/
structure Result where
  calls : List Call
  err   : Option Nat
deriving Repr, DecidableEq

/-- one round of the directive loop: stop (end of step or error) or continue with an optional call -/
inductive Round where
  | stop (r : Except Nat AS)
  | cont (c : Option Call) (a : AS)

def dirStep (a : AS) : Round :=
  match posMax (N Gen.Directive_t_eMax) a with
  | .error l => .stop (.error l)
  | .ok (rt, a1) =>
    if rt = 0 then .stop (.ok a1) else
    match directive rt a1 with
    | .error l => .stop (.error l)
    | .ok (c, a2) => .cont c a2

/-- the directive loop of `doParse()` (after `beginStep`): fuel = characters left + 1.
    returns the calls of the step (without begin/endStep), `complete` = the terminating 0 was read. -/
def stepLoop : Nat → AS → List Call → (List Call × Except Nat AS)
  | 0, a, acc => (acc.reverse, .error a.line)
  | f + 1, a, acc =>
    match dirStep a with
    | .stop r => (acc.reverse, r)
    | .cont c a2 => stepLoop f a2 (match c with | some c => c :: acc | none => acc)

/-- `doAttach`: header line. `none` = "not aspif" (`match("asp ")` failed → invalid input format). -/
def header (a : AS) : Option (Except Nat (Bool × AS)) :=
  let a0 := a.skipWs
  let (ok, a1) := a0.matchTok [97, 115, 112, 32]
  if !ok then none else some (do
    let (ma, a2) ← pos a1
    if ma ≠ 1 then throw a2.line
    let (mi, a3) ← pos a2
    if mi ≠ 0 then throw a3.line
    let (_, a4) ← pos a3
    -- while (match(" ", false)) ;
    let a5 : AS := { a4 with rest := a4.rest.dropWhile (· == 32) }
    let (inc, a6) := a5.matchTok [105, 110, 99, 114, 101, 109, 101, 110, 116, 97, 108]
    pure (inc, a6))

/-- `more()`: skipWs, then not at end. -/
def more (a : AS) : Bool × AS := let a' := a.skipWs; (a'.peek != 0, a')

/-- `parse(Complete)` after a successful attach: steps while `more()`. fuel = characters left + 1. -/
def stepsLoop : Nat → Bool → AS → List Call → Result
  | 0, _, _, acc => { calls := acc, err := some 0 }      -- unreachable with sufficient fuel
  | f + 1, inc, a, acc =>
    let r := stepLoop (a.rest.length + 1) a []
    let acc1 := acc ++ [.beginStep] ++ r.1
    match r.2 with
    | .error l => { calls := acc1, err := some l }
    | .ok a1 =>
      let acc2 := acc1 ++ [.endStep]
      let m := more a1
      if m.1 && !inc then { calls := acc2, err := some m.2.line }     -- "invalid extra input"
      else if m.1 then stepsLoop f inc m.2 acc2
      else { calls := acc2, err := none }

/-- `readProgram(str, AspifInput(out), handler)`. -/
def read (input : List Nat) : Result :=
  let a := AS.init input
  match header a with
  | none => { calls := [], err := some (a.skipWs).line }      -- accept() returned false
  | some (.error l) => { calls := [], err := some l }
  | some (.ok (inc, a1)) =>
    -- out_.initProgram(inc); require(get() == '\n')
    let (c, a2) := a1.get
    if c ≠ 10 then { calls := [.initProgram inc], err := some a2.line }
    else stepsLoop (a2.rest.length + 1) inc a2 [.initProgram inc]

/-! #### reading step by step: `accept`, then `do parse(Incremental) while (more())` -/

/-- one `parse(Incremental)`: one step (`doParse`), `stream()->skipWs()`, `require(!more() || incremental())`. -/
def parseInc (inc : Bool) (a : AS) : List Call × Except Nat AS :=
  let r := stepLoop (a.rest.length + 1) a []
  match r.2 with
  | .error l => (.beginStep :: r.1, .error l)
  | .ok a1 =>
    let m := more a1.skipWs
    if m.1 && !inc then (.beginStep :: r.1 ++ [.endStep], .error m.2.line)
    else (.beginStep :: r.1 ++ [.endStep], .ok m.2)

/-- the client's loop around `parse(Incremental)`; its own `more()` decides whether another step is read. -/
def incLoop : Nat → Bool → AS → List Call → Result
  | 0, _, _, acc => { calls := acc, err := some 0 }
  | f + 1, inc, a, acc =>
    let p := parseInc inc a
    match p.2 with
    | .error l => { calls := acc ++ p.1, err := some l }
    | .ok a1 =>
      let m := more a1
      if m.1 then incLoop f inc m.2 (acc ++ p.1) else { calls := acc ++ p.1, err := none }

/-- `reader.accept(str)` followed by the step-by-step loop. -/
def readInc (input : List Nat) : Result :=
  let a := AS.init input
  match header a with
  | none => { calls := [], err := some (a.skipWs).line }
  | some (.error l) => { calls := [], err := some l }
  | some (.ok (inc, a1)) =>
    let (c, a2) := a1.get
    if c ≠ 10 then { calls := [.initProgram inc], err := some a2.line }
    else incLoop (a2.rest.length + 1) inc a2 [.initProgram inc]

end PotasscoVerif.AspifIn
