/-
  Model of `Potassco::RuleBuilder` (src/rule_utils.cpp:44-243) on top of `MemoryRegion`
  (src/match_basic_types.cpp:270-297).

  The builder keeps one memory block: a 20-byte header `Rule {top:31, fix:1, head{mbeg:30,type:2,mend},
  body{mbeg:30,type:2,mend}}` followed by 32-bit words.  The model keeps the header fields as record
  fields and the words behind the header as `data : List Int` (word `i` of `data` is the word at byte offset
  `20 + 4*i`); all offsets of the model are *word* offsets from the start of the block, so the header
  occupies `[0,5)` and `HDR = 5 = sizeof(Rule)/4`.  `size` is `MemoryRegion::size()/4`.
  Every access is checked: an access outside `[HDR, size)` sets the ghost flag `viol`.
  `POTASSCO_ASSERT` failures are the result `none` of an operation.
-/
namespace PotasscoVerif.RuleBuilder

def HDR : Nat := 5

/-- `static_cast<int32_t>` of a 64-bit value (two's complement wrap-around). -/
def wrap32 (x : Int) : Int := (x + 2147483648) % 4294967296 - 2147483648

structure Span where
  mbeg : Nat := 0
  mend : Nat := 0
  type : Nat := 0
deriving Repr, DecidableEq

def Span.len (s : Span) : Nat := s.mend - s.mbeg

/-- the memory block behind the header (`MemoryRegion`), with the ghost flag for out-of-block accesses. -/
structure Mem where
  data : List Int            -- word `i` of `data` is the word at byte offset `20 + 4*i`
  viol : Bool := false
deriving Repr, DecidableEq

def Mem.size (m : Mem) : Nat := HDR + m.data.length

/-- read word `i` of the block (`i ≥ HDR`). -/
def Mem.rd (m : Mem) (i : Nat) : Int := m.data.getD (i - HDR) 0

def Mem.inRange (m : Mem) (i : Nat) : Bool := decide (HDR ≤ i) && decide (i < m.size)

/-- write word `i`. -/
def Mem.wr (m : Mem) (i : Nat) (v : Int) : Mem :=
  { data := m.data.set (i - HDR) v, viol := m.viol || !m.inRange i }

/-- `MemoryRegion::grow(n)` for `n > size()`: `realloc` keeps the content, `size()` becomes exactly `n`. -/
def Mem.grow (m : Mem) (n : Nat) : Mem :=
  if n > m.size then { m with data := m.data ++ List.replicate (n - m.size) 0 } else m

/-- the memory effect of `push(mem, r, what)` for a one-word value at `top`. -/
def Mem.pushAt (m : Mem) (top : Nat) (v : Int) : Mem :=
  (if top + 1 > m.size then m.grow (top + 1) else m).wr top v

/-- the words `[b, e)` of the block. -/
def Mem.words (m : Mem) (b e : Nat) : List Int := (m.data.take (e - HDR)).drop (b - HDR)

structure RB where
  mem  : Mem
  top  : Nat := HDR
  fix  : Bool := false
  head : Span := {}
  body : Span := {}
deriving Repr, DecidableEq

def RB.viol (r : RB) : Bool := r.mem.viol
def RB.size (r : RB) : Nat := r.mem.size
def RB.rd (r : RB) (i : Nat) : Int := r.mem.rd i

/-- `RuleBuilder()`: `mem_(64)`, `new (mem_.begin()) Rule()`. -/
def RB.init : RB := { mem := { data := List.replicate 11 0 } }

/-- `push(mem, r, what)` for a one-word value. -/
def RB.push (r : RB) (v : Int) : RB := { r with mem := r.mem.pushAt r.top v, top := r.top + 1 }

/-- `clear()`: `new (mem_.begin()) Rule()`. -/
def RB.clear (r : RB) : RB := { r with top := HDR, fix := false, head := {}, body := {} }

/-- `unfreeze(discard)`. -/
def RB.unfreeze (r : RB) (discard : Bool) : RB :=
  if r.fix then (if discard then r.clear else { r with fix := false }) else r

/-- `start(ht)`. -/
def RB.start (r : RB) (ht : Nat) : Option RB :=
  let r := r.unfreeze true
  if !(r.head.mbeg == 0 || r.head.len == 0) then none else
  some { r with head := { mbeg := r.top, mend := r.top, type := ht } }

/-- `addHead(a)`. -/
def RB.addHead (r : RB) (a : Int) : Option RB :=
  if r.fix then none else
  let hd : Span := if r.head.mend == 0 then { mbeg := r.top, mend := r.top, type := 0 } else r.head
  if !(decide (hd.mbeg ≥ r.body.mend)) then none else
  some { r with mem := r.mem.pushAt r.top a, top := r.top + 1, head := { hd with mend := r.top + 1 } }

/-- `clearHead()`. -/
def RB.clearHead (r : RB) : RB :=
  let r := r.unfreeze false
  { r with top := max r.body.mend HDR, head := {} }

/-- `startBody(bt, bnd)` (private). -/
def RB.startBodyT (r : RB) (bt : Nat) (bnd : Int) : Option RB :=
  let r := r.unfreeze true
  if r.body.mend == 0 then
    if bt != 0 then
      some { r with mem := r.mem.pushAt r.top bnd, top := r.top + 1, body := { mbeg := r.top + 1, mend := r.top + 1, type := bt } }
    else some { r with body := { mbeg := r.top, mend := r.top, type := bt } }
  else if r.body.len == 0 then some r else none

def RB.startBody (r : RB) : Option RB := r.startBodyT 0 (-1)
def RB.startSum (r : RB) (bound : Int) : Option RB := r.startBodyT 1 bound

/-- `startMinimize(prio)`. -/
def RB.startMinimize (r : RB) (prio : Int) : Option RB :=
  let r := r.unfreeze true
  if !(r.head.mbeg == 0 && r.body.mbeg == 0) then none else
  some { r with mem := r.mem.pushAt r.top prio, top := r.top + 1,
                head := { mbeg := r.top, mend := r.top, type := 2 },
                body := { mbeg := r.top + 1, mend := r.top + 1, type := 1 } }

/-- `addGoal(WeightLit_t{lit, w})`. -/
def RB.addGoal (r : RB) (lit w : Int) : Option RB :=
  if r.fix then none else
  let bd : Span := if r.body.mbeg == 0 then { mbeg := r.top, mend := r.top, type := 0 } else r.body
  if !(decide (bd.mbeg ≥ r.head.mend)) then none else
  if w == 0 then some { r with body := bd } else
  if bd.type == 0 then
    some { r with mem := r.mem.pushAt r.top lit, top := r.top + 1, body := { bd with mend := r.top + 1 } }
  else
    some { r with mem := (r.mem.pushAt r.top lit).pushAt (r.top + 1) w, top := r.top + 2,
                  body := { bd with mend := r.top + 2 } }

/-- `bound_()` = the word before the body. -/
def RB.boundPos (r : RB) : Nat := r.body.mbeg - 1

/-- `setBound(b)`. -/
def RB.setBound (r : RB) (b : Int) : Option RB :=
  if r.fix || r.body.type == 0 then none else some { r with mem := r.mem.wr r.boundPos b }

/-- `clearBody()`. -/
def RB.clearBody (r : RB) : RB :=
  let r := r.unfreeze false
  { r with top := max r.head.mend HDR, body := {} }

/-- the words of a span. -/
def RB.words (r : RB) (s : Span) : List Int := r.mem.words s.mbeg s.mend

def pairs : List Int → List (Int × Int)
  | a :: b :: r => (a, b) :: pairs r
  | _ => []

/-- consecutive writes of `vs` at word offsets `pos, pos + stride, …` (the loops of `weaken`). -/
def Mem.wrSeq (m : Mem) (pos stride : Nat) : List Int → Mem
  | [] => m
  | v :: vs => (m.wr pos v).wrSeq (pos + stride) stride vs

/-- `weaken(to, resetWeights)`; `to ∈ {0 = Normal, 2 = Count}` (other values: only the type is changed). -/
def RB.weaken (r : RB) (to : Nat) (w : Bool) : Option RB :=
  if r.body.type == 0 || r.body.type == to then some r else
  let wl := pairs (r.words r.body)
  if to == 0 then
    let i := r.body.mbeg - 1
    -- `new (mem_[i]) Lit_t(bIt->lit)` for every weight literal, compacting in place
    let m1 := r.mem.wrSeq i 1 (wl.map (·.1))
    let mend := i + wl.length
    some { r with mem := m1, body := { mbeg := i, mend := mend, type := 0 }, top := max r.head.mend mend }
  else if to == 2 && w && !wl.isEmpty then
    let bnd := r.rd r.boundPos
    let mn := wl.foldl (fun m p => if m > p.2 then p.2 else m) (wl.headD (0, 0)).2
    -- every weight := 1
    let m1 := r.mem.wrSeq (r.body.mbeg + 1) 2 (wl.map (fun _ => 1))
    -- setBound((Weight_t)(((int64)bnd + ((int64)min - 1)) / min)): 64-bit arithmetic (repaired, D9), truncating division
    if r.fix then none else
    if mn == 0 then none else
    let nb := wrap32 (Int.tdiv (bnd + (mn - 1)) mn)
    some { r with mem := m1.wr r.boundPos nb, body := { r.body with type := to } }
  else some { r with body := { r.body with type := to } }

/-- the observable rule: `rule()` / what `end(out)` passes on. -/
structure View where
  ht    : Nat
  head  : List Int
  bt    : Nat
  bound : Int                  -- -1 for normal bodies (`bound()`)
  body  : List (Int × Int)     -- normal bodies: weight 1
deriving Repr, DecidableEq

def RB.view (r : RB) : View :=
  -- `end()` takes the sum/minimize branch when the head type is Minimize or the body is not Normal
  let sumLike := r.head.type == 2 || r.body.type != 0
  { ht := r.head.type, head := r.words r.head, bt := r.body.type,
    bound := if sumLike then r.rd r.boundPos else -1,
    body := if sumLike then pairs (r.words r.body) else (r.words r.body).map (fun l => (l, 1)) }

/-- every word `view` reads lies inside the block (otherwise the C++ reads outside its allocation). -/
def RB.viewOk (r : RB) : Bool :=
  let sumLike := r.head.type == 2 || r.body.type != 0
  (r.head.len == 0 || (decide (HDR ≤ r.head.mbeg) && decide (r.head.mend ≤ r.size))) &&
  (r.body.len == 0 || (decide (HDR ≤ r.body.mbeg) && decide (r.body.mend ≤ r.size))) &&
  (!sumLike || (decide (HDR + 1 ≤ r.body.mbeg) && decide (r.body.mbeg ≤ r.size)))

/-- `end()`: freezes. (The call on `out` is `view`.) -/
def RB.end_ (r : RB) : RB := { r with fix := true }

/-- copy constructor: `mem_.grow(other.top); memcpy(top bytes)`. -/
def RB.copy (o : RB) : RB :=
  { mem := { data := o.mem.data.take (o.top - HDR), viol := o.mem.viol || decide (o.size < o.top) },
    top := o.top, fix := o.fix, head := o.head, body := o.body }

end PotasscoVerif.RuleBuilder
