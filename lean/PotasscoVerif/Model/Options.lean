/-
  Model of option contexts and of the three option parsers of src/program_options.cpp:
  `CommandLineParser` (doParse / getOptionType / handleShortOpt / handleLongOpt) with `ArgvParser` and
  `CommandStringParser::next`, `CfgFileParser::doParse`, and `DefaultContext::getOption` (error mask).
  Lookup is Model/OptIndex.lean (C14).
-/
import PotasscoVerif.Model.OptIndex
namespace PotasscoVerif.Options
open PotasscoVerif.OptIndex

structure OptSpec where
  name      : List Nat
  alias     : Nat := 0
  implicit  : Bool := false          -- property_implicit (flags are implicit too)
  flag      : Bool := false
  negatable : Bool := false
  composing : Bool := false
  implVal   : Option (List Nat) := none   -- text given to implicit(); `none` → "1"
  dflt      : Option (List Nat) := none
  arg       : Option (List Nat) := none
  desc      : List Nat := []
  level     : Nat := 0
  group     : Nat := 0
  kind      : Nat := 0                 -- target type (0 int, 1 string, 2 flag, 3 vector<int>, …): used by C15 only
  glevel    : Nat := 0                 -- description level of the OptionGroup object the option was added with (C19)
deriving Repr, DecidableEq

structure Context where
  opts  : List OptSpec := []
  index : Index := []
deriving Repr, DecidableEq

/-- adds an option (name and alias entries); `none` = DuplicateOption. -/
def Context.add (c : Context) (o : OptSpec) : Option Context := do
  let k := c.opts.length
  let ix1 ← if o.alias != 0 then insert c.index [45, o.alias] k else some c.index
  let ix2 ← if !o.name.isEmpty then insert ix1 o.name k else some ix1
  pure { opts := c.opts ++ [o], index := ix2 }

inductive Err where
  | unknown (key : List Nat) | ambiguous (key : List Nat) | missingValue (key : List Nat) | extraValue (key : List Nat)
  | invalidFormat (line : List Nat)
deriving Repr, DecidableEq

/-- `DefaultContext::getOption(name, ft)`: error mask 2 (ambiguous) + 1 (unknown) unless unregistered options are allowed. -/
def getOption (c : Context) (allowUnreg : Bool) (name : List Nat) (t : FindType) : Except Err (Option Nat) :=
  match findRange c.index name t with
  | [] => if allowUnreg then .ok none else .error (.unknown (effKey name t))
  | [e] => .ok (some e.2)
  | e :: _ => .error (.ambiguous (effKey name t))     -- several: ambiguous (the first would be returned if the mask allowed it)

structure PState where
  toks      : List (List Nat)                  -- tokens `next()` has not delivered yet
  values    : List (Nat × List Nat) := []      -- (option, value) in order
  remaining : List (List Nat) := []
deriving Repr, DecidableEq

def PState.addValue (p : PState) (o : Nat) (v : List Nat) : PState := { p with values := p.values ++ [(o, v)] }

def optOf (c : Context) (k : Nat) : OptSpec := c.opts.getD k {name := []}

/-- `handleShortOpt(optName)`: fuel = |optName| + 1. returns (handled?, state). -/
def handleShort (c : Context) (allowUnreg : Bool) : Nat → List Nat → PState → Except Err (Bool × PState)
  | 0, _, p => .ok (true, p)
  | _ + 1, [], p => .ok (true, p)
  | f + 1, ch :: val, p =>
    match getOption c allowUnreg [ch] .alias with
    | .error e => .error e
    | .ok none => .ok (false, p)
    | .ok (some k) =>
      let o := optOf c k
      if o.implicit then
        if !o.flag then .ok (true, p.addValue k val)                   -- -ovalue (possibly empty)
        else handleShort c allowUnreg f val (p.addValue k [])           -- -o + more options
      else if !val.isEmpty then .ok (true, p.addValue k val)
      else match p.toks with
        | v :: rest => .ok (true, ({ p with toks := rest }).addValue k v)
        | [] => .error (.missingValue [ch])

def splitEq : List Nat → List Nat × Option (List Nat)
  | [] => ([], none)
  | 61 :: r => ([], some r)
  | c :: r => let (n, v) := splitEq r; (c :: n, v)

/-- `handleLongOpt(optName)` -/
def handleLong (c : Context) (allowUnreg allowFlagValue : Bool) (optName : List Nat) (p : PState) : Except Err (Bool × PState) :=
  let (name, vopt) := splitEq optName
  let value := vopt.getD []
  -- `on`: the negated option, if `no-<name>` names a negatable one (errors while looking it up are swallowed)
  let on : Option Nat :=
    if value.isEmpty && [110, 111, 45].isPrefixOf optName then
      match getOption c allowUnreg (optName.drop 3) .nameOrPrefix with
      | .ok (some k) => if (optOf c k).negatable then some k else none
      | _ => none
    else none
  let o? : Except Err (Option Nat) :=
    match getOption c allowUnreg name .nameOrPrefix with
    | .ok r => .ok r
    | .error (.unknown k) => if on.isSome then .ok none else .error (.unknown k)
    | .error e => .error e
  match o? with
  | .error e => .error e
  | .ok o =>
    let (o, value, neg) := match o, on with
      | none, some k => (some k, [110, 111], true)
      | o, _ => (o, value, false)
    match o with
    | none => .ok (false, p)
    | some k =>
      let spec := optOf c k
      if !spec.implicit && value.isEmpty then
        match p.toks with
        | v :: rest => .ok (true, ({ p with toks := rest }).addValue k v)
        | [] => .error (.missingValue name)
      else if spec.flag && !value.isEmpty && !neg && !allowFlagValue then .error (.extraValue name)
      else .ok (true, p.addValue k value)

/-- positional tokens: `posName tok` is the caller's positional handler (the option name it maps the token to). -/
def handlePos (c : Context) (allowUnreg : Bool) (posName : Option (List Nat)) (tok : List Nat) (p : PState) : Except Err (Bool × PState) :=
  let nm := posName.getD [80, 111, 115, 105, 116, 105, 111, 110, 97, 108, 32, 79, 112, 116, 105, 111, 110]   -- "Positional Option"
  match getOption c allowUnreg nm .nameOrPrefix with
  | .error e => .error e
  | .ok none => .ok (false, p)
  | .ok (some k) => .ok (true, p.addValue k tok)

/-- `CommandLineParser::doParse()`; fuel = number of tokens + 1. -/
def parseLoop (c : Context) (allowUnreg allowFlagValue : Bool) (posName : Option (List Nat)) : Nat → PState → Except Err PState
  | 0, p => .ok p
  | f + 1, p =>
    match p.toks with
    | [] => .ok p
    | curr :: rest =>
      let p := { p with toks := rest }
      if [45, 45].isPrefixOf curr then
        if curr.length = 2 then .ok { p with toks := [], remaining := p.remaining ++ p.toks }       -- "--": everything else remains
        else match handleLong c allowUnreg allowFlagValue (curr.drop 2) p with
          | .error e => .error e
          | .ok (true, p') => parseLoop c allowUnreg allowFlagValue posName f p'
          | .ok (false, p') => parseLoop c allowUnreg allowFlagValue posName f { p' with remaining := p'.remaining ++ [curr] }
      else if curr.head? == some 45 && curr.length > 1 then
        match handleShort c allowUnreg (curr.length + 1) (curr.drop 1) p with
        | .error e => .error e
        | .ok (true, p') => parseLoop c allowUnreg allowFlagValue posName f p'
        | .ok (false, p') => parseLoop c allowUnreg allowFlagValue posName f { p' with remaining := p'.remaining ++ [curr] }
      else
        match handlePos c allowUnreg posName curr p with
        | .error e => .error e
        | .ok (true, p') => parseLoop c allowUnreg allowFlagValue posName f p'
        | .ok (false, p') => parseLoop c allowUnreg allowFlagValue posName f { p' with remaining := p'.remaining ++ [curr] }

def parseArgv (c : Context) (allowUnreg allowFlagValue : Bool) (posName : Option (List Nat)) (toks : List (List Nat)) : Except Err PState :=
  parseLoop c allowUnreg allowFlagValue posName (toks.length + 1) { toks := toks }

/-- `parseCommandLine(int& argc, char** argv, …)` (src/program_options.cpp:867): `cells` is the argv vector (`none` = null pointer), `argc0` the
    caller's count.  The count is first advanced to the terminating null pointer, the tokens argv[1..argc) are parsed, then argc/argv are
    rewritten to the program name followed by the remaining tokens and a null pointer; later cells keep their old content.
    Result: (parse state, new argc, new cells). -/
def cmdLine (c : Context) (allowUnreg allowFlagValue : Bool) (posName : Option (List Nat)) (argc0 : Nat) (cells : List (Option (List Nat))) :
    Except Err (PState × Nat × List (Option (List Nat))) :=
  let argc := argc0 + ((cells.drop argc0).takeWhile Option.isSome).length
  let toks := ((cells.take argc).drop 1).filterMap id
  match parseArgv c allowUnreg allowFlagValue posName toks with
  | .error e => .error e
  | .ok p => .ok (p, 1 + p.remaining.length, cells.take 1 ++ p.remaining.map some ++ [none] ++ cells.drop (p.remaining.length + 2))

/-! ### command strings -/

def isCSpace (c : Nat) : Bool := c == 32 || (9 ≤ c && c ≤ 13)

/-- one token of `CommandStringParser::next()` after leading blanks: (token, rest). `t` = terminator (32 = blank).
    fuel = characters left + 1. -/
def csToken : Nat → List Nat → Nat → List Nat → (List Nat × List Nat)
  | 0, s, _, acc => (acc.reverse, s)
  | _ + 1, [], _, acc => (acc.reverse, [])
  | f + 1, c :: r, t, acc =>
    if c == t then (if t == 32 then (acc.reverse, c :: r) else csToken f r 32 acc)
    else if (c == 39 || c == 34) && t == 32 then csToken f r c acc
    else if c != 92 then csToken f r t (c :: acc)
    else match r with
      | n :: r' => if n == 34 || n == 39 || n == 92 then csToken f r' t (n :: acc) else csToken f (n :: r') t (c :: acc)
      | [] => csToken f [] t (c :: acc)

def csTokens : Nat → List Nat → List (List Nat) → List (List Nat)
  | 0, _, acc => acc.reverse
  | f + 1, s, acc =>
    let s := s.dropWhile isCSpace
    if s.isEmpty then acc.reverse else
    let (tok, rest) := csToken (s.length + 1) s 32 []
    -- the loop stops AT the terminating blank; the next call skips it
    csTokens f rest (tok :: acc)

def tokenize (cmd : List Nat) : List (List Nat) := csTokens (cmd.length + 1) cmd []

def parseString (c : Context) (allowUnreg allowFlagValue : Bool) (posName : Option (List Nat)) (cmd : List Nat) : Except Err PState :=
  parseArgv c allowUnreg allowFlagValue posName (tokenize cmd)

/-! ### config files -/

def trimL (s : List Nat) (cs : List Nat) : List Nat := s.dropWhile (fun c => cs.contains c)
def trimR (s : List Nat) (cs : List Nat) : List Nat := (trimL s.reverse cs).reverse

def splitLines : List Nat → List Nat → List (List Nat) → List (List Nat)
  | [], cur, acc => (if cur.isEmpty then acc else cur.reverse :: acc).reverse
  | 10 :: r, cur, acc => splitLines r [] (cur.reverse :: acc)
  | c :: r, cur, acc => splitLines r (c :: cur) acc

structure CfgSt where
  values : List (Nat × List Nat) := []
  name : List Nat := []
  value : List Nat := []
  inSection : Bool := false
deriving Repr, DecidableEq

def cfgFlush (c : Context) (allowUnreg : Bool) (s : CfgSt) : Except Err CfgSt :=
  if !s.inSection then .ok s else
  match getOption c allowUnreg s.name .nameOrPrefix with
  | .error e => .error e
  | .ok none => .ok s
  | .ok (some k) => .ok { s with values := s.values ++ [(k, s.value)] }

def cfgLine (c : Context) (allowUnreg : Bool) (s : CfgSt) (raw : List Nat) : Except Err CfgSt :=
  let line := trimR (trimL raw [32, 9]) [32, 9]
  if line.isEmpty || line.head? == some 35 then do
    let s' ← cfgFlush c allowUnreg s
    pure { s' with inSection := false }
  else if line.contains 61 then do
    let s' ← cfgFlush c allowUnreg s
    let (n, v) := splitEq line
    pure { s' with name := trimR n [32, 9], value := trimL (v.getD []) [32, 9, 10], inSection := true }
  else if s.inSection then .ok { s with value := s.value ++ [32] ++ line }
  else .error (.invalidFormat line)

def parseCfg (c : Context) (allowUnreg : Bool) (text : List Nat) : Except Err (List (Nat × List Nat)) := do
  let s ← (splitLines text [] []).foldlM (cfgLine c allowUnreg) {}
  let s ← cfgFlush c allowUnreg s
  pure s.values

end PotasscoVerif.Options
