/-
  Model of `Potassco::ProgramOptions::ValueStore` (src/value_store.cpp, potassco/program_opts/value_store.h,
  detail/value_store.h) and of `IntrusiveSharedPtr`/`RefCountable` (detail/refcountable.h).

  Every payload object that is ever constructed gets a fresh id (ghost).  A holder is empty or owns exactly
  one object; `destroyed` / `surrendered` record what happened to objects that left a holder.  Types with
  `sizeof(T) <= sizeof(void*)` are stored in place (`OptVTable`), others on the heap (`VTable`); an adopted
  object (`assimilate`) is always a heap object.
-/
namespace PotasscoVerif.ValueStore

structure Obj where
  id    : Nat
  ty    : Nat          -- type tag (the harness uses 0,1 = in-place sized types, 2,3 = heap types)
  val   : Int
  heap  : Bool         -- stored on the heap (vs. inside the holder)
deriving Repr, DecidableEq

def inPlaceTy (ty : Nat) : Bool := ty < 2

structure VS where
  holders     : List (Option Obj)
  nextId      : Nat := 1
  destroyed   : List Nat := []
  surrendered : List Nat := []
deriving Repr, DecidableEq

def VS.init (n : Nat) : VS := { holders := List.replicate n none }

def VS.get (s : VS) (i : Nat) : Option Obj := (s.holders[i]?).join

/-- `clear()` of holder `i`: destroys what it holds. -/
def VS.clear (s : VS) (i : Nat) : VS :=
  match s.get i with
  | some o => { s with holders := s.holders.set i none, destroyed := s.destroyed ++ [o.id] }
  | none => s

/-- `h[i] = T(v)`: `ValueStore(obj).swap(*this)`; the temporary then destroys the old content. -/
def VS.set (s : VS) (i ty : Nat) (v : Int) : VS :=
  let o : Obj := { id := s.nextId, ty := ty, val := v, heap := !inPlaceTy ty }
  let s1 := s.clear i
  { s1 with holders := s1.holders.set i (some o), nextId := s.nextId + 1 }

/-- `h[j] = h[i]` (`operator=(ValueStore other)`): the by-value parameter is a clone (fresh object), swapped in;
    its destructor then destroys the old content of `h[j]`. -/
def VS.copy (s : VS) (i j : Nat) : VS :=
  match s.get i with
  | none => s.clear j
  | some o =>
    let c : Obj := { o with id := s.nextId }
    let s1 := s.clear j
    { s1 with holders := s1.holders.set j (some c), nextId := s.nextId + 1 }

def VS.swap (s : VS) (i j : Nat) : VS :=
  if i < s.holders.length ∧ j < s.holders.length then
    { s with holders := (s.holders.set i (s.holders[j]?).join).set j (s.holders[i]?).join }
  else s

/-- `assimilate(new T(v))`: `clear()`, then adopt the caller's heap object. -/
def VS.adopt (s : VS) (i ty : Nat) (v : Int) : VS :=
  let o : Obj := { id := s.nextId, ty := ty, val := v, heap := true }
  let s1 := s.clear i
  { s1 with holders := s1.holders.set i (some o), nextId := s.nextId + 1 }

/-- `surrender()`: the holder forgets its content without destroying it (ownership is the caller's). -/
def VS.surrender (s : VS) (i : Nat) : VS :=
  match s.get i with
  | some o => { s with holders := s.holders.set i none, surrendered := s.surrendered ++ [o.id] }
  | none => s

/-- `value_cast<T>(h[i])`: the value for the stored type, `none` = `bad_value_cast`. -/
def VS.cast (s : VS) (i ty : Nat) : Option Int :=
  match s.get i with
  | some o => if o.ty = ty then some o.val else none
  | none => none

/-- all holders go out of scope. -/
def VS.destroyAll (s : VS) : VS :=
  { s with holders := s.holders.map (fun _ => none), destroyed := s.destroyed ++ (s.holders.filterMap (fun h => h.map (·.id))) }

inductive Op where
  | set (i ty : Nat) (v : Int) | copy (i j : Nat) | swap (i j : Nat) | adopt (i ty : Nat) (v : Int)
  | clear (i : Nat) | surrender (i : Nat)
  | readopt (i : Nat)      -- `p = h[i].extract_raw(); h[i].surrender(); h[i].assimilate(p)` for a heap object: the caller hands the very same object back
  | selfAssign (i : Nat)   -- `h[i] = value_cast<T>(h[i])`: typed assignment from the object the holder owns (copy first, then the old one goes)
deriving Repr, DecidableEq

def VS.step (s : VS) : Op → VS
  | .set i ty v => if i < s.holders.length then s.set i ty v else s
  | .copy i j => if i < s.holders.length ∧ j < s.holders.length then s.copy i j else s
  | .swap i j => s.swap i j
  | .adopt i ty v => if i < s.holders.length then s.adopt i ty v else s
  | .clear i => s.clear i
  | .surrender i => s.surrender i
  | .readopt _ => s          -- ownership leaves the holder and returns to it: nothing changes
  | .selfAssign i => match s.get i with
    | some o => s.set i o.ty o.val
    | none => s

/-! ### intrusive reference counting -/

structure RC where
  ptrs    : List (Option Nat)        -- each pointer is null or refers to an object id
  counts  : List (Nat × Nat)         -- (object id, refCount_) of live objects
  freed   : List Nat := []
  nextId  : Nat := 1
deriving Repr, DecidableEq

def RC.count (r : RC) (o : Nat) : Nat := ((r.counts.find? (·.1 == o)).map (·.2)).getD 0
def RC.setCount (r : RC) (o n : Nat) : RC :=
  { r with counts := (r.counts.filter (·.1 != o)) ++ (if n = 0 then [] else [(o, n)]),
           freed := if n = 0 then r.freed ++ [o] else r.freed }

/-- `release()` of pointer value `p`. -/
def RC.release (r : RC) (p : Option Nat) : RC :=
  match p with
  | none => r
  | some o => r.setCount o (r.count o - 1)

def RC.addRef (r : RC) (p : Option Nat) : RC :=
  match p with
  | none => r
  | some o => r.setCount o (r.count o + 1)

/-- `ptr[i] = IntrusiveSharedPtr(new T)`: assignment from a temporary: addRef(new), release(old), then the
    temporary releases. -/
def RC.fresh (r : RC) (i : Nat) : RC :=
  if i < r.ptrs.length then
    let o := r.nextId
    let r1 : RC := { r with counts := r.counts ++ [(o, 1)], nextId := o + 1 }   -- RefCountable(): 1
    let r2 := r1.addRef (some o)
    let r3 := r2.release (r.ptrs[i]?).join
    let r4 : RC := { r3 with ptrs := r3.ptrs.set i (some o) }
    r4.release (some o)
  else r

/-- `ptr[j] = ptr[i]` -/
def RC.assign (r : RC) (i j : Nat) : RC :=
  if i < r.ptrs.length ∧ j < r.ptrs.length then
    let p := (r.ptrs[i]?).join
    let r1 := r.addRef p
    let r2 := r1.release (r.ptrs[j]?).join
    { r2 with ptrs := r2.ptrs.set j p }
  else r

/-- `ptr[i].swap(ptr[j])`: the two pointer values change places, no counter is touched -/
def RC.swap (r : RC) (i j : Nat) : RC :=
  if i < r.ptrs.length ∧ j < r.ptrs.length then
    { r with ptrs := (r.ptrs.set i (r.ptrs[j]?).join).set j (r.ptrs[i]?).join }
  else r

def RC.reset (r : RC) (i : Nat) : RC :=
  if i < r.ptrs.length then
    let r1 := r.release (r.ptrs[i]?).join
    { r1 with ptrs := r1.ptrs.set i none }
  else r

end PotasscoVerif.ValueStore
