/-
  Model of `Potassco::TheoryData` (src/theory_data.cpp:155-350, potassco/theory_data.h).
  Three id-indexed stacks (`none` = the invalid term / null pointer), the step frame, and an explicit heap
  account: `live` counts allocated blocks (symbol buffers, `FuncData`, elements, atoms); every `destroy`
  decrements it.  `getD`-style totalisation is avoided: lookups return `Option`, operations that the C++
  refuses (`POTASSCO_REQUIRE`/`POTASSCO_ASSERT`) return `none`.
-/
namespace PotasscoVerif.TheoryData

inductive Term where
  | num (n : Int) | sym (name : List Nat) | comp (base : Int) (args : List Nat)
deriving Repr, DecidableEq

structure Elem where
  terms : List Nat
  cond  : Nat
  slot  : Bool            -- a condition slot was allocated (`nCond_`)
deriving Repr, DecidableEq

structure Atom where
  atom  : Nat
  term  : Nat
  elems : List Nat
  guard : Option (Nat × Nat)
deriving Repr, DecidableEq

def COND_DEFERRED : Nat := 4294967295

structure TD where
  terms : List (Option Term) := []
  elems : List (Option Elem) := []
  atoms : List Atom := []
  fTerm : Nat := 0
  fElem : Nat := 0
  fAtom : Nat := 0
  live  : Nat := 0        -- ghost: heap blocks currently allocated by the store
deriving Repr, DecidableEq

def Term.heap : Term → Nat
  | .num _ => 0
  | _ => 1

def TD.getTerm (d : TD) (id : Nat) : Option Term := (d.terms[id]?).join
def TD.hasTerm (d : TD) (id : Nat) : Bool := (d.getTerm id).isSome
def TD.isNewTerm (d : TD) (id : Nat) : Bool := d.hasTerm id && decide (id ≥ d.fTerm)
def TD.getElem (d : TD) (id : Nat) : Option Elem := (d.elems[id]?).join
def TD.hasElem (d : TD) (id : Nat) : Bool := (d.getElem id).isSome
def TD.isNewElem (d : TD) (id : Nat) : Bool := d.hasElem id && decide (id ≥ d.fElem)

def padTo {α} (l : List (Option α)) (n : Nat) : List (Option α) := l ++ List.replicate (n - l.length) none

/-- `removeTerm(id)`: destroys the term's block, the slot becomes invalid. -/
def TD.removeTerm (d : TD) (id : Nat) : TD :=
  match d.getTerm id with
  | some t => { d with terms := d.terms.set id none, live := d.live - t.heap }
  | none => d

/-- `setTerm(id)` followed by the assignment of a freshly built term: the slot check comes first (repaired,
    D7), then the allocation. `none` = "Redefinition of theory term". -/
def TD.addTerm (d : TD) (id : Nat) (t : Term) : Option TD :=
  if !d.hasTerm id then
    let ts := padTo d.terms (id + 1)
    some { d with terms := ts.set id (some t), live := d.live + t.heap }
  else if d.isNewTerm id then none
  else
    let d1 := d.removeTerm id
    some { d1 with terms := d1.terms.set id (some t), live := d1.live + t.heap }

/-- `addElement(id, terms, cond)` -/
def TD.addElement (d : TD) (id : Nat) (terms : List Nat) (cond : Nat) : Option TD :=
  let e : Elem := { terms := terms, cond := cond, slot := cond != 0 }
  if !d.hasElem id then
    let es := padTo d.elems (id + 1)
    some { d with elems := es.set id (some e), live := d.live + 1 }
  else if d.isNewElem id then none
  else some { d with elems := d.elems.set id (some e) }          -- destroy old (−1), allocate new (+1)

def TD.addAtom (d : TD) (a : Atom) : TD := { d with atoms := d.atoms ++ [a], live := d.live + 1 }

/-- `setCondition(e, c)`; `none`: unknown element or its condition is not `COND_DEFERRED`. -/
def TD.setCondition (d : TD) (id c : Nat) : Option TD :=
  match d.getElem id with
  | some e => if e.cond == COND_DEFERRED then some { d with elems := d.elems.set id (some { e with cond := c }) } else none
  | none => none

/-- `filter(f)`: among the atoms of the current step, those with a non-zero atom satisfying `f` are destroyed. -/
def TD.filter (d : TD) (f : Atom → Bool) : TD :=
  let old := d.atoms.take d.fAtom
  let cur := d.atoms.drop d.fAtom
  let keep := cur.filter (fun a => a.atom == 0 || !f a)
  { d with atoms := old ++ keep, live := d.live - (cur.length - keep.length) }

def TD.update (d : TD) : TD := { d with fTerm := d.terms.length, fElem := d.elems.length, fAtom := d.atoms.length }

def TD.reset (_ : TD) : TD := {}

def heapT : Option Term → Nat
  | some t => t.heap
  | none => 0
def heapE : Option Elem → Nat
  | some _ => 1
  | none => 0

/-- blocks reachable from the tables. -/
def TD.reachable (d : TD) : Nat := (d.terms.map heapT).sum + (d.elems.map heapE).sum + d.atoms.length

/-! ### visiting (`accept` with a visitor that recurses into everything it is shown, as the writers do) -/

inductive Seen where
  | atom (i : Nat) | term (id : Nat) | elem (id : Nat) | missing   -- `missing`: getTerm/getElement threw
deriving Repr, DecidableEq

def TD.doTerm (d : TD) (cur : Bool) (id : Nat) : Bool := !cur || d.isNewTerm id
def TD.doElem (d : TD) (cur : Bool) (id : Nat) : Bool := !cur || d.isNewElem id

/-- visit term `id` and, recursively, what `accept(term)` shows; fuel bounds the depth. Stops at the first
    missing reference (exception). -/
def TD.visitTerm (d : TD) (cur : Bool) : Nat → Nat → List Seen → Option (List Seen)
  | 0, _, _ => none
  | f + 1, id, acc =>
    match d.getTerm id with
    | none => none
    | some t =>
      let acc := acc ++ [.term id]
      match t with
      | .comp base args =>
        let ids := args ++ (if base ≥ 0 then [base.toNat] else [])
        ids.foldlM (fun acc i => if d.doTerm cur i then d.visitTerm cur f i acc else some acc) acc
      | _ => some acc

/-- `if (doVisitTerm(m, id)) out.visit(...)` -/
def TD.optTerm (d : TD) (cur : Bool) (fuel : Nat) (acc : List Seen) (i : Nat) : Option (List Seen) :=
  if d.doTerm cur i then d.visitTerm cur fuel i acc else some acc

def TD.visitElem (d : TD) (cur : Bool) (fuel : Nat) (id : Nat) (acc : List Seen) : Option (List Seen) :=
  match d.getElem id with
  | none => none
  | some e => e.terms.foldlM (d.optTerm cur fuel) (acc ++ [.elem id])

def TD.optElem (d : TD) (cur : Bool) (fuel : Nat) (acc : List Seen) (e : Nat) : Option (List Seen) :=
  if d.doElem cur e then d.visitElem cur fuel e acc else some acc

def TD.visitAtom (d : TD) (cur : Bool) (fuel : Nat) (i : Nat) (a : Atom) (acc : List Seen) : Option (List Seen) :=
  (d.optTerm cur fuel (acc ++ [.atom i]) a.term).bind fun acc =>
  (a.elems.foldlM (d.optElem cur fuel) acc).bind fun acc =>
  match a.guard with
  | none => some acc
  | some (op, rhs) => (d.optTerm cur fuel acc op).bind fun acc => d.optTerm cur fuel acc rhs

/-- `accept(visitor, mode)`; `none` = an exception (dangling reference) ended the visit. -/
def TD.visit (d : TD) (cur : Bool) : Option (List Seen) :=
  let start := if cur then d.fAtom else 0
  ((d.atoms.zipIdx).drop start).foldlM (fun acc p => d.visitAtom cur (d.terms.length + 2) p.2 p.1 acc) []

end PotasscoVerif.TheoryData
