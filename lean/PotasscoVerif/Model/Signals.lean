/-
  Model of the signal bookkeeping of `Potassco::Application` (src/application.cpp: blockSignals,
  unblockSignals, processSignal, sigHandler) as a small-step machine at the granularity of its atomic steps.

  * `blocked_`, `pending_` are the two shared variables.  Every arrival carries a unique id (ghost) so that
    "handed to the callback exactly once" can be stated; `pending` holds `(signal, id)`.
  * The main flow is a list of `MainOp`.  Calls that have interior points are frames on a stack
    (`ub` = `unblockSignals`, `ps` = `processSignal`); the top frame runs; a signal arrival pushes a new
    `ps` frame on top (POSIX: the handler runs to completion before the interrupted flow resumes), at any
    point, also inside a callback.  `sigHandler` masks its own signal number while it runs (`SIG_IGN`).
  * `step` executes ONE atomic step of the top frame (or starts the next main operation).
  * `unblockSignals` takes the pending slot with one atomic exchange (repaired, D11); `pristine := true`
    selects the original two-step read/clear so that the defect can be exhibited in the same model.
-/
namespace PotasscoVerif.Signals

inductive PsPc where
  | inc | callStart | inCall | checkPending | setPending | dec
deriving Repr, DecidableEq

inductive UbPc where
  | dec | xchg | clear | deliver
deriving Repr, DecidableEq

inductive Frame where
  | ps (sig id : Nat) (pc : PsPc) (intr : Bool)   -- `intr`: entered through the signal handler (masks `sig`)
  | ub (deliver : Bool) (pc : UbPc) (pend : Nat × Nat)
deriving Repr, DecidableEq

inductive MainOp where
  | block | unblock (deliver : Bool) | work
deriving Repr, DecidableEq

inductive Ev where
  | arrive (sig id : Nat) (oldBlocked : Nat)     -- the `fetch_and_inc` of processSignal returned `oldBlocked`
  | callStart (sig id : Nat)                      -- onSignal(sig) is entered
  | callEnd (sig id : Nat) (cont : Bool)          -- … and returned `cont`
  | queued (sig id : Nat)                         -- pending_ = sig
  | taken (sig id : Nat) (deliver : Bool)         -- an outermost release took the pending slot
deriving Repr, DecidableEq

structure St where
  blocked  : Nat := 0
  pending  : Nat × Nat := (0, 0)     -- (signal, arrival id); signal 0 = none
  stack    : List Frame := []
  main     : List MainOp := []
  nextId   : Nat := 1
  appDepth : Nat := 0                -- ghost: application blocks in force
  stuck    : Nat := 0                -- ghost: callbacks that returned false (blocked_ stays incremented)
  log      : List Ev := []
deriving Repr, DecidableEq

inductive Choice where
  | arrive (sig : Nat)
  | step (cbResult : Bool)
deriving Repr, DecidableEq

def masked (sig : Nat) : List Frame → Bool
  | [] => false
  | .ps s _ _ true :: r => s == sig || masked sig r
  | _ :: r => masked sig r

/-- one scheduler choice; `none` = the choice is not possible in this state (it is skipped). -/
def step (pristine : Bool) (s : St) : Choice → Option St
  | .arrive sig =>
    if sig = 0 ∨ masked sig s.stack then none
    else some { s with stack := .ps sig s.nextId .inc true :: s.stack, nextId := s.nextId + 1 }
  | .step r =>
    match s.stack with
    | [] =>
      match s.main with
      | [] => none
      | .work :: m => some { s with main := m }
      | .block :: m => some { s with main := m, blocked := s.blocked + 1, appDepth := s.appDepth + 1 }
      | .unblock d :: m =>
        if s.appDepth = 0 then none       -- unbalanced unblock: outside the protocol
        else some { s with main := m, stack := [.ub d .dec (0, 0)] }
    | .ps sig id pc intr :: rest =>
      match pc with
      | .inc =>
        some { s with blocked := s.blocked + 1, log := s.log ++ [.arrive sig id s.blocked],
                      stack := .ps sig id (if s.blocked = 0 then .callStart else .checkPending) intr :: rest }
      | .callStart => some { s with log := s.log ++ [.callStart sig id], stack := .ps sig id .inCall intr :: rest }
      | .inCall =>
        if r then some { s with log := s.log ++ [.callEnd sig id true], stack := .ps sig id .dec intr :: rest }
        else some { s with log := s.log ++ [.callEnd sig id false], stack := rest, stuck := s.stuck + 1 }
      | .checkPending =>
        some { s with stack := (if s.pending.1 = 0 then .ps sig id .setPending intr else .ps sig id .dec intr) :: rest }
      | .setPending =>
        some { s with pending := (sig, id), log := s.log ++ [.queued sig id], stack := .ps sig id .dec intr :: rest }
      | .dec => some { s with blocked := s.blocked - 1, stack := rest }
    | .ub d pc pend :: rest =>
      match pc with
      | .dec =>
        some { s with blocked := s.blocked - 1, appDepth := s.appDepth - 1,
                      stack := if s.blocked = 1 then .ub d .xchg pend :: rest else rest }
      | .xchg =>
        if pristine then some { s with stack := .ub d .clear s.pending :: rest }      -- `pend = pending_;`
        else
          let p := s.pending
          some { s with pending := (0, 0), log := s.log ++ (if p.1 ≠ 0 then [.taken p.1 p.2 d] else []),
                        stack := if p.1 ≠ 0 ∧ d then .ub d .deliver p :: rest else rest }
      | .clear =>                                                                       -- `pending_ = 0;` (pristine only)
        some { s with pending := (0, 0), log := s.log ++ (if pend.1 ≠ 0 then [.taken pend.1 pend.2 d] else []),
                      stack := if pend.1 ≠ 0 ∧ d then .ub d .deliver pend :: rest else rest }
      | .deliver => some { s with stack := .ps pend.1 pend.2 .inc false :: rest }      -- `processSignal(pend)`

/-- run a schedule, skipping impossible choices. -/
def run (pristine : Bool) : St → List Choice → St
  | s, [] => s
  | s, c :: cs => match step pristine s c with
    | some s' => run pristine s' cs
    | none => run pristine s cs

def St.init (main : List MainOp) : St := { main := main }

/-- run everything that is still on the stack / in the main program to completion (callbacks continue). -/
def drain (pristine : Bool) : Nat → St → St
  | 0, s => s
  | f + 1, s => match step pristine s (.step true) with
    | some s' => drain pristine f s'
    | none => s

end PotasscoVerif.Signals
