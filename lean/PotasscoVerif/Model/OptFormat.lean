/-
  Model of help and default-command-line generation in src/program_options.cpp:
  `Option::maxColumn`, `DefaultFormat::format` (option column with its sprintf calls into a computed-size buffer,
  description with %D/%A/%I substitution, group caption), `OptionGroup::maxColumn/format`,
  `OptionContext::add` (group order and level), `setActiveDescLevel`, `description`, `defaults`.
-/
import PotasscoVerif.Model.OptAssign
namespace PotasscoVerif.OptFormat
open PotasscoVerif.Options

/-- `Value::arg()` -/
def argName (o : OptSpec) : List Nat :=
  match o.arg with
  | some a => a
  | none => if o.flag then [] else [60, 97, 114, 103, 62]          -- "<arg>"

/-- `Value::implicit()`: nothing unless the value is implicit; "1" unless a non-empty text was registered -/
def implicitStr (o : OptSpec) : List Nat := if o.implicit then OptAssign.implicitText o else []

/-- `Option::maxColumn()` -/
def maxColumn (o : OptSpec) : Nat :=
  let col := 4 + o.name.length + (if o.alias != 0 then 3 else 0)
  let argN := (argName o).length
  if argN != 0 then col + (argN + 1) + (if o.implicit then 2 else 0) + (if o.negatable then 3 else 0)
  else if o.negatable then col + 5 else col

/-- the char buffer `sprintf` writes into: text so far, capacity, and a ghost flag set when a write (with its
    terminating NUL) would not fit -/
structure FB where
  text : List Nat := []
  cap  : Nat
  viol : Bool := false
deriving Repr, DecidableEq

def FB.sprintf (b : FB) (s : List Nat) : FB :=
  { b with text := b.text ++ s, viol := b.viol || decide (b.cap < b.text.length + s.length + 1) }

/-- `DefaultFormat::format(std::vector<char>&, const Option&, std::size_t maxW)` -/
def formatOpt (o : OptSpec) (maxW : Nat) : FB :=
  let arg := argName o
  let np : List Nat := if o.negatable && arg.isEmpty then [91, 110, 111, 45, 93] else []        -- "[no-]"
  let ap : List Nat := if o.negatable && !arg.isEmpty then [124, 110, 111] else []              -- "|no"
  let b0 : FB := { cap := max maxW (maxColumn o) + 3 + ap.length }
  let b1 := b0.sprintf ([32, 32, 45, 45] ++ np ++ o.name)
  let b2 := if o.implicit && !arg.isEmpty then b1.sprintf ([91, 61] ++ arg ++ ap ++ [93]) else b1
  let b3 := if o.alias != 0 then b2.sprintf [44, 45, o.alias] else b2
  let b4 := if !o.implicit then b3.sprintf ((if o.alias == 0 then 61 else 32) :: (arg ++ ap)) else b3
  if b4.text.length < maxW then b4.sprintf (List.replicate (maxW - b4.text.length) 32) else b4

/-- the loop of `DefaultFormat::format(buf, desc, value, maxW)`; fuel = characters left + 1 -/
def descLoop (o : OptSpec) : Nat → List Nat → List Nat → List Nat
  | 0, _, acc => acc
  | f + 1, d, acc =>
    let acc := acc ++ d.takeWhile (· != 37)
    match d.dropWhile (· != 37) with
    | [] => acc
    | [_] => acc                                   -- a '%' at the very end is dropped
    | _ :: c :: rest =>
      let acc :=
        if c == 68 then acc ++ o.dflt.getD []       -- %D
        else if c == 65 then acc ++ argName o       -- %A
        else if c == 73 then acc ++ implicitStr o   -- %I
        else acc ++ [c]                             -- %% and any other %x: the character itself
      descLoop o f rest acc

def formatDesc (o : OptSpec) : List Nat := [58, 32] ++ descLoop o (o.desc.length + 1) o.desc [] ++ [10]

/-! ### groups -/
def dedup : List Nat → List Nat
  | [] => []
  | a :: l => a :: (dedup l).filter (· != a)

/-- `groups_` in the order of first `add` -/
def groupIds (c : Context) : List Nat := dedup (c.opts.map (·.group))
def members (c : Context) (g : Nat) : List Nat := (List.range c.opts.length).filter (fun k => (optOf c k).group == g)
/-- the level of a group is the minimum over the `OptionGroup` objects added under its caption -/
def groupLevel (c : Context) (g : Nat) : Nat := ((c.opts.filter (·.group == g)).map (·.glevel)).foldl min 5
/-- sub-groups first, then the first group -/
def printOrder (c : Context) : List Nat := (groupIds c).tail ++ (groupIds c).head?.toList

def decimal (n : Nat) : List Nat := (toString n).toList.map Char.toNat
def caption (g : Nat) : List Nat := if g == 0 then [] else [71, 114, 111, 117, 112] ++ decimal g      -- "Group<g>"
def formatGroup (g : Nat) : List Nat := if (caption g).isEmpty then [] else [10] ++ caption g ++ [58, 10, 10]

def activeLevel (x : Nat) : Nat := min x 4

/-- column width: `max(23, max over ALL groups of OptionGroup::maxColumn(dl))` -/
def maxWidth (c : Context) (dl : Nat) : Nat :=
  (groupIds c).foldl (fun w g => max w (((members c g).filter (fun k => (optOf c k).level ≤ dl)).foldl (fun m k => max m (maxColumn (optOf c k))) 0)) 23

/-- `OptionGroup::format` through `OptionOutputImpl<StringWriter>::printOption` -/
def formatMembers (c : Context) (g : Nat) (maxW dl : Nat) (out : List Nat) : List Nat :=
  (members c g).foldl (fun out k =>
    if (optOf c k).level ≤ dl then out ++ (formatOpt (optOf c k) maxW).text ++ formatDesc (optOf c k) else out) out

/-- `OptionContext::description(StringOut)` at active level `dl` -/
def description (c : Context) (dl : Nat) : List Nat :=
  let maxW := maxWidth c dl
  (printOrder c).foldl (fun out g =>
    if groupLevel c g ≤ dl then formatMembers c g maxW dl (out ++ formatGroup g) else out) []

/-- any sprintf of the description overran its buffer? -/
def descriptionViol (c : Context) (dl : Nat) : Bool :=
  (List.range c.opts.length).any (fun k => (optOf c k).level ≤ dl && (formatOpt (optOf c k) (maxWidth c dl)).viol)

/-- `OptionContext::defaults(n)`: state = (text, current line length) -/
def defaultsStep (n : Nat) (st : List Nat × Nat) (o : OptSpec) : List Nat × Nat :=
  match o.dflt with
  | none => st
  | some d =>
    let opt := [45, 45] ++ o.name ++ [61] ++ d
    let st := if st.2 + opt.length > 78 then (st.1 ++ [10] ++ List.replicate n 32, n) else st
    (st.1 ++ opt ++ [32], st.2 + opt.length + 1)

def defaults (c : Context) (dl n : Nat) : List Nat :=
  ((printOrder c).foldl (fun st g =>
    if groupLevel c g ≤ dl then
      (members c g).foldl (fun st k => if (optOf c k).level ≤ dl then defaultsStep n st (optOf c k) else st) st
    else st) (([] : List Nat), n)).1

end PotasscoVerif.OptFormat
