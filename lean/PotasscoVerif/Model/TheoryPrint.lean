/-
  `Potassco::print(AbstractProgram&, Id_t, const TheoryTerm&)` / `print(AbstractProgram&, const TheoryAtom&)`
  (potassco/theory_data.h:380-390): the call with which a stored term / atom is re-emitted through the program interface,
  and the store seen as the receiver of such calls.
-/
import PotasscoVerif.Model.Program
import PotasscoVerif.Model.TheoryData
namespace PotasscoVerif.TheoryData
open PotasscoVerif

/-- `print(out, id, term)` -/
def Term.call (id : Nat) : Term → Call
  | .num n => .theoryNum id n
  | .sym nm => .theorySym id nm
  | .comp base args => .theoryCompound id base args

/-- `print(out, atom)` -/
def Atom.call (a : Atom) : Call := .theoryAtom a.atom a.term a.elems a.guard

/-- re-emission of the terms with ids below `n`, in id order -/
def TD.printTermsBelow (d : TD) (n : Nat) : List Call := (List.range n).filterMap (fun i => (d.getTerm i).map (Term.call i))
def TD.printTerms (d : TD) : List Call := d.printTermsBelow d.terms.length
/-- re-emission of the atoms, in storage order -/
def TD.printAtoms (d : TD) : List Call := d.atoms.map Atom.call

/-- a store receiving theory calls (what readers do with them); other calls do not concern it; `none` = refused (redefinition) -/
def TD.receive (d : TD) : Call → Option TD
  | .theoryNum id n => d.addTerm id (.num n)
  | .theorySym id nm => d.addTerm id (.sym nm)
  | .theoryCompound id base args => d.addTerm id (.comp base args)
  | .theoryAtom a t es g => some (d.addAtom { atom := a, term := t, elems := es, guard := g })
  | _ => some d

end PotasscoVerif.TheoryData
