/-
  Model of `Potassco::SmodelsInput` (src/smodels.cpp:57-245) without the conversion of `_edge`/`_heuristic`
  predicates (options `cEdge`, `cHeuristic`, `filter` off; those are modelled in Model/SmodelsConv.lean),
  over the abstract character stream, on top of the parsers of Model/AspifIn.lean.
-/
import PotasscoVerif.Model.AspifIn
namespace PotasscoVerif.SmodelsIn
open PotasscoVerif PotasscoVerif.CharStream PotasscoVerif.AspifIn

/-- `enum SmodelsRule` (smodels.cpp:34-40). -/
def Basic := 1
def Cardinality := 2
def Choice := 3
def Weight := 5
def Optimize := 6
def Disjunctive := 8
def ClaspIncrement := 90
def ClaspAssignExt := 91
def ClaspReleaseExt := 92

/-- the first `neg` atoms of a body are negative. -/
def signed : Nat → List Nat → List Int
  | _, [] => []
  | 0, a :: r => (a : Int) :: signed 0 r
  | n + 1, a :: r => -(a : Int) :: signed n r

/-- `matchBody`: `len neg a1 … alen`. -/
def body : P (List Int) := fun a => do
  let (len, a) ← pos a
  let (neg, a) ← pos a
  let (as, a) ← rep atom len [] a
  pure (signed neg as, a)

/-- `matchSum(rule, weights)`: returns bound and weight literals (weights may be 0 here: they are
    written over literals that were added with weight 1). -/
def sum (weights : Bool) : P (Int × List (Int × Int)) := fun a => do
  let (x, a) ← pos a
  let (y, a) ← pos a
  let (z, a) ← pos a
  let bnd : Nat := if weights then x else z
  let len : Nat := if weights then y else x
  let neg : Nat := if weights then z else y
  if bnd > I32MAX.toNat then .error a.line else          -- repaired (D4): "bound out of range"
  match rep atom len [] a with
  | .error l => .error l
  | .ok (as, a) =>
    let ls := signed neg as
    if weights then
      match rep (posMax I32MAX.toNat) len [] a with
      | .error l => .error l
      | .ok (ws, a) => .ok (((bnd : Int), ls.zip (ws.map (fun (w : Nat) => Int.ofNat w))), a)
    else .ok (((bnd : Int), ls.map (fun l => (l, 1))), a)

/-- one rule of type `rt ≠ 0`; `prio` is the running minimize priority. -/
def ruleOf (ext : Bool) (rt : Nat) (prio : Nat) : P (Option Call × Nat) := fun a =>
  if rt = Choice ∨ rt = Disjunctive then do
    let (n, a) ← atom a                              -- "positive head size expected"
    let (hd, a) ← rep atom n [] a
    let (b, a) ← body a
    pure ((some (.rule (if rt = Choice then 1 else 0) hd b), prio), a)
  else if rt = Basic then do
    let (h, a) ← atom a
    let (b, a) ← body a
    pure ((some (.rule 0 [h] b), prio), a)
  else if rt = Cardinality ∨ rt = Weight then do
    let (h, a) ← atom a
    let ((bnd, wl), a) ← sum (rt = Weight) a
    pure ((some (.sumRule 0 [h] bnd wl), prio), a)
  else if rt = Optimize then do
    let ((_, wl), a) ← sum true a
    pure ((some (.minimize prio wl), prio + 1), a)
  else if rt = ClaspIncrement then do
    if !ext then throw a.line
    let (z, a) ← pos a
    if z ≠ 0 then throw a.line
    pure ((none, prio), a)
  else if rt = ClaspAssignExt then do
    if !ext then throw a.line
    let (h, a) ← atom a
    let (v, a) ← posMax 2 a
    pure ((some (.external h ((v ^^^ 3) - 1)), prio), a)
  else if rt = ClaspReleaseExt then do
    if !ext then throw a.line
    let (h, a) ← atom a
    pure ((some (.external h 3), prio), a)
  else .error a.line

/-- generic "loop until 0" collecting calls; returns what was delivered also on error. -/
def rulesLoop (ext : Bool) : Nat → AS → Nat → List Call → (List Call × Except Nat AS)
  | 0, a, _, acc => (acc.reverse, .error a.line)
  | f + 1, a, prio, acc =>
    match pos a with
    | .error l => (acc.reverse, .error l)
    | .ok (rt, a1) =>
      if rt = 0 then (acc.reverse, .ok a1) else
      match ruleOf ext rt prio a1 with
      | .error l => (acc.reverse, .error l)
      | .ok ((c, prio'), a2) => rulesLoop ext f a2 prio' (match c with | some c => c :: acc | none => acc)

/-- the name of a symbol: characters up to the end of the line (through `get`, so CR/CRLF end it too). -/
def nameLoop : Nat → AS → List Nat → Except Nat (List Nat × AS)
  | 0, a, _ => .error a.line
  | f + 1, a, acc =>
    let (c, a') := a.get
    if c == 10 then .ok (acc.reverse, a')
    else if c == 0 then .error a'.line
    else nameLoop f a' (c :: acc)

def symbolsLoop : Nat → AS → List Call → (List Call × Except Nat AS)
  | 0, a, acc => (acc.reverse, .error a.line)
  | f + 1, a, acc =>
    match posMax Gen.atomMax a with                   -- repaired (D4)
    | .error l => (acc.reverse, .error l)
    | .ok (x, a1) =>
      if x = 0 then (acc.reverse, .ok a1) else
      let a2 := a1.get.2
      match nameLoop (a2.rest.length + 1) a2 [] with
      | .error l => (acc.reverse, .error l)
      | .ok (nm, a3) => symbolsLoop f a3 (.output nm [(x : Int)] :: acc)

/-- `readCompute(comp, val)`: `B+`/`B-`, newline, atoms until 0. -/
def computeLoop (val : Bool) : Nat → AS → List Call → (List Call × Except Nat AS)
  | 0, a, acc => (acc.reverse, .error a.line)
  | f + 1, a, acc =>
    match posMax Gen.atomMax a with                   -- repaired (D4)
    | .error l => (acc.reverse, .error l)
    | .ok (x, a1) =>
      if x = 0 then (acc.reverse, .ok a1) else
      computeLoop val f a1 (.rule 0 [] [if val then -(x : Int) else (x : Int)] :: acc)

def compute (tok : List Nat) (val : Bool) (a : AS) : (List Call × Except Nat AS) :=
  let a0 := a.skipWs
  let (ok, a1) := a0.matchTok tok
  if !ok then ([], .error a1.line) else
  let (c, a2) := a1.get
  if c ≠ 10 then ([], .error a2.line) else
  computeLoop val (a2.rest.length + 1) a2 []

def extLoop : Nat → AS → List Call → (List Call × Except Nat AS)
  | 0, a, acc => (acc.reverse, .error a.line)
  | f + 1, a, acc =>
    match posMax Gen.atomMax a with                   -- repaired (D4)
    | .error l => (acc.reverse, .error l)
    | .ok (x, a1) =>
      if x = 0 then (acc.reverse, .ok a1) else extLoop f a1 (.external x 0 :: acc)

/-- `readExtra()`. -/
def extra (a : AS) : (List Call × Except Nat AS) :=
  let a0 := a.skipWs
  let (ok, a1) := a0.matchTok [69]
  let (cs, r) := if ok then extLoop (a1.rest.length + 1) a1 [] else ([], .ok a1)
  match r with
  | .error l => (cs, .error l)
  | .ok a2 =>
    match pos a2 with
    | .error l => (cs, .error l)
    | .ok (_, a3) => (cs, .ok a3)

/-- `doParse()` between `beginStep` and `endStep`. -/
def step (ext : Bool) (a : AS) : (List Call × Except Nat AS) :=
  let (c1, r1) := rulesLoop ext (a.rest.length + 1) a 0 []
  match r1 with
  | .error l => (c1, .error l)
  | .ok a1 =>
    let (c2, r2) := symbolsLoop (a1.rest.length + 1) a1 []
    match r2 with
    | .error l => (c1 ++ c2, .error l)
    | .ok a2 =>
      let (c3, r3) := compute [66, 43] true a2
      match r3 with
      | .error l => (c1 ++ c2 ++ c3, .error l)
      | .ok a3 =>
        let (c4, r4) := compute [66, 45] false a3
        match r4 with
        | .error l => (c1 ++ c2 ++ c3 ++ c4, .error l)
        | .ok a4 =>
          let (c5, r5) := extra a4
          (c1 ++ c2 ++ c3 ++ c4 ++ c5, r5)

def stepsLoop (ext : Bool) : Nat → Bool → AS → List Call → Result
  | 0, _, _, acc => { calls := acc, err := some 0 }
  | f + 1, inc, a, acc =>
    let (cs, r) := step ext a
    let acc1 := acc ++ [.beginStep] ++ cs
    match r with
    | .error l => { calls := acc1, err := some l }
    | .ok a1 =>
      let acc2 := acc1 ++ [.endStep]
      let (m, a2) := more a1
      if m && !inc then { calls := acc2, err := some a2.line }
      else if m then stepsLoop ext f inc a2 acc2
      else { calls := acc2, err := none }

/-- `readProgram(str, SmodelsInput(out, {claspExt := ext}), handler)`. -/
def read (ext : Bool) (input : List Nat) : Result :=
  let a := AS.init input
  let n := a.peek
  let inc := n == 57
  if BufferedStream.isDigit n && (!inc || ext) then
    stepsLoop ext (a.rest.length + 1) inc a [.initProgram inc]
  else { calls := [], err := some a.line }

/-! #### reading step by step: `accept`, then `do parse(Incremental) while (more())` (as Model/AspifIn.lean) -/

def parseInc (ext inc : Bool) (a : AS) : List Call × Except Nat AS :=
  let r := step ext a
  match r.2 with
  | .error l => (.beginStep :: r.1, .error l)
  | .ok a1 =>
    let m := more a1.skipWs
    if m.1 && !inc then (.beginStep :: r.1 ++ [.endStep], .error m.2.line)
    else (.beginStep :: r.1 ++ [.endStep], .ok m.2)

def incLoop (ext : Bool) : Nat → Bool → AS → List Call → Result
  | 0, _, _, acc => { calls := acc, err := some 0 }
  | f + 1, inc, a, acc =>
    let p := parseInc ext inc a
    match p.2 with
    | .error l => { calls := acc ++ p.1, err := some l }
    | .ok a1 =>
      let m := more a1
      if m.1 then incLoop ext f inc m.2 (acc ++ p.1) else { calls := acc ++ p.1, err := none }

def readInc (ext : Bool) (input : List Nat) : Result :=
  let a := AS.init input
  let n := a.peek
  let inc := n == 57
  if BufferedStream.isDigit n && (!inc || ext) then
    incLoop ext (a.rest.length + 1) inc a [.initProgram inc]
  else { calls := [], err := some a.line }

end PotasscoVerif.SmodelsIn
