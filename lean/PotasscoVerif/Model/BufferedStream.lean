/-
  Model of `Potassco::BufferedStream` (src/match_basic_types.cpp:50-140, potassco/match_basic_types.h:39-90).

  Conventions
  * bytes are `Nat` (< 256 in every run of the driver), text is `List Nat`;
  * `B` is `BufferedStream::BUF_SIZE` (a parameter: theorems are for every `B ≥ 2`, the generated
    constant `Gen.BUF_SIZE` is one instance);
  * `win`  = `buf_[0 .. fill)`, the bytes that are in the window; `buf_[fill]` is the 0 sentinel written by
    `underflow`; cells behind the sentinel are never looked at by the model: an access with an index
    `> fill` sets the ghost flag `viol` (this is what "reads bytes it did not read from the input" means);
  * `src`  = what the `std::istream` has not delivered yet, `good` = `!!str_`
    (`istream::read(p,n)` delivers `min n |src|` bytes and sets failbit iff fewer than `n` were there);
  * loops are structural or fuelled by the amount of input left.
-/
namespace PotasscoVerif.BufferedStream

structure BS where
  win  : List Nat
  rpos : Nat
  line : Nat
  src  : List Nat
  good : Bool
  viol : Bool := false      -- ghost: some access left `[0, fill]` or a store left `[0, B]`
deriving Repr, DecidableEq

/-- `buf_[i]` for `i ≤ fill`; the sentinel reads as 0. -/
def BS.cell (s : BS) (i : Nat) : Nat := s.win.getD i 0

/-- `peek()` : `buf_[rpos_]`. -/
def BS.peek (s : BS) : Nat := s.cell s.rpos

def BS.atEnd (s : BS) : Bool := s.peek == 0

/-- `underflow(upPos)` (match_basic_types.cpp:81-92). -/
def underflow (B : Nat) (s : BS) (upPos : Bool) : BS :=
  if !s.good then s else
  let keep  := if upPos && 0 < s.rpos then [s.cell (s.rpos - 1)] else s.win.take s.rpos
  let rpos' := if upPos && 0 < s.rpos then 1 else s.rpos
  let n     := B + 1 - (1 + rpos')
  let got   := s.src.take n
  { s with win := keep ++ got, rpos := rpos', src := s.src.drop n,
           good := decide (n ≤ s.src.length),
           viol := s.viol || decide (s.win.length < s.rpos) || decide (B < rpos' + got.length) }

/-- `rget()` : `c = peek(); if (!buf_[++rpos_]) underflow(); return c`. -/
def rget (B : Nat) (s : BS) : Nat × BS :=
  let c  := s.peek
  let s1 := { s with rpos := s.rpos + 1, viol := s.viol || decide (s.win.length < s.rpos + 1) }
  (c, if s1.cell s1.rpos == 0 then underflow B s1 true else s1)

/-- `get()`. -/
def get (B : Nat) (s : BS) : Nat × BS :=
  let c := s.peek
  if c == 0 then (0, s) else
  let s1 := (rget B s).2
  if c == 13 then
    let s2 := if s1.peek == 10 then (rget B s1).2 else s1
    (10, { s2 with line := s2.line + 1 })
  else if c == 10 then (10, { s1 with line := s1.line + 1 })
  else (c, s1)

def isWs (c : Nat) : Bool := 9 ≤ c && c < 33

/-- `skipWs()`; fuel = number of bytes that can still be extracted + 1. -/
def skipWsF (B : Nat) : Nat → BS → BS
  | 0, s => s
  | f + 1, s => if isWs s.peek then skipWsF B f (get B s).2 else s

def BS.avail (s : BS) : Nat := (s.win.length - s.rpos) + s.src.length

def skipWs (B : Nat) (s : BS) : BS := skipWsF B (s.avail + 1) s

/-- `--line_` on the `unsigned` line counter (match_basic_types.h:90): at 0 it wraps to `2^32 - 1`
    (only reachable by ungetting a newline that was never extracted).  The model keeps a representative
    of the counter modulo `2^32`: `++line_` stays `+ 1`, and `line()` is observed modulo `2^32` (`step`). -/
def decLine (l : Nat) : Nat := if l = 0 then 4294967295 else l - 1

/-- `unget(c)`. -/
def unget (s : BS) (c : Nat) : Bool × BS :=
  if s.rpos == 0 then (false, s) else
  let r := s.rpos - 1
  (true, { s with win := s.win.set r c, rpos := r,
                  line := if c == 10 then decLine s.line else s.line,
                  viol := s.viol || decide (s.win.length ≤ r) })

/-- `strncmp(w, buf_ + rpos_, |w|) == 0` for a NUL-free `w`: all of `w` is in the window at `rpos`.
    (`strncmp` stops at the first difference, so it never reads behind the sentinel.) -/
def startsAt (s : BS) (w : List Nat) : Bool := w.isPrefixOf (s.win.drop s.rpos)

/-- the compaction path of `match`: `memcpy(buf_, buf_ + rpos_, bLen); rpos_ = bLen; underflow(false); rpos_ = 0;`
    with `bLen = BUF_SIZE - rpos_`. -/
def compact (B : Nat) (s : BS) : BS :=
  let bLen := B - s.rpos
  let keep := s.win.drop s.rpos
  if s.good then
    -- the window is full, so `keep` is exactly the `bLen` copied bytes; `underflow(false)` reads
    -- `ALLOC_SIZE - (1 + bLen)` bytes behind them and writes the sentinel behind what it got
    let n   := B + 1 - (1 + bLen)
    let got := s.src.take n
    { s with win := keep ++ got, rpos := 0, src := s.src.drop n, good := decide (n ≤ s.src.length),
             viol := s.viol || decide (keep.length ≠ bLen) || decide (B < bLen + got.length) }
  else
    -- `underflow(false)` returns at once; the sentinel was inside the copied range iff fill < B
    { s with win := keep, rpos := 0, viol := s.viol || decide (B ≤ s.win.length) || decide (B < s.rpos) }

/-- the common tail of `match`: `strncmp(...) == 0` then `if (!buf_[rpos_ += wLen]) underflow();`. -/
def matchHere (B : Nat) (s1 : BS) (w : List Nat) : Bool × BS :=
  if startsAt s1 w then
    let s2 := { s1 with rpos := s1.rpos + w.length }
    (true, if s2.cell s2.rpos == 0 then underflow B s2 true else s2)
  else (false, s1)

/-- `match(const char* w)` (match_basic_types.cpp:98-112).  `w` non-empty, NUL-free, `|w| ≤ B`
    (the C++ asserts the latter; the model returns `none` for the assertion failure). -/
def matchTok (B : Nat) (s : BS) (w : List Nat) : Option (Bool × BS) :=
  let bLen := B - s.rpos
  if bLen < w.length ∧ B < w.length then none else
  some (matchHere B (if bLen < w.length then compact B s else s) w)

def isDigit (c : Nat) : Bool := 48 ≤ c && c ≤ 57
def toDigit (c : Nat) : Nat := c - 48

/-- 2^63 - 1, the largest `int64_t`. -/
def I64MAX : Nat := 9223372036854775807

/-- one step of the (repaired, D1) digit loop:
    `res = res <= (INT64_MAX - d) / 10 ? res*10 + d : INT64_MAX`. -/
def satStep (acc d : Nat) : Nat := if acc ≤ (I64MAX - d) / 10 then acc * 10 + d else I64MAX

/-- the digit loop of `match(int64_t&)`: while `isDigit(peek())` accumulate `toDigit(rget())`. -/
def digitsF (B : Nat) : Nat → BS → Nat → (Nat × BS)
  | 0, s, acc => (acc, s)
  | f + 1, s, acc =>
    if isDigit s.peek then
      let (c, s1) := rget B s
      digitsF B f s1 (satStep acc (toDigit c))
    else (acc, s)

inductive IntRes where
  | fail                    -- returned false
  | val (v : Int)           -- returned true with this value
deriving Repr, DecidableEq

/-- the part of `match(int64_t&)` after the optional sign `sg`. -/
def matchIntDigits (B : Nat) (s1 : BS) (sg : Nat) : IntRes × BS :=
  if !isDigit s1.peek then (.fail, s1) else
  let r := digitsF B (s1.avail + 1) s1 0
  (.val (if sg == 45 then - (r.1 : Int) else (r.1 : Int)), r.2)

/-- `match(int64_t& res, bool noSkipWs)` after the optional `skipWs()`. -/
def matchIntCore (B : Nat) (s0 : BS) : IntRes × BS :=
  matchIntDigits B (if s0.peek == 43 || s0.peek == 45 then (rget B s0).2 else s0) s0.peek

/-- `match(int64_t& res, bool noSkipWs)`. -/
def matchInt (B : Nat) (s : BS) (noSkipWs : Bool) : IntRes × BS :=
  matchIntCore B (if noSkipWs then s else skipWs B s)

/-- `copy(out, max)` for `max ≥ 0`: chunks bounded by what is in the window. -/
def copyF (B : Nat) : Nat → BS → Nat → List Nat → (List Nat × BS)
  | 0, s, _, out => (out, s)
  | f + 1, s, n, out =>
    if n == 0 || s.peek == 0 then (out, s) else
    -- bytes up to the first 0 (the sentinel for NUL-free data; repaired, D2), at most `n`
    let chunk := ((s.win.drop s.rpos).takeWhile (· != 0)).take n
    let m := chunk.length
    let s1 := { s with rpos := s.rpos + m }
    let s2 := if s1.cell s1.rpos == 0 then underflow B s1 true else s1     -- `if (!peek()) underflow();`
    copyF B f s2 (n - m) (out ++ chunk)

def copy (B : Nat) (s : BS) (n : Nat) : List Nat × BS := copyF B (s.avail + 1) s n []

/-- constructor: `rpos_ = 0, line_ = 1, underflow()`. -/
def BS.init (B : Nat) (input : List Nat) : BS :=
  underflow B { win := [], rpos := 0, line := 1, src := input, good := true } true

/-! ### operations and observations (shared with the abstract stream and the line protocol) -/

inductive Op where
  | peek | get | unget (c : Nat) | skipWs | matchTok (w : List Nat)
  | matchInt (noSkipWs : Bool) | copy (n : Nat) | atEnd | line
deriving Repr, DecidableEq

inductive Obs where
  | char (c : Nat) | bool (b : Bool) | int (r : IntRes) | bytes (bs : List Nat)
  | nat (n : Nat) | unit | assertFail
deriving Repr, DecidableEq

def step (B : Nat) (s : BS) : Op → Obs × BS
  | .peek => (.char s.peek, s)
  | .get => let (c, s') := get B s; (.char c, s')
  | .unget c => let (b, s') := unget s c; (.bool b, s')
  | .skipWs => (.unit, skipWs B s)
  | .matchTok w =>
    match matchTok B s w with
    | none => (.assertFail, s)
    | some (b, s') => (.bool b, s')
  | .matchInt n => let (r, s') := matchInt B s n; (.int r, s')
  | .copy n => let (bs, s') := copy B s n; (.bytes bs, s')
  | .atEnd => (.bool s.atEnd, s)
  | .line => (.nat (s.line % 4294967296), s)

def run (B : Nat) : BS → List Op → List Obs
  | _, [] => []
  | s, op :: ops => let (o, s') := step B s op; o :: run B s' ops

end PotasscoVerif.BufferedStream
