/-
  Model of `SmodelsInput` WITH its options (`claspExt`, `convertEdges`, `convertHeuristic`, `dropConverted`):
  `readSymbols` with `NodeTab`/`SymTab` (src/smodels.cpp:58-90, 186-229) and the C-string matchers it uses
  (src/match_basic_types.cpp: `matchAtomArg`, `match(…, Heuristic_t&)`, `match(…, int&)`, `matchDomHeuPred`,
  `matchEdgePred`).  Rules, compute statements and the E-section are Model/SmodelsIn.lean.

  The matchers work on a `const char*&` that they advance as they go — also when they finally fail; the model returns the
  remaining text with every result.
-/
import PotasscoVerif.Model.SmodelsIn
import PotasscoVerif.Model.StringConvert
namespace PotasscoVerif.SmodelsSym
open PotasscoVerif PotasscoVerif.CharStream
open PotasscoVerif.AspifIn (P Result pos posMax more)
open PotasscoVerif.SmodelsIn (rulesLoop nameLoop compute extra)

structure Opts where
  ext    : Bool := false
  cEdge  : Bool := false
  cHeu   : Bool := false
  filter : Bool := false
deriving Repr, DecidableEq

def s (x : String) : List Nat := x.toList.map Char.toNat

/-- `match(const char*&, const char*)` -/
def eat (w inp : List Nat) : Bool × List Nat := if w.isPrefixOf inp then (true, inp.drop w.length) else (false, inp)

/-- the scan of `matchAtomArg`: `none` = unterminated string; otherwise (argument, rest). fuel = characters + 1 -/
def argScan : Nat → List Nat → Int → Bool → Bool → List Nat → Option (List Nat × List Nat)
  | 0, inp, _, _, _, acc => some (acc, inp)
  | _ + 1, [], _, inStr, _, acc => if inStr then none else some (acc, [])
  | f + 1, c :: r, p, inStr, quoted, acc =>
    if inStr then
      if c == 34 && !quoted then argScan f r p false false (acc ++ [c])
      else argScan f r p true (!quoted && c == 92) (acc ++ [c])
    else if c == 40 then argScan f r (p + 1) false false (acc ++ [c])
    else if c == 41 then (if p - 1 < 0 then some (acc, c :: r) else argScan f r (p - 1) false false (acc ++ [c]))
    else if c == 44 then (if p == 0 then some (acc, c :: r) else argScan f r p false false (acc ++ [c]))
    else if c == 34 then argScan f r p true false (acc ++ [c])
    else argScan f r p false false (acc ++ [c])

/-- `matchAtomArg(input, arg)`: (ok, arg, rest) -/
def atomArg (inp : List Nat) : Bool × List Nat × List Nat :=
  match argScan (inp.length + 1) inp 0 false false [] with
  | none => (false, [], inp)
  | some (arg, rest) => (!arg.isEmpty, arg, rest)

def heuNames : List (List Nat) := [s "level", s "sign", s "factor", s "init", s "true", s "false"]

def heuType : List (List Nat) → Nat → List Nat → Option (Nat × List Nat)
  | [], _, _ => none
  | w :: ws, x, inp => if w.isPrefixOf inp then some (x, inp.drop w.length) else heuType ws (x + 1) inp

/-- `match(const char*&, int&)`: strtol base 10 with the range check -/
def cInt (inp : List Nat) : Option (Int × List Nat) :=
  let r := StringConvert.strto inp 10
  let v : Int := if r.neg then -(r.mag : Int) else (r.mag : Int)
  if r.used == 0 ∨ v < -2147483648 ∨ v > 2147483647 then none else some (v, inp.drop r.used)

structure Heu where
  atom : List Nat
  type : Nat
  bias : Int
  prio : Nat
  cond : Nat
deriving Repr, DecidableEq

/-- `matchDomHeuPred`: the return code, the fields, and the advanced pointer -/
def domHeuPred (inp : List Nat) : Int × List Nat × Nat × Int × Nat × List Nat :=
  let e0 := eat (s "_heuristic(") inp
  if !e0.1 then (0, [], 0, 0, 0, e0.2) else
  let a := atomArg e0.2
  if !a.1 then (-1, a.2.1, 0, 0, 0, a.2.2) else
  let e1 := eat [44] a.2.2
  if !e1.1 then (-1, a.2.1, 0, 0, 0, e1.2) else
  match heuType heuNames 0 e1.2 with
  | none => (-2, a.2.1, 0, 0, 0, e1.2)
  | some (ty, r2) =>
    let e2 := eat [44] r2
    if !e2.1 then (-2, a.2.1, ty, 0, 0, e2.2) else
    match cInt e2.2 with
    | none => (-3, a.2.1, ty, 0, 0, e2.2)
    | some (bias, r3) =>
      let prio0 := bias.natAbs                        -- repaired (D15): |INT_MIN| computed without overflow
      let e3 := eat [44] r3
      if !e3.1 then
        let e4 := eat [41] e3.2
        (if e4.1 then 1 else -3, a.2.1, ty, bias, prio0, e4.2)
      else
        match cInt e3.2 with
        | none => (-4, a.2.1, ty, bias, prio0, e3.2)
        | some (p, r4) =>
          if p < 0 then (-4, a.2.1, ty, bias, prio0, r4) else
          let e5 := eat [41] r4
          (if e5.1 then 1 else -4, a.2.1, ty, bias, p.toNat, e5.2)

def isCSpace (c : Nat) : Bool := c == 32 || (9 ≤ c && c ≤ 13)
def isDig (c : Nat) : Bool := 48 ≤ c && c ≤ 57

/-- `%*d` of sscanf: blanks, optional sign, at least one digit: the rest, or `none` -/
def scanD (inp : List Nat) : Option (List Nat) :=
  let a := inp.dropWhile isCSpace
  let b := match a with | c :: r => if c == 43 || c == 45 then r else a | [] => a
  if (b.takeWhile isDig).isEmpty then none else some (b.dropWhile isDig)

/-- `matchEdgePred`: code, n0, n1, advanced pointer -/
def edgePred (inp : List Nat) : Int × List Nat × List Nat × List Nat :=
  let acyc : Option (List Nat × List Nat × List Nat) := do
    let e := eat (s "_acyc_") inp
    if !e.1 then none
    let r1 ← scanD e.2
    let u1 := eat [95] r1
    if !u1.1 then none
    let sRest := u1.2                                   -- %n: sPos
    let r2 ← scanD sRest
    let u2 := eat [95] r2
    if !u2.1 then none
    let tRest := u2.2                                   -- %n: tPos
    let r3 ← scanD tRest                                -- %n: ePos
    -- n0 = in[sPos, tPos-1), n1 = in[tPos, ePos)
    pure (sRest.take (sRest.length - tRest.length - 1), tRest.take (tRest.length - r3.length), r3)
  match acyc with
  | some (n0, n1, rest) => (if !n0.isEmpty && !n1.isEmpty then 1 else -1, n0, n1, rest)
  | none =>
    let e := eat (s "_edge(") inp
    if !e.1 then (0, [], [], inp) else
    let a0 := atomArg e.2
    if !a0.1 then (-1, a0.2.1, [], a0.2.2) else
    let c := eat [44] a0.2.2
    if !c.1 then (-1, a0.2.1, [], c.2) else
    let a1 := atomArg c.2
    if !a1.1 then (-2, a0.2.1, a1.2.1, a1.2.2) else
    let p := eat [41] a1.2.2
    (if p.1 then 1 else -2, a0.2.1, a1.2.1, p.2)

structure Tabs where
  nodes : List (List Nat) := []                         -- NodeTab: id = position (first insertion)
  atoms : Option (List (List Nat × Nat)) := none        -- SymTab::atoms (name ↦ atom; first insertion wins)
deriving Repr, DecidableEq

/-- position of a name in the node table, counting from `i` -/
def idxOf? (n : List Nat) : List (List Nat) → Nat → Option Nat
  | [], _ => none
  | x :: r, i => if x == n then some i else idxOf? n r (i + 1)

def Tabs.addNode (t : Tabs) (n : List Nat) : Tabs × Nat :=
  match idxOf? n t.nodes 0 with
  | some i => (t, i)
  | none => ({ t with nodes := t.nodes ++ [n] }, t.nodes.length)

def Tabs.findAtom (t : Tabs) (n : List Nat) : Nat :=
  match t.atoms with
  | some m => ((m.find? (fun p => p.1 == n)).map (·.2)).getD 0
  | none => 0

/-- is the name one of the helper predicates (with the conversions that are switched on)? what does it contribute? -/
def recognise (o : Opts) (t : Tabs) (atom : Nat) (name : List Nat) (doms : List Heu) : Tabs × List Call × List Heu × Bool :=
  let ep := if o.cEdge then edgePred name else (0, [], [], name)
  if o.cEdge && 0 < ep.1 then
    let n0 := t.addNode ep.2.1
    let n1 := n0.1.addNode ep.2.2.1
    (n1.1, [.acycEdge (n0.2 : Int) (n1.2 : Int) [(atom : Int)]], doms, o.filter)
  else
    let hp := if o.cHeu then domHeuPred ep.2.2.2 else (0, [], 0, 0, 0, [])
    if o.cHeu && 0 < hp.1 then (t, [], doms ++ [{ atom := hp.2.1, type := hp.2.2.1, bias := hp.2.2.2.1, prio := hp.2.2.2.2.1, cond := atom }], o.filter)
    else (t, [], doms, false)

/-- `atoms_->add(atom, name, !filter)` or the plain output -/
def record (r : Tabs × List Call × List Heu × Bool) (atom : Nat) (name : List Nat) : Tabs × List Call × List Heu :=
  let out := if !r.2.2.2 then [Call.output name [(atom : Int)]] else []
  match r.1.atoms with
  | some m => ({ r.1 with atoms := some (if m.any (fun p => p.1 == name) then m else m ++ [(name, atom)]) }, r.2.1 ++ out, r.2.2.1)
  | none => (r.1, r.2.1 ++ out, r.2.2.1)

/-- one symbol-table entry -/
def symbol (o : Opts) (t : Tabs) (atom : Nat) (name : List Nat) (doms : List Heu) : Tabs × List Call × List Heu :=
  record (recognise o t atom name doms) atom name

def symbolsLoop (o : Opts) : Nat → AS → Tabs → List Call → List Heu → (Tabs × List Call × List Heu × Except Nat AS)
  | 0, a, t, acc, d => (t, acc, d, .error a.line)
  | f + 1, a, t, acc, d =>
    match posMax Gen.atomMax a with
    | .error l => (t, acc, d, .error l)
    | .ok (x, a1) =>
      if x = 0 then (t, acc, d, .ok a1) else
      let a2 := a1.get.2
      match nameLoop (a2.rest.length + 1) a2 [] with
      | .error l => (t, acc, d, .error l)
      | .ok (nm, a3) =>
        let r := symbol o t x nm d
        symbolsLoop o f a3 r.1 (acc ++ r.2.1) r.2.2

/-- `readSymbols()` -/
def symbols (o : Opts) (inc : Bool) (t : Tabs) (a : AS) : Tabs × List Call × Except Nat AS :=
  let t0 : Tabs := if o.cHeu && t.atoms.isNone then { t with atoms := some [] } else t
  let r := symbolsLoop o (a.rest.length + 1) a t0 [] []
  match r.2.2.2 with
  | .error l => (r.1, r.2.1, .error l)
  | .ok a1 =>
    let hs := r.2.2.1.filterMap (fun h =>
      let x := r.1.findAtom h.atom
      if x != 0 then some (Call.heuristic x h.type h.bias h.prio [(h.cond : Int)]) else none)
    (if inc then r.1 else {}, r.2.1 ++ hs, .ok a1)

def step (o : Opts) (inc : Bool) (t : Tabs) (a : AS) : Tabs × List Call × Except Nat AS :=
  let (c1, r1) := rulesLoop o.ext (a.rest.length + 1) a 0 []
  match r1 with
  | .error l => (t, c1, .error l)
  | .ok a1 =>
    let r2 := symbols o inc t a1
    match r2.2.2 with
    | .error l => (r2.1, c1 ++ r2.2.1, .error l)
    | .ok a2 =>
      let (c3, r3) := compute [66, 43] true a2
      match r3 with
      | .error l => (r2.1, c1 ++ r2.2.1 ++ c3, .error l)
      | .ok a3 =>
        let (c4, r4) := compute [66, 45] false a3
        match r4 with
        | .error l => (r2.1, c1 ++ r2.2.1 ++ c3 ++ c4, .error l)
        | .ok a4 =>
          let (c5, r5) := extra a4
          (r2.1, c1 ++ r2.2.1 ++ c3 ++ c4 ++ c5, r5)

def stepsLoop (o : Opts) : Nat → Bool → Tabs → AS → List Call → Result
  | 0, _, _, _, acc => { calls := acc, err := some 0 }
  | f + 1, inc, t, a, acc =>
    let r := step o inc t a
    let acc1 := acc ++ [.beginStep] ++ r.2.1
    match r.2.2 with
    | .error l => { calls := acc1, err := some l }
    | .ok a1 =>
      let acc2 := acc1 ++ [.endStep]
      let m := more a1
      if m.1 && !inc then { calls := acc2, err := some m.2.line }
      else if m.1 then stepsLoop o f inc r.1 m.2 acc2
      else { calls := acc2, err := none }

/-- `readSmodels(in, out, handler, opts)` -/
def read (o : Opts) (input : List Nat) : Result :=
  let a := AS.init input
  let n := a.peek
  let inc := n == 57
  if BufferedStream.isDigit n && (!inc || o.ext) then stepsLoop o (a.rest.length + 1) inc {} a [.initProgram inc]
  else { calls := [], err := some a.line }

end PotasscoVerif.SmodelsSym
