/-
  Model of value assignment in src/program_options.cpp / value.h / typed_value.h / mapped_value.h:
  `Value::parse` (implicit substitution, state), the typed parsers behind `doParse`
  (string_cast<int|string|vector<int>>, FlagAction::store_true/store_false, ValueMapping, CustomValue,
  NotifiedValue with and without a kept location), `ParsedOptions::assign` (with the `Assign` scope guard that
  runs on success and on error), `Option::assignDefault` and `OptionContext::assignDefaults`.
-/
import PotasscoVerif.Model.Options
import PotasscoVerif.Model.StringConvert
namespace PotasscoVerif.OptAssign
open PotasscoVerif.Options PotasscoVerif.StringConvert

def IMIN : Int := -2147483648
def IMAX : Int := 2147483647

/-- what a bound target currently holds -/
inductive Stored where
  | int (v : Int)                                   -- kinds 0 (string_cast<int>), 6 (ValueMapping)
  | str (s : List Nat)                              -- kind 1
  | flag (b : Nat)                                  -- kinds 2 (store_true), 7 (store_false); 2 = never written
  | vec (l : List Int)                              -- kind 3
  | log (l : List (List Nat))                       -- kind 4: strings the custom notifier was called with
  | slot (v : Option Int) (log : List Int)          -- kinds 5 (ValueMap) and 8 (notifier that keeps values >= 0)
deriving Repr, DecidableEq

def initStored : Nat → Stored
  | 0 => .int (-777) | 1 => .str [60, 117, 110, 115, 101, 116, 62] | 2 => .flag 2 | 3 => .vec [] | 4 => .log []
  | 5 => .slot none [] | 6 => .int (-777) | 7 => .flag 2 | _ => .slot none []

/-- `string_cast<int>`: accepted iff the whole string is consumed; the target is WRITTEN as soon as a prefix converts
    (`12x` is refused but stores 12). Result: accepted?, value written (if any). -/
def castInt (x : List Nat) : Bool × Option Int :=
  match parseSigned x IMIN IMAX with
  | some (v, used) => (used == x.length, some v)
  | none => (false, none)

/-- the loop of `convert_seq<int>`: converted items and the unread rest. -/
def seqLoop : Nat → List Nat → List Int → (List Int × List Nat)
  | 0, n, acc => (acc, n)
  | f + 1, n, acc =>
    match parseSigned n IMIN IMAX with
    | none => (acc, n)
    | some (v, used) =>
      match n.drop used with
      | 44 :: c :: r => seqLoop f (c :: r) (acc ++ [v])
      | n' => (acc ++ [v], n')

/-- `string_cast<vector<int>>`: items are appended to the target; with no item the target is restored; a text that is
    not consumed completely is refused but the converted items stay appended. -/
def castVec (old : List Int) (x : List Nat) : Bool × List Int :=
  let b := x.head? == some 91
  let n0 := if b then x.tail else x
  let r := seqLoop (x.length + 1) n0 []
  let rem := if !b then r.2 else if r.2.head? == some 93 then r.2.tail else x
  if r.1.isEmpty then (false, old) else (rem.isEmpty, old ++ r.1)

/-- `FlagAction::store_true` on a non-empty or non-implicit string: result and the new flag byte. -/
def castFlagTrue (old : Nat) (x : List Nat) : Bool × Nat :=
  if x.isEmpty then (true, 1) else
  match parseBool x with
  | .val b used => (used == x.length, if b then 1 else 0)     -- written even when the text has a tail
  | _ => (false, old)

def castFlagFalse (old : Nat) (x : List Nat) : Bool × Nat :=
  if x.isEmpty then (true, 0) else
  match parseBool x with
  | .val b used => if used == x.length then (true, if b then 0 else 1) else (false, old)
  | _ => (false, old)

def lower (c : Nat) : Nat := if 65 ≤ c ∧ c ≤ 90 then c + 32 else c
/-- the mapping the harness registers: no→0, yes→1, maybe→2, auto→7 (strcasecmp). -/
def mapTable : List (List Nat × Int) :=
  [([110, 111], 0), ([121, 101, 115], 1), ([109, 97, 121, 98, 101], 2), ([97, 117, 116, 111], 7)]
def castMapped (x : List Nat) : Option Int := (mapTable.find? (fun p => p.1 == x.map lower)).map (·.2)

/-- `doParse` of the value kinds: accepted?, new target contents. -/
def doParse (kind : Nat) (old : Stored) (x : List Nat) : Bool × Stored :=
  match kind, old with
  | 0, .int v => let r := castInt x; (r.1, .int (r.2.getD v))
  | 1, .str _ => (true, .str x)
  | 2, .flag b => let r := castFlagTrue b x; (r.1, .flag r.2)
  | 3, .vec l => let r := castVec l x; (r.1, .vec r.2)
  | 4, .log l => (x.head? != some 120, .log (l ++ [x]))                      -- notifier refuses strings starting with 'x'
  | 5, .slot v lg =>                                -- a fresh object is created (and dropped when refused) until one was kept; then in place
    let r := castInt x
    match v with
    | none => if r.1 then (true, .slot r.2 lg) else (false, .slot none lg)
    | some old => (r.1, .slot (some (r.2.getD old)) lg)
  | 6, .int v => match castMapped x with | some w => (true, .int w) | none => (false, .int v)
  | 7, .flag b => let r := castFlagFalse b x; (r.1, .flag r.2)
  | 8, .slot v lg =>
    let r := castInt x
    match v, r with
    | none, (true, some w) => (true, .slot (if 0 ≤ w then some w else none) (lg ++ [w]))   -- accepted even when not kept
    | none, _ => (false, .slot none lg)
    | some old, (ok, w) => (ok, .slot (some (w.getD old)) (if ok then lg ++ [w.getD old] else lg))
  | _, o => (false, o)

structure Slot where
  state : Nat            -- 0 unassigned, 1 defaulted, 2 fixed
  val   : Stored
deriving Repr, DecidableEq

structure AState where
  slots  : List Slot
  parsed : List (List Nat)        -- ParsedOptions::parsed_ (a set of names)
deriving Repr, DecidableEq

def AState.init (c : Context) : AState := { slots := c.opts.map (fun o => { state := 0, val := initStored o.kind }), parsed := [] }

def implicitText (o : OptSpec) : List Nat := match o.implVal with | some (c :: r) => c :: r | _ => [49]

/-- `Value::parse(name, value, st)` -/
def valueParse (o : OptSpec) (sl : Slot) (value : List Nat) (st : Nat) : Bool × Slot :=
  let v := if value.isEmpty && o.implicit then implicitText o else value
  let r := doParse o.kind sl.val v
  (r.1, { state := if r.1 then st else sl.state, val := r.2 })

inductive AErr where
  | multiple (name value : List Nat) | invalid (name value : List Nat) | invalidDefault (name value : List Nat)
deriving Repr, DecidableEq

def slotOf (s : AState) (k : Nat) : Slot := s.slots.getD k { state := 0, val := .int 0 }
def setSlot (s : AState) (k : Nat) (sl : Slot) : AState := { s with slots := s.slots.set k sl }

/-- `ParsedOptions::assign(const Option&, const std::string&)`: 0 ok, 1 multiple occurrences, 2 invalid value. -/
def assignOne (c : Context) (s : AState) (k : Nat) (value : List Nat) : AState × Nat :=
  let o := optOf c k
  if !o.composing && s.parsed.contains o.name then (s, 0) else
  if !o.composing && (slotOf s k).state == 2 then (s, 1) else
  let r := valueParse o (slotOf s k) value 2
  (setSlot s k r.2, if r.1 then 0 else 2)

def ignored (c : Context) (excl : Option (List (List Nat))) (k : Nat) : Bool :=
  (match excl with | some e => e.contains (optOf c k).name | none => false) && !(optOf c k).composing

/-- the loop of `Assign::assign`: state, the entries passed (`[begin, it)`), error. -/
def assignLoop (c : Context) (excl : Option (List (List Nat))) : AState → List (Nat × List Nat) → AState × List (Nat × List Nat) × Option AErr
  | s, [] => (s, [], none)
  | s, (k, v) :: rest =>
    if ignored c excl k then
      let r := assignLoop c excl s rest
      (r.1, (k, v) :: r.2.1, r.2.2)
    else
      let a := assignOne c s k v
      if a.2 == 0 then
        let r := assignLoop c excl a.1 rest
        (r.1, (k, v) :: r.2.1, r.2.2)
      else if a.2 == 1 then (a.1, [], some (.multiple (optOf c k).name v))
      else (a.1, [], some (.invalid (optOf c k).name v))

def withParsed (s : AState) (p : List (List Nat)) : AState := { s with parsed := p }
def addParsed (p : List (List Nat)) (n : List Nat) : List (List Nat) := if p.contains n then p else p ++ [n]

/-- `Assign::~Assign`: every passed entry whose value is fixed is recorded and reset to unassigned. -/
def finish (c : Context) : AState → List (Nat × List Nat) → AState
  | s, [] => s
  | s, (k, _) :: rest =>
    if (slotOf s k).state == 2 then
      finish c (withParsed (setSlot s k { (slotOf s k) with state := 0 }) (addParsed s.parsed (optOf c k).name)) rest
    else finish c s rest

/-- `ParsedOptions::assign(const ParsedValues&, const ParsedOptions* exclude)` -/
def assignSource (c : Context) (s : AState) (vals : List (Nat × List Nat)) (excl : Option (List (List Nat))) : AState × Option AErr :=
  let r := assignLoop c excl s vals
  (finish c r.1 r.2.1, r.2.2)

/-- `OptionContext::assignDefaults(parsed)` over the options `k, k+1, …` -/
def defaultsLoop (c : Context) : AState → List OptSpec → Nat → AState × Option AErr
  | s, [], _ => (s, none)
  | s, o :: rest, k =>
    if s.parsed.contains o.name then defaultsLoop c s rest (k + 1) else
    match o.dflt with
    | none => defaultsLoop c s rest (k + 1)
    | some d =>
      if (slotOf s k).state == 1 then defaultsLoop c s rest (k + 1) else
      let r := valueParse o (slotOf s k) d 1
      if r.1 then defaultsLoop c (setSlot s k r.2) rest (k + 1)
      else (setSlot s k r.2, some (.invalidDefault o.name d))

def assignDefaults (c : Context) (s : AState) : AState × Option AErr := defaultsLoop c s c.opts 0

inductive Step where
  | source (vals : List (Nat × List Nat)) (excl : Option (List (List Nat)))
  | defaults
deriving Repr, DecidableEq

def step (c : Context) (s : AState) : Step → AState × Option AErr
  | .source vals excl => assignSource c s vals excl
  | .defaults => assignDefaults c s

end PotasscoVerif.OptAssign
