/-
  The universal observable of all program readers and writers: the sequence of calls made on
  `Potassco::AbstractProgram` (potassco/basic_types.h:150-215).  Numbers are unbounded here; the range
  conditions of the interface are explicit predicates (`Call.Valid`).
-/
import PotasscoVerif.Gen.Consts
namespace PotasscoVerif

inductive Call where
  | initProgram (inc : Bool) | beginStep | endStep
  | rule (ht : Nat) (head : List Nat) (body : List Int)
  | sumRule (ht : Nat) (head : List Nat) (bound : Int) (body : List (Int × Int))
  | minimize (prio : Int) (lits : List (Int × Int))
  | project (atoms : List Nat)
  | output (name : List Nat) (cond : List Int)
  | external (a : Nat) (v : Nat)
  | assume (lits : List Int)
  | heuristic (a : Nat) (t : Nat) (bias : Int) (prio : Nat) (cond : List Int)
  | acycEdge (s t : Int) (cond : List Int)
  | theoryNum (id : Nat) (n : Int)
  | theorySym (id : Nat) (name : List Nat)
  | theoryCompound (id : Nat) (cId : Int) (args : List Nat)
  | theoryElement (id : Nat) (terms : List Nat) (cond : List Int)
  | theoryAtom (atom term : Nat) (elems : List Nat) (guard : Option (Nat × Nat))
deriving Repr, DecidableEq

def I32MAX : Int := 2147483647
def I32MIN : Int := -2147483648
def U32MAX : Nat := 4294967295

def isAtom (a : Nat) : Bool := decide (Gen.atomMin ≤ a) && decide (a ≤ Gen.atomMax)
def isLit (l : Int) : Bool := decide (l ≠ 0) && isAtom l.natAbs
def isI32 (x : Int) : Bool := decide (I32MIN ≤ x) && decide (x ≤ I32MAX)
def isId (x : Nat) : Bool := decide (x ≤ Gen.idMax)

end PotasscoVerif
