/-
  Model of the scalar conversions of potassco/string_convert.h / src/string_convert.cpp:60-280.
  Text is `List Nat` (bytes, NUL-free C string).  `strtoll`/`strtoull` are assumed-contract functions,
  written out here (`strto`): optional blanks, optional sign, for base 16 an optional `0x`/`0X` prefix (only
  when a hex digit follows), the longest run of digits of the base; no digits → nothing consumed;
  the mathematical value is returned together with the number of characters consumed, and the caller
  compares it with the 64-bit range (`ERANGE`).
-/
import PotasscoVerif.Model.StringBuilder
namespace PotasscoVerif.StringConvert

def isSpace (c : Nat) : Bool := c == 32 || (9 ≤ c && c ≤ 13)

def digitOf (base c : Nat) : Option Nat :=
  let v := if 48 ≤ c ∧ c ≤ 57 then some (c - 48)
           else if 97 ≤ c ∧ c ≤ 122 then some (c - 87)
           else if 65 ≤ c ∧ c ≤ 90 then some (c - 55) else none
  match v with
  | some d => if d < base then some d else none
  | none => none

/-- longest digit run: (value, number of digits, rest). -/
def digitsB (base : Nat) : List Nat → Nat → Nat → (Nat × Nat × List Nat)
  | [], acc, k => (acc, k, [])
  | c :: r, acc, k => match digitOf base c with
    | some d => digitsB base r (acc * base + d) (k + 1)
    | none => (acc, k, c :: r)

/-- `detectBase` (string_convert.cpp:94-100). -/
def detectBase (x : List Nat) : Nat :=
  match x with
  | 48 :: c :: _ => if c == 120 || c == 88 then 16 else if 48 ≤ c ∧ c ≤ 55 then 8 else 10
  | _ => 10

/-- result of the C conversion functions before any range check: sign, magnitude, characters consumed
    (0 = no conversion). -/
structure Strto where
  neg : Bool
  mag : Nat
  used : Nat
deriving Repr, DecidableEq

/-- optional sign: (negative?, characters, rest). -/
def splitSign (x : List Nat) : Bool × Nat × List Nat :=
  match x with
  | 45 :: r => (true, 1, r)
  | 43 :: r => (false, 1, r)
  | _ => (false, 0, x)

/-- optional `0x`/`0X` prefix for base 16 (only if a hex digit follows): (characters, rest). -/
def splitPrefix (base : Nat) (x : List Nat) : Nat × List Nat :=
  match x with
  | 48 :: c :: d :: r =>
    if base == 16 && (c == 120 || c == 88) && (digitOf 16 d).isSome then (2, d :: r) else (0, x)
  | _ => (0, x)

def strto (x : List Nat) (base : Nat) : Strto :=
  let ws := x.takeWhile isSpace
  let sg := splitSign (x.drop ws.length)
  let pf := splitPrefix base sg.2.2
  let dr := digitsB base pf.2 0 0
  if dr.2.1 == 0 then { neg := false, mag := 0, used := 0 }
  else { neg := sg.1, mag := dr.1, used := ws.length + sg.2.1 + pf.1 + dr.2.1 }

def LLMAX : Int := 9223372036854775807
def LLMIN : Int := -9223372036854775808
def ULLMAX : Nat := 18446744073709551615

def startsWith (x p : List Nat) : Bool := p.isPrefixOf x

/-- `parseSigned(x, out, sMin, sMax)`: `some (value, consumed)` or `none`. -/
def parseSigned (x : List Nat) (sMin sMax : Int) : Option (Int × Nat) :=
  if x.isEmpty then none else
  if startsWith x [105, 109, 97, 120] && sMax != 0 then some (sMax, 4) else      -- "imax"
  if startsWith x [105, 109, 105, 110] && sMin != 0 then some (sMin, 4) else     -- "imin"
  let r := strto x (detectBase x)
  let v : Int := if r.neg then -(r.mag : Int) else (r.mag : Int)
  -- strtoll saturates and sets ERANGE when the value does not fit long long: the re-check fails
  if v < LLMIN ∨ v > LLMAX then none else
  if r.used == 0 ∨ v < sMin ∨ v > sMax then none else some (v, r.used)

/-- `parseUnsigned(x, out, uMax)`. -/
def parseUnsigned (x : List Nat) (uMax : Nat) : Option (Nat × Nat) :=
  match x with
  | [] => none
  | c :: r =>
    if c == 45 && r.head? != some 49 then none else
    if startsWith x [105, 109, 97, 120] then some (uMax / 2, 4) else             -- "imax": uMax >> 1
    if startsWith x [117, 109, 97, 120] then some (uMax, 4) else                 -- "umax"
    if startsWith x [45, 49] then some (uMax, 2) else                            -- "-1"
    let s := strto x (detectBase x)
    -- strtoull negates a '-' number modulo 2^64; a leading '-' other than "-1" was refused above, and
    -- blanks followed by '-' reach here only through leading blanks (outside the claim)
    let v : Nat := if s.neg then (ULLMAX + 1 - s.mag % (ULLMAX + 1)) % (ULLMAX + 1) else s.mag
    if s.mag > ULLMAX then none else
    if s.used == 0 ∨ v > uMax then none else some (v, s.used)

/-- `xconvert(const char*, bool&)`: value and characters consumed; `none` = empty string (returns 0).
    An unrecognised text returns 1 with nothing consumed and `out` untouched (`keep`). -/
inductive BoolRes where | none | keep | val (b : Bool) (used : Nat)
deriving Repr, DecidableEq

def parseBool (x : List Nat) : BoolRes :=
  if x.isEmpty then .none else
  if startsWith x [49] then .val true 1 else
  if startsWith x [48] then .val false 1 else
  if startsWith x [110, 111] then .val false 2 else
  if startsWith x [111, 110] then .val true 2 else
  if startsWith x [121, 101, 115] then .val true 3 else
  if startsWith x [111, 102, 102] then .val false 3 else
  if startsWith x [116, 114, 117, 101] then .val true 4 else
  if startsWith x [102, 97, 108, 115, 101] then .val false 5 else .keep

/-- `xconvert(const char*, char&)`. -/
def parseChar (x : List Nat) : Option (Nat × Nat) :=
  match x with
  | [] => none
  | 92 :: 116 :: _ => some (9, 2)
  | 92 :: 110 :: _ => some (10, 2)
  | 92 :: 118 :: _ => some (11, 2)
  | c :: _ => some (c, 1)

open PotasscoVerif.StringBuilder (numText)

/-- value → string -/
def showSigned (v : Int) : List Nat := numText v
def showUnsigned (v uMax : Nat) : List Nat := if v = uMax then [117, 109, 97, 120] else numText v
def showBool (b : Bool) : List Nat := if b then [116, 114, 117, 101] else [102, 97, 108, 115, 101]

/-! ### composites (potassco/string_convert.h:160-236)
  An element parser is `List Nat → Option (α × Nat)`: the value and the number of characters used; `none` = nothing converted
  (the reported end position is then the start, as `parsed(0, x, errPos)` does). -/

/-- `xconvert(const char*, std::pair<T,U>&, errPos, sep)`: `T[,U]` optionally in parentheses.
    returns (number of members converted, the pair — members the text does not give keep their old value —, end position). -/
def parsePair {α β : Type} (pT : List Nat → Option (α × Nat)) (pU : List Nat → Option (β × Nat)) (sep : Nat) (x : List Nat) (old : α × β) :
    Nat × (α × β) × Nat :=
  let ps : Nat := if x.head? = some 40 then 1 else 0
  let rT := pT (x.drop ps)
  let tokT := rT.isSome
  let tf : α := match rT with | some (v, _) => v | none => old.1
  let e1 : Nat := match rT with | some (_, u) => ps + u | none => ps
  let n1 := x.drop e1
  let tryU := tokT && n1.head? = some sep && !(n1.drop 1).isEmpty
  let rU := if tryU then pU (n1.drop 1) else none
  let tokU := rU.isSome
  let ts : β := match rU with | some (v, _) => v | none => old.2
  let e2 : Nat := if tryU then (match rU with | some (_, u) => e1 + 1 + u | none => e1 + 1) else e1
  if ps = 0 ∨ (x.drop e2).head? = some 41 then
    let e3 := e2 + ps
    let sum : Nat := (if tokU then 1 else 0) + (if tokU ∨ (x.drop e3).isEmpty then 1 else 0)
    if sum = 0 then (0, old, 0)
    else (sum, (if tokU ∨ (x.drop e3).isEmpty then tf else old.1, if tokU then ts else old.2), e3)
  else (0, old, 0)

def showPair {α β : Type} (sT : α → List Nat) (sU : β → List Nat) (sep : Nat) (v : α × β) : List Nat := sT v.1 ++ sep :: sU v.2

/-- the loop of `convert_seq`: fuel = characters + 1 (every further round consumes a separator) -/
def parseSeqLoop {α : Type} (pT : List Nat → Option (α × Nat)) (sep : Nat) : Nat → List Nat → Nat → List α → (List α × Nat)
  | 0, _, pos, acc => (acc, pos)
  | f + 1, x, pos, acc =>
    match pT (x.drop pos) with
    | none => (acc, pos)
    | some (v, u) =>
      let n := x.drop (pos + u)
      if n.isEmpty || n.head? != some sep || (n.drop 1).isEmpty then (acc ++ [v], pos + u)
      else parseSeqLoop pT sep f x (pos + u + 1) (acc ++ [v])

/-- `convert_seq` / `xconvert(const char*, std::vector<T>&)`: `T1[,…,Tn]` optionally in brackets; returns the elements converted
    (they are appended even when the closing bracket is missing) and the end position (0 then). -/
def parseSeq {α : Type} (pT : List Nat → Option (α × Nat)) (sep : Nat) (x : List Nat) : List α × Nat :=
  let b : Nat := if x.head? = some 91 then 1 else 0
  let r := parseSeqLoop pT sep (x.length + 1) x b []
  if b = 0 ∨ (x.drop r.2).head? = some 93 then (r.1, r.2 + b) else (r.1, 0)

def showSeq {α : Type} (sT : α → List Nat) (sep : Nat) : List α → List Nat
  | [] => []
  | [v] => sT v
  | v :: r => sT v ++ sep :: showSeq sT sep r

/-! ### enumerations (`EnumClass`, src/string_convert.cpp:483-524): the constants are looked up in the declaration text
  `name [= value], name [= value], …` the `POTASSCO_ENUM` macros keep -/

def isStop (c : Nat) : Bool := c == 32 || c == 44 || c == 61        -- " ,="
/-- `strcspn(x, " ,=")` -/
def keyLen (x : List Nat) : Nat := (x.takeWhile (fun c => !isStop c)).length
def skipSp (x : List Nat) : List Nat := x.dropWhile (· == 32)

/-- `find_kv`: walks the declaration; `cVal` is the value the next constant gets unless it has an explicit one.
    returns the name and value of the first constant with the wanted value or the wanted name. fuel = characters + 1 -/
def findKv (sKey : Option (List Nat)) (iKey : Option Int) : Nat → List Nat → Int → Option (List Nat × Int)
  | 0, _, _ => none
  | f + 1, args, cVal =>
    let sLen := keyLen args
    let v0 := skipSp (args.drop sLen)
    let r : Int × List Nat :=
      if v0.head? = some 61 then
        match parseSigned (v0.drop 1) (-2147483648) 2147483647 with
        | some (n, u) => (n, skipSp ((v0.drop 1).drop u))
        | none => (cVal, skipSp (v0.drop 1))
      else (cVal, v0)
    if iKey = some r.1 ∨ sKey = some (args.take sLen) then some (args.take sLen, r.1)
    else if r.2.head? = some 44 then findKv sKey iKey f (skipSp (r.2.drop 1)) (r.1 + 1)
    else none

structure EnumClass where
  rep : List Nat
  min : Int
  max : Int

def EnumClass.find (e : EnumClass) (sKey : Option (List Nat)) (iKey : Option Int) : Option (List Nat × Int) :=
  findKv sKey iKey (e.rep.length + 1) e.rep e.min
def EnumClass.isValid (e : EnumClass) (v : Int) : Bool := decide (e.min ≤ v) && decide (v ≤ e.max) && (e.find none (some v)).isSome

/-- `EnumClass::convert(const char*, int&)`: (characters used, value); used = 0: no constant -/
def EnumClass.parse (e : EnumClass) (x : List Nat) : Nat × Option Int :=
  match parseSigned x (-2147483648) 2147483647 with
  | some (v, u) => if e.isValid v then (u, some v) else (0, none)
  | none =>
    let k := x.take (keyLen x)
    match e.find (some k) none with
    | some (_, v) => (k.length, some v)
    | none => (0, none)

/-- `EnumClass::convert(int, const char*&)`: the name of the first constant with that value -/
def EnumClass.nameOf (e : EnumClass) (v : Int) : Option (List Nat) := (e.find none (some v)).map (·.1)

end PotasscoVerif.StringConvert
