import PotasscoVerif.Model.AspifOut
/-
  Model of `Potassco::StringBuilder` (potassco/string_convert.h:310-389, src/string_convert.cpp:284-442).

  Representations (`type()`/`tag()`): the 63-character inline buffer (`Sbo`, tag byte = free capacity, which
  doubles as the terminating NUL when full), a `std::string` (the caller's, or an own one after spilling:
  `Str|Own`), a caller's array (`Buf`, fixed) that may spill to an own string (`Buf|Own`, dynamic).
  `text` is the C string currently held; every store the C++ makes is computed as an index range into the
  array it targets and checked against that array's bounds (ghost flag `viol`):
    * inline buffer: indices `0..63`        * caller's array of `n` chars: indices `0..n-1 = cap`
    * std::string of size `k`: indices `0..k` (index `k` only for the terminating NUL)
  `vsnprintf(dst, lim, …)` is an assumed-contract function: it stores `min(len, lim-1)` characters and a NUL
  when `lim > 0`, and returns `len`.
-/
namespace PotasscoVerif.StringBuilder

inductive Kind where
  | sbo                 -- inline buffer
  | str (own : Bool)    -- std::string (caller's or own)
  | buf (dyn : Bool)    -- caller's array, fixed or dynamic (may spill)
deriving Repr, DecidableEq

def SboCap : Nat := 63

structure SB where
  kind  : Kind
  text  : List Nat
  cap   : Nat := 0          -- `buf_.size` (= n - 1) for `buf`; unused otherwise
  errno : Bool := false     -- ERANGE was set by the last operation
  viol  : Bool := false
deriving Repr, DecidableEq

/-- constructors -/
def mkSbo : SB := { kind := .sbo, text := [] }
def mkStr (init : List Nat) : SB := { kind := .str false, text := init }
/-- `StringBuilder(buf, n, mode)`; `n = 0` uses a 1-byte area inside the object. -/
def mkBuf (n : Nat) (dyn : Bool) : SB := { kind := .buf dyn, text := [], cap := n - 1 }

/-- `buffer().size` -/
def SB.size (b : SB) : Nat :=
  match b.kind with
  | .sbo => SboCap
  | .str _ => b.text.length
  | .buf _ => b.cap
def SB.free (b : SB) : Nat := b.size - b.text.length

/-- largest index of the array the builder currently writes to. -/
def SB.maxIdx (b : SB) : Nat :=
  match b.kind with
  | .sbo => 63
  | .str _ => b.text.length
  | .buf _ => b.cap

/-- a store of `k` characters at `start` followed by a NUL, into the current array. -/
def SB.store (b : SB) (start k : Nat) : SB := { b with viol := b.viol || decide (b.maxIdx < start + k) }

/-- `append(str, n)` / `append(n, c)`: `grow(n)`, copy `min(n, free)`, NUL. `s` is the text to add. -/
def SB.append (b : SB) (s : List Nat) : SB :=
  let n := s.length
  let used := b.text.length
  match b.kind with
  | .str _ => { b with text := b.text ++ s }          -- `str_->append`
  | .sbo =>
    if SboCap - used ≥ n then ({ b with text := b.text ++ s }).store used n      -- tag -= n
    else { b with kind := .str true, text := b.text ++ s }                        -- spill to an own string
  | .buf dyn =>
    if b.cap - used ≥ n ∨ !dyn then
      let k := min n (b.cap - used)
      ({ b with text := b.text ++ s.take k, errno := b.errno || decide (used + n > b.cap) }).store used k
    else { b with kind := .str true, text := b.text ++ s }

/-- the formatting stage of `appendFormat` (after the literal prefix): formatting yields `out`. -/
def SB.formatOut (b : SB) (out : List Nat) : SB :=
  let n := out.length
  let used := b.text.length
  let free := b.free
  if free == 0 then
    -- first attempt into `small[64]`
    if 0 < n ∧ n < 64 then b.append out
    else if 0 < n then
      -- `grow(n)` then format again into `[ret.used, ret.used + ret.free]`
      match b.kind with
      | .str _ => ({ b with text := b.text ++ out }).store used n
      | .sbo => { b with kind := .str true, text := b.text ++ out }        -- free = 0 < n: spills
      | .buf dyn =>
        if !dyn then ({ b with errno := true }).store used 0               -- full fixed buffer: only the NUL
        else { b with kind := .str true, text := b.text ++ out }
    else b
  else
    -- first attempt in place: at most `free - 1` characters and a NUL
    let b1 := b.store used (min n (free - 1))
    if 0 < n ∧ n < free then { b1 with text := b.text ++ out }             -- fits: `grow(n)` only accounts
    else if 0 < n then
      match b.kind with
      | .str _ => b1        -- unreachable: a string has free = 0
      | .sbo =>
        if free ≥ n then ({ b1 with text := b.text ++ out }).store used n  -- n = free: NUL lands on the tag byte
        else { b1 with kind := .str true, text := b.text ++ out }
      | .buf dyn =>
        if free ≥ n ∨ !dyn then
          let k := min n free
          ({ b1 with text := b.text ++ out.take k, errno := b1.errno || decide (n > free) }).store used k
        else { b1 with kind := .str true, text := b.text ++ out }
    else b1

/-- `appendFormat(fmt, …)` where `fmt = prefix ++ spec`, `prefix` has no '%', and formatting `spec` yields
    `out` (`hasSpec = false`: the format is just the literal prefix). -/
def SB.appendFormat (b0 : SB) (pre out : List Nat) (hasSpec : Bool) : SB :=
  let b := if pre.isEmpty then b0 else b0.append pre
  if !hasSpec then b else b.formatOut out

/-- `resize(n, c)`; `none` = `POTASSCO_REQUIRE` failed (fixed buffer too small). -/
def SB.resize (b : SB) (n c : Nat) : Option SB :=
  let used := b.text.length
  if n > used then
    if n > b.size ∧ b.kind = .buf false then none
    else some (b.append (List.replicate (n - used) c))
  else if n < used then some (({ b with text := b.text.take n }).store n 0)
  else some b

/-- decimal text of `append(int64/uint64)` (`append_`: digit loop into `temp[22]`, '-' for negative values). -/
def numText (x : Int) : List Nat := PotasscoVerif.AspifOut.printInt x

inductive Op where
  | append (s : List Nat)
  | num (x : Int)
  | format (pre out : List Nat) (hasSpec : Bool)
  | resize (n c : Nat)
  | clear
deriving Repr, DecidableEq

/-- one operation; errno is reset before each (as the harness does). `none`: exception, state unchanged. -/
def SB.step (b : SB) (op : Op) : Option SB :=
  let b := { b with errno := false }
  match op with
  | .append s => some (b.append s)
  | .num x => some (b.append (numText x))
  | .format p o h => some (b.appendFormat p o h)
  | .resize n c => b.resize n c
  | .clear => b.resize 0 0

end PotasscoVerif.StringBuilder
