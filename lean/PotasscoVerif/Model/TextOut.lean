/-
  Model of `Potassco::AspifTextOutput` and `TheoryAtomStringBuilder` (src/aspif_text.cpp:299-640):
  the per-step word buffer (`push*` / `get` / `writeDirectives` with its `sep`/`term` bookkeeping), the sum→count
  normalisation of `rule(…, bound, wlits)`, the name table (`output` / `addAtom` / `printName`, last name wins),
  conditions of theory elements, `visitTheories`, `beginStep`/`endStep`.

  Words are kept as `Int` (the code stores `uint32_t` and casts back to the signed type it stored: the round trip
  int32 → uint32 → int32 is the identity and is not modelled).  An exception thrown by the code is `fail := true`.
-/
import PotasscoVerif.Model.Program
import PotasscoVerif.Model.AspifOut
import PotasscoVerif.Model.TheoryData
namespace PotasscoVerif.TextOut
open PotasscoVerif
open PotasscoVerif.AspifOut (printInt printNat)
open PotasscoVerif.TheoryData (TD Term Elem Atom)

structure TO where
  step    : Int := -1
  dirs    : List Int := []                  -- data_->directives
  strings : List (List Nat) := []           -- data_->strings
  names   : List (Nat × Nat) := []          -- data_->atoms (atom ↦ string index); newest first
  conds   : List Int := []                  -- data_->conditions
  theory  : TD := {}
  out     : List Nat := []                  -- bytes written to the stream
  fail    : Bool := false                   -- an exception escaped
deriving Repr, DecidableEq

def s (x : String) : List Nat := x.toList.map Char.toNat

def isNameStart (c : Nat) : Bool := (97 ≤ c && c ≤ 122) || c == 95

/-- `addAtom(id, str)` -/
def TO.addAtom (t : TO) (id : Nat) (str : List Nat) : TO :=
  { t with names := (id, t.strings.length) :: t.names, strings := t.strings ++ [str] }

def TO.nameOf (t : TO) (id : Nat) : Option (List Nat) :=
  match t.names.find? (fun p => p.1 == id) with
  | some p => t.strings[p.2]?
  | none => none

/-- `printName(os, lit)` / `BuildStr::getName` -/
def TO.atomName (t : TO) (id : Nat) : List Nat := (t.nameOf id).getD (s "x_" ++ printNat id)
def TO.litName (t : TO) (l : Int) : List Nat := (if l < 0 then s "not " else []) ++ t.atomName l.natAbs

def pushList (ds : List Int) (l : List Int) : List Int := ds ++ [(l.length : Int)] ++ l
def pushWLits (ds : List Int) (l : List (Int × Int)) : List Int := ds ++ [(l.length : Int)] ++ l.flatMap (fun p => [p.1, p.2])

def DRule : Int := 1
def DMinimize : Int := 2
def DProject : Int := 3
def DOutput : Int := 4
def DExternal : Int := 5
def DAssume : Int := 6
def DHeuristic : Int := 7
def DEdge : Int := 8

def minW (l : List (Int × Int)) : Int := match l with | [] => 0 | p :: r => r.foldl (fun m q => min m q.2) p.2
def maxW (l : List (Int × Int)) : Int := match l with | [] => 0 | p :: r => r.foldl (fun m q => max m q.2) p.2

/-- `rule(ht, head, bound, wlits)`: a sum whose weights are all equal to some `w > 0` is stored as the count with bound
    `(bound + w - 1) / w` (C++ division, 64 bit) -/
def pushSum (ds : List Int) (ht : Nat) (head : List Nat) (bound : Int) (ws : List (Int × Int)) : List Int :=
  let d0 := pushList (ds ++ [DRule, (ht : Int)]) (head.map Int.ofNat)
  let mn := minW ws
  if mn == maxW ws && 0 < mn then
    pushList (d0 ++ [2, Int.tdiv (bound + mn - 1) mn]) (ws.map (·.1))
  else pushWLits (d0 ++ [1, bound]) ws

/-- `addCondition(cond)` -/
def TO.addCondition (t : TO) (cond : List Int) : TO × Nat :=
  let c0 := if t.conds.isEmpty then [0] else t.conds
  if cond.isEmpty then ({ t with conds := c0 }, 0)
  else ({ t with conds := c0 ++ [(cond.length : Int)] ++ cond }, c0.length)

def TO.getCondition (t : TO) (id : Nat) : List Int := (t.conds.drop (id + 1)).take (t.conds.getD id 0).toNat

/-! ### theory atoms as strings -/
def opChars : List Nat := s "/!<=>+-*\\?&@|:;~^."
def parens (base : Int) : Nat × Nat := if base == -2 then (123, 125) else if base == -3 then (91, 93) else (40, 41)

def sepJoin (sep : List Nat) : List (List Nat) → List Nat
  | [] => []
  | [x] => x
  | x :: r => x ++ sep ++ sepJoin sep r

/-- `TheoryAtomStringBuilder::term` (with `function`); `none` = the term id is unknown (the code throws).
    fuel = number of term slots + 1 (a term table without cycles is never deeper) -/
def termStr (d : TD) : Nat → Nat → Option (List Nat)
  | 0, _ => none
  | f + 1, id =>
    match d.getTerm id with
    | none => none
    | some (.num n) => some (printInt n)
    | some (.sym nm) => some nm
    | some (.comp base args) =>
      let argStrs := args.mapM (termStr d f)
      if base < 0 then
        argStrs.map (fun as => [(parens base).1] ++ sepJoin (s ", ") as ++ [(parens base).2])
      else
        match d.getTerm base.toNat with
        | none => none
        | some x =>
          let isOp := match x with
            | .sym nm => opChars.contains (nm.headD 0) || nm.isEmpty
            | _ => false
          match termStr d f base.toNat, argStrs with
          | some xs, some as =>
            if isOp && args.length == 1 then some (xs ++ as.headD [])
            else if isOp && args.length == 2 then some (as.headD [] ++ [32] ++ xs ++ [32] ++ (as.getD 1 []))
            else some (xs ++ [40] ++ sepJoin (s ", ") as ++ [41])
          | _, _ => none

def TO.elemStr (t : TO) (e : Elem) : Option (List Nat) :=
  match e.terms.mapM (termStr t.theory (t.theory.terms.length + 1)) with
  | none => none
  | some ts =>
    let c := if e.cond != 0 then
        let lits := t.getCondition e.cond
        if lits.isEmpty then [] else s " : " ++ sepJoin (s ", ") (lits.map t.litName)
      else []
    some (sepJoin (s ", ") ts ++ c)

/-- `TheoryAtomStringBuilder::toString` -/
def TO.atomStr (t : TO) (a : Atom) : Option (List Nat) := do
  let fuel := t.theory.terms.length + 1
  let tm ← termStr t.theory fuel a.term
  let es ← a.elems.mapM (fun e => match t.theory.getElem e with | some el => t.elemStr el | none => none)
  let g ← match a.guard with
    | none => some []
    | some (op, rhs) => do
      let o ← termStr t.theory fuel op
      let r ← termStr t.theory fuel rhs
      pure ([32] ++ o ++ [32] ++ r)
  pure ([38] ++ tm ++ [123] ++ sepJoin (s "; ") es ++ [125] ++ g)

/-- `visitTheories()` over the atoms of the current step -/
def TO.visitTheories (t : TO) : TO :=
  (t.theory.atoms.drop t.theory.fAtom).foldl (fun t a =>
    if t.fail then t else
    match t.atomStr a with
    | none => { t with fail := true }
    | some name =>
      if a.atom == 0 then { t with out := t.out ++ name ++ s ".\n" }
      else if (t.names.find? (fun p => p.1 == a.atom)).isSome then { t with fail := true }      -- "Redefinition: theory atom … already shown"
      else t.addAtom a.atom name) t

/-! ### writeDirectives -/
def heuName (x : Int) : List Nat :=
  if x == 0 then s "level" else if x == 1 then s "sign" else if x == 2 then s "factor" else if x == 3 then s "init"
  else if x == 4 then s "true" else if x == 5 then s "false" else []

/-- `for (n = get(); n--; sep = next) { printName(os << sep, get()); }` over the items read -/
def TO.joinLits (t : TO) (next : List Nat) : List Int → List Nat → List Nat → List Nat
  | [], _, acc => acc
  | l :: r, sep, acc => t.joinLits next r next (acc ++ sep ++ t.litName l)

/-- the same with `os << "=" << get<Weight_t>()` after every literal -/
def TO.joinWLits (t : TO) (next : List Nat) : List Int → List Nat → List Nat → List Nat
  | [], _, acc => acc
  | [l], sep, acc => acc ++ sep ++ t.litName l
  | l :: w :: r, sep, acc => t.joinWLits next r next (acc ++ sep ++ t.litName l ++ [61] ++ printInt w)

/-- a counted list of `n` items (one or two words each): text and the remaining words -/
def TO.litLoop (t : TO) (ws : List Int) (n : Nat) (first next : List Nat) (weighted : Bool) : List Nat × List Int :=
  if weighted then (t.joinWLits next (ws.take (n * 2)) first [], ws.drop (n * 2))
  else (t.joinLits next (ws.take n) first [], ws.drop n)

/-- `get<T>()`: the next word and the words after it -/
def pop (ws : List Int) : Int × List Int := (ws.headD 0, ws.tail)
/-- `n` consecutive `get`s -/
def popN (ws : List Int) (n : Nat) : List Int × List Int := (ws.take n, ws.drop n)

/-- one directive: the text written (without the final newline) and the remaining words -/
def TO.directive (t : TO) (x : Int) (ws : List Int) : List Nat × List Int :=
  if x == DRule then
    let ht := pop ws
    let n := pop ht.2
    let heads := popN n.2 n.1.toNat
    let openB := if ht.1 != 0 then [123] else []
    let term := if ht.1 != 0 then [125] else []
    let hsep := if ht.1 != 0 then [59] else [124]
    let headTxt := sepJoin hsep (heads.1.map (fun a => t.litName a))
    let pre := if n.1.toNat != 0 then openB ++ headTxt ++ term else openB ++ term ++ s ":- "
    let sep := if n.1.toNat != 0 then s " :- " else []
    let bt := pop heads.2
    if bt.1 == 0 then
      let m := pop bt.2
      let r := t.litLoop m.2 m.1.toNat sep (s ", ") false
      (pre ++ r.1 ++ [46], r.2)
    else
      let bound := pop bt.2
      let m := pop bound.2
      let r := t.litLoop m.2 m.1.toNat [] (s "; ") (bt.1 == 1)
      (pre ++ sep ++ printInt bound.1 ++ [123] ++ r.1 ++ [125, 46], r.2)
  else if x == DMinimize then
    let n := pop ws
    let r := t.litLoop n.2 n.1.toNat [] (s "; ") true
    let prio := pop r.2
    (s "#minimize{" ++ r.1 ++ s "}@" ++ printInt prio.1 ++ [46], prio.2)
  else if x == DProject then
    let n := pop ws
    let r := t.litLoop n.2 n.1.toNat [] (s ", ") false
    (s "#project{" ++ r.1 ++ s "}.", r.2)
  else if x == DOutput then
    let idx := pop ws
    let n := pop idx.2
    let r := t.litLoop n.2 n.1.toNat (s " : ") (s ", ") false
    (s "#show " ++ t.strings.getD idx.1.toNat [] ++ r.1 ++ [46], r.2)
  else if x == DExternal then
    let a := pop ws
    let v := pop a.2
    let term := if v.1 == 0 then s ". [free]" else if v.1 == 1 then s ". [true]" else if v.1 == 3 then s ". [release]" else [46]
    (s "#external " ++ t.litName a.1 ++ term, v.2)
  else if x == DAssume then
    let n := pop ws
    let r := t.litLoop n.2 n.1.toNat [] (s ", ") false
    (s "#assume{" ++ r.1 ++ s "}.", r.2)
  else if x == DHeuristic then
    let a := pop ws
    let n := pop a.2
    let r := t.litLoop n.2 n.1.toNat (s " : ") (s ", ") false
    let bias := pop r.2
    let prio := pop bias.2
    let ty := pop prio.2
    (s "#heuristic " ++ t.litName a.1 ++ r.1 ++ s ". [" ++ printInt bias.1 ++ (if prio.1 != 0 then [64] ++ printInt prio.1 else []) ++ s ", " ++ heuName ty.1 ++ [93], ty.2)
  else if x == DEdge then
    let a := pop ws
    let b := pop a.2
    let n := pop b.2
    let r := t.litLoop n.2 n.1.toNat (s " : ") (s ", ") false
    (s "#edge(" ++ printInt a.1 ++ [44] ++ printInt b.1 ++ [41] ++ r.1 ++ [46], r.2)
  else ([], ws)

/-- `writeDirectives()`; fuel = number of words + 1 -/
def TO.writeLoop (t : TO) : Nat → List Int → List Nat → List Nat
  | 0, _, acc => acc
  | f + 1, ws, acc =>
    match ws with
    | [] => acc
    | x :: r =>
      if x == 0 then acc else
      let d := t.directive x r
      t.writeLoop f d.2 (acc ++ d.1 ++ [10])

/-! ### the calls -/
def thFail (t : TO) (r : Option TD) : TO := match r with | some d => { t with theory := d } | none => { t with fail := true }

def TO.apply (t : TO) (c : Call) : TO :=
  if t.fail then t else
  match c with
  | .initProgram inc => { t with step := if inc then 0 else -1, dirs := [], strings := [], names := [], conds := [] }
  | .beginStep =>
    if t.step ≥ 0 then
      if t.step > 0 then { t with out := t.out ++ s "% #program step(" ++ printInt t.step ++ s ").\n", theory := t.theory.update, step := t.step + 1 }
      else { t with out := t.out ++ s "% #program base.\n", step := t.step + 1 }
    else t
  | .rule ht head body => { t with dirs := pushList (pushList (t.dirs ++ [DRule, (ht : Int)]) (head.map Int.ofNat) ++ [0]) body }
  | .sumRule ht head bound ws => { t with dirs := pushSum t.dirs ht head bound ws }
  | .minimize prio ws => { t with dirs := pushWLits (t.dirs ++ [DMinimize]) ws ++ [prio] }
  | .output str cond =>
    if cond.length == 1 && 0 < cond.headD 0 && !str.isEmpty && isNameStart (str.headD 0) then t.addAtom (cond.headD 0).toNat str
    else { t with dirs := pushList (t.dirs ++ [DOutput, (t.strings.length : Int)]) cond, strings := t.strings ++ [str] }
  | .external a v => { t with dirs := t.dirs ++ [DExternal, (a : Int), (v : Int)] }
  | .assume lits => { t with dirs := pushList (t.dirs ++ [DAssume]) lits }
  | .project atoms => { t with dirs := pushList (t.dirs ++ [DProject]) (atoms.map Int.ofNat) }
  | .acycEdge a b cond => { t with dirs := pushList (t.dirs ++ [DEdge, a, b]) cond }
  | .heuristic a ty bias prio cond => { t with dirs := pushList (t.dirs ++ [DHeuristic, (a : Int)]) cond ++ [bias, (prio : Int), (ty : Int)] }
  | .theoryNum id n => thFail t (t.theory.addTerm id (.num n))
  | .theorySym id nm => thFail t (t.theory.addTerm id (.sym nm))
  | .theoryCompound id base args => thFail t (t.theory.addTerm id (.comp base args))
  | .theoryElement id terms cond =>
    let r := t.addCondition cond
    thFail r.1 (r.1.theory.addElement id terms r.2)
  | .theoryAtom a term elems guard => { t with theory := t.theory.addAtom { atom := a, term := term, elems := elems, guard := guard } }
  | .endStep =>
    let t1 := t.visitTheories
    if t1.fail then t1 else
    let txt := t1.writeLoop (t1.dirs.length + 2) (t1.dirs ++ [0]) []
    { t1 with out := t1.out ++ txt, dirs := [], theory := if t1.step < 0 then {} else t1.theory }

def write (cs : List Call) : TO := cs.foldl TO.apply {}

end PotasscoVerif.TextOut
