/-
  Model of `Potassco::AspifOutput` (src/aspif.cpp:196-296): each call is written as one line, numbers
  through `operator<<` (decimal, '-' for negative values), strings with `os_.write`.
-/
import PotasscoVerif.Model.Program
namespace PotasscoVerif.AspifOut
open PotasscoVerif

/-- decimal digits of `n`, most significant first, as ASCII (`operator<<(unsigned)`): fuelled digit loop. -/
def digitsAux : Nat → Nat → List Nat → List Nat
  | 0, _, acc => acc
  | f + 1, n, acc => if n < 10 then (48 + n) :: acc else digitsAux f (n / 10) ((48 + n % 10) :: acc)

def printNat (n : Nat) : List Nat := digitsAux (n + 1) n []

def printInt (x : Int) : List Nat := if x < 0 then 45 :: printNat x.natAbs else printNat x.toNat

def str (s : String) : List Nat := s.toUTF8.toList.map (·.toNat)

def sp : List Nat := [32]
def nl : List Nat := [10]

/-- `add(int x)` / `add(Id_t x)`. -/
def addI (x : Int) : List Nat := sp ++ printInt x
def addN (x : Nat) : List Nat := sp ++ printNat x
/-- `add(AtomSpan)` / ids. -/
def addNats (l : List Nat) : List Nat := addN l.length ++ (l.map addN).flatten
/-- `add(LitSpan)`. -/
def addLits (l : List Int) : List Nat := addN l.length ++ (l.map addI).flatten
/-- `add(WeightLitSpan)`. -/
def addWLits (l : List (Int × Int)) : List Nat := addN l.length ++ (l.map (fun p => addI p.1 ++ addI p.2)).flatten
/-- `add(StringSpan)`. -/
def addStr (s : List Nat) : List Nat := addN s.length ++ sp ++ s

def dir (d : Int) : List Nat := printNat d.toNat

def writeCall : Call → List Nat
  | .initProgram inc => str "asp 1 0 0" ++ (if inc then str " incremental" else []) ++ nl
  | .beginStep => []
  | .endStep => str "0" ++ nl
  | .rule ht head body => dir Gen.Directive_t_Rule ++ addN ht ++ addNats head ++ addI Gen.Body_t_Normal ++ addLits body ++ nl
  | .sumRule ht head bound body =>
      dir Gen.Directive_t_Rule ++ addN ht ++ addNats head ++ addI Gen.Body_t_Sum ++ addI bound ++ addWLits body ++ nl
  | .minimize prio lits => dir Gen.Directive_t_Minimize ++ addI prio ++ addWLits lits ++ nl
  | .project atoms => dir Gen.Directive_t_Project ++ addNats atoms ++ nl
  | .output name cond => dir Gen.Directive_t_Output ++ addStr name ++ addLits cond ++ nl
  | .external a v => dir Gen.Directive_t_External ++ addN a ++ addN v ++ nl
  | .assume lits => dir Gen.Directive_t_Assume ++ addLits lits ++ nl
  | .heuristic a t bias prio cond =>
      dir Gen.Directive_t_Heuristic ++ addN t ++ addN a ++ addI bias ++ addN prio ++ addLits cond ++ nl
  | .acycEdge s t cond => dir Gen.Directive_t_Edge ++ addI s ++ addI t ++ addLits cond ++ nl
  | .theoryNum id n => dir Gen.Directive_t_Theory ++ addI Gen.Theory_t_Number ++ addN id ++ addI n ++ nl
  | .theorySym id name => dir Gen.Directive_t_Theory ++ addI Gen.Theory_t_Symbol ++ addN id ++ addStr name ++ nl
  | .theoryCompound id c args => dir Gen.Directive_t_Theory ++ addI Gen.Theory_t_Compound ++ addN id ++ addI c ++ addNats args ++ nl
  | .theoryElement id terms cond =>
      dir Gen.Directive_t_Theory ++ addI Gen.Theory_t_Element ++ addN id ++ addNats terms ++ addLits cond ++ nl
  | .theoryAtom a t elems none => dir Gen.Directive_t_Theory ++ addI Gen.Theory_t_Atom ++ addN a ++ addN t ++ addNats elems ++ nl
  | .theoryAtom a t elems (some (op, rhs)) =>
      dir Gen.Directive_t_Theory ++ addI Gen.Theory_t_AtomWithGuard ++ addN a ++ addN t ++ addNats elems ++ addN op ++ addN rhs ++ nl

def write (cs : List Call) : List Nat := (cs.map writeCall).flatten

end PotasscoVerif.AspifOut
