/-
  Model of the option index of `Potassco::ProgramOptions::OptionContext`
  (src/program_options.cpp: insertOption, addAlias, add(group), findImpl, find, tryFind).

  `index_` is a `std::map<std::string, key>`: modelled as a list of (name, option number) kept strictly
  sorted under the bytewise (unsigned) lexicographic order of `std::string`.
-/
namespace PotasscoVerif.OptIndex

def lexLt : List Nat → List Nat → Bool
  | [], [] => false
  | [], _ :: _ => true
  | _ :: _, [] => false
  | a :: x, b :: y => decide (a < b) || (a == b && lexLt x y)

abbrev Entry := List Nat × Nat
abbrev Index := List Entry

/-- `index_.insert(value_type(name, k)).second`: `none` if the name is taken. -/
def insert : Index → List Nat → Nat → Option Index
  | [], n, k => some [(n, k)]
  | e :: r, n, k =>
    if lexLt n e.1 then some ((n, k) :: e :: r)
    else if e.1 == n then none
    else (insert r n k).map (e :: ·)

/-- `index_.lower_bound(k)`: the entries not less than `k`. -/
def lowerBound (ix : Index) (k : List Nat) : Index := ix.dropWhile (fun e => lexLt e.1 k)

inductive FindType where
  | name | pfx | nameOrPrefix | alias
deriving Repr, DecidableEq

def FindType.hasName : FindType → Bool
  | .name | .nameOrPrefix | .alias => true      -- `t & (find_alias|find_name)`
  | .pfx => false
def FindType.hasPrefix : FindType → Bool
  | .pfx | .nameOrPrefix => true                -- `t & find_prefix`
  | _ => false

/-- the key as `findImpl` looks it up (`find_alias`: "x…" becomes "-…x"). -/
def effKey (key : List Nat) (t : FindType) : List Nat :=
  match t, key with
  | .alias, c :: r => if c != 45 then 45 :: (r ++ [c]) else key
  | _, _ => key

/-- the range `[it, up)` computed by `findImpl` (repaired, D10: the prefix range extends over all adjacent
    entries that start with the key). -/
def findRange (ix : Index) (key : List Nat) (t : FindType) : Index :=
  let k := effKey key t
  let lb := lowerBound ix k
  match lb with
  | [] => []
  | e :: _ =>
    if e.1 == k && t.hasName then [e]
    else if t.hasPrefix then lb.takeWhile (fun e => k.isPrefixOf e.1)
    else []

inductive Found where
  | opt (k : Nat)                       -- the option
  | unknown                             -- UnknownOption
  | ambiguous (names : List (List Nat))  -- AmbiguousOption listing the candidates
deriving Repr, DecidableEq

/-- `find(key, t)` (error mask = all) -/
def find (ix : Index) (key : List Nat) (t : FindType) : Found :=
  match findRange ix key t with
  | [] => .unknown
  | [e] => .opt e.2
  | l => .ambiguous (l.map (·.1))

/-- `tryFind(key, t)` -/
def tryFind (ix : Index) (key : List Nat) (t : FindType) : Option Nat :=
  match findRange ix key t with
  | [e] => some e.2
  | _ => none

/-- context under construction: the index and the number of options. -/
structure Ctx where
  index : Index := []
  nOpts : Nat := 0
deriving Repr, DecidableEq

/-- `insertOption`: alias entry "-a" first, then the long name; `none` = DuplicateOption. -/
def Ctx.addOption (c : Ctx) (name : List Nat) (alias : Nat) : Option Ctx := do
  let ix1 ← if alias != 0 then insert c.index [45, alias] c.nOpts else some c.index
  let ix2 ← if !name.isEmpty then insert ix1 name c.nOpts else some ix1
  pure { index := ix2, nOpts := c.nOpts + 1 }

/-- the context a refused `insertOption` leaves behind: when the short name was new and the long name taken, the short-name entry
    (numbered like the option that was not added) has already been entered and stays; when the short name was taken nothing changed -/
def Ctx.afterRefused (c : Ctx) (alias : Nat) : Ctx :=
  if alias != 0 then
    match insert c.index [45, alias] c.nOpts with
    | some ix1 => { c with index := ix1 }
    | none => c
  else c

/-- `addAlias(aliasName, begin() + opt)` -/
def Ctx.addAlias (c : Ctx) (aliasName : List Nat) (opt : Nat) : Option Ctx :=
  if opt < c.nOpts ∧ !aliasName.isEmpty then (insert c.index aliasName opt).map (fun ix => { c with index := ix })
  else some c

/-! ### adding a whole context (`OptionContext::add(const OptionContext&)`)
  The groups of the other context are added one after the other (`add(group)` for each, in the order in which its groups were created), so the
  options arrive group by group, not in the order in which they were added to the other context; the extra names given to the other context with
  `addAlias` are not taken over.  `opts`: the other context's options as (name, alias, group) in their order of addition. -/
def groupOrder (opts : List (List Nat × Nat × Nat)) : List Nat := (opts.map (·.2.2)).eraseDups

def mergeOrder (opts : List (List Nat × Nat × Nat)) : List (List Nat × Nat × Nat) :=
  (groupOrder opts).flatMap (fun g => opts.filter (fun o => o.2.2 == g))

/-- the options are inserted one by one; at the first refusal the exception leaves the context with what was inserted so far (and what the refused
    `insertOption` left behind).  Result: the context, and whether the merge went through. -/
def Ctx.addAll (c : Ctx) : List (List Nat × Nat × Nat) → Ctx × Bool
  | [] => (c, true)
  | o :: r => match c.addOption o.1 o.2.1 with
    | some c' => c'.addAll r
    | none => (c.afterRefused o.2.1, false)

def Ctx.addCtx (c : Ctx) (otherOpts : List (List Nat × Nat × Nat)) : Ctx × Bool := c.addAll (mergeOrder otherOpts)

end PotasscoVerif.OptIndex
