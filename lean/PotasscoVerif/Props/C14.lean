/-
  C14 — option lookup resolves a key to the unique matching option or fails correctly.
  Model: Model/OptIndex.lean.  Everything here is for ALL byte values (names with bytes ≥ 0x7f included) and
  ALL sorted indices; `insert` keeps the index sorted, so every context that can be built is covered.
-/
import PotasscoVerif.Model.OptIndex
namespace PotasscoVerif.C14
open PotasscoVerif.OptIndex

def Sorted (ix : Index) : Prop := ix.Pairwise (fun a b => lexLt a.1 b.1 = true)

theorem lexLt_irrefl : ∀ (a : List Nat), lexLt a a = false := by
  intro a; induction a with
  | nil => rfl
  | cons x a ih => simp [lexLt, ih]

/-- an entry below the key cannot start with the key. -/
theorem not_prefix_of_lt : ∀ (k e : List Nat), lexLt e k = true → k.isPrefixOf e = false := by
  intro k
  induction k with
  | nil => intro e h; cases e <;> simp [lexLt] at h
  | cons a k ih =>
    intro e h
    cases e with
    | nil => rfl
    | cons b e =>
      simp only [lexLt, Bool.or_eq_true, decide_eq_true_eq, Bool.and_eq_true, beq_iff_eq] at h
      simp only [List.isPrefixOf]
      rcases h with h | ⟨h1, h2⟩
      · have : (a == b) = false := by simp; omega
        simp [this]
      · simp [ih e h2]

/-- sandwich: between the key and a word that starts with the key, every word starts with the key. -/
theorem prefix_of_between : ∀ (k e' e'' : List Nat), lexLt e' k = false → lexLt e' e'' = true →
    k.isPrefixOf e'' = true → k.isPrefixOf e' = true := by
  intro k
  induction k with
  | nil => intro e' e'' _ _ _; simp
  | cons a k ih =>
    intro e' e'' h1 h2 h3
    cases e'' with
    | nil => simp [List.isPrefixOf] at h3
    | cons c e'' =>
      simp only [List.isPrefixOf, Bool.and_eq_true, beq_iff_eq] at h3
      cases e' with
      | nil => simp [lexLt] at h1
      | cons b e' =>
        simp only [lexLt, Bool.or_eq_false_iff, decide_eq_false_iff_not, Bool.and_eq_false_iff] at h1
        simp only [lexLt, Bool.or_eq_true, decide_eq_true_eq, Bool.and_eq_true, beq_iff_eq] at h2
        have hac := h3.1
        subst hac
        have hba : b = a := by
          rcases h2 with h | ⟨h, _⟩
          · rcases h1.2 with h' | h'
            · simp at h'; omega
            · omega
          · exact h
        subst hba
        simp only [List.isPrefixOf, beq_self_eq_true, Bool.true_and]
        have h1' : lexLt e' k = false := by
          rcases h1.2 with h' | h'
          · simp at h'
          · exact h'
        have h2' : lexLt e' e'' = true := by
          rcases h2 with h | ⟨_, h⟩
          · omega
          · exact h
        exact ih e' e'' h1' h2' h3.2

/-- above the key, a sorted list has its prefix matches at the front. -/
theorem takeWhile_eq_filter (k : List Nat) : ∀ (l : Index), Sorted l → (∀ e ∈ l, lexLt e.1 k = false) →
    l.takeWhile (fun e => k.isPrefixOf e.1) = l.filter (fun e => k.isPrefixOf e.1) := by
  intro l
  induction l with
  | nil => intro _ _; rfl
  | cons e r ih =>
    intro hs hge
    have hsr : Sorted r := (List.pairwise_cons.mp hs).2
    have hlt : ∀ e' ∈ r, lexLt e.1 e'.1 = true := (List.pairwise_cons.mp hs).1
    have hger : ∀ e' ∈ r, lexLt e'.1 k = false := fun e' he => hge e' (List.mem_cons_of_mem _ he)
    by_cases hp : k.isPrefixOf e.1 = true
    · simp only [List.takeWhile, hp, List.filter_cons, ↓reduceIte]
      rw [ih hsr hger]
    · have hpf : k.isPrefixOf e.1 = false := by cases h : k.isPrefixOf e.1 <;> simp_all
      simp only [List.takeWhile, hpf, List.filter_cons, Bool.false_eq_true, ↓reduceIte]
      symm
      apply List.filter_eq_nil_iff.mpr
      intro e' he' hpe'
      have := prefix_of_between k e.1 e'.1 (hge e (by simp)) (hlt e' he') hpe'
      rw [this] at hpf; cases hpf

/-- **C14_prefix_range.** In a sorted index the range computed for a prefix lookup (lower bound, then while the
    entries start with the key) is exactly the set of entries whose name starts with the key — for every
    byte value, in particular for names whose next byte is ≥ 0x7f (D10). -/
theorem C14_prefix_range (k : List Nat) : ∀ (ix : Index), Sorted ix →
    (lowerBound ix k).takeWhile (fun e => k.isPrefixOf e.1) = ix.filter (fun e => k.isPrefixOf e.1) := by
  intro ix
  induction ix with
  | nil => intro _; rfl
  | cons e r ih =>
    intro hs
    have hsr : Sorted r := (List.pairwise_cons.mp hs).2
    have hlt : ∀ e' ∈ r, lexLt e.1 e'.1 = true := (List.pairwise_cons.mp hs).1
    by_cases hl : lexLt e.1 k = true
    · have hnp := not_prefix_of_lt k e.1 hl
      simp only [lowerBound, List.dropWhile, hl, List.filter_cons, hnp, Bool.false_eq_true, ↓reduceIte]
      exact ih hsr
    · have hl' : lexLt e.1 k = false := by simpa using hl
      have hlb : lowerBound (e :: r) k = e :: r := by simp [lowerBound, List.dropWhile, hl']
      rw [hlb]
      apply takeWhile_eq_filter k (e :: r) hs
      intro e' he'
      rcases List.mem_cons.mp he' with h | h
      · rw [h]; exact hl'
      · -- e' > e ≥ k
        have h1 := hlt e' h
        cases hq : lexLt e'.1 k with
        | false => rfl
        | true =>
          -- then e < e' < k, contradiction with ¬ e < k : transitivity
          exfalso
          have : lexLt e.1 k = true := by
            -- lexLt is transitive
            have trans : ∀ (a b c : List Nat), lexLt a b = true → lexLt b c = true → lexLt a c = true := by
              intro a
              induction a with
              | nil => intro b c h1 h2; cases b <;> cases c <;> simp_all [lexLt]
              | cons x a iha =>
                intro b c h1 h2
                cases b with
                | nil => simp [lexLt] at h1
                | cons y b =>
                  cases c with
                  | nil => simp [lexLt] at h2
                  | cons z c =>
                    simp only [lexLt, Bool.or_eq_true, decide_eq_true_eq, Bool.and_eq_true, beq_iff_eq] at h1 h2 ⊢
                    rcases h1 with h1 | ⟨h1, h1'⟩ <;> rcases h2 with h2 | ⟨h2, h2'⟩
                    · left; omega
                    · left; omega
                    · left; omega
                    · right; exact ⟨by omega, iha b c h1' h2'⟩
            exact trans _ _ _ h1 hq
          rw [this] at hl'; cases hl'

theorem lexLt_total : ∀ (a b : List Nat), lexLt a b = false → lexLt b a = false → a = b := by
  intro a
  induction a with
  | nil => intro b h1 h2; cases b <;> simp_all [lexLt]
  | cons x a ih =>
    intro b h1 h2
    cases b with
    | nil => simp [lexLt] at h2
    | cons y b =>
      simp only [lexLt, Bool.or_eq_false_iff, decide_eq_false_iff_not, Bool.and_eq_false_iff] at h1 h2
      have hxy : x = y := by omega
      subst hxy
      have h1' : lexLt a b = false := by rcases h1.2 with h | h; simp at h; exact h
      have h2' : lexLt b a = false := by rcases h2.2 with h | h; simp at h; exact h
      rw [ih b h1' h2']

theorem lexLt_trans : ∀ (a b c : List Nat), lexLt a b = true → lexLt b c = true → lexLt a c = true := by
  intro a
  induction a with
  | nil => intro b c h1 h2; cases b <;> cases c <;> simp_all [lexLt]
  | cons x a iha =>
    intro b c h1 h2
    cases b with
    | nil => simp [lexLt] at h1
    | cons y b =>
      cases c with
      | nil => simp [lexLt] at h2
      | cons z c =>
        simp only [lexLt, Bool.or_eq_true, decide_eq_true_eq, Bool.and_eq_true, beq_iff_eq] at h1 h2 ⊢
        rcases h1 with h1 | ⟨h1, h1'⟩ <;> rcases h2 with h2 | ⟨h2, h2'⟩
        · left; omega
        · left; omega
        · left; omega
        · right; exact ⟨by omega, iha b c h1' h2'⟩

/-- `insert` keeps the index sorted and adds exactly the new entry; it refuses exactly the taken names. -/
theorem insert_spec : ∀ (ix : Index) (n : List Nat) (k : Nat), Sorted ix →
    (∀ ix', OptIndex.insert ix n k = some ix' → Sorted ix' ∧ ∀ e, e ∈ ix' ↔ (e = (n, k) ∨ e ∈ ix)) ∧
    (OptIndex.insert ix n k = none ↔ ∃ o, (n, o) ∈ ix) := by
  intro ix
  induction ix with
  | nil =>
    intro n k _
    refine ⟨?_, by simp [OptIndex.insert]⟩
    intro ix' h; simp [OptIndex.insert] at h; subst h
    exact ⟨by simp [Sorted], by simp⟩
  | cons e r ih =>
    intro n k hs
    have hsr : Sorted r := (List.pairwise_cons.mp hs).2
    have hlt : ∀ e' ∈ r, lexLt e.1 e'.1 = true := (List.pairwise_cons.mp hs).1
    unfold OptIndex.insert
    by_cases h1 : lexLt n e.1 = true
    · simp only [h1, ↓reduceIte]
      refine ⟨?_, ?_⟩
      · intro ix' h; simp only [Option.some.injEq] at h; subst h
        refine ⟨?_, by simp⟩
        apply List.pairwise_cons.mpr
        refine ⟨?_, hs⟩
        intro e' he'
        rcases List.mem_cons.mp he' with h | h
        · rw [h]; exact h1
        · exact lexLt_trans _ _ _ h1 (hlt e' h)
      · simp only [reduceCtorEq, false_iff, not_exists]
        intro o ho
        rcases List.mem_cons.mp ho with h | h
        · rw [← h] at h1; simp [lexLt_irrefl] at h1
        · have := lexLt_trans _ _ _ h1 (hlt _ h); simp [lexLt_irrefl] at this
    · simp only [h1, Bool.false_eq_true, ↓reduceIte]
      by_cases h2 : e.1 = n
      · simp only [h2, beq_self_eq_true, ↓reduceIte]
        refine ⟨(by intro ix' h; cases h), ?_⟩
        simp only [true_iff]
        exact ⟨e.2, List.mem_cons.mpr (Or.inl (by rw [← h2]))⟩
      · have hne : (e.1 == n) = false := by simp [h2]
        simp only [hne, Bool.false_eq_true, ↓reduceIte]
        have hih := ih n k hsr
        have hen : lexLt e.1 n = true := by
          cases hq : lexLt e.1 n with
          | true => rfl
          | false => exact absurd (lexLt_total _ _ hq (by simpa using h1)) h2
        refine ⟨?_, ?_⟩
        · intro ix' h
          cases hi : OptIndex.insert r n k with
          | none => simp [hi] at h
          | some r' =>
            simp only [hi, Option.map_some, Option.some.injEq] at h; subst h
            obtain ⟨hs', hm'⟩ := hih.1 r' hi
            refine ⟨?_, ?_⟩
            · apply List.pairwise_cons.mpr
              refine ⟨?_, hs'⟩
              intro e' he'
              rcases (hm' e').mp he' with h | h
              · rw [h]; exact hen
              · exact hlt e' h
            · intro e'
              simp only [List.mem_cons, hm' e']
              constructor
              · rintro (h | h | h); exact Or.inr (Or.inl h); exact Or.inl h; exact Or.inr (Or.inr h)
              · rintro (h | h | h); exact Or.inr (Or.inl h); exact Or.inl h; exact Or.inr (Or.inr h)
        · rw [Option.map_eq_none_iff, hih.2]
          constructor
          · rintro ⟨o, ho⟩; exact ⟨o, List.mem_cons_of_mem _ ho⟩
          · rintro ⟨o, ho⟩
            rcases List.mem_cons.mp ho with h | h
            · exact absurd (by rw [← h]) h2
            · exact ⟨o, h⟩

/-- the lower bound of a name that is in the index starts with that very entry. -/
theorem lowerBound_exact : ∀ (ix : Index) (n : List Nat) (o : Nat), Sorted ix → (n, o) ∈ ix →
    ∃ rest, lowerBound ix n = (n, o) :: rest := by
  intro ix
  induction ix with
  | nil => intro n o _ h; cases h
  | cons e r ih =>
    intro n o hs hm
    have hsr : Sorted r := (List.pairwise_cons.mp hs).2
    have hlt : ∀ e' ∈ r, lexLt e.1 e'.1 = true := (List.pairwise_cons.mp hs).1
    rcases List.mem_cons.mp hm with h | h
    · rw [← h]; exact ⟨r, by simp [lowerBound, List.dropWhile, lexLt_irrefl]⟩
    · have := hlt _ h
      obtain ⟨rest, hr⟩ := ih n o hsr h
      exact ⟨rest, by simp only [lowerBound, List.dropWhile, this] at hr ⊢; exact hr⟩

theorem dropWhile_head {α} (p : α → Bool) : ∀ (l : List α) (e : α) (rest : List α), l.dropWhile p = e :: rest → p e = false := by
  intro l
  induction l with
  | nil => intro e rest h; cases h
  | cons x l ih =>
    intro e rest h
    by_cases hx : p x = true
    · simp only [List.dropWhile, hx] at h; exact ih e rest h
    · have hx' : p x = false := by simpa using hx
      simp only [List.dropWhile, hx'] at h
      cases h; exact hx'

theorem mem_of_mem_dropWhile {α} (p : α → Bool) : ∀ (l : List α) (e : α), e ∈ l.dropWhile p → e ∈ l := by
  intro l
  induction l with
  | nil => intro e h; cases h
  | cons x l ih =>
    intro e h
    by_cases hx : p x = true
    · simp only [List.dropWhile, hx] at h; exact List.mem_cons_of_mem _ (ih e h)
    · have hx' : p x = false := by simpa using hx
      simp only [List.dropWhile, hx'] at h; exact h

/-- the lower bound never starts with an entry below the key. -/
theorem lowerBound_head_ge (ix : Index) (k : List Nat) (e : Entry) (rest : Index) (h : lowerBound ix k = e :: rest) :
    lexLt e.1 k = false := dropWhile_head (fun (e : Entry) => lexLt e.1 k) ix e rest h

/-- **exact lookups** (by name, name-or-prefix, alias): a key that is a name of the index is resolved to the
    option with that name, whatever other names share it as a prefix. -/
theorem C14_find_exact (ix : Index) (hs : Sorted ix) (key : List Nat) (t : FindType) (o : Nat)
    (hn : t.hasName = true) (hm : (effKey key t, o) ∈ ix) :
    find ix key t = .opt o ∧ tryFind ix key t = some o := by
  obtain ⟨rest, hr⟩ := lowerBound_exact ix (effKey key t) o hs hm
  unfold find tryFind findRange
  simp [hr, hn]

/-- **prefix lookups**: when the key is not itself resolved as an exact name, the candidates are exactly the
    entries whose name starts with the key; unique → that option, none → unknown, several → ambiguous listing
    exactly those names; `tryFind` finds something in precisely the unique case. -/
theorem C14_find_prefix (ix : Index) (hs : Sorted ix) (key : List Nat) (t : FindType)
    (hp : t.hasPrefix = true) (hne : t.hasName = false ∨ ∀ o, (effKey key t, o) ∉ ix) :
    findRange ix key t = ix.filter (fun e => (effKey key t).isPrefixOf e.1) := by
  have hpr := C14_prefix_range (effKey key t) ix hs
  unfold findRange
  simp only
  cases hlb : lowerBound ix (effKey key t) with
  | nil => rw [hlb] at hpr; simpa using hpr
  | cons e rest =>
    rw [hlb] at hpr
    have hcond : (e.1 == effKey key t && t.hasName) = false := by
      rcases hne with h | h
      · simp [h]
      · have hge := lowerBound_head_ge ix _ e rest hlb
        by_cases he : e.1 = effKey key t
        · exfalso
          have : e ∈ ix := by
            have : e ∈ lowerBound ix (effKey key t) := by rw [hlb]; simp
            exact mem_of_mem_dropWhile _ ix e this
          exact h e.2 (by rw [← he]; exact this)
        · simp [he]
    simp only [hcond, Bool.false_eq_true, ↓reduceIte, hp]
    exact hpr

/-- lookups that allow no prefix (by name, by alias) and find no exact name report "unknown". -/
theorem C14_find_unknown (ix : Index) (hs : Sorted ix) (key : List Nat) (t : FindType)
    (hp : t.hasPrefix = false) (hne : ∀ o, (effKey key t, o) ∉ ix) :
    find ix key t = .unknown ∧ tryFind ix key t = none := by
  unfold find tryFind findRange
  simp only
  cases hlb : lowerBound ix (effKey key t) with
  | nil => simp
  | cons e rest =>
    have he : e.1 ≠ effKey key t := by
      intro he
      have : e ∈ ix := by
        have : e ∈ lowerBound ix (effKey key t) := by rw [hlb]; simp
        exact mem_of_mem_dropWhile _ ix e this
      exact hne e.2 (by rw [← he]; exact this)
    simp [he, hp]

/-- **duplicates are refused**: adding an option or alias whose long, short or alias name is taken fails. -/
theorem C14_duplicate (ix : Index) (hs : Sorted ix) (n : List Nat) (k : Nat) :
    OptIndex.insert ix n k = none ↔ ∃ o, (n, o) ∈ ix := (insert_spec ix n k hs).2

/-- **a refused add leaves the context as it was** when the option's short name is the one that is taken (the short name is looked at
    first): the add fails and the context the caller goes on using is the one it had — every lookup answers as before.
    (When the short name is new and only the long name is taken, the code has already entered the short name: `Ctx.afterRefused`.) -/
theorem C14_refused_short_unchanged (c : Ctx) (name : List Nat) (alias : Nat) (ha : alias ≠ 0) (hs : Sorted c.index)
    (ht : ∃ o, ([45, alias], o) ∈ c.index) : c.addOption name alias = none ∧ c.afterRefused alias = c := by
  have hi : OptIndex.insert c.index [45, alias] c.nOpts = none := (C14_duplicate c.index hs _ _).mpr ht
  constructor
  · simp [Ctx.addOption, ha, hi]
  · simp [Ctx.afterRefused, ha, hi]

/-- an option without short name that is refused changes nothing either -/
theorem C14_refused_noalias_unchanged (c : Ctx) : c.afterRefused 0 = c := by simp [Ctx.afterRefused]

/-- adding the options of another context one by one: an option that is accepted is inserted exactly like a single `add`, and the merge goes on
    from the context that single add yields -/
theorem C14_merge_step (c c' : Ctx) (o : List Nat × Nat × Nat) (r : List (List Nat × Nat × Nat)) (h : c.addOption o.1 o.2.1 = some c') :
    c.addAll (o :: r) = c'.addAll r := by
  simp [Ctx.addAll, h]

/-- a refused merge stops at the first option that is refused; the options before it stay -/
theorem C14_merge_refused (c : Ctx) (o : List Nat × Nat × Nat) (r : List (List Nat × Nat × Nat)) (h : c.addOption o.1 o.2.1 = none) :
    c.addAll (o :: r) = (c.afterRefused o.2.1, false) := by
  simp [Ctx.addAll, h]

/-! non-vacuity: names with bytes ≥ 0x7f after a shared prefix -/
def exIndex : Index := [([45, 102], 0), ([102, 111, 111], 0), ([102, 111, 111, 45, 98], 1), ([102, 111, 195, 164], 2)]
example : Sorted exIndex := by simp [Sorted, exIndex, lexLt]
example : find exIndex [102, 111] .pfx = .ambiguous [[102, 111, 111], [102, 111, 111, 45, 98], [102, 111, 195, 164]] := by decide
example : find exIndex [102, 111, 195] .nameOrPrefix = .opt 2 := by decide
example : find exIndex [102, 111, 111] .nameOrPrefix = .opt 0 ∧ find exIndex [102] .alias = .opt 0 := by decide

end PotasscoVerif.C14
