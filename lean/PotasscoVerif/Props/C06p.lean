/-
  C06 (continued) — parsing the rendered text back, with the library's own reader of ground text.

  `Model/TextOut.lean` (the writer, C06) and `Model/TextIn.lean` (the reader, C10) are two hand-written models, each tied to its
  C++ class by its own correspondence check.  Here they are composed: for EVERY program step made of rules with normal bodies
  (disjunctive or choice heads, also empty; empty bodies), `#project`, `#external` (all four values), `#assume`, `#heuristic`
  (all modifiers, any bias, priority, condition), `#edge` directives, `#minimize` statements and weight rules with at most one
  aggregate element, over unnamed atoms — any number of them, any list lengths —
  the text the writer produces is read by the reader, without an error, as exactly the calls that were rendered, in order.
  (Aggregates with two or more elements are written with `;` between the elements, which the library's own reader does not accept —
  it wants `,` —, and named atoms are written by name, which it does not read either: those parts of C06 stay with the reference
  parser of the check.)
-/
import PotasscoVerif.Props.C06
import PotasscoVerif.Props.C10p
namespace PotasscoVerif.C06
open PotasscoVerif PotasscoVerif.TextOut PotasscoVerif.AspifOut
open PotasscoVerif.C10

/-! ### names of unnamed atoms and literals -/
theorem s_x : s "x_" = [120, 95] := by decide
theorem s_not : s "not " = [110, 111, 116, 32] := by decide

/-- what the writer prints for a literal over an unnamed atom -/
def litTxt (l : Int) : List Nat := (if l < 0 then [110, 111, 116, 32] else []) ++ (120 :: 95 :: printNat l.natAbs)

theorem litName_unnamed (t : TO) (hn : t.names = []) (l : Int) : t.litName l = litTxt l := by
  simp [TO.litName, TO.atomName, TO.nameOf, hn, litTxt, s_x, s_not]

/-! ### the reader's view of a literal / an atom as the writer prints it -/
def litItem (l : Int) (after : List Nat) : LitItem := { neg := decide (l < 0), n := l.natAbs, sp := .x_, wsNot := [], wsAfter := after }

theorem litItem_text (l : Int) (after : List Nat) : (litItem l after).text = litTxt l ++ after := by
  by_cases h : l < 0 <;> simp [litItem, LitItem.text, litTxt, Spelling.text, h]

theorem litItem_val (l : Int) (after : List Nat) : (litItem l after).val = l := by
  by_cases h : l < 0
  · simp [litItem, LitItem.val, h]; omega
  · simp [litItem, LitItem.val, h]; omega

/-- a literal the reader can take back: non-zero, atom at most 2^31-1 -/
def LitOk (l : Int) : Prop := 1 ≤ l.natAbs ∧ l.natAbs ≤ 2147483647

theorem filler_nil : Filler [] := by intro c hc; cases hc
theorem filler_sp : Filler [32] := by intro c hc; simp at hc; subst hc; decide
theorem filler_nl : Filler [10] := by intro c hc; simp at hc; subst hc; decide

theorem litItem_ok (l : Int) (after : List Nat) (h : LitOk l) (ha : Filler after) : (litItem l after).ok :=
  ⟨h, filler_nil, ha⟩

/-- comma-separated literals as the writer prints them: ", " between them, `after` behind the last one -/
def litItems : List Int → List Nat → List (LitItem × List Nat)
  | [], _ => []
  | [l], after => [(litItem l after, [])]
  | l :: l2 :: r, after => (litItem l [], [32]) :: litItems (l2 :: r) after

theorem s_comma : s ", " = [44, 32] := by decide

theorem litsText_litItems (ls : List Int) (hne : ls ≠ []) (after : List Nat) :
    litsText (litItems ls after) = sepJoin [44, 32] (ls.map litTxt) ++ after := by
  induction ls with
  | nil => exact absurd rfl hne
  | cons l r ih =>
    cases r with
    | nil => simp [litItems, litsText, sepJoin, litItem_text]
    | cons l2 r' =>
      have := ih (by simp)
      simp only [litItems, List.map_cons] at this ⊢
      cases hr : litItems (l2 :: r') after with
      | nil => cases r' <;> simp [litItems] at hr
      | cons q qs =>
        rw [hr] at this
        simp only [litsText, litItem_text, List.append_nil]
        rw [this]
        simp [sepJoin, List.append_assoc]

theorem litItems_vals (ls : List Int) (after : List Nat) : (litItems ls after).map (fun p => p.1.val) = ls := by
  induction ls with
  | nil => rfl
  | cons l r ih =>
    cases r with
    | nil => simp [litItems, litItem_val]
    | cons l2 r' => simp only [litItems, List.map_cons, litItem_val]; rw [ih]

theorem litItems_ok (ls : List Int) (after : List Nat) (h : ∀ l ∈ ls, LitOk l) (ha : Filler after) :
    ∀ p ∈ litItems ls after, p.1.ok ∧ Filler p.2 := by
  induction ls with
  | nil => intro p hp; cases hp
  | cons l r ih =>
    cases r with
    | nil =>
      intro p hp; simp [litItems] at hp; subst hp
      exact ⟨litItem_ok l after (h l (by simp)) ha, filler_nil⟩
    | cons l2 r' =>
      intro p hp
      simp only [litItems, List.mem_cons] at hp
      rcases hp with rfl | hp
      · exact ⟨litItem_ok l [] (h l (by simp)) filler_nil, filler_sp⟩
      · exact ih (fun x hx => h x (List.mem_cons_of_mem _ hx)) p (by simpa [litItems] using hp)

/-! ### atom lists -/
def AtomOk (n : Nat) : Prop := 1 ≤ n ∧ n ≤ 2147483647
def atomTxt (n : Nat) : List Nat := 120 :: 95 :: printNat n

theorem litTxt_nat (n : Nat) : litTxt (n : Int) = atomTxt n := by
  have : ¬ ((n : Int) < 0) := by omega
  simp [litTxt, atomTxt, this]

def atomItem (n : Nat) (after : List Nat) : AtomItem := { n := n, sp := .x_, wsAfter := after }
theorem atomItem_text (n : Nat) (after : List Nat) : (atomItem n after).text = atomTxt n ++ after := by
  simp [atomItem, AtomItem.text, Spelling.text, atomTxt]
theorem atomItem_ok (n : Nat) (after : List Nat) (h : AtomOk n) (ha : Filler after) : (atomItem n after).ok := ⟨h, ha⟩

/-- atoms separated by the character `sep` and the filler `wsSep`, `after` behind the last one -/
def atomItems (sep : Nat) (wsSep : List Nat) : List Nat → List Nat → List (AtomItem × Nat × List Nat)
  | [], _ => []
  | [n], after => [(atomItem n after, sep, [])]
  | n :: n2 :: r, after => (atomItem n [], sep, wsSep) :: atomItems sep wsSep (n2 :: r) after

theorem atomsText_atomItems (sep : Nat) (wsSep : List Nat) (ns : List Nat) (hne : ns ≠ []) (after : List Nat) :
    atomsText (atomItems sep wsSep ns after) = sepJoin (sep :: wsSep) (ns.map atomTxt) ++ after := by
  induction ns with
  | nil => exact absurd rfl hne
  | cons n r ih =>
    cases r with
    | nil => simp [atomItems, atomsText, sepJoin, atomItem_text]
    | cons n2 r' =>
      have := ih (by simp)
      simp only [atomItems, List.map_cons] at this ⊢
      cases hr : atomItems sep wsSep (n2 :: r') after with
      | nil => cases r' <;> simp [atomItems] at hr
      | cons q qs =>
        rw [hr] at this
        obtain ⟨q1, q2, q3⟩ := q
        simp only [atomsText, atomItem_text, List.append_nil]
        rw [this]
        simp [sepJoin, List.append_assoc]

theorem atomItems_ns (sep : Nat) (wsSep : List Nat) (ns : List Nat) (after : List Nat) : (atomItems sep wsSep ns after).map (fun p => p.1.n) = ns := by
  induction ns with
  | nil => rfl
  | cons n r ih =>
    cases r with
    | nil => simp [atomItems, atomItem]
    | cons n2 r' => simp only [atomItems, List.map_cons]; rw [ih]; simp [atomItem]

theorem atomItems_ok (sep : Nat) (wsSep : List Nat) (ns : List Nat) (after : List Nat) (h : ∀ n ∈ ns, AtomOk n) (hw : Filler wsSep) (ha : Filler after) :
    ∀ p ∈ atomItems sep wsSep ns after, p.1.ok ∧ p.2.1 = sep ∧ Filler p.2.2 := by
  induction ns with
  | nil => intro p hp; cases hp
  | cons n r ih =>
    cases r with
    | nil =>
      intro p hp; simp [atomItems] at hp; subst hp
      exact ⟨atomItem_ok n after (h n (by simp)) ha, rfl, filler_nil⟩
    | cons n2 r' =>
      intro p hp
      simp only [atomItems, List.mem_cons] at hp
      rcases hp with rfl | hp
      · exact ⟨atomItem_ok n [] (h n (by simp)) filler_nil, rfl, hw⟩
      · exact ih (fun x hx => h x (List.mem_cons_of_mem _ hx)) p (by simpa [atomItems] using hp)

/-! ### rules with normal bodies -/
def bodyOf (body : List Int) : BodyS := { wsArrow := [32], items := litItems body [] }

def ruleStmt (ht : Nat) (head : List Nat) (body : List Int) : RuleS :=
  let after := if body.isEmpty then [] else [32]
  { head := if ht = 0 then .disj (atomItems 124 [] head after) else .choice [] (atomItems 59 [] head []) (if head.isEmpty then [] else after),
    body := if head.isEmpty || !body.isEmpty then some (bodyOf body) else none,
    wsDot := [10] }

/-- directives over unnamed atoms the library's own reader takes back -/
def RuleOk (ht : Nat) (head : List Nat) (body : List Int) : Prop := ht ≤ 1 ∧ (∀ n ∈ head, AtomOk n) ∧ ∀ l ∈ body, LitOk l

theorem names_unnamed (t : TO) (hn : t.names = []) (ls : List Int) : ls.map t.litName = ls.map litTxt := by
  apply List.map_congr_left; intro l _; exact litName_unnamed t hn l

theorem ints_names (t : TO) (hn : t.names = []) (ns : List Nat) : (ints ns).map t.litName = ns.map atomTxt := by
  simp only [ints, List.map_map]
  apply List.map_congr_left; intro n _
  simp [litName_unnamed t hn, litTxt_nat]

theorem bodyText_of (body : List Int) : (bodyOf body).text = [58, 45, 32] ++ opened [] [44, 32] (body.map litTxt) := by
  by_cases hb : body = []
  · subst hb; simp [bodyOf, BodyS.text, litItems, litsText, opened]
  · have := litsText_litItems body hb []
    simp only [bodyOf, BodyS.text, this, opened]
    cases body with
    | nil => exact absurd rfl hb
    | cons l r => simp

theorem ruleStmt_text (t : TO) (hn : t.names = []) (ht : Nat) (head : List Nat) (body : List Int) :
    (ruleStmt ht head body).text = (Dir.rule ht head body).text t ++ [10] := by
  have e1 := names_unnamed t hn body
  have e2 := ints_names t hn head
  simp only [Dir.text, headText, e1, e2, RuleS.text, ruleStmt]
  by_cases hh : head = []
  · subst hh
    by_cases h0 : ht = 0
    · subst h0
      simp [HeadS.text, atomItems, atomsText, bodyText, bodyText_of, neck, s, opened]
    · simp [h0, HeadS.text, atomItems, atomsText, bodyText, bodyText_of, neck, s, opened]
  · have hne : head.isEmpty = false := by cases head <;> simp_all
    by_cases hb : body = []
    · subst hb
      by_cases h0 : ht = 0
      · subst h0
        simp [hne, HeadS.text, atomsText_atomItems _ _ head hh, bodyText, opened]
      · simp [h0, hne, HeadS.text, atomsText_atomItems _ _ head hh, bodyText, opened]
    · have hbe : body.isEmpty = false := by cases body <;> simp_all
      by_cases h0 : ht = 0
      · subst h0
        simp [hne, hbe, HeadS.text, atomsText_atomItems _ _ head hh, bodyText, bodyText_of, opened, neck, s, List.append_assoc]
      · simp [h0, hne, hbe, HeadS.text, atomsText_atomItems _ _ head hh, bodyText, bodyText_of, opened, neck, s, List.append_assoc]

theorem bodyOf_ok (body : List Int) (h : ∀ l ∈ body, LitOk l) : (bodyOf body).ok :=
  ⟨filler_sp, litItems_ok body [] h filler_nil⟩

theorem ruleStmt_ok (ht : Nat) (head : List Nat) (body : List Int) (h : RuleOk ht head body) : (ruleStmt ht head body).ok := by
  obtain ⟨_, hh, hb⟩ := h
  have hafter : Filler (if body.isEmpty then [] else [32]) := by split; exact filler_nil; exact filler_sp
  refine ⟨?_, filler_nl, ?_, ?_⟩
  · simp only [ruleStmt]
    split
    · intro p hp
      obtain ⟨h1, h2, h3⟩ := atomItems_ok 124 [] head _ hh filler_nil hafter p hp
      exact ⟨h1, by rw [h2]; exact Or.inr (Or.inl rfl), by rw [h2]; rfl, h3⟩
    · refine ⟨filler_nil, ?_, ?_⟩
      · split; exact filler_nil; exact hafter
      · intro p hp
        obtain ⟨h1, h2, h3⟩ := atomItems_ok 59 [] head [] hh filler_nil filler_nil p hp
        exact ⟨h1, by rw [h2]; exact Or.inl rfl, by rw [h2]; rfl, h3⟩
  · simp only [ruleStmt]
    split
    · exact bodyOf_ok body hb
    · trivial
  · simp only [ruleStmt]
    by_cases hh0 : head = []
    · subst hh0; simp
    · have hne : head.isEmpty = false := by cases head <;> simp_all
      split
      · rename_i x y h1 h2
        split at h1
        · simp only [HeadS.disj.injEq] at h1
          cases head with
          | nil => exact absurd rfl hh0
          | cons n r => cases r <;> simp [atomItems] at h1
        · cases h1
      · trivial

theorem ruleStmt_call (ht : Nat) (head : List Nat) (body : List Int) (h : RuleOk ht head body) : (ruleStmt ht head body).call = .rule ht head body := by
  obtain ⟨h1, _, _⟩ := h
  simp only [RuleS.call, ruleStmt]
  have hb : bodyVals (if (head.isEmpty || !body.isEmpty) = true then some (bodyOf body) else none) = body := by
    split
    · simp [bodyVals, bodyOf, litItems_vals]
    · rename_i hc
      simp only [Bool.or_eq_true, Bool.not_eq_true', not_or, Bool.not_eq_true, Bool.not_eq_false] at hc
      have : body = [] := by cases body <;> simp_all
      simp [bodyVals, this]
  rw [hb]
  by_cases h0 : ht = 0
  · subst h0; simp [HeadS.ht, HeadS.atoms, atomItems_ns]
  · have : ht = 1 := by omega
    subst this; simp [HeadS.ht, HeadS.atoms, atomItems_ns]

/-! ### `#project`, `#assume`, `#external`, `#edge`, `#heuristic` -/
theorem s_project : s "#project{" = kwProject ++ [123] := by decide
theorem s_assume : s "#assume{" = kwAssume ++ [123] := by decide
theorem s_close : s "}." = [125, 46] := by decide
theorem s_external : s "#external " = kwExternal ++ [32] := by decide
theorem s_edge : s "#edge(" = kwEdge ++ [40] := by decide
theorem s_heuristic : s "#heuristic " = kwHeuristic ++ [32] := by decide
theorem s_colon : s " : " = [32, 58, 32] := by decide
theorem s_free : s ". [free]" = [46, 32, 91] ++ valText 0 ++ [93] := by decide
theorem s_true : s ". [true]" = [46, 32, 91] ++ valText 1 ++ [93] := by decide
theorem s_release : s ". [release]" = [46, 32, 91] ++ valText 3 ++ [93] := by decide
theorem s_open : s ". [" = [46, 32, 91] := by decide

def projectStmt (atoms : List Nat) : ProjectS :=
  { ws0 := [], br := some { wsOpen := [], items := atomItems 44 [32] atoms [], wsClose := [] }, wsDot := [10] }

theorem atomsText_opened (sep : Nat) (wsSep : List Nat) (ns : List Nat) :
    atomsText (atomItems sep wsSep ns []) = opened [] (sep :: wsSep) (ns.map atomTxt) := by
  by_cases h : ns = []
  · subst h; simp [atomItems, atomsText, opened]
  · rw [atomsText_atomItems _ _ ns h]
    cases ns with
    | nil => exact absurd rfl h
    | cons n r => simp [opened]

theorem litsText_opened (ls : List Int) : litsText (litItems ls []) = opened [] [44, 32] (ls.map litTxt) := by
  by_cases h : ls = []
  · subst h; simp [litItems, litsText, opened]
  · rw [litsText_litItems ls h]
    cases ls with
    | nil => exact absurd rfl h
    | cons n r => simp [opened]

theorem projectStmt_text (t : TO) (hn : t.names = []) (atoms : List Nat) : (projectStmt atoms).text = (Dir.project atoms).text t ++ [10] := by
  simp [Dir.text, ProjectS.text, projectStmt, ProjectS.inner, ints_names t hn, s_project, s_close, s_comma, atomsText_opened, List.append_assoc]

theorem projectStmt_ok (atoms : List Nat) (h : ∀ n ∈ atoms, AtomOk n) : (projectStmt atoms).ok := by
  refine ⟨filler_nil, filler_nl, filler_nil, filler_nil, ?_⟩
  intro p hp
  obtain ⟨h1, h2, h3⟩ := atomItems_ok 44 [32] atoms [] h filler_sp filler_nil p hp
  exact ⟨h1, by rw [h2]; exact Or.inr (Or.inr rfl), by rw [h2]; rfl, h3⟩

def assumeStmt (lits : List Int) : AssumeS :=
  { ws0 := [], br := some { wsOpen := [], items := litItems lits [], wsClose := [] }, wsDot := [10] }

theorem assumeStmt_text (t : TO) (hn : t.names = []) (lits : List Int) : (assumeStmt lits).text = (Dir.assume lits).text t ++ [10] := by
  simp [Dir.text, AssumeS.text, assumeStmt, AssumeS.inner, names_unnamed t hn, s_assume, s_close, s_comma, litsText_opened, List.append_assoc]

theorem assumeStmt_ok (lits : List Int) (h : ∀ l ∈ lits, LitOk l) : (assumeStmt lits).ok :=
  ⟨filler_nil, filler_nl, filler_nil, filler_nil, litItems_ok lits [] h filler_nil⟩

def externalStmt (a v : Nat) : ExternalS :=
  { ws0 := [32], atom := atomItem a [], wsDot := if v = 2 then [10] else [32],
    val := if v = 2 then none else some { wsOpen := [], v := v, wsVal := [], wsClose := [10] } }

theorem externalStmt_text (t : TO) (hn : t.names = []) (a v : Nat) (hv : v ≤ 3) : (externalStmt a v).text = (Dir.external a v).text t ++ [10] := by
  have hv' : v = 0 ∨ v = 1 ∨ v = 2 ∨ v = 3 := by omega
  simp only [Dir.text, ExternalS.text, externalStmt, litName_unnamed t hn, litTxt_nat, atomItem_text, s_external]
  rcases hv' with rfl | rfl | rfl | rfl
  · simp [ExternalS.valT, s_free, List.append_assoc]
  · simp [ExternalS.valT, s_true, List.append_assoc]
  · simp [ExternalS.valT, List.append_assoc]
  · simp [ExternalS.valT, s_release, List.append_assoc]

theorem externalStmt_ok (a v : Nat) (ha : AtomOk a) (hv : v ≤ 3) : (externalStmt a v).ok := by
  refine ⟨filler_sp, atomItem_ok a [] ha filler_nil, ?_, ?_⟩
  · simp only [externalStmt]; split; exact filler_nl; exact filler_sp
  · simp only [externalStmt]; split
    · trivial
    · exact ⟨filler_nil, filler_nil, filler_nl, hv⟩

theorem externalStmt_value (a v : Nat) : ExternalS.value (externalStmt a v).val = v := by
  simp only [externalStmt]; split
  · rename_i h; simp [ExternalS.value, h]
  · rfl

/-- a condition: nothing, or ` : l1, l2, …` -/
def condOf (cond : List Int) : Option BodyS := if cond.isEmpty then none else some { wsArrow := [32], items := litItems cond [] }
def wsCond (cond : List Int) : List Nat := if cond.isEmpty then [] else [32]

theorem condText_of (cond : List Int) : wsCond cond ++ condText (condOf cond) = opened [32, 58, 32] [44, 32] (cond.map litTxt) := by
  by_cases h : cond = []
  · subst h; simp [wsCond, condOf, condText, opened]
  · have hne : cond.isEmpty = false := by cases cond <;> simp_all
    have := litsText_litItems cond h []
    simp only [wsCond, condOf, hne, condText, opened, Bool.false_eq_true, if_false]
    rw [this]
    cases cond with
    | nil => exact absurd rfl h
    | cons l r => simp

theorem condOf_ok (cond : List Int) (h : ∀ l ∈ cond, LitOk l) : bodyOk (condOf cond) := by
  simp only [condOf]; split
  · trivial
  · exact ⟨filler_sp, litItems_ok cond [] h filler_nil⟩

theorem condOf_vals (cond : List Int) : bodyVals (condOf cond) = cond := by
  simp only [condOf]; split
  · rename_i h; cases cond <;> simp_all [bodyVals]
  · simp [bodyVals, litItems_vals]

theorem wsCond_filler (cond : List Int) : Filler (wsCond cond) := by
  simp only [wsCond]; split; exact filler_nil; exact filler_sp

def edgeStmt (a b : Int) (cond : List Int) : EdgeS :=
  { ws0 := [], ws1 := [], s := a, ws2 := [], ws3 := [], t := b, ws4 := [], ws5 := wsCond cond, cond := condOf cond, wsDot := [10] }

theorem edgeStmt_text (t : TO) (hn : t.names = []) (a b : Int) (cond : List Int) : (edgeStmt a b cond).text = (Dir.edge a b cond).text t ++ [10] := by
  have := condText_of cond
  simp only [Dir.text, EdgeS.text, edgeStmt, names_unnamed t hn, s_edge, s_colon, s_comma, List.nil_append]
  rw [← this]
  simp [List.append_assoc]

theorem edgeStmt_ok (a b : Int) (cond : List Int) (ha : I32MIN ≤ a ∧ a ≤ I32MAX) (hb : I32MIN ≤ b ∧ b ≤ I32MAX) (h : ∀ l ∈ cond, LitOk l) : (edgeStmt a b cond).ok :=
  ⟨filler_nil, filler_nil, filler_nil, filler_nil, filler_nil, wsCond_filler cond, filler_nl, condOf_ok cond h, ha, hb⟩

def heuStmt (a ty : Nat) (bias : Int) (prio : Nat) (cond : List Int) : HeuS :=
  { ws0 := [32], atom := atomItem a (wsCond cond), cond := condOf cond, wsDot := [32], wsOpen := [], bias := bias, wsBias := [],
    prio := if prio = 0 then none else some ([], (prio : Int), []), wsComma := [32], mod := ty, wsMod := [], wsClose := [10] }

theorem heuName_eq (ty : Nat) (h : ty < 6) : heuName (ty : Int) = TextIn.heuNames.getD ty [] := by
  have : ty = 0 ∨ ty = 1 ∨ ty = 2 ∨ ty = 3 ∨ ty = 4 ∨ ty = 5 := by omega
  rcases this with rfl | rfl | rfl | rfl | rfl | rfl <;> decide

theorem heuStmt_text (t : TO) (hn : t.names = []) (a ty : Nat) (bias : Int) (prio : Nat) (cond : List Int) (hty : ty < 6) :
    (heuStmt a ty bias prio cond).text = (Dir.heuristic a ty bias prio cond).text t ++ [10] := by
  have := condText_of cond
  simp only [Dir.text, HeuS.text, HeuS.tail, heuStmt, names_unnamed t hn, litName_unnamed t hn, litTxt_nat, atomItem_text, s_heuristic, s_colon, s_comma, s_open,
    heuName_eq ty hty, List.nil_append]
  rw [← this]
  by_cases hp : prio = 0
  · subst hp; simp [prioText, List.append_assoc]
  · have : (prio : Int) ≠ 0 := by omega
    simp [hp, this, prioText, List.append_assoc]

theorem heuStmt_ok (a ty : Nat) (bias : Int) (prio : Nat) (cond : List Int) (ha : AtomOk a) (hty : ty < 6) (hb : I32MIN ≤ bias ∧ bias ≤ I32MAX)
    (hp : prio ≤ 2147483647) (h : ∀ l ∈ cond, LitOk l) : (heuStmt a ty bias prio cond).ok := by
  refine ⟨filler_sp, atomItem_ok a _ ha (wsCond_filler cond), condOf_ok cond h, filler_sp, filler_nil, hb, filler_nil, ?_, ?_, filler_sp, hty, filler_nil, filler_nl⟩
  · simp only [heuStmt]; split
    · trivial
    · exact ⟨filler_nil, filler_nil, by unfold I32MIN; omega, by unfold I32MAX; omega⟩
  · simp only [heuStmt]; split <;> simp [prioVal]

theorem heuStmt_call (a ty : Nat) (bias : Int) (prio : Nat) (cond : List Int) : (heuStmt a ty bias prio cond).call = .heuristic a ty bias prio cond := by
  simp only [HeuS.call, heuStmt, condOf_vals, atomItem]
  by_cases hp : prio = 0
  · subst hp; simp [prioVal]
  · simp [hp, prioVal]

/-! ### aggregates with at most one element: `#minimize` and weight rules -/
def headOf (ht : Nat) (head : List Nat) : HeadS :=
  if ht = 0 then .disj (atomItems 124 [] head [32]) else .choice [] (atomItems 59 [] head []) (if head.isEmpty then [] else [32])

theorem headOf_text (t : TO) (hn : t.names = []) (ht : Nat) (head : List Nat) :
    (headOf ht head).text ++ [58, 45, 32] = headText t ht head ++ neck head := by
  have e2 := ints_names t hn head
  simp only [headText, e2, headOf]
  by_cases hh : head = []
  · subst hh
    by_cases h0 : ht = 0
    · subst h0; simp [HeadS.text, atomItems, atomsText, neck, s]
    · simp [h0, HeadS.text, atomItems, atomsText, neck, s]
  · have hne : head.isEmpty = false := by cases head <;> simp_all
    by_cases h0 : ht = 0
    · subst h0; simp [hne, HeadS.text, atomsText_atomItems _ _ head hh, neck, s, List.append_assoc]
    · simp [h0, hne, HeadS.text, atomsText_atomItems _ _ head hh, neck, s, List.append_assoc]

theorem headOf_ok (ht : Nat) (head : List Nat) (hh : ∀ n ∈ head, AtomOk n) : (headOf ht head).ok := by
  simp only [headOf]
  split
  · intro p hp
    obtain ⟨h1, h2, h3⟩ := atomItems_ok 124 [] head _ hh filler_nil filler_sp p hp
    exact ⟨h1, by rw [h2]; exact Or.inr (Or.inl rfl), by rw [h2]; rfl, h3⟩
  · refine ⟨filler_nil, ?_, ?_⟩
    · split; exact filler_nil; exact filler_sp
    · intro p hp
      obtain ⟨h1, h2, h3⟩ := atomItems_ok 59 [] head [] hh filler_nil filler_nil p hp
      exact ⟨h1, by rw [h2]; exact Or.inl rfl, by rw [h2]; rfl, h3⟩

theorem headOf_call (ht : Nat) (head : List Nat) (h1 : ht ≤ 1) : (headOf ht head).ht = ht ∧ (headOf ht head).atoms = head := by
  by_cases h0 : ht = 0
  · subst h0; simp [headOf, HeadS.ht, HeadS.atoms, atomItems_ns]
  · have : ht = 1 := by omega
    subst this; simp [headOf, HeadS.ht, HeadS.atoms, atomItems_ns]

/-- an aggregate element as the writer prints it: the literal, and `=w` when weights are printed -/
def aggItem (l : Int) (w : Option Int) : AggItem := { lit := litItem l [], weight := w.map (fun w => ([], w, [])), wsComma := [] }

def aggOf (items : List AggItem) : AggS := { wsOpen := [], items := items, wsClose := [] }

theorem aggOf_nil_text : (aggOf []).text = [123, 125] := rfl
theorem aggOf_one_text (l : Int) (w : Option Int) : (aggOf [aggItem l w]).text = [123] ++ litTxt l ++ (match w with | some w => 61 :: printInt w | none => []) ++ [125] := by
  cases w <;> simp [aggOf, AggS.text, aggItemsText, aggItem, litItem_text, AggItem.wText]

theorem aggItem_ok (l : Int) (w : Option Int) (hl : LitOk l) (hw : ∀ x, w = some x → I32MIN ≤ x ∧ x ≤ I32MAX) : (aggItem l w).ok := by
  refine ⟨litItem_ok l [] hl filler_nil, ?_, filler_nil⟩
  cases w with
  | none => trivial
  | some x => exact ⟨filler_nil, filler_nil, hw x rfl⟩

theorem s_minimize : s "#minimize{" = kwMinimize ++ [123] := by decide
theorem s_at : s "}@" = [125, 64] := by decide
theorem s_semi : s "; " = [59, 32] := by decide

/-- `#minimize{}@p.` / `#minimize{l=w}@p.` -/
def minimizeStmt (prio : Int) (ws : List (Int × Int)) : MinimizeS :=
  { ws0 := [], agg := aggOf (ws.map (fun p => aggItem p.1 (some p.2))), prio := some ([], prio, []), wsDot := [10] }

def MinOk (prio : Int) (ws : List (Int × Int)) : Prop :=
  (I32MIN ≤ prio ∧ prio ≤ I32MAX) ∧ (ws = [] ∨ ∃ l w, ws = [(l, w)] ∧ LitOk l ∧ w ≠ 0 ∧ I32MIN ≤ w ∧ w ≤ I32MAX)

theorem minimizeStmt_text (t : TO) (hn : t.names = []) (prio : Int) (ws : List (Int × Int)) (h : MinOk prio ws) :
    (minimizeStmt prio ws).text = (Dir.minimize prio ws).text t ++ [10] := by
  rcases h.2 with rfl | ⟨l, w, rfl, _⟩
  · simp [Dir.text, MinimizeS.text, minimizeStmt, aggOf_nil_text, prioText, s_minimize, s_at, opened, List.append_assoc]
  · simp [Dir.text, MinimizeS.text, minimizeStmt, aggOf_one_text, prioText, s_minimize, s_at, opened, sepJoin, wlitTxt, litName_unnamed t hn, List.append_assoc]

theorem minimizeStmt_ok (prio : Int) (ws : List (Int × Int)) (h : MinOk prio ws) : (minimizeStmt prio ws).ok := by
  refine ⟨filler_nil, ⟨filler_nil, filler_nil, ?_⟩, ⟨filler_nil, filler_nil, h.1⟩, filler_nl⟩
  rcases h.2 with rfl | ⟨l, w, rfl, hl, _, hw⟩
  · intro i hi; cases hi
  · intro i hi; simp [minimizeStmt, aggOf] at hi; subst hi
    exact aggItem_ok l (some w) hl (fun x hx => by cases hx; exact hw)

theorem minimizeStmt_vals (prio : Int) (ws : List (Int × Int)) (h : MinOk prio ws) : (minimizeStmt prio ws).agg.vals = ws ∧ prioVal (minimizeStmt prio ws).prio = prio := by
  refine ⟨?_, rfl⟩
  rcases h.2 with rfl | ⟨l, w, rfl, _, hw, _⟩
  · rfl
  · simp [minimizeStmt, aggOf, AggS.vals, AggItem.val, AggItem.w, aggItem, litItem_val, hw]

/-- `head :- b{}.` / `head :- b{l}.` (a weight rule whose only weight is 1 is written as the count) -/
def wruleStmt (ht : Nat) (head : List Nat) (b : Int) (ws : List (Int × Int)) : WRuleS :=
  { head := headOf ht head, wsArrow := [32], bound := b, wsBound := [], agg := aggOf (ws.map (fun p => aggItem p.1 none)), wsDot := [10] }

def SumOk (ht : Nat) (head : List Nat) (b : Int) (ws : List (Int × Int)) : Prop :=
  ht ≤ 1 ∧ (∀ n ∈ head, AtomOk n) ∧ (I32MIN ≤ b ∧ b ≤ I32MAX) ∧ (ws = [] ∨ ∃ l, ws = [(l, 1)] ∧ LitOk l)

/-- the directive the writer buffers for such a rule -/
def sumDir (ht : Nat) (head : List Nat) (b : Int) (ws : List (Int × Int)) : Dir :=
  if ws.isEmpty then .sum ht head b [] else .count ht head b (ws.map (·.1))

theorem dirOf_sum (t : TO) (ht : Nat) (head : List Nat) (b : Int) (ws : List (Int × Int)) (h : SumOk ht head b ws) :
    dirOf t (.sumRule ht head b ws) = some (sumDir ht head b ws) := by
  rcases h.2.2.2 with rfl | ⟨l, rfl, _⟩
  · simp [dirOf, sumDir, minW, maxW]
  · simp [dirOf, sumDir, minW, maxW]

theorem wruleStmt_text (t : TO) (hn : t.names = []) (ht : Nat) (head : List Nat) (b : Int) (ws : List (Int × Int)) (h : SumOk ht head b ws) :
    (wruleStmt ht head b ws).text = (sumDir ht head b ws).text t ++ [10] := by
  have hh := headOf_text t hn ht head
  rcases h.2.2.2 with rfl | ⟨l, rfl, _⟩
  · simp only [WRuleS.text, wruleStmt, sumDir, Dir.text, List.map_nil, aggOf_nil_text, List.isEmpty_nil, if_true, opened]
    rw [← hh]; simp [List.append_assoc]
  · simp only [WRuleS.text, wruleStmt, sumDir, Dir.text, List.map_cons, List.map_nil, aggOf_one_text, List.isEmpty_cons, Bool.false_eq_true, if_false, opened, sepJoin,
      litName_unnamed t hn]
    rw [← hh]; simp [List.append_assoc]

theorem wruleStmt_ok (ht : Nat) (head : List Nat) (b : Int) (ws : List (Int × Int)) (h : SumOk ht head b ws) : (wruleStmt ht head b ws).ok := by
  obtain ⟨_, hh, hb, hws⟩ := h
  refine ⟨headOf_ok ht head hh, filler_sp, hb, filler_nil, ⟨filler_nil, filler_nil, ?_⟩, filler_nl, ?_⟩
  · rcases hws with rfl | ⟨l, rfl, hl⟩
    · intro i hi; cases hi
    · intro i hi; simp [wruleStmt, aggOf] at hi; subst hi
      exact aggItem_ok l none hl (fun x hx => by cases hx)
  · rcases hws with rfl | ⟨l, rfl, hl⟩
    · intro i hi; cases hi
    · intro i hi; simp [wruleStmt, aggOf] at hi; subst hi; simp [AggItem.w, aggItem]

theorem wruleStmt_call (ht : Nat) (head : List Nat) (b : Int) (ws : List (Int × Int)) (h : SumOk ht head b ws) : (wruleStmt ht head b ws).call = .sumRule ht head b ws := by
  obtain ⟨h1, _, _, hws⟩ := h
  obtain ⟨e1, e2⟩ := headOf_call ht head h1
  simp only [WRuleS.call, wruleStmt, e1, e2]
  rcases hws with rfl | ⟨l, rfl, _⟩
  · rfl
  · simp [aggOf, AggS.vals, AggItem.val, AggItem.w, aggItem, litItem_val]

/-! ### whole program steps -/
/-- the calls of the fragment, with the ranges the reader accepts: atoms 1..2^31-1, literals non-zero, 32-bit numbers, the four external
    values, the six heuristic modifiers -/
def Plain : Call → Prop
  | .rule ht head body => RuleOk ht head body
  | .project atoms => ∀ n ∈ atoms, AtomOk n
  | .external a v => AtomOk a ∧ v ≤ 3
  | .assume lits => ∀ l ∈ lits, LitOk l
  | .heuristic a ty bias prio cond => AtomOk a ∧ ty < 6 ∧ (I32MIN ≤ bias ∧ bias ≤ I32MAX) ∧ prio ≤ 2147483647 ∧ ∀ l ∈ cond, LitOk l
  | .acycEdge a b cond => (I32MIN ≤ a ∧ a ≤ I32MAX) ∧ (I32MIN ≤ b ∧ b ≤ I32MAX) ∧ ∀ l ∈ cond, LitOk l
  | .minimize prio ws => MinOk prio ws            -- no element, or one (weight non-zero)
  | .sumRule ht head b ws => SumOk ht head b ws   -- no element, or one of weight 1
  | _ => False

/-- the line of a call, as the reader's grammar sees it -/
def stmtOf : Call → StmtX
  | .rule ht head body => .base (.rule (ruleStmt ht head body))
  | .project atoms => .base (.project (projectStmt atoms))
  | .external a v => .base (.external (externalStmt a v))
  | .assume lits => .base (.assume (assumeStmt lits))
  | .heuristic a ty bias prio cond => .heuristic (heuStmt a ty bias prio cond)
  | .acycEdge a b cond => .base (.edge (edgeStmt a b cond))
  | .minimize prio ws => .minimize (minimizeStmt prio ws)
  | .sumRule ht head b ws => .wrule (wruleStmt ht head b ws)
  | _ => .base (.rule (ruleStmt 0 [] []))

/-- the buffered directive of a call of the fragment -/
def dirP : Call → Dir
  | .rule ht head body => .rule ht head body
  | .project atoms => .project atoms
  | .external a v => .external a v
  | .assume lits => .assume lits
  | .heuristic a ty bias prio cond => .heuristic a ty bias prio cond
  | .acycEdge a b cond => .edge a b cond
  | .minimize prio ws => .minimize prio ws
  | .sumRule ht head b ws => sumDir ht head b ws
  | _ => .assume []

theorem dirOf_plain (t : TO) (c : Call) (h : Plain c) : dirOf t c = some (dirP c) := by
  cases c <;> first | rfl | exact dirOf_sum t _ _ _ _ h | exact absurd h (by simp [Plain])

theorem stmtOf_ok (c : Call) (h : Plain c) : (stmtOf c).ok := by
  cases c with
  | rule ht head body => exact ruleStmt_ok ht head body h
  | project atoms => exact projectStmt_ok atoms h
  | external a v => exact externalStmt_ok a v h.1 h.2
  | assume lits => exact assumeStmt_ok lits h
  | heuristic a ty bias prio cond => exact heuStmt_ok a ty bias prio cond h.1 h.2.1 h.2.2.1 h.2.2.2.1 h.2.2.2.2
  | acycEdge a b cond => exact edgeStmt_ok a b cond h.1 h.2.1 h.2.2
  | minimize prio ws => exact minimizeStmt_ok prio ws h
  | sumRule ht head b ws => exact wruleStmt_ok ht head b ws h
  | _ => exact absurd h (by simp [Plain])

theorem stmtOf_calls (c : Call) (h : Plain c) : (stmtOf c).calls = [c] := by
  cases c with
  | rule ht head body => simp [stmtOf, StmtX.calls, StmtS.call, ruleStmt_call ht head body h]
  | project atoms => simp [stmtOf, StmtX.calls, StmtS.call, projectStmt, ProjectS.vals, atomItems_ns]
  | external a v => simp [stmtOf, StmtX.calls, StmtS.call, externalStmt_value]; rfl
  | assume lits => simp [stmtOf, StmtX.calls, StmtS.call, assumeStmt, AssumeS.vals, litItems_vals]
  | heuristic a ty bias prio cond => simp [stmtOf, StmtX.calls, heuStmt_call]
  | acycEdge a b cond => simp [stmtOf, StmtX.calls, StmtS.call, edgeStmt, condOf_vals]
  | minimize prio ws => simp [stmtOf, StmtX.calls, (minimizeStmt_vals prio ws h).1, (minimizeStmt_vals prio ws h).2]
  | sumRule ht head b ws => simp [stmtOf, StmtX.calls, wruleStmt_call ht head b ws h]
  | _ => exact absurd h (by simp [Plain])

theorem stmtOf_text (t : TO) (hn : t.names = []) (c : Call) (h : Plain c) : (stmtOf c).text = (dirP c).text t ++ [10] := by
  cases c with
  | rule ht head body => exact ruleStmt_text t hn ht head body
  | project atoms => exact projectStmt_text t hn atoms
  | external a v => exact externalStmt_text t hn a v h.2
  | assume lits => exact assumeStmt_text t hn lits
  | heuristic a ty bias prio cond => exact heuStmt_text t hn a ty bias prio cond h.2.1
  | acycEdge a b cond => exact edgeStmt_text t hn a b cond
  | minimize prio ws => exact minimizeStmt_text t hn prio ws h
  | sumRule ht head b ws => exact wruleStmt_text t hn ht head b ws h
  | _ => exact absurd h (by simp [Plain])

/-- a writer that has named nothing, stored no theory data, written nothing and runs a non-incremental program -/
structure Clean (t : TO) : Prop where
  fail : t.fail = false
  names : t.names = []
  out : t.out = []
  theory : t.theory = {}
  step : t.step = -1

theorem apply_plain (t : TO) (c : Call) (h : Plain c) (ht : Clean t) : Clean (t.apply c) ∧ (t.apply c).dirs = t.dirs ++ (dirP c).enc := by
  refine ⟨?_, apply_dir t c _ ht.fail (dirOf_plain t c h)⟩
  obtain ⟨h1, h2, h3, h4, h5⟩ := ht
  unfold TO.apply
  rw [if_neg (by simp [h1])]
  cases c <;> first
    | exact ⟨h1, h2, h3, h4, h5⟩
    | exact absurd h (by simp [Plain])

theorem foldl_plain (ds : List Call) (t : TO) (ht : Clean t) (h : ∀ c ∈ ds, Plain c) :
    Clean (ds.foldl TO.apply t) ∧ (ds.foldl TO.apply t).dirs = t.dirs ++ (ds.map dirP).flatMap Dir.enc := by
  induction ds generalizing t with
  | nil => simp; exact ht
  | cons c r ih =>
    obtain ⟨h1, h2⟩ := apply_plain t c (h c (by simp)) ht
    obtain ⟨h3, h4⟩ := ih (t.apply c) h1 (fun x hx => h x (List.mem_cons_of_mem _ hx))
    refine ⟨h3, ?_⟩
    simp only [List.foldl_cons, List.map_cons, List.flatMap_cons]
    rw [h4, h2, List.append_assoc]

theorem lines_eq (t : TO) (hn : t.names = []) (ds : List Call) (h : ∀ c ∈ ds, Plain c) :
    (ds.map dirP).flatMap (fun d => d.text t ++ [10]) = progTextX (ds.map stmtOf) := by
  induction ds with
  | nil => rfl
  | cons c r ih =>
    simp only [List.map_cons, List.flatMap_cons, progTextX]
    rw [ih (fun x hx => h x (List.mem_cons_of_mem _ hx)), stmtOf_text t hn c (h c (by simp))]

theorem endStep_clean (T : TO) (hc : Clean T) (dirs : List Dir) (hd : T.dirs = dirs.flatMap Dir.enc) :
    (T.apply .endStep).out = dirs.flatMap (fun d => d.text T ++ [10]) ∧ (T.apply .endStep).fail = false := by
  have ha : T.theory.atoms.drop T.theory.fAtom = [] := by rw [hc.theory]; rfl
  obtain ⟨h1, _⟩ := C06_statement_count T dirs hc.fail hd ha
  refine ⟨by rw [h1, hc.out, List.nil_append], ?_⟩
  have hv : T.visitTheories = T := by simp [TO.visitTheories, ha]
  unfold TO.apply
  rw [if_neg (by simp [hc.fail])]
  simp only [hv, hc.fail, Bool.false_eq_true, if_false]

/-- what the writer produces for a step of the fragment: one line per directive — the lines of the reader's grammar -/
theorem write_plain (ds : List Call) (h : ∀ c ∈ ds, Plain c) :
    (TextOut.write ([.initProgram false, .beginStep] ++ ds ++ [.endStep])).out = progTextX (ds.map stmtOf) ∧
    (TextOut.write ([.initProgram false, .beginStep] ++ ds ++ [.endStep])).fail = false := by
  have h0 : Clean ((({} : TO).apply (.initProgram false)).apply .beginStep) := ⟨rfl, rfl, rfl, rfl, rfl⟩
  have hd0 : ((({} : TO).apply (.initProgram false)).apply .beginStep).dirs = [] := rfl
  obtain ⟨hc, hd⟩ := foldl_plain ds _ h0 h
  rw [hd0, List.nil_append] at hd
  have hw : TextOut.write ([.initProgram false, .beginStep] ++ ds ++ [.endStep]) =
      (ds.foldl TO.apply ((({} : TO).apply (.initProgram false)).apply .beginStep)).apply .endStep := by
    simp [TextOut.write, List.foldl_append]
  rw [hw]
  generalize (ds.foldl TO.apply ((({} : TO).apply (.initProgram false)).apply .beginStep)) = T at hc hd
  obtain ⟨h1, h2⟩ := endStep_clean T hc (ds.map dirP) hd
  exact ⟨by rw [h1]; exact lines_eq T hc.names ds h, h2⟩

/-- **C06 (parsing back, with the library's own reader)**.  For EVERY program step made of rules with disjunctive or choice heads (also
    empty) and normal bodies (also empty), `#project`, `#external` (free, true, false, release), `#assume`, `#heuristic` (every modifier,
    any bias, priority and condition) and `#edge` directives, and of `#minimize` statements and weight rules whose aggregate has no element
    or one (of non-zero weight for `#minimize`, of weight 1 for a rule: that is written as a count) — over unnamed atoms, any number of
    directives, any list lengths, atoms up to 2^31-1 —: the text `AspifTextOutput` writes for the step is read by `AspifTextInput`, without an error, as exactly the calls
    that were rendered, in the same order, between the same step markers. -/
theorem C06_parse_back (ds : List Call) (h : ∀ c ∈ ds, Plain c) :
    TextIn.read (TextOut.write ([.initProgram false, .beginStep] ++ ds ++ [.endStep])).out =
      { calls := [.initProgram false, .beginStep] ++ ds ++ [.endStep], err := none } := by
  rw [(write_plain ds h).1]
  have hok : ∀ st ∈ ds.map stmtOf, st.ok := by
    intro st hst
    obtain ⟨c, hc, rfl⟩ := List.mem_map.mp hst
    exact stmtOf_ok c (h c hc)
  have := C10_read_programX (ds.map stmtOf) hok [] filler_nil
  rw [List.nil_append] at this
  rw [this]
  have hcalls : (ds.map stmtOf).flatMap StmtX.calls = ds := by
    clear this hok
    induction ds with
    | nil => rfl
    | cons c r ih =>
      simp only [List.map_cons, List.flatMap_cons]
      rw [stmtOf_calls c (h c (by simp)), ih (fun x hx => h x (List.mem_cons_of_mem _ hx))]
      rfl
  rw [hcalls]

/-! non-vacuity: a step with every kind of directive of the fragment; the model writer and the model reader are run on it -/
def exStep : List Call :=
  [.rule 0 [1, 2] [3, -4], .rule 1 [] [], .rule 0 [] [-1], .rule 1 [5] [], .project [1, 2], .project [], .external 3 0, .external 4 2,
   .assume [1, -2], .heuristic 1 3 (-7) 2 [2, -3], .heuristic 2 0 1 0 [], .acycEdge 0 (-1) [4], .acycEdge 1 2 [],
   .minimize (-3) [], .minimize 0 [(-2, -5)], .sumRule 0 [1] (-2) [], .sumRule 1 [] 1 [(-3, 1)]]

example : ∀ c ∈ exStep, Plain c := by
  intro c hc
  simp only [exStep, List.mem_cons, List.not_mem_nil, or_false] at hc
  rcases hc with rfl | rfl | rfl | rfl | rfl | rfl | rfl | rfl | rfl | rfl | rfl | rfl | rfl | rfl | rfl | rfl | rfl <;>
    first
      | (simp [Plain, RuleOk, MinOk, SumOk, AtomOk, LitOk, I32MIN, I32MAX]; done)
      | exact ⟨by simp [I32MIN, I32MAX], Or.inr ⟨-2, -5, rfl, by simp [LitOk], by decide, by simp [I32MIN], by simp [I32MAX]⟩⟩

example : (TextOut.write ([.initProgram false, .beginStep] ++ exStep ++ [.endStep])).out =
    s ("x_1|x_2 :- x_3, not x_4.\n{}:- .\n:- not x_1.\n{x_5}.\n#project{x_1, x_2}.\n#project{}.\n#external x_3. [free]\n#external x_4.\n" ++
       "#assume{x_1, not x_2}.\n#heuristic x_1 : x_2, not x_3. [-7@2, init]\n#heuristic x_2. [1, level]\n#edge(0,-1) : x_4.\n#edge(1,2).\n" ++
       "#minimize{}@-3.\n#minimize{not x_2=-5}@0.\nx_1 :- -2{}.\n{}:- 1{not x_3}.\n") := by decide +kernel

end PotasscoVerif.C06
