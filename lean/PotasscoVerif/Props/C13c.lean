/-
  C13 (continued) — config files: a file of `name = value` lines (any blanks around the name, the `=` and the value), continuation
  lines, comment lines and blank lines yields exactly the intended (option, value) pairs in order; a continuation line extends the
  value by a blank and its (trimmed) text.
-/
import PotasscoVerif.Props.C13b
namespace PotasscoVerif.C13
open PotasscoVerif.Options PotasscoVerif.OptIndex

def Blanks (ws : List Nat) : Prop := ∀ c ∈ ws, c = 32 ∨ c = 9
/-- no blank at either end, no line break -/
def Trimmed (t : List Nat) : Prop := (∀ c ∈ t, c ≠ 10) ∧ (∀ c r, t = c :: r → c ≠ 32 ∧ c ≠ 9) ∧ (∀ c r, t.reverse = c :: r → c ≠ 32 ∧ c ≠ 9)

theorem trimL_blanks (ws r : List Nat) (cs : List Nat) (hws : ∀ c ∈ ws, cs.contains c = true) (hr : ∀ c t, r = c :: t → cs.contains c = false) :
    trimL (ws ++ r) cs = r := by
  unfold trimL
  induction ws with
  | nil =>
    cases r with
    | nil => rfl
    | cons c t => simp only [List.nil_append, List.dropWhile, hr c t rfl]
  | cons x xs ih =>
    simp only [List.cons_append, List.dropWhile, hws x (by simp)]
    exact ih (fun c hc => hws c (by simp [hc]))

theorem trimR_blanks (r ws : List Nat) (cs : List Nat) (hws : ∀ c ∈ ws, cs.contains c = true) (hr : ∀ c t, r.reverse = c :: t → cs.contains c = false) :
    trimR (r ++ ws) cs = r := by
  unfold trimR
  rw [List.reverse_append, trimL_blanks ws.reverse r.reverse cs (by intro c hc; exact hws c (by simpa using hc)) hr]
  simp

theorem blanks_contains {ws : List Nat} (h : Blanks ws) : ∀ c ∈ ws, ([32, 9] : List Nat).contains c = true := by
  intro c hc; rcases h c hc with e | e <;> subst e <;> rfl
theorem blanks_contains3 {ws : List Nat} (h : Blanks ws) : ∀ c ∈ ws, ([32, 9, 10] : List Nat).contains c = true := by
  intro c hc; rcases h c hc with e | e <;> subst e <;> rfl
theorem nb_contains {c : Nat} (h : c ≠ 32 ∧ c ≠ 9) : ([32, 9] : List Nat).contains c = false := by
  simp only [List.contains_cons, List.contains_nil, Bool.or_false, Bool.or_eq_false_iff, beq_eq_false_iff_ne]
  exact ⟨h.1, h.2⟩

/-- lines, each ended by LF -/
def joinLines : List (List Nat) → List Nat
  | [] => []
  | l :: r => l ++ 10 :: joinLines r

theorem splitLines_line (l : List Nat) (hl : ∀ c ∈ l, c ≠ 10) (rest cur : List Nat) (acc : List (List Nat)) :
    splitLines (l ++ 10 :: rest) cur acc = splitLines rest [] ((l.reverse ++ cur).reverse :: acc) := by
  induction l generalizing cur with
  | nil => simp [splitLines]
  | cons c r ih =>
    have hc : c ≠ 10 := hl c (by simp)
    simp only [List.cons_append]
    rw [splitLines.eq_3 _ _ _ _ (fun h => hc h)]
    rw [ih (fun x hx => hl x (by simp [hx]))]
    simp

theorem splitLines_join (ls : List (List Nat)) (hl : ∀ l ∈ ls, ∀ c ∈ l, c ≠ 10) (acc : List (List Nat)) :
    splitLines (joinLines ls) [] acc = acc.reverse ++ ls := by
  induction ls generalizing acc with
  | nil => simp [joinLines, splitLines]
  | cons l r ih =>
    simp only [joinLines]
    rw [splitLines_line l (hl l (by simp)) _ [] acc, ih (fun x hx => hl x (by simp [hx]))]
    simp

/-! ### entries, comments, blank lines -/
structure CfgEntry where
  key : List Nat                      -- the name as written (full name or unique prefix)
  k : Nat                             -- the option it resolves to
  wsLead : List Nat
  wsPre : List Nat                    -- between the name and `=`
  wsPost : List Nat                   -- between `=` and the value
  wsTrail : List Nat
  value : List Nat                    -- the value on the first line
  cont : List (List Nat × List Nat × List Nat)      -- continuation lines: leading blanks, text, trailing blanks

def CfgEntry.first (e : CfgEntry) : List Nat := e.wsLead ++ (e.key ++ (e.wsPre ++ (61 :: (e.wsPost ++ (e.value ++ e.wsTrail)))))
def contLine (x : List Nat × List Nat × List Nat) : List Nat := x.1 ++ (x.2.1 ++ x.2.2)
def CfgEntry.lines (e : CfgEntry) : List (List Nat) := e.first :: e.cont.map contLine
/-- the value of the entry: the first line's value, extended by a blank and the text of every continuation line -/
def CfgEntry.full (e : CfgEntry) : List Nat := e.cont.foldl (fun v x => v ++ [32] ++ x.2.1) e.value
def CfgEntry.ok (c : Context) (aU : Bool) (e : CfgEntry) : Prop :=
  Blanks e.wsLead ∧ Blanks e.wsPre ∧ Blanks e.wsPost ∧ Blanks e.wsTrail ∧ e.key ≠ [] ∧ Trimmed e.key ∧ (∀ x ∈ e.key, x ≠ 61) ∧ e.key.head? ≠ some 35 ∧
  Trimmed e.value ∧ getOption c aU e.key .nameOrPrefix = .ok (some e.k) ∧
  ∀ x ∈ e.cont, Blanks x.1 ∧ Blanks x.2.2 ∧ x.2.1 ≠ [] ∧ Trimmed x.2.1 ∧ (∀ y ∈ x.2.1, y ≠ 61) ∧ x.2.1.head? ≠ some 35

/-- the pending entry of a parser state: none, or the option the remembered name resolves to -/
def Pend (c : Context) (aU : Bool) (s : CfgSt) : Option Nat → Prop
  | none => s.inSection = false
  | some k => s.inSection = true ∧ getOption c aU s.name .nameOrPrefix = .ok (some k)
def pendList (s : CfgSt) : Option Nat → List (Nat × List Nat)
  | none => []
  | some k => [(k, s.value)]

theorem cfgFlush_pend (c : Context) (aU : Bool) (s : CfgSt) (p : Option Nat) (h : Pend c aU s p) :
    cfgFlush c aU s = .ok { s with values := s.values ++ pendList s p } := by
  unfold cfgFlush
  cases p with
  | none => simp only [Pend] at h; cases s; simp_all [pendList]
  | some k => obtain ⟨h1, h2⟩ := h; simp [h1, h2, pendList]

theorem trimmed_head {t : List Nat} (h : Trimmed t) : ∀ c r, t = c :: r → ([32, 9] : List Nat).contains c = false := fun c r e => nb_contains (h.2.1 c r e)
theorem trimmed_last {t : List Nat} (h : Trimmed t) : ∀ c r, t.reverse = c :: r → ([32, 9] : List Nat).contains c = false := fun c r e => nb_contains (h.2.2 c r e)

theorem cfgLine_first (c : Context) (aU : Bool) (s : CfgSt) (p : Option Nat) (hp : Pend c aU s p) (e : CfgEntry) (he : e.ok c aU) :
    cfgLine c aU s e.first = .ok { values := s.values ++ pendList s p, name := e.key, value := e.value, inSection := true } := by
  obtain ⟨hl, hpre, hpost, htr, hne, hkey, hk61, hk35, hval, _, _⟩ := he
  -- the trimmed line
  obtain ⟨V, hV, hVt⟩ : ∃ V, trimR (trimL e.first [32, 9]) [32, 9] = e.key ++ (e.wsPre ++ 61 :: V) ∧ trimL V [32, 9, 10] = e.value := by
    have h1 : trimL e.first [32, 9] = e.key ++ (e.wsPre ++ (61 :: (e.wsPost ++ (e.value ++ e.wsTrail)))) := by
      unfold CfgEntry.first
      apply trimL_blanks _ _ _ (blanks_contains hl)
      intro x t ex
      cases hk : e.key with
      | nil => exact absurd hk hne
      | cons y ys => rw [hk] at ex; cases ex; exact trimmed_head hkey _ _ hk
    rw [h1]
    by_cases hv : e.value = []
    · refine ⟨[], ?_, by rw [hv]; rfl⟩
      rw [hv]
      have : e.key ++ (e.wsPre ++ 61 :: (e.wsPost ++ ([] ++ e.wsTrail))) = (e.key ++ (e.wsPre ++ [61])) ++ (e.wsPost ++ e.wsTrail) := by simp
      rw [this, trimR_blanks _ _ _ (by intro x hx; simp only [List.mem_append] at hx; rcases hx with h | h; exact blanks_contains hpost x h; exact blanks_contains htr x h)
        (by intro x t ex; simp at ex; rw [← ex.1]; rfl)]
    · refine ⟨e.wsPost ++ e.value, ?_, ?_⟩
      · have : e.key ++ (e.wsPre ++ 61 :: (e.wsPost ++ (e.value ++ e.wsTrail))) = (e.key ++ (e.wsPre ++ 61 :: (e.wsPost ++ e.value))) ++ e.wsTrail := by simp
        rw [this, trimR_blanks _ _ _ (blanks_contains htr)]
        intro x t ex
        cases hrv : e.value.reverse with
        | nil => exact absurd (by simpa using hrv) hv
        | cons y ys =>
          simp only [List.reverse_append, List.reverse_cons, hrv, List.cons_append, List.append_assoc] at ex
          cases ex
          exact trimmed_last hval x ys hrv
      · apply trimL_blanks _ _ _ (blanks_contains3 hpost)
        intro x t ex
        have h1 := hval.2.1 x t ex
        have h2 := hval.1 x (by rw [ex]; simp)
        simp only [List.contains_cons, List.contains_nil, Bool.or_false, Bool.or_eq_false_iff, beq_eq_false_iff_ne]
        exact ⟨h1.1, h1.2, h2⟩
  unfold cfgLine
  simp only [hV]
  obtain ⟨kc, kr, ek⟩ : ∃ kc kr, e.key = kc :: kr := by
    cases hk : e.key with
    | nil => exact absurd hk hne
    | cons y ys => exact ⟨y, ys, rfl⟩
  have hemp : (e.key ++ (e.wsPre ++ 61 :: V)).isEmpty = false := by rw [ek]; rfl
  have hhead : ((e.key ++ (e.wsPre ++ 61 :: V)).head? == some 35) = false := by
    rw [ek]; rw [ek] at hk35; simp at hk35 ⊢; exact hk35
  have hcont : (e.key ++ (e.wsPre ++ 61 :: V)).contains 61 = true := by simp
  have hn61 : ∀ x ∈ e.key ++ e.wsPre, x ≠ 61 := by
    intro x hx; simp only [List.mem_append] at hx
    rcases hx with h | h
    · exact hk61 x h
    · rcases hpre x h with e' | e' <;> omega
  have hsplit : splitEq (e.key ++ (e.wsPre ++ 61 :: V)) = (e.key ++ e.wsPre, some V) := by
    have := splitEq_noeq (e.key ++ e.wsPre) V hn61
    simpa using this
  have hname : trimR (e.key ++ e.wsPre) [32, 9] = e.key := trimR_blanks _ _ _ (blanks_contains hpre) (trimmed_last hkey)
  simp only [hemp, hhead, Bool.or_self, Bool.false_eq_true, ↓reduceIte, hcont, cfgFlush_pend c aU s p hp, bind, Except.bind, hsplit, pure, Except.pure, hname,
    Option.getD_some, hVt]

theorem cfgLine_cont (c : Context) (aU : Bool) (s : CfgSt) (hs : s.inSection = true) (x : List Nat × List Nat × List Nat)
    (hx : Blanks x.1 ∧ Blanks x.2.2 ∧ x.2.1 ≠ [] ∧ Trimmed x.2.1 ∧ (∀ y ∈ x.2.1, y ≠ 61) ∧ x.2.1.head? ≠ some 35) :
    cfgLine c aU s (contLine x) = .ok { s with value := s.value ++ [32] ++ x.2.1 } := by
  obtain ⟨h1, h2, hne, ht, h61, h35⟩ := hx
  have hline : trimR (trimL (contLine x) [32, 9]) [32, 9] = x.2.1 := by
    unfold contLine
    rw [trimL_blanks _ _ _ (blanks_contains h1), trimR_blanks _ _ _ (blanks_contains h2) (trimmed_last ht)]
    intro y t ey
    cases hk : x.2.1 with
    | nil => exact absurd hk hne
    | cons z zs => rw [hk] at ey; cases ey; exact trimmed_head ht y zs hk
  unfold cfgLine
  simp only [hline]
  obtain ⟨kc, kr, ek⟩ : ∃ kc kr, x.2.1 = kc :: kr := by
    cases hk : x.2.1 with
    | nil => exact absurd hk hne
    | cons y ys => exact ⟨y, ys, rfl⟩
  have hemp : x.2.1.isEmpty = false := by rw [ek]; rfl
  have hhead : (x.2.1.head? == some 35) = false := by rw [ek]; rw [ek] at h35; simp at h35 ⊢; exact h35
  have hcont : x.2.1.contains 61 = false := by
    simp only [List.contains_eq_mem, decide_eq_false_iff_not]
    intro hm; exact h61 61 hm rfl
  simp only [hemp, hhead, Bool.or_self, Bool.false_eq_true, ↓reduceIte, hcont, hs]

theorem foldl_cont (c : Context) (aU : Bool) (l : List (List Nat × List Nat × List Nat))
    (hl : ∀ x ∈ l, Blanks x.1 ∧ Blanks x.2.2 ∧ x.2.1 ≠ [] ∧ Trimmed x.2.1 ∧ (∀ y ∈ x.2.1, y ≠ 61) ∧ x.2.1.head? ≠ some 35)
    (s : CfgSt) (hs : s.inSection = true) :
    (l.map contLine).foldlM (cfgLine c aU) s = .ok { s with value := l.foldl (fun v x => v ++ [32] ++ x.2.1) s.value } := by
  induction l generalizing s with
  | nil => rfl
  | cons x r ih =>
    simp only [List.map_cons, List.foldlM_cons, cfgLine_cont c aU s hs x (hl x (by simp)), bind, Except.bind, List.foldl_cons]
    exact ih (fun y hy => hl y (by simp [hy])) _ hs

inductive CfgItem where
  | entry (e : CfgEntry)
  | comment (lead body : List Nat)         -- blanks, `#`, anything up to the end of the line
  | blank (ws : List Nat)

def CfgItem.lines : CfgItem → List (List Nat)
  | .entry e => e.lines
  | .comment lead body => [lead ++ 35 :: body]
  | .blank ws => [ws]
def CfgItem.ok (c : Context) (aU : Bool) : CfgItem → Prop
  | .entry e => e.ok c aU
  | .comment lead body => Blanks lead ∧ ∀ x ∈ body, x ≠ 10
  | .blank ws => Blanks ws
def CfgItem.pair : CfgItem → Option (Nat × List Nat)
  | .entry e => some (e.k, e.full)
  | _ => none

theorem dropWhile_snoc (p : Nat → Bool) (l : List Nat) (c : Nat) (hc : p c = false) : (l ++ [c]).dropWhile p = l.dropWhile p ++ [c] := by
  induction l with
  | nil => simp [List.dropWhile, hc]
  | cons x r ih =>
    simp only [List.cons_append, List.dropWhile]
    split
    · exact ih
    · rfl

theorem cfgLine_skip (c : Context) (aU : Bool) (s : CfgSt) (p : Option Nat) (hp : Pend c aU s p) (raw : List Nat)
    (h : (∀ x ∈ raw, x = 32 ∨ x = 9) ∨ ∃ lead body, raw = lead ++ 35 :: body ∧ Blanks lead) :
    cfgLine c aU s raw = .ok { s with values := s.values ++ pendList s p, inSection := false } := by
  have hline : (trimR (trimL raw [32, 9]) [32, 9]).isEmpty = true ∨ (trimR (trimL raw [32, 9]) [32, 9]).head? = some 35 := by
    rcases h with h | ⟨lead, body, e, hl⟩
    · left
      have : trimL raw [32, 9] = [] := by
        have := trimL_blanks raw [] [32, 9] (blanks_contains h) (by intro x t ex; cases ex)
        simpa using this
      rw [this]; rfl
    · right
      subst e
      rw [trimL_blanks lead (35 :: body) [32, 9] (blanks_contains hl) (by intro x t ex; cases ex; rfl)]
      unfold trimR trimL
      rw [List.reverse_cons, dropWhile_snoc _ _ 35 (by rfl)]
      simp
  unfold cfgLine
  have hc : ((trimR (trimL raw [32, 9]) [32, 9]).isEmpty || (trimR (trimL raw [32, 9]) [32, 9]).head? == some 35) = true := by
    rcases hline with h | h
    · simp [h]
    · simp [h]
  simp only [hc, ↓reduceIte, cfgFlush_pend c aU s p hp, bind, Except.bind, pure, Except.pure]

/-- one item: the pending entry is delivered, and the item becomes the pending entry (if it is one) -/
theorem item_step (c : Context) (aU : Bool) (it : CfgItem) (hit : it.ok c aU) (s : CfgSt) (p : Option Nat) (hp : Pend c aU s p) :
    ∃ s', it.lines.foldlM (cfgLine c aU) s = .ok s' ∧ s'.values = s.values ++ pendList s p ∧
      Pend c aU s' (it.pair.map (·.1)) ∧ pendList s' (it.pair.map (·.1)) = it.pair.toList := by
  cases it with
  | entry e =>
    have he : e.ok c aU := hit
    simp only [CfgItem.lines, CfgEntry.lines, List.foldlM_cons, cfgLine_first c aU s p hp e he, bind, Except.bind]
    rw [foldl_cont c aU e.cont he.2.2.2.2.2.2.2.2.2.2 _ rfl]
    exact ⟨_, rfl, rfl, ⟨rfl, he.2.2.2.2.2.2.2.2.2.1⟩, rfl⟩
  | comment lead body =>
    obtain ⟨hl, _⟩ := hit
    simp only [CfgItem.lines, List.foldlM_cons, List.foldlM_nil, cfgLine_skip c aU s p hp _ (Or.inr ⟨lead, body, rfl, hl⟩), bind, Except.bind]
    exact ⟨_, rfl, rfl, rfl, rfl⟩
  | blank ws =>
    simp only [CfgItem.lines, List.foldlM_cons, List.foldlM_nil, cfgLine_skip c aU s p hp _ (Or.inl hit), bind, Except.bind]
    exact ⟨_, rfl, rfl, rfl, rfl⟩

theorem items_run (c : Context) (aU : Bool) : ∀ (items : List CfgItem), (∀ it ∈ items, it.ok c aU) → ∀ (s : CfgSt) (p : Option Nat), Pend c aU s p →
    ∃ s' p', (items.flatMap CfgItem.lines).foldlM (cfgLine c aU) s = .ok s' ∧ Pend c aU s' p' ∧
      s'.values ++ pendList s' p' = s.values ++ pendList s p ++ items.filterMap CfgItem.pair := by
  intro items
  induction items with
  | nil => intro _ s p hp; exact ⟨s, p, rfl, hp, by simp⟩
  | cons it r ih =>
    intro hok s p hp
    obtain ⟨s1, e1, hv1, hp1, hl1⟩ := item_step c aU it (hok it (by simp)) s p hp
    obtain ⟨s2, p2, e2, hp2, hv2⟩ := ih (fun x hx => hok x (by simp [hx])) s1 _ hp1
    refine ⟨s2, p2, ?_, hp2, ?_⟩
    · simp only [List.flatMap_cons, List.foldlM_append, e1, bind, Except.bind, e2]
    · rw [hv2, hv1, hl1]
      cases hpair : it.pair <;> simp [List.filterMap_cons, hpair]

theorem item_lines_nolf (c : Context) (aU : Bool) (it : CfgItem) (hit : it.ok c aU) : ∀ l ∈ it.lines, ∀ x ∈ l, x ≠ 10 := by
  have hb : ∀ {ws : List Nat}, Blanks ws → ∀ x ∈ ws, x ≠ 10 := by
    intro ws h x hx; rcases h x hx with e | e <;> omega
  cases it with
  | entry e =>
    obtain ⟨hl, hpre, hpost, htr, _, hkey, _, _, hval, _, hcont⟩ := hit
    intro l hl' x hx
    simp only [CfgItem.lines, CfgEntry.lines, List.mem_cons, List.mem_map] at hl'
    rcases hl' with h | ⟨y, hy, h⟩
    · subst h
      simp only [CfgEntry.first, List.mem_append, List.mem_cons] at hx
      rcases hx with h | h | h | h | h | h | h
      · exact hb hl x h
      · exact hkey.1 x h
      · exact hb hpre x h
      · omega
      · exact hb hpost x h
      · exact hval.1 x h
      · exact hb htr x h
    · subst h
      obtain ⟨h1, h2, _, h3, _⟩ := hcont y hy
      simp only [contLine, List.mem_append] at hx
      rcases hx with h | h | h
      · exact hb h1 x h
      · exact h3.1 x h
      · exact hb h2 x h
  | comment lead body =>
    obtain ⟨hl, hbody⟩ := hit
    intro l hl' x hx
    simp only [CfgItem.lines, List.mem_singleton] at hl'
    subst hl'
    simp only [List.mem_append, List.mem_cons] at hx
    rcases hx with h | h | h
    · exact hb hl x h
    · omega
    · exact hbody x h
  | blank ws =>
    intro l hl' x hx
    simp only [CfgItem.lines, List.mem_singleton] at hl'
    subst hl'
    exact hb hit x hx

/-- **C13 (config files)**: a file of `name = value` lines — any blanks before the name, around `=` and behind the value; the name written in full
    or as a unique prefix; values that may be empty or contain `=` — with continuation lines, `#` comment lines and blank lines, every line ended
    by a line feed, yields exactly the intended (option, value) pairs in order; a continuation line extends the value by one blank and its text. -/
theorem C13_cfg (c : Context) (aU : Bool) (items : List CfgItem) (hok : ∀ it ∈ items, it.ok c aU) :
    parseCfg c aU (joinLines (items.flatMap CfgItem.lines)) = .ok (items.filterMap CfgItem.pair) := by
  unfold parseCfg
  have hsplit : splitLines (joinLines (items.flatMap CfgItem.lines)) [] [] = items.flatMap CfgItem.lines := by
    rw [splitLines_join _ _ []]
    · rfl
    · intro l hl
      simp only [List.mem_flatMap] at hl
      obtain ⟨it, hit, hl⟩ := hl
      exact item_lines_nolf c aU it (hok it hit) l hl
  obtain ⟨s', p', e, hp, hv⟩ := items_run c aU items hok {} none rfl
  rw [hsplit]
  simp only [e, bind, Except.bind, cfgFlush_pend c aU s' p' hp, pure, Except.pure]
  simpa [pendList] using hv

theorem trimmed_of_bool (t : List Nat) (h : (t.all (fun c => c != 10) && (t.head?.all (fun c => c != 32 && c != 9)) && (t.reverse.head?.all (fun c => c != 32 && c != 9))) = true) :
    Trimmed t := by
  simp only [Bool.and_eq_true, List.all_eq_true, bne_iff_ne, ne_eq] at h
  obtain ⟨⟨h1, h2⟩, h3⟩ := h
  refine ⟨h1, ?_, ?_⟩
  · intro c r e; rw [e] at h2; simpa using h2
  · intro c r e; rw [e] at h3; simpa using h3

/-! non-vacuity: `# c␤  nu =  3 ␤   4␤␤verb=␤` with the context of Props/C13b.lean gives [(num, "3 4"), (verb, "")] -/
def exCfg : List CfgItem :=
  [ .comment [] [32, 99],
    .entry { key := [110, 117], k := 0, wsLead := [32, 32], wsPre := [32], wsPost := [32, 32], wsTrail := [32], value := [51], cont := [([32, 32, 32], [52], [])] },
    .blank [],
    .entry { key := [118, 101, 114, 98], k := 1, wsLead := [], wsPre := [], wsPost := [], wsTrail := [], value := [], cont := [] } ]

example : parseCfg exCtx false (joinLines (exCfg.flatMap CfgItem.lines)) = .ok [(0, [51, 32, 52]), (1, [])] := by rfl
example : exCfg.filterMap CfgItem.pair = [(0, [51, 32, 52]), (1, [])] := by decide
example : ∀ it ∈ exCfg, it.ok exCtx false := by
  intro it hit
  simp only [exCfg, List.mem_cons, List.not_mem_nil, or_false] at hit
  have hb : ∀ ws : List Nat, (∀ c ∈ ws, c = 32) → Blanks ws := fun ws h c hc => Or.inl (h c hc)
  rcases hit with h | h | h | h <;> subst h
  · exact ⟨hb _ (by simp), by decide⟩
  · refine ⟨hb _ (by simp), hb _ (by simp), hb _ (by simp), hb _ (by simp), by simp, trimmed_of_bool _ (by rfl), by decide, by decide, trimmed_of_bool _ (by rfl), by rfl, ?_⟩
    intro x hx; simp only [List.mem_singleton] at hx; subst hx
    exact ⟨hb _ (by simp), hb _ (by simp), by simp, trimmed_of_bool _ (by rfl), by decide, by decide⟩
  · exact hb _ (by simp)
  · exact ⟨hb _ (by simp), hb _ (by simp), hb _ (by simp), hb _ (by simp), by simp, trimmed_of_bool _ (by rfl), by decide, by decide, trimmed_of_bool _ (by rfl), by rfl, by simp⟩

end PotasscoVerif.C13
