/-
  C12 (continued) — `print()`: re-emitting the stored terms and atoms through the program interface reproduces them.
  `C12_print_term` / `C12_print_atom`: the call made for a stored item carries exactly the content it was added with.
  `C12_print_replays`: a fresh store that receives the calls `print()` makes for ALL terms and atoms of any store `d`
  (whatever history produced `d`) refuses none of them and then answers every term lookup, and lists the atoms, exactly as `d` does.
-/
import PotasscoVerif.Props.C12
import PotasscoVerif.Model.TheoryPrint
namespace PotasscoVerif.C12
open PotasscoVerif PotasscoVerif.TheoryData

/-- the call printed for an id right after it was (re)defined is the call that defined it -/
theorem C12_print_term (d d' : TD) (id : Nat) (t : Term) (hs : d.addTerm id t = some d') :
    (d'.getTerm id).map (Term.call id) = some (Term.call id t) ∧ d.receive (Term.call id t) = some d' := by
  refine ⟨by rw [C12_term_add d d' id t hs id]; simp, ?_⟩
  cases t <;> exact hs

theorem C12_print_atom (d : TD) (a : Atom) :
    (d.addAtom a).printAtoms = d.printAtoms ++ [a.call] ∧ d.receive a.call = some (d.addAtom a) := by
  refine ⟨by simp [TD.printAtoms, TD.addAtom], rfl⟩

def receiveAll (d : TD) (cs : List Call) : Option TD := cs.foldlM TD.receive d

theorem receiveAll_append (d : TD) (a b : List Call) : receiveAll d (a ++ b) = (receiveAll d a).bind (fun d' => receiveAll d' b) := by
  simp [receiveAll, List.foldlM_append]

/-- receiving the printed terms with ids below `n` into a store that agrees with nothing yet: afterwards the receiver
    knows exactly the terms of `d` below `n` -/
theorem receive_terms (d : TD) : ∀ n, ∃ r, receiveAll {} (d.printTermsBelow n) = some r ∧ r.fTerm = 0 ∧ r.atoms = [] ∧
    ∀ j, r.getTerm j = if j < n then d.getTerm j else none := by
  intro n
  induction n with
  | zero => exact ⟨{}, rfl, rfl, rfl, fun j => by simp [TD.getTerm]⟩
  | succ n ih =>
    obtain ⟨r, hr, hf, ha, hg⟩ := ih
    have hsplit : d.printTermsBelow (n + 1) = d.printTermsBelow n ++ ((d.getTerm n).map (Term.call n)).toList := by
      simp only [TD.printTermsBelow, List.range_succ, List.filterMap_append]
      cases hh : d.getTerm n <;> simp [List.filterMap, hh]
    rw [hsplit, receiveAll_append, hr]
    cases hn : d.getTerm n with
    | none =>
      refine ⟨r, by simp [receiveAll], hf, ha, fun j => ?_⟩
      rw [hg j]
      by_cases h1 : j < n
      · simp [h1, Nat.lt_succ_of_lt h1]
      · by_cases h2 : j = n
        · subst h2; simp [hn]
        · have : ¬ j < n + 1 := by omega
          simp [h1, this]
    | some t =>
      have hnone : r.getTerm n = none := by rw [hg n]; simp
      have hnew : r.isNewTerm n = false := by simp [TD.isNewTerm, TD.hasTerm, hnone]
      have hadd : r.addTerm n t ≠ none := fun h => by rw [(C12_redefinition r n t).mp h] at hnew; cases hnew
      obtain ⟨r', hr'⟩ := Option.ne_none_iff_exists'.mp hadd
      have hrec : r.receive (Term.call n t) = some r' := by cases t <;> exact hr'
      have hf' : r'.fTerm = 0 ∧ r'.atoms = [] := by
        unfold TD.addTerm at hr'
        simp only [TD.hasTerm, hnone, Option.isSome_none, Bool.not_false, if_true, Option.some.injEq] at hr'
        subst hr'; exact ⟨hf, ha⟩
      refine ⟨r', by simp [receiveAll, hrec], hf'.1, hf'.2, fun j => ?_⟩
      rw [C12_term_add r r' n t hr' j, hg j]
      by_cases h2 : j = n
      · subst h2; simp [hn]
      · by_cases h1 : j < n
        · simp [h2, h1, Nat.lt_succ_of_lt h1]
        · have : ¬ j < n + 1 := by omega
          simp [h2, h1, this]

theorem receive_atoms (r : TD) (as : List Atom) : ∃ r', receiveAll r (as.map Atom.call) = some r' ∧ r'.atoms = r.atoms ++ as ∧ r'.terms = r.terms := by
  induction as generalizing r with
  | nil => exact ⟨r, rfl, by simp, rfl⟩
  | cons a as ih =>
    obtain ⟨r', h1, h2, h3⟩ := ih (r.addAtom a)
    refine ⟨r', ?_, ?_, ?_⟩
    · simpa [receiveAll, Atom.call, TD.receive] using h1
    · rw [h2]; simp [TD.addAtom]
    · rw [h3]; rfl

/-- re-emission reproduces the stored directives: a fresh store receiving everything `print()` emits for `d` ends up with the
    same answer to every term lookup and the same atom list -/
theorem C12_print_replays (d : TD) : ∃ r, receiveAll {} (d.printTerms ++ d.printAtoms) = some r ∧
    (∀ j, r.getTerm j = d.getTerm j) ∧ r.atoms = d.atoms := by
  obtain ⟨r, hr, _, ha, hg⟩ := receive_terms d d.terms.length
  obtain ⟨r', h1, h2, h3⟩ := receive_atoms r d.atoms
  refine ⟨r', ?_, fun j => ?_, ?_⟩
  · rw [receiveAll_append]; unfold TD.printTerms TD.printAtoms; rw [hr]; exact h1
  · have : r'.getTerm j = r.getTerm j := by unfold TD.getTerm; rw [h3]
    rw [this, hg j]
    by_cases h : j < d.terms.length
    · simp [h]
    · simp only [h, if_false]
      unfold TD.getTerm
      rw [List.getElem?_eq_none_iff.mpr (by omega)]; rfl
  · rw [h2, ha]; simp

/-! non-vacuity: a store with a removed slot, a redefinition across a step mark and two atoms -/
def exStore : TD :=
  let d : TD := {}
  let d := (d.addTerm 0 (.num 7)).getD d
  let d := (d.addTerm 2 (.sym [102])).getD d
  let d := (d.addTerm 3 (.comp 2 [0])).getD d
  let d := d.addAtom { atom := 1, term := 3, elems := [], guard := none }
  let d := d.update
  let d := (d.addTerm 0 (.num 9)).getD d
  let d := d.removeTerm 2
  d.addAtom { atom := 0, term := 0, elems := [], guard := some (3, 0) }

example : exStore.printTerms ++ exStore.printAtoms =
    [.theoryNum 0 9, .theoryCompound 3 2 [0], .theoryAtom 1 3 [] none, .theoryAtom 0 0 [] (some (3, 0))] := by decide

end PotasscoVerif.C12
