/-
  C08 (continued) — acyclicity edges at the level of answer sets: converting a program step with `#edge` directives (potassco extensions
  enabled, i.e. the edges are represented by `_edge(s,t)` helper symbols) keeps, in corresponding answer sets, exactly the same edges active.
  A corollary of `C02_equivalence`, whose `shown` counts the helper name of an edge among the names a program asks to show.
-/
import PotasscoVerif.Props.C02sem
import PotasscoVerif.Props.C08b
namespace PotasscoVerif.C08
open PotasscoVerif PotasscoVerif.Asp PotasscoVerif.Convert PotasscoVerif.C02

theorem edgeName_eq (a b : Int) : edgeName a b = edgeText a b := rfl

/-- different node pairs have different helper names (the reader recovers both node names from the text) -/
theorem edgeName_inj (a b a' b' : Int) (ha : -2147483648 ≤ a ∧ a ≤ 2147483647) (hb : -2147483648 ≤ b ∧ b ≤ 2147483647)
    (ha' : -2147483648 ≤ a' ∧ a' ≤ 2147483647) (hb' : -2147483648 ≤ b' ∧ b' ≤ 2147483647) (h : edgeName a b = edgeName a' b') : a = a' ∧ b = b' := by
  have h1 := C08_edge_text_roundtrip a b
  have h2 := C08_edge_text_roundtrip a' b'
  rw [← edgeName_eq, h, edgeName_eq] at h1
  rw [h2] at h1
  simp only [Prod.mk.injEq, true_and, and_true] at h1
  have inj : ∀ (x y : Int), (-2147483648 ≤ x ∧ x ≤ 2147483647) → (-2147483648 ≤ y ∧ y ≤ 2147483647) → AspifOut.printInt x = AspifOut.printInt y → x = y := by
    intro x y hx hy e
    have e1 := cInt_printInt x hx [] Decimal.NDS_nil
    have e2 := cInt_printInt y hy [] Decimal.NDS_nil
    rw [e] at e1; rw [e2] at e1
    simpa using e1.symm
  exact ⟨(inj a' a ha' ha h1.1).symm, (inj b' b hb' hb h1.2).symm⟩

/-- an edge from `a` to `b` is active under `X`: some `#edge(a,b)` directive of the program has a true condition -/
def edgeActive (ds : List Call) (X : I) (a b : Int) : Prop := ∃ cond, Call.acycEdge a b cond ∈ ds ∧ bodyR X X (.normal cond) = true

theorem srcOuts_mem (ds : List Call) (n : List Nat) (cond : List Int) :
    (n, cond) ∈ srcOuts ds ↔ Call.output n cond ∈ ds ∨ ∃ a b, Call.acycEdge a b cond ∈ ds ∧ n = edgeName a b := by
  unfold srcOuts
  simp only [List.mem_filterMap]
  constructor
  · rintro ⟨x, hx, he⟩
    cases x with
    | output n' c' =>
      simp only [srcOut, Option.some.injEq, Prod.mk.injEq] at he
      obtain ⟨e1, e2⟩ := he; subst e1; subst e2; exact Or.inl hx
    | acycEdge a b c' =>
      simp only [srcOut, Option.some.injEq, Prod.mk.injEq] at he
      obtain ⟨e1, e2⟩ := he; subst e2; exact Or.inr ⟨_, _, hx, e1.symm⟩
    | _ => simp [srcOut] at he
  · rintro (h | ⟨a, b, h, e⟩)
    · exact ⟨_, h, rfl⟩
    · exact ⟨_, h, by simp [srcOut, e]⟩

/-- **C08 (edges, answer-set level)**: for every program step of rules, minimize, output, external and edge directives (node numbers in the int range;
    no output directive uses an `_edge(…)` helper name), converted with the extensions on: the answer sets correspond one to one (`C02_equivalence`),
    and under corresponding answer sets an edge `(a,b)` is active in the given program iff the emitted program shows `_edge(a,b)` — the symbol the
    smodels reader turns back into an edge on that condition atom (`C08_table_read`). -/
theorem C08_edges_active (inc : Bool) (ds : List Call) (hx : ∀ d ∈ ds, PlainOk d) (hE : extCalls ds = [])
    (hr : ∀ a b cond, Call.acycEdge a b cond ∈ ds → (-2147483648 ≤ a ∧ a ≤ 2147483647) ∧ (-2147483648 ≤ b ∧ b ≤ 2147483647))
    (hno : ∀ n cond, Call.output n cond ∈ ds → ∀ a b, n ≠ edgeName a b) :
    ∃ E : I → I,
      (∀ X, Stable (progOf ds) X → Stable (rulesOf (convert true (stepCalls inc ds)).out) (E X) ∧ E X 1 = false) ∧
      (∀ X', Stable (rulesOf (convert true (stepCalls inc ds)).out) X' → X' 1 = false → ∃ X, Stable (progOf ds) X ∧ E X = X') ∧
      (∀ X a b, (-2147483648 ≤ a ∧ a ≤ 2147483647) → (-2147483648 ≤ b ∧ b ≤ 2147483647) →
        (edgeActive ds X a b ↔ shownOut (convert true (stepCalls inc ds)).out (E X) (edgeName a b))) := by
  obtain ⟨E, h1, h2, h3⟩ := C02_equivalence true inc ds hx (Or.inr hE)
  refine ⟨E, fun X hs => ⟨(h1 X hs).1, (h1 X hs).2.1⟩, fun X' hs h0 => ⟨_, (h2 X' hs h0).1, (h2 X' hs h0).2⟩, ?_⟩
  intro X a b ha hb
  rw [← h3 X (edgeName a b)]
  unfold edgeActive C02.shown
  constructor
  · rintro ⟨cond, hm, hb'⟩
    exact ⟨cond, (srcOuts_mem ds _ cond).mpr (Or.inr ⟨a, b, hm, rfl⟩), hb'⟩
  · rintro ⟨cond, hm, hb'⟩
    rcases (srcOuts_mem ds _ cond).mp hm with h | ⟨a', b', h, e⟩
    · exact absurd rfl (hno _ cond h a b)
    · obtain ⟨ra, rb⟩ := hr a' b' cond h
      obtain ⟨e1, e2⟩ := edgeName_inj a b a' b' ha hb ra rb e
      subst e1; subst e2
      exact ⟨cond, h, hb'⟩

end PotasscoVerif.C08
