/-
  C08 (continued) — acyclicity edges at the level of answer sets: converting a program step with `#edge` directives (potassco extensions
  enabled, i.e. the edges are represented by `_edge(s,t)` helper symbols) keeps, in corresponding answer sets, exactly the same edges active.
  A corollary of `C02_equivalence`, whose `shown` counts the helper name of an edge among the names a program asks to show.
-/
import PotasscoVerif.Props.C02sem
import PotasscoVerif.Props.C02x
import PotasscoVerif.Props.C08b
import PotasscoVerif.Lemmas.ConvertHeu
namespace PotasscoVerif.C08
open PotasscoVerif PotasscoVerif.Asp PotasscoVerif.Convert PotasscoVerif.C02

theorem edgeName_eq (a b : Int) : edgeName a b = edgeText a b := rfl

/-- different node pairs have different helper names (the reader recovers both node names from the text) -/
theorem edgeName_inj (a b a' b' : Int) (ha : -2147483648 ≤ a ∧ a ≤ 2147483647) (hb : -2147483648 ≤ b ∧ b ≤ 2147483647)
    (ha' : -2147483648 ≤ a' ∧ a' ≤ 2147483647) (hb' : -2147483648 ≤ b' ∧ b' ≤ 2147483647) (h : edgeName a b = edgeName a' b') : a = a' ∧ b = b' := by
  have h1 := C08_edge_text_roundtrip a b
  have h2 := C08_edge_text_roundtrip a' b'
  rw [← edgeName_eq, h, edgeName_eq] at h1
  rw [h2] at h1
  simp only [Prod.mk.injEq, true_and, and_true] at h1
  have inj : ∀ (x y : Int), (-2147483648 ≤ x ∧ x ≤ 2147483647) → (-2147483648 ≤ y ∧ y ≤ 2147483647) → AspifOut.printInt x = AspifOut.printInt y → x = y := by
    intro x y hx hy e
    have e1 := cInt_printInt x hx [] Decimal.NDS_nil
    have e2 := cInt_printInt y hy [] Decimal.NDS_nil
    rw [e] at e1; rw [e2] at e1
    simpa using e1.symm
  exact ⟨(inj a' a ha' ha h1.1).symm, (inj b' b hb' hb h1.2).symm⟩

/-- an edge from `a` to `b` is active under `X`: some `#edge(a,b)` directive of the program has a true condition -/
def edgeActive (ds : List Call) (X : I) (a b : Int) : Prop := ∃ cond, Call.acycEdge a b cond ∈ ds ∧ bodyR X X (.normal cond) = true

theorem srcOuts_mem (ds : List Call) (n : List Nat) (cond : List Int) :
    (n, cond) ∈ srcOuts ds ↔ Call.output n cond ∈ ds ∨ ∃ a b, Call.acycEdge a b cond ∈ ds ∧ n = edgeName a b := by
  unfold srcOuts
  simp only [List.mem_filterMap]
  constructor
  · rintro ⟨x, hx, he⟩
    cases x with
    | output n' c' =>
      simp only [srcOut, Option.some.injEq, Prod.mk.injEq] at he
      obtain ⟨e1, e2⟩ := he; subst e1; subst e2; exact Or.inl hx
    | acycEdge a b c' =>
      simp only [srcOut, Option.some.injEq, Prod.mk.injEq] at he
      obtain ⟨e1, e2⟩ := he; subst e2; exact Or.inr ⟨_, _, hx, e1.symm⟩
    | _ => simp [srcOut] at he
  · rintro (h | ⟨a, b, h, e⟩)
    · exact ⟨_, h, rfl⟩
    · exact ⟨_, h, by simp [srcOut, e]⟩

/-- **C08 (edges, answer-set level)**: for every program step of rules, minimize, output, ANY external and edge directives (node numbers in the int range;
    no output directive uses an `_edge(…)` helper name), converted with the extensions on (externals passed on, `progOf` reads them): the answer sets correspond one to one (`C02_equivalence_ext`),
    and under corresponding answer sets an edge `(a,b)` is active in the given program iff the emitted program shows `_edge(a,b)` — the symbol the
    smodels reader turns back into an edge on that condition atom (`C08_table_read`). -/
theorem C08_edges_active (inc : Bool) (ds : List Call) (hx : ∀ d ∈ ds, PlainOk d) (hnh : ∀ d ∈ ds, isHeu d = false)
    (hr : ∀ a b cond, Call.acycEdge a b cond ∈ ds → (-2147483648 ≤ a ∧ a ≤ 2147483647) ∧ (-2147483648 ≤ b ∧ b ≤ 2147483647))
    (hno : ∀ n cond, Call.output n cond ∈ ds → ∀ a b, n ≠ edgeName a b) :
    ∃ E : I → I,
      (∀ X, Stable (progOf ds) X → Stable (progOf (convert true (stepCalls inc ds)).out) (E X) ∧ E X 1 = false) ∧
      (∀ X', Stable (progOf (convert true (stepCalls inc ds)).out) X' → X' 1 = false → ∃ X, Stable (progOf ds) X ∧ E X = X') ∧
      (∀ X a b, (-2147483648 ≤ a ∧ a ≤ 2147483647) → (-2147483648 ≤ b ∧ b ≤ 2147483647) →
        (edgeActive ds X a b ↔ shownOut (convert true (stepCalls inc ds)).out (E X) (edgeName a b))) := by
  obtain ⟨E, h1, h2, h3⟩ := C02_equivalence_ext inc ds hx hnh
  refine ⟨E, fun X hs => ⟨(h1 X hs).1, (h1 X hs).2.1⟩, fun X' hs h0 => ⟨_, (h2 X' hs h0).1, (h2 X' hs h0).2⟩, ?_⟩
  intro X a b ha hb
  rw [← h3 X (edgeName a b)]
  unfold edgeActive C02.shown
  constructor
  · rintro ⟨cond, hm, hb'⟩
    exact ⟨cond, (srcOuts_mem ds _ cond).mpr (Or.inr ⟨a, b, hm, rfl⟩), hb'⟩
  · rintro ⟨cond, hm, hb'⟩
    rcases (srcOuts_mem ds _ cond).mp hm with h | ⟨a', b', h, e⟩
    · exact absurd rfl (hno _ cond h a b)
    · obtain ⟨ra, rb⟩ := hr a' b' cond h
      obtain ⟨e1, e2⟩ := edgeName_inj a b a' b' ha hb ra rb e
      subst e1; subst e2
      exact ⟨cond, h, hb'⟩

theorem heuOutName_eq (nm : List Nat) (h : Heu) : heuOutName nm h = heuText nm h.type h.bias h.prio := rfl

/-- **C08 (heuristics, answer-set level)**: for every program step of rules, minimize, output, external, edge and heuristic directives converted with
    the extensions on, the answer sets of the given and of the emitted program correspond one to one (`E` / restriction, as in C02), and for every
    `#heuristic` directive on an atom that occurs in the program the emitted program contains an output directive
    `_heuristic(name,modifier,bias,priority)` — the same modifier, bias and priority — on an atom that is true under `E X` exactly when the
    directive's condition holds under `X` — the modification is active in corresponding answer sets, and only there — and `name` is a name under which the
    emitted program shows the atom `a` is mapped to (a display name given by an output directive, or the generated `_atom(n)`).  (`C08_table_read` /
    `C08_heuristics_resolved`: the smodels reader turns that symbol back into a heuristic directive on the atom its `name` denotes.) -/
theorem C08_heuristics_active (inc : Bool) (ds : List Call) (hx : ∀ d ∈ ds, PlainOk d) :
    ∃ E : I → I,
      (∀ X, Stable (progOf ds) X → Stable (progOf (convert true (stepCalls inc ds)).out) (E X) ∧ E X 1 = false ∧ restrict (convert true (stepCalls inc ds)) (E X) = X) ∧
      (∀ X', Stable (progOf (convert true (stepCalls inc ds)).out) X' → X' 1 = false →
        Stable (progOf ds) (restrict (convert true (stepCalls inc ds)) X') ∧ E (restrict (convert true (stepCalls inc ds)) X') = X') ∧
      (∀ a t b p cond, Call.heuristic a t b p cond ∈ ds → a ∈ domOf (preEnd true inc ds) →
        ∃ nm n sm, Call.output (heuText nm t b p) [(n : Int)] ∈ (convert true (stepCalls inc ds)).out ∧
          (∀ X, bodyR (E X) (E X) (.normal [(n : Int)]) = bodyR X X (.normal cond)) ∧
          (a, sm) ∈ (abs (convert true (stepCalls inc ds))).ids ∧ Call.output nm [(sm : Int)] ∈ (convert true (stepCalls inc ds)).out) := by
  obtain ⟨defs, h1, q1, x1, y1⟩ := JHX.pre true inc ds hx
  obtain ⟨hj, tr, hshape, hst⟩ := trans_ext_of inc ds hx h1 x1
  have ok := ctx_ok hj
  refine ⟨fun X => (ctxOf (convert true (stepCalls inc ds)) defs).E X X, ?_, ?_, ?_⟩
  · intro X hs
    have hs' := (stable_filter_kept_app _ _ X).mpr hs
    obtain ⟨g1, g2, g3⟩ := translation_stable ok tr hs'
    refine ⟨g1, g2, ?_⟩
    rw [restrict_eq _ hj.inv defs]; exact g3
  · intro X' hs h0
    obtain ⟨g2, g3⟩ := translation_stable_back ok tr X' hs h0
    rw [restrict_eq _ hj.inv defs]
    exact ⟨(stable_filter_kept_app _ _ _).mp g2, g3.symm⟩
  · intro a t b p cond hmem hdom
    have hin : (a, t, b, p, cond) ∈ heusOf ds := by
      unfold heusOf; simp only [List.mem_filterMap]; exact ⟨_, hmem, rfl⟩
    obtain ⟨e, he, e1, e2, e3, e4, hrep⟩ := HRel.mem _ _ q1 _ hin
    simp only at e1 e2 e3 e4 hrep
    obtain ⟨nm, sm, hid, hout, hname⟩ := flush_heu_named (preEnd true inc ds) h1.nofail h1.inv y1 hshape e he (by rw [e1]; exact hdom)
    refine ⟨nm, e.cond, sm, ?_, ?_, ?_, ?_⟩
    · rw [convert_step]
      rw [heuOutName_eq, e2, e3, e4] at hout
      exact hout
    · intro X
      exact rep_val hj X e.cond cond (hrep.mono hst h1.inv (fun d hd => hd))
    · rw [convert_step, ← e1]; exact hid
    · rw [convert_step]; exact hname

end PotasscoVerif.C08
