/-
  C08 (continued) — what the smodels reader (conversions switched on) makes of the symbol table the converter writes.

  `Entry`: the three kinds of symbol-table entries in structured form — an ordinary symbol, the helper `_heuristic(name,mod,bias,prio)`
  on a condition atom, the helper `_edge(s,t)` on a condition atom.  `specStep` says what each contributes WITHOUT any parsing:
  an ordinary symbol is shown and remembered under its name; a heuristic helper is queued with its fields (and shown only if
  filtering is off); an edge helper gives an acyclicity edge between the nodes of its two node names, numbered by first occurrence.
  `C08_symbol_spec`: the reader's handling of the entry's TEXT is exactly that; `C08_symbols_fold`: so is the whole table;
  `C08_heuristics_resolved`: at the end every queued heuristic whose target NAME is a symbol of the table becomes a heuristic
  directive on that symbol's atom with the same modifier, bias, priority and condition atom — the others are dropped.
-/
import PotasscoVerif.Props.C08
import PotasscoVerif.Props.C07b
namespace PotasscoVerif.C08
open PotasscoVerif PotasscoVerif.SmodelsSym PotasscoVerif.AspifOut PotasscoVerif.Decimal

inductive Entry where
  | plain (x : Nat) (name : List Nat)
  | heu (x : Nat) (target : List Nat) (ty : Nat) (bias : Int) (prio : Nat)
  | edge (x : Nat) (a b : Int)
deriving Repr

def Entry.atom : Entry → Nat
  | .plain x _ => x | .heu x .. => x | .edge x .. => x
/-- the name in the symbol table -/
def Entry.text : Entry → List Nat
  | .plain _ n => n
  | .heu _ tg ty b p => heuText tg ty b p
  | .edge _ a b => edgeText a b

/-- an ordinary name: none of the helper prefixes -/
def PlainName (n : List Nat) : Prop :=
  (s "_acyc_").isPrefixOf n = false ∧ (s "_edge(").isPrefixOf n = false ∧ (s "_heuristic(").isPrefixOf n = false

def Entry.ok : Entry → Prop
  | .plain _ n => PlainName n
  | .heu _ tg ty b p => ArgSafe tg ∧ tg ≠ [] ∧ ty < 6 ∧ (-2147483648 ≤ b ∧ b ≤ 2147483647) ∧ p ≤ 2147483647
  | .edge .. => True

/-- `SymTab::add`: the first atom recorded under a name stays -/
def remember (t : Tabs) (name : List Nat) (x : Nat) : Tabs :=
  match t.atoms with
  | some m => { t with atoms := some (if m.any (fun p => p.1 == name) then m else m ++ [(name, x)]) }
  | none => t

def shown (flt : Bool) (e : Entry) : List Call :=
  match e with
  | .plain x n => [.output n [(x : Int)]]
  | _ => if flt then [] else [.output e.text [(e.atom : Int)]]

/-- the contribution of one entry, in terms of its fields -/
def specStep (flt : Bool) (st : Tabs × List Call × List Heu) (e : Entry) : Tabs × List Call × List Heu :=
  match e with
  | .plain x n => (remember st.1 n x, st.2.1 ++ shown flt e, st.2.2)
  | .heu x tg ty b p => (remember st.1 e.text x, st.2.1 ++ shown flt e, st.2.2 ++ [{ atom := tg, type := ty, bias := b, prio := p, cond := x }])
  | .edge x a b =>
    let n0 := st.1.addNode (printInt a)
    let n1 := n0.1.addNode (printInt b)
    (remember n1.1 e.text x, st.2.1 ++ [.acycEdge (n0.2 : Int) (n1.2 : Int) [(x : Int)]] ++ shown flt e, st.2.2)

theorem eat_false (w inp : List Nat) (h : w.isPrefixOf inp = false) : eat w inp = (false, inp) := by simp [eat, h]

theorem edgePred_plain (n : List Nat) (h1 : (s "_acyc_").isPrefixOf n = false) (h2 : (s "_edge(").isPrefixOf n = false) : edgePred n = (0, [], [], n) := by
  unfold edgePred
  simp [eat_false _ _ h1, eat_false _ _ h2]

theorem domHeuPred_plain (n : List Nat) (h : (s "_heuristic(").isPrefixOf n = false) : (domHeuPred n).1 = 0 := by
  unfold domHeuPred
  simp [eat_false _ _ h]

theorem heuText_prefixes (tg : List Nat) (ty : Nat) (b : Int) (p : Nat) :
    (s "_acyc_").isPrefixOf (heuText tg ty b p) = false ∧ (s "_edge(").isPrefixOf (heuText tg ty b p) = false := by
  constructor <;> simp [heuText, s, Convert.s, List.isPrefixOf]

/-- **C08 (one symbol)**: with both conversions on, the reader's handling of the text of an entry is the entry's contribution -/
theorem C08_symbol_spec (o : Opts) (hE : o.cEdge = true) (hH : o.cHeu = true) (t : Tabs) (calls : List Call) (doms : List Heu) (e : Entry) (he : e.ok) :
    let r := symbol o t e.atom e.text doms
    (r.1, calls ++ r.2.1, r.2.2) = specStep o.filter (t, calls, doms) e := by
  cases e with
  | plain x n =>
    obtain ⟨h1, h2, h3⟩ := he
    have hd := domHeuPred_plain n h3
    simp only [symbol, recognise, hE, hH, ↓reduceIte, Bool.true_and, edgePred_plain n h1 h2, Entry.text, Entry.atom, hd, specStep, shown, remember, record]
    simp only [show ¬ ((0 : Int) < 0) by omega, decide_false, Bool.false_eq_true, ↓reduceIte, Bool.not_false, List.nil_append]
    cases t.atoms <;> rfl
  | heu x tg ty b p =>
    obtain ⟨h1, h2, h3, h4, h5⟩ := he
    obtain ⟨p1, p2⟩ := heuText_prefixes tg ty b p
    have hr := C08_heuristic_text_roundtrip tg h1 h2 ty h3 b h4 p h5
    simp only [symbol, recognise, hE, hH, ↓reduceIte, Bool.true_and, edgePred_plain _ p1 p2, Entry.text, Entry.atom, hr, specStep, shown, remember, record]
    simp only [show ¬ ((0 : Int) < 0) by omega, decide_false, Bool.false_eq_true, ↓reduceIte, show ((0 : Int) < 1) by omega, decide_true]
    cases t.atoms <;> cases o.filter <;> simp
  | edge x a b =>
    have hr := C08_edge_text_roundtrip a b
    simp only [symbol, recognise, hE, hH, ↓reduceIte, Bool.true_and, Entry.text, Entry.atom, hr, specStep, shown, remember, record]
    simp only [show ((0 : Int) < 1) by omega, decide_true, ↓reduceIte]
    cases ((t.addNode (printInt a)).1.addNode (printInt b)).1.atoms <;> cases o.filter <;> simp

/-- **C08 (the table)**: folding the reader's symbol handling over the texts of a list of entries is folding their contributions -/
theorem C08_symbols_fold (o : Opts) (hE : o.cEdge = true) (hH : o.cHeu = true) (es : List Entry) (hok : ∀ e ∈ es, e.ok) (st : Tabs × List Call × List Heu) :
    es.foldl (fun st e => let r := symbol o st.1 e.atom e.text st.2.2; (r.1, st.2.1 ++ r.2.1, r.2.2)) st = es.foldl (specStep o.filter) st := by
  induction es generalizing st with
  | nil => rfl
  | cons e r ih =>
    simp only [List.foldl_cons]
    have := C08_symbol_spec o hE hH st.1 st.2.1 st.2.2 e (hok e (by simp))
    simp only at this
    rw [this]
    exact ih (fun x hx => hok x (by simp [hx])) _

/-- the heuristic directives delivered at the end of the symbol table -/
def resolve (t : Tabs) (doms : List Heu) : List Call :=
  doms.filterMap (fun h => let x := t.findAtom h.atom; if x != 0 then some (Call.heuristic x h.type h.bias h.prio [(h.cond : Int)]) else none)

/-- **C08 (heuristics)**: a queued heuristic whose target name is recorded in the table under atom `x ≠ 0` becomes a heuristic directive on `x`
    with the same modifier, bias, priority and its condition atom; one whose target name is not in the table is dropped -/
theorem C08_heuristics_resolved (t : Tabs) (doms : List Heu) (c : Call) :
    c ∈ resolve t doms ↔ ∃ h ∈ doms, t.findAtom h.atom ≠ 0 ∧ c = .heuristic (t.findAtom h.atom) h.type h.bias h.prio [(h.cond : Int)] := by
  unfold resolve
  simp only [List.mem_filterMap]
  constructor
  · rintro ⟨h, hm, hc⟩
    by_cases hx : t.findAtom h.atom = 0
    · simp [hx] at hc
    · have : (t.findAtom h.atom != 0) = true := by simpa using hx
      simp only [this, ↓reduceIte, Option.some.injEq] at hc
      exact ⟨h, hm, hx, hc.symm⟩
  · rintro ⟨h, hm, hx, hc⟩
    refine ⟨h, hm, ?_⟩
    have : (t.findAtom h.atom != 0) = true := by simpa using hx
    simp only [this, ↓reduceIte, hc]

theorem any_false_mem (m : List (List Nat × Nat)) (n : List Nat) (h : m.any (fun p => p.1 == n) = false) : ∀ p ∈ m, (p.1 == n) = false := by
  intro p hp
  rw [List.any_eq_false] at h
  have := h p hp
  simpa using this

/-- the name table finds the FIRST atom recorded under a name -/
theorem findAtom_remember (t : Tabs) (m : List (List Nat × Nat)) (ht : t.atoms = some m) (name : List Nat) (x : Nat) (n : List Nat) :
    (remember t name x).findAtom n = if m.any (fun p => p.1 == n) then t.findAtom n else if name == n then x else 0 := by
  unfold remember Tabs.findAtom
  simp only [ht]
  by_cases hany : m.any (fun p => p.1 == name) = true
  · simp only [hany, ↓reduceIte]
    by_cases hn : m.any (fun p => p.1 == n) = true
    · simp [hn]
    · have hn' : m.any (fun p => p.1 == n) = false := by cases hh : m.any (fun p => p.1 == n) with | true => exact absurd hh hn | false => rfl
      simp only [hn', Bool.false_eq_true, ↓reduceIte]
      have hf : m.find? (fun p => p.1 == n) = none := by
        rw [List.find?_eq_none]; intro p hp; have := any_false_mem m n hn' p hp; simp [this]
      by_cases hnn : (name == n) = true
      · have : name = n := by simpa using hnn
        subst this; rw [hany] at hn'; cases hn'
      · simp [hf, hnn]
  · have hany' : m.any (fun p => p.1 == name) = false := by cases hh : m.any (fun p => p.1 == name) with | true => exact absurd hh hany | false => rfl
    simp only [hany', Bool.false_eq_true, ↓reduceIte, List.find?_append]
    by_cases hn : m.any (fun p => p.1 == n) = true
    · simp only [hn, ↓reduceIte]
      obtain ⟨p, hp, hpn⟩ := List.any_eq_true.mp hn
      have : (m.find? (fun p => p.1 == n)).isSome = true := by rw [List.find?_isSome]; exact ⟨p, hp, hpn⟩
      cases hf : m.find? (fun p => p.1 == n) with
      | none => rw [hf] at this; cases this
      | some q => simp
    · have hn' : m.any (fun p => p.1 == n) = false := by cases hh : m.any (fun p => p.1 == n) with | true => exact absurd hh hn | false => rfl
      have hf : m.find? (fun p => p.1 == n) = none := by
        rw [List.find?_eq_none]; intro p hp; have := any_false_mem m n hn' p hp; simp [this]
      simp only [hn', Bool.false_eq_true, ↓reduceIte, hf, Option.none_or]
      by_cases hnn : (name == n) = true
      · simp [hnn]
      · simp [hnn]

/-! ### from the text of the symbol table -/
open PotasscoVerif.CharStream PotasscoVerif.AspifIn PotasscoVerif.AspifLang
open PotasscoVerif.C07 (NameOk nameLoop_complete hAtomMax)
open PotasscoVerif.C03 (IsEol numN_pos)

/-- the text of a symbol table (any layout of the atom numbers, one blank before the name, LF or CR LF behind it, `0` at the end) and the
    (atom, name) pairs it lists -/
inductive SymsE : Bool → List Nat → List (Nat × List Nat) → Prop
  | done {lead : Bool} {w : List Nat} : numN true lead Gen.atomMax w 0 → SymsE lead w []
  | sym {lead : Bool} {w1 nm eol w2 : List Nat} {x : Nat} {l : List (Nat × List Nat)} : numN true lead Gen.atomMax w1 x → x ≠ 0 → NameOk nm →
      IsEol true eol → SymsE false w2 l → SymsE lead (w1 ++ ([32] ++ (nm ++ (eol ++ w2)))) ((x, nm) :: l)

attribute [local irreducible] AspifIn.posMax in
theorem symbolsLoopO_zero (o : Opts) (a : AS) (t : Tabs) (acc : List Call) (d : List Heu) : symbolsLoop o 0 a t acc d = (t, acc, d, .error a.line) := rfl

/-- the reader's symbol-table loop delivers, for the text of a table, the fold of its symbol handling over the listed (atom, name) pairs -/
theorem symbolsLoopO_complete (o : Opts) : ∀ (lead : Bool) (w : List Nat) (l : List (Nat × List Nat)), SymsE lead w l →
    ∀ (f : Nat) (a : AS) (t : Tabs) (acc : List Call) (d : List Heu) (k : List Nat), w.length < f → a.rest = w ++ k → NDS k →
    ∃ a', symbolsLoop o f a t acc d =
        ((l.foldl (fun st p => let r := symbol o st.1 p.1 p.2 st.2.2; (r.1, st.2.1 ++ r.2.1, r.2.2)) (t, acc, d)).1,
         (l.foldl (fun st p => let r := symbol o st.1 p.1 p.2 st.2.2; (r.1, st.2.1 ++ r.2.1, r.2.2)) (t, acc, d)).2.1,
         (l.foldl (fun st p => let r := symbol o st.1 p.1 p.2 st.2.2; (r.1, st.2.1 ++ r.2.1, r.2.2)) (t, acc, d)).2.2, .ok a') ∧ a'.rest = k := by
  intro lead w l hd
  induction hd with
  | @done lead w hl =>
    intro f a t acc d k hf hr hk
    cases f with
    | zero => omega
    | succ f =>
      obtain ⟨a1, e1, r1⟩ := posMax_complete lead Gen.atomMax hAtomMax w 0 a k hl hr hk
      exact ⟨a1, by rw [C04.symbolsLoop_succ, e1]; simp, r1⟩
  | @sym lead w1 nm eol w2 x l hl h0 hnm he _ ih =>
    intro f a t acc d k hf hr hk
    cases f with
    | zero => omega
    | succ f =>
      obtain ⟨a1, e1, r1⟩ := posMax_complete lead Gen.atomMax hAtomMax w1 x a ([32] ++ (nm ++ (eol ++ w2)) ++ k) hl (by rw [hr]; simp)
        (by intro c r e; cases e; rfl)
      have hg := AspifRT.get_plain a1 32 (nm ++ (eol ++ (w2 ++ k))) (by rw [r1]; simp) (by decide) (by decide) (by decide)
      obtain ⟨a3, e3, r3⟩ := nameLoop_complete nm hnm eol he (w2 ++ k) ((a1.get.2).rest.length + 1) a1.get.2 [] (by rw [hg]; simp; omega) (by rw [hg])
      simp only [List.reverse_nil, List.nil_append] at e3
      have hlen := numN_pos hl
      obtain ⟨a4, e4, r4⟩ := ih f a3 (symbol o t x nm d).1 (acc ++ (symbol o t x nm d).2.1) (symbol o t x nm d).2.2 k
        (by simp only [List.length_append] at hf; omega) r3 hk
      refine ⟨a4, ?_, r4⟩
      rw [C04.symbolsLoop_succ, e1]
      simp only [h0, ↓reduceIte, e3]
      rw [e4]
      rfl

/-- **C08 (reading the converter's symbol table)**: for the text of a symbol table whose entries are ordinary symbols and the helper names the
    converter writes, the reader (both conversions on) delivers exactly the contributions of the entries: every ordinary symbol shown, every
    `_edge` helper turned into an acyclicity edge on its condition atom, every `_heuristic` helper queued with its target name, modifier, bias
    and priority (helpers shown only without filtering) -/
theorem C08_table_read (o : Opts) (hE : o.cEdge = true) (hH : o.cHeu = true) (es : List Entry) (hok : ∀ e ∈ es, e.ok) (lead : Bool) (w : List Nat)
    (hw : SymsE lead w (es.map (fun e => (e.atom, e.text)))) (a : AS) (t : Tabs) (k : List Nat) (hr : a.rest = w ++ k) (hk : NDS k) :
    ∃ a', symbolsLoop o (a.rest.length + 1) a t [] [] =
      ((es.foldl (specStep o.filter) (t, [], [])).1, (es.foldl (specStep o.filter) (t, [], [])).2.1, (es.foldl (specStep o.filter) (t, [], [])).2.2, .ok a') ∧ a'.rest = k := by
  obtain ⟨a', e, r⟩ := symbolsLoopO_complete o lead w _ hw (a.rest.length + 1) a t [] [] k (by rw [hr]; simp; omega) hr hk
  refine ⟨a', ?_, r⟩
  rw [e]
  have hf : ∀ (st : Tabs × List Call × List Heu), (es.map (fun e => (e.atom, e.text))).foldl (fun st p => let r := symbol o st.1 p.1 p.2 st.2.2; (r.1, st.2.1 ++ r.2.1, r.2.2)) st =
      es.foldl (fun st e => let r := symbol o st.1 e.atom e.text st.2.2; (r.1, st.2.1 ++ r.2.1, r.2.2)) st := by
    intro st; rw [List.foldl_map]
  rw [hf, C08_symbols_fold o hE hH es hok]

/-! non-vacuity: the table `1 a␤2 _heuristic(a,level,1,2)␤3 _edge(0,1)␤0` with filtering: `a` shown, an edge 0→1 on atom 3, the heuristic on
    atom 1 (the atom named `a`) with modifier level, bias 1, priority 2 and condition atom 2 -/
def exTable : List Entry := [.plain 1 [97], .heu 2 [97] 0 1 2, .edge 3 0 1]
example : ∀ e ∈ exTable, e.ok := by
  intro e he
  simp only [exTable, List.mem_cons, List.not_mem_nil, or_false] at he
  rcases he with h | h | h <;> subst h
  · exact ⟨by rfl, by rfl, by rfl⟩
  · exact ⟨by intro c hc; simp at hc; subst hc; decide, by simp, by decide, by decide, by decide⟩
  · trivial
def exTableText : List Nat := [49, 32, 97, 10] ++ ([50, 32] ++ heuText [97] 0 1 2 ++ [10]) ++ ([51, 32] ++ edgeText 0 1 ++ [10]) ++ [48, 10]
example : (symbols { ext := true, cEdge := true, cHeu := true, filter := true } false {} (AS.init exTableText)).2.1 =
    [.output [97] [1], .acycEdge 0 1 [3], .heuristic 1 0 1 2 [2]] := by decide +kernel
example : resolve (exTable.foldl (specStep true) ({ atoms := some [] }, [], [])).1 (exTable.foldl (specStep true) ({ atoms := some [] }, [], [])).2.2 = [.heuristic 1 0 1 2 [2]] := by decide +kernel

end PotasscoVerif.C08
