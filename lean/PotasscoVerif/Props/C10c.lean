/-
  C10 (continued) — aggregates: `#minimize` statements and rules with weight bodies.
-/
import PotasscoVerif.Props.C10b
namespace PotasscoVerif.C10
open PotasscoVerif PotasscoVerif.CharStream PotasscoVerif.TextIn PotasscoVerif.Decimal PotasscoVerif.AspifOut
open PotasscoVerif.BufferedStream (isDigit isWs I64MAX)

/-- an element of an aggregate: a literal, optionally `=` filler weight filler; and the filler behind the comma that follows -/
structure AggItem where
  lit     : LitItem
  weight  : Option (List Nat × Int × List Nat)     -- filler after '=', the weight, filler after it
  wsComma : List Nat

def AggItem.wText : Option (List Nat × Int × List Nat) → List Nat
  | some (w1, w, w2) => 61 :: (w1 ++ (printInt w ++ w2))
  | none => []
def AggItem.w (i : AggItem) : Int := match i.weight with | some (_, w, _) => w | none => 1
def AggItem.val (i : AggItem) : Int × Int := (i.lit.val, i.w)
def AggItem.okW : Option (List Nat × Int × List Nat) → Prop
  | some (w1, w, w2) => Filler w1 ∧ Filler w2 ∧ I32MIN ≤ w ∧ w ≤ I32MAX
  | none => True
def AggItem.ok (i : AggItem) : Prop := i.lit.ok ∧ AggItem.okW i.weight ∧ Filler i.wsComma

def aggItemsText : List AggItem → List Nat
  | [] => []
  | [i] => i.lit.text ++ AggItem.wText i.weight
  | i :: rest => i.lit.text ++ (AggItem.wText i.weight ++ (44 :: (i.wsComma ++ aggItemsText rest)))

theorem sep_eq (t : List Nat) : Sep (61 :: t) := by intro c r e; cases e; decide

theorem wText_sep (w : Option (List Nat × Int × List Nat)) (k : List Nat) (hk : Sep k) : Sep (AggItem.wText w ++ k) := by
  cases w with
  | none => exact hk
  | some p => obtain ⟨w1, w, w2⟩ := p; simp only [AggItem.wText, List.cons_append]; exact sep_eq _

theorem aggItemsText_head (items : List AggItem) (hne : items ≠ []) (hok : ∀ i ∈ items, i.ok) (t : List Nat) :
    ∃ c r, aggItemsText items ++ t = c :: r ∧ isLower c = true := by
  cases items with
  | nil => exact absurd rfl hne
  | cons i rest =>
    cases rest with
    | nil => simp only [aggItemsText, List.append_assoc]; exact litItem_head i.lit (hok i (by simp)).1 _
    | cons q rest' => simp only [aggItemsText, List.append_assoc]; exact litItem_head i.lit (hok i (by simp)).1 _

/-- the optional weight -/
theorem weight_spec (a : AS) (w : Option (List Nat × Int × List Nat)) (k : List Nat) (hw : AggItem.okW w) (hk : Sep k)
    (hk61 : ([61] : List Nat).isPrefixOf k = false) (hr : a.rest = AggItem.wText w ++ k) :
    ∃ a1 a2, tok [61] false a = .ok (w.isSome, a1) ∧ (if w.isSome then int a1 else .ok (1, a1)) = .ok ((match w with | some (_, x, _) => x | none => 1), a2) ∧ a2.rest = k := by
  cases w with
  | none =>
    simp only [AggItem.wText, List.nil_append] at hr
    obtain ⟨a1, h1, hr1⟩ := tok_absent a [61] (by rw [hr]; exact hk61)
    exact ⟨a1, a1, by simpa using h1, by simp, by rw [hr1, hr]⟩
  | some p =>
    obtain ⟨w1, x, w2⟩ := p
    obtain ⟨hw1, hw2, hx⟩ := hw
    simp only [AggItem.wText, List.cons_append, List.append_assoc] at hr
    obtain ⟨a1, h1, hr1⟩ := C10_tok a [61] w1 (printInt x ++ (w2 ++ k)) false (by rw [hr]; rfl) hw1 (printInt_nws x _)
    obtain ⟨a2, h2, hr2⟩ := C10_int a1 x [] w2 k (by rw [hr1]; rfl) (by intro c hc; cases hc) hw2 hk hx
    exact ⟨a1, a2, by simpa using h1, by simpa using h2, hr2⟩

theorem aggLoop_spec (items : List AggItem) (hne : items ≠ []) (hok : ∀ i ∈ items, i.ok) (wsClose k : List Nat) (hwc : Filler wsClose) (hk : NWS k)
    (f : Nat) (hf : items.length < f) (a : AS) (acc : List (Int × Int)) (hr : a.rest = aggItemsText items ++ (125 :: (wsClose ++ k))) :
    ∃ a', aggLoop f a acc = .ok (acc ++ items.map AggItem.val, a') ∧ a'.rest = k := by
  induction items generalizing f a acc with
  | nil => exact absurd rfl hne
  | cons i rest ih =>
    obtain ⟨hl, hw, hc⟩ := hok i (by simp)
    cases f with
    | zero => simp at hf
    | succ f =>
      cases rest with
      | nil =>
        simp only [aggItemsText, List.append_assoc] at hr
        obtain ⟨a1, h1, hr1⟩ := C10_lit a i.lit _ hl hr (wText_sep i.weight _ (sep_rbrace _))
        obtain ⟨a2, a3, h2, h3, hr3⟩ := weight_spec a1 i.weight (125 :: (wsClose ++ k)) hw (sep_rbrace _) (by simp [List.isPrefixOf]) hr1
        obtain ⟨a4, h4, hr4⟩ := tok_absent a3 [44] (by rw [hr3]; simp [List.isPrefixOf])
        obtain ⟨a5, h5, hr5⟩ := C10_tok a4 [125] wsClose k true (by rw [hr4, hr3]; rfl) hwc hk
        simp only [aggLoop, h1, h2, h3, h4, h5]
        refine ⟨a5, ?_, hr5⟩
        simp only [List.map_cons, List.map_nil, AggItem.val, AggItem.w]
      | cons q rest' =>
        simp only [aggItemsText, List.append_assoc, List.cons_append] at hr
        obtain ⟨a1, h1, hr1⟩ := C10_lit a i.lit _ hl hr (wText_sep i.weight _ (sep_comma _))
        obtain ⟨a2, a3, h2, h3, hr3⟩ := weight_spec a1 i.weight _ hw (sep_comma _) (by simp [List.isPrefixOf]) hr1
        have hnext := aggItemsText_head (q :: rest') (by simp) (fun j hj => hok j (by simp [hj])) (125 :: (wsClose ++ k))
        obtain ⟨a4, h4, hr4⟩ := C10_tok a3 [44] i.wsComma _ false (by rw [hr3]; rfl) hc (lower_nws hnext)
        obtain ⟨a5, h5, hr5⟩ := ih (by simp) (fun j hj => hok j (by simp [hj])) f (by simp at hf ⊢; omega) a4 (acc ++ [i.val]) hr4
        simp only [aggLoop, h1, h2, h3, h4]
        refine ⟨a5, ?_, hr5⟩
        have e : (i.lit.val, match i.weight with | some (_, x, _) => x | none => 1) = i.val := by
          simp only [AggItem.val, AggItem.w]
        rw [e, h5]; simp

theorem aggItemsText_length (items : List AggItem) (hok : ∀ i ∈ items, i.ok) : items.length ≤ (aggItemsText items).length := by
  induction items with
  | nil => simp
  | cons i rest ih =>
    obtain ⟨c', r', e', _⟩ := litItem_head i.lit (hok i (by simp)).1 []
    have hl : 1 ≤ i.lit.text.length := by
      have : (i.lit.text ++ []).length = (c' :: r').length := by rw [e']
      simp at this; omega
    cases rest with
    | nil => simp [aggItemsText]; omega
    | cons q rest' =>
      have := ih (fun j hj => hok j (by simp [hj]))
      simp only [aggItemsText, List.length_append, List.length_cons] at this ⊢
      omega

/-- a braced aggregate -/
structure AggS where
  wsOpen  : List Nat
  items   : List AggItem
  wsClose : List Nat
def AggS.text (g : AggS) : List Nat := 123 :: (g.wsOpen ++ (aggItemsText g.items ++ (125 :: g.wsClose)))
def AggS.ok (g : AggS) : Prop := Filler g.wsOpen ∧ Filler g.wsClose ∧ ∀ i ∈ g.items, i.ok
/-- what the rule builder keeps: weight 0 is dropped -/
def AggS.vals (g : AggS) : List (Int × Int) := (g.items.map AggItem.val).filter (fun p => p.2 ≠ 0)

/-- **C10 (aggregates)**: `{ l1 [= w1], … }` with any filler, any spelling; elements of weight 0 are omitted -/
theorem C10_agg (a : AS) (g : AggS) (k : List Nat) (hok : g.ok) (hk : NWS k) (hr : a.rest = g.text ++ k) :
    ∃ a', agg a = .ok (g.vals, a') ∧ a'.rest = k := by
  obtain ⟨hw1, hw2, hit⟩ := hok
  simp only [AggS.text, List.cons_append, List.append_assoc] at hr
  have hnw : NWS (aggItemsText g.items ++ (125 :: (g.wsClose ++ k))) := by
    by_cases hne : g.items = []
    · rw [hne]; simp only [aggItemsText, List.nil_append]; exact (sep_rbrace _).nws
    · exact lower_nws (aggItemsText_head g.items hne hit _)
  obtain ⟨a1, h1, hr1⟩ := C10_tok a [123] g.wsOpen _ true (by rw [hr]; rfl) hw1 hnw
  unfold agg AggS.vals
  by_cases hne : g.items = []
  · rw [hne] at hr1 ⊢
    simp only [aggItemsText, List.nil_append] at hr1
    obtain ⟨a2, h2, hr2⟩ := C10_tok a1 [125] g.wsClose k false (by rw [hr1]; rfl) hw2 hk
    simp only [h1, h2, List.map_nil, List.filter_nil]
    exact ⟨a2, rfl, hr2⟩
  · obtain ⟨c, t, e, hc⟩ := aggItemsText_head g.items hne hit (125 :: (g.wsClose ++ k))
    obtain ⟨a2, h2, hr2⟩ := tok_absent a1 [125] (by rw [hr1, e]; simp [isLower] at hc; simp [List.isPrefixOf]; omega)
    have hlen : g.items.length < a2.rest.length + 1 := by
      rw [hr2, hr1]; have := aggItemsText_length g.items hit; simp; omega
    obtain ⟨a3, h3, hr3⟩ := aggLoop_spec g.items hne hit g.wsClose k hw2 hk _ hlen a2 [] (by rw [hr2, hr1])
    simp only [h1, h2, h3, List.nil_append]
    exact ⟨a3, rfl, hr3⟩

/-! ### `#minimize{…}.` / `#minimize{…}@p.` -/
structure MinimizeS where
  ws0   : List Nat
  agg   : AggS
  prio  : Option (List Nat × Int × List Nat)      -- filler after '@', the priority, filler after it
  wsDot : List Nat

def prioText : Option (List Nat × Int × List Nat) → List Nat
  | some (w1, p, w2) => 64 :: (w1 ++ (printInt p ++ w2))
  | none => []
def prioVal : Option (List Nat × Int × List Nat) → Int
  | some (_, p, _) => p
  | none => 0
def MinimizeS.text (m : MinimizeS) : List Nat := kwMinimize ++ (m.ws0 ++ (m.agg.text ++ (prioText m.prio ++ (46 :: m.wsDot))))
def MinimizeS.ok (m : MinimizeS) : Prop := Filler m.ws0 ∧ m.agg.ok ∧ AggItem.okW m.prio ∧ Filler m.wsDot

theorem dMinimize_spec (a : AS) (m : MinimizeS) (k : List Nat) (hok : m.ok) (hk : NWS k)
    (hr : a.rest = m.agg.text ++ (prioText m.prio ++ (46 :: m.wsDot)) ++ k) :
    ∃ a', dMinimize a = .ok (.call (.minimize (prioVal m.prio) m.agg.vals), a') ∧ a'.rest = k := by
  obtain ⟨_, hg, hp, hwd⟩ := hok
  have hnw : NWS (prioText m.prio ++ (46 :: m.wsDot) ++ k) := by
    cases m.prio with
    | none => exact (sep_dot _).nws
    | some p => obtain ⟨w1, x, w2⟩ := p; intro c r e; simp only [prioText, List.cons_append] at e; cases e; decide
  obtain ⟨a1, h1, hr1⟩ := C10_agg a m.agg _ hg hnw (by rw [hr]; simp)
  unfold dMinimize
  cases hpr : m.prio with
  | none =>
    rw [hpr] at hr1
    simp only [prioText, List.nil_append, List.cons_append] at hr1
    obtain ⟨a2, h2, hr2⟩ := tok_absent a1 [64] (by rw [hr1]; simp [List.isPrefixOf])
    obtain ⟨a3, h3, hr3⟩ := C10_tok a2 [46] m.wsDot k true (by rw [hr2, hr1]; rfl) hwd hk
    simp only [bind, Except.bind, h1, h2, Bool.false_eq_true, ↓reduceIte, h3, pure, Except.pure, prioVal]
    exact ⟨a3, rfl, hr3⟩
  | some p =>
    obtain ⟨w1, x, w2⟩ := p
    rw [hpr] at hr1 hp
    obtain ⟨hw1, hw2, hx⟩ := hp
    simp only [prioText, List.cons_append, List.append_assoc] at hr1
    obtain ⟨a2, h2, hr2⟩ := C10_tok a1 [64] w1 _ false (by rw [hr1]; rfl) hw1 (printInt_nws x _)
    obtain ⟨a3, h3, hr3⟩ := C10_int a2 x [] w2 (46 :: (m.wsDot ++ k)) (by rw [hr2]; rfl) (by intro c hc; cases hc) hw2 (sep_dot _) hx
    obtain ⟨a4, h4, hr4⟩ := C10_tok a3 [46] m.wsDot k true (by rw [hr3]; rfl) hwd hk
    simp only [bind, Except.bind, h1, h2, ↓reduceIte, h3, h4, pure, Except.pure, prioVal]
    exact ⟨a4, rfl, hr4⟩


/-! ### rules with weight bodies -/
/-- the head of a rule, up to the `:-` or `.` that follows it -/
theorem ruleHead_spec (a : AS) (h : HeadS) (k : List Nat) (hh : h.ok) (hk : ∃ c t, k = c :: t ∧ (c = 58 ∨ c = 46)) (hr : a.rest = h.text ++ k) :
    ∃ a', ruleHead ((h.text ++ k).headD 0) a = .ok ((h.ht, h.atoms), a') ∧ a'.rest = k := by
  obtain ⟨c0, t0, ek, hc0⟩ := hk
  have hsepk : Sep k := by rw [ek]; rcases hc0 with h | h <;> subst h; exact sep_colon _; exact sep_dot _
  have hends : ∀ seps : List Nat, (seps = [59, 124] ∨ seps = [59, 44]) → EndsList seps k := by
    intro seps hs
    refine ⟨hsepk, c0, t0, ek, ?_, ?_⟩
    · rcases hs with h | h <;> subst h <;> rcases hc0 with h | h <;> subst h <;> decide
    · rcases hc0 with h | h <;> subst h <;> decide
  cases h with
  | disj items =>
    simp only [HeadS.ok] at hh
    simp only [HeadS.text] at hr ⊢
    have hfirst : ((atomsText items ++ k).headD 0 == 123) = false := by
      by_cases hi : items = []
      · subst hi; rw [ek]; rcases hc0 with h | h <;> subst h <;> simp [atomsText]
      · obtain ⟨c, t, e, hc⟩ := atomsText_head items hi (fun p hp => (hh p hp).1) k
        rw [e]; simp [isLower] at hc; simp; omega
    obtain ⟨a1, h1, hr1⟩ := C10_atoms [59, 124] a items hh k (hends _ (Or.inl rfl)) hr
    unfold ruleHead
    simp only [hfirst, Bool.false_eq_true, ↓reduceIte, bind, Except.bind, h1, pure, Except.pure, HeadS.ht, HeadS.atoms]
    exact ⟨a1, rfl, hr1⟩
  | choice w1 items w2 =>
    simp only [HeadS.ok] at hh
    obtain ⟨hw1, hw2, hit⟩ := hh
    simp only [HeadS.text, List.cons_append, List.append_assoc] at hr ⊢
    have hnw : NWS (atomsText items ++ (125 :: (w2 ++ k))) := by
      by_cases hi : items = []
      · subst hi; simp only [atomsText, List.nil_append]; exact (sep_rbrace _).nws
      · exact lower_nws (atomsText_head items hi (fun p hp => (hit p hp).1) _)
    obtain ⟨a1, h1, hr1⟩ := C10_tok a [123] w1 _ true (by rw [hr]; rfl) hw1 hnw
    have hend : EndsList [59, 44] (125 :: (w2 ++ k)) := ⟨sep_rbrace _, 125, _, rfl, by decide, by decide⟩
    obtain ⟨a2, h2, hr2⟩ := C10_atoms [59, 44] a1 items hit _ hend hr1
    obtain ⟨a3, h3, hr3⟩ := C10_tok a2 [125] w2 k true (by rw [hr2]; rfl) hw2 hsepk.nws
    unfold ruleHead
    simp only [List.headD_cons, beq_self_eq_true, ↓reduceIte, bind, Except.bind, h1, h2, h3, pure, Except.pure, HeadS.ht, HeadS.atoms]
    exact ⟨a3, rfl, hr3⟩

structure WRuleS where
  head    : HeadS
  wsArrow : List Nat
  bound   : Int
  wsBound : List Nat
  agg     : AggS
  wsDot   : List Nat

def WRuleS.text (r : WRuleS) : List Nat :=
  r.head.text ++ (58 :: 45 :: (r.wsArrow ++ (printInt r.bound ++ (r.wsBound ++ (r.agg.text ++ (46 :: r.wsDot))))))
def WRuleS.call (r : WRuleS) : Call := .sumRule r.head.ht r.head.atoms r.bound r.agg.vals
def WRuleS.ok (r : WRuleS) : Prop :=
  r.head.ok ∧ Filler r.wsArrow ∧ (I32MIN ≤ r.bound ∧ r.bound ≤ I32MAX) ∧ Filler r.wsBound ∧ r.agg.ok ∧ Filler r.wsDot ∧ ∀ i ∈ r.agg.items, 0 ≤ i.w

theorem sep_lbrace (t : List Nat) : Sep (123 :: t) := by intro c r e; cases e; decide

/-- **C10 (weight rules)**: `head :- bound { l1 [= w1], … }.` -/
theorem C10_wrule (a : AS) (r : WRuleS) (k : List Nat) (hok : r.ok) (hk : NWS k) (hr : a.rest = r.text ++ k) :
    ∃ a', rule ((r.text ++ k).headD 0) a = .ok (r.call, a') ∧ a'.rest = k := by
  obtain ⟨hh, hwa, hb, hwb, hg, hwd, hpos⟩ := hok
  have e0 : r.text ++ k = r.head.text ++ (58 :: 45 :: (r.wsArrow ++ (printInt r.bound ++ (r.wsBound ++ (r.agg.text ++ (46 :: (r.wsDot ++ k))))))) := by
    simp [WRuleS.text]
  obtain ⟨a1, h1, hr1⟩ := ruleHead_spec a r.head _ hh ⟨58, _, rfl, Or.inl rfl⟩ (by rw [hr, e0])
  obtain ⟨a2, h2, hr2⟩ := C10_tok a1 [58, 45] r.wsArrow _ false (by rw [hr1]; rfl) hwa (printInt_nws r.bound _)
  have hs : a2.skipWs.rest = printInt r.bound ++ (r.wsBound ++ (r.agg.text ++ (46 :: (r.wsDot ++ k)))) :=
    skipWs_spec a2 [] _ (by simpa using hr2) (by intro c hc; cases hc) (printInt_nws r.bound _)
  have hcond : (!isDigit (peekWs a2).1 && (peekWs a2).1 != 45) = false := by
    show (!isDigit a2.skipWs.peek && a2.skipWs.peek != 45) = false
    unfold AS.peek; rw [hs]
    by_cases hneg : r.bound < 0
    · simp [printInt, hneg]
    · obtain ⟨d, r', ed, hd⟩ := printNat_head_digit r.bound.toNat
      simp [printInt, hneg, ed, hd]
  have hp2 : (peekWs a2).2 = a2.skipWs := rfl
  have hsepg : Sep (r.agg.text ++ (46 :: (r.wsDot ++ k))) := by simp only [AggS.text, List.cons_append]; exact sep_lbrace _
  obtain ⟨a3, h3, hr3⟩ := C10_int a2.skipWs r.bound [] r.wsBound _ (by rw [hs]; rfl) (by intro c hc; cases hc) hwb hsepg hb
  obtain ⟨a4, h4, hr4⟩ := C10_agg a3 r.agg (46 :: (r.wsDot ++ k)) hg (sep_dot _).nws hr3
  obtain ⟨a5, h5, hr5⟩ := C10_tok a4 [46] r.wsDot k true (by rw [hr4]; rfl) hwd hk
  have hnoneg : (r.agg.vals.any (fun q => decide (q.2 < 0))) = false := by
    rw [List.any_eq_false]
    intro q hq
    simp only [AggS.vals, List.mem_filter, List.mem_map] at hq
    obtain ⟨⟨i, hi, rfl⟩, _⟩ := hq
    have := hpos i hi
    have hw : i.val.2 = i.w := rfl
    rw [hw]; simp only [decide_eq_true_eq]; omega
  unfold rule WRuleS.call
  rw [e0, h1]
  simp only
  unfold ruleBody
  simp only [bind, Except.bind, h2, ↓reduceIte, hcond, Bool.false_eq_true, hp2, h3, h4, hnoneg, h5, pure, Except.pure]
  exact ⟨a5, rfl, hr5⟩


/-! ### `#heuristic a [: cond]. [bias[@prio], modifier]` -/
structure HeuS where
  ws0     : List Nat
  atom    : AtomItem
  cond    : Option BodyS
  wsDot   : List Nat
  wsOpen  : List Nat
  bias    : Int
  wsBias  : List Nat
  prio    : Option (List Nat × Int × List Nat)
  wsComma : List Nat
  mod     : Nat
  wsMod   : List Nat
  wsClose : List Nat

def HeuS.tail (h : HeuS) : List Nat :=
  h.atom.text ++ (condText h.cond ++ (46 :: (h.wsDot ++ (91 :: (h.wsOpen ++ (printInt h.bias ++ (h.wsBias ++ (prioText h.prio ++
    (44 :: (h.wsComma ++ (heuNames.getD h.mod [] ++ (h.wsMod ++ (93 :: h.wsClose)))))))))))))
def HeuS.text (h : HeuS) : List Nat := kwHeuristic ++ (h.ws0 ++ h.tail)
def HeuS.call (h : HeuS) : Call := .heuristic h.atom.n h.mod h.bias (prioVal h.prio).toNat (bodyVals h.cond)
def HeuS.ok (h : HeuS) : Prop :=
  Filler h.ws0 ∧ h.atom.ok ∧ bodyOk h.cond ∧ Filler h.wsDot ∧ Filler h.wsOpen ∧ (I32MIN ≤ h.bias ∧ h.bias ≤ I32MAX) ∧ Filler h.wsBias ∧
  AggItem.okW h.prio ∧ 0 ≤ prioVal h.prio ∧ Filler h.wsComma ∧ h.mod < 6 ∧ Filler h.wsMod ∧ Filler h.wsClose

theorem heuMod_spec (a : AS) (m : Nat) (hm : m < 6) (ws k : List Nat) (hws : Filler ws) (hk : NWS k) (hr : a.rest = heuNames.getD m [] ++ (ws ++ k)) :
    ∃ a', heuMod heuNames 0 a = some (m, a') ∧ a'.rest = k := by
  have hm6 : m = 0 ∨ m = 1 ∨ m = 2 ∨ m = 3 ∨ m = 4 ∨ m = 5 := by omega
  have fin : ∀ (w : List Nat), a.rest = w ++ (ws ++ k) → (a.matchTok w).1 = true ∧ (a.matchTok w).2.skipWs.rest = k := by
    intro w hw
    have hp : w.isPrefixOf a.rest = true := by rw [hw]; simp
    unfold AS.matchTok
    simp only [hp, ↓reduceIte, true_and]
    apply skipWs_spec _ ws k _ hws hk
    simp [hw]
  rcases hm6 with h | h | h | h | h | h <;> subst h
  · have hr' : a.rest = [108, 101, 118, 101, 108] ++ (ws ++ k) := hr
    obtain ⟨f1, f2⟩ := fin _ hr'
    exact ⟨_, by simp only [heuMod, heuNames, f1, ↓reduceIte], f2⟩
  · have hr' : a.rest = [115, 105, 103, 110] ++ (ws ++ k) := hr
    obtain ⟨f1, f2⟩ := fin _ hr'
    have n0 : (a.matchTok [108, 101, 118, 101, 108]).1 = false := by unfold AS.matchTok; rw [hr']; simp [List.isPrefixOf]
    exact ⟨_, by simp only [heuMod, heuNames, n0, Bool.false_eq_true, f1, ↓reduceIte], f2⟩
  · have hr' : a.rest = [102, 97, 99, 116, 111, 114] ++ (ws ++ k) := hr
    obtain ⟨f1, f2⟩ := fin _ hr'
    have n0 : (a.matchTok [108, 101, 118, 101, 108]).1 = false := by unfold AS.matchTok; rw [hr']; simp [List.isPrefixOf]
    have n1 : (a.matchTok [115, 105, 103, 110]).1 = false := by unfold AS.matchTok; rw [hr']; simp [List.isPrefixOf]
    exact ⟨_, by simp only [heuMod, heuNames, n0, n1, Bool.false_eq_true, f1, ↓reduceIte], f2⟩
  · have hr' : a.rest = [105, 110, 105, 116] ++ (ws ++ k) := hr
    obtain ⟨f1, f2⟩ := fin _ hr'
    have n0 : (a.matchTok [108, 101, 118, 101, 108]).1 = false := by unfold AS.matchTok; rw [hr']; simp [List.isPrefixOf]
    have n1 : (a.matchTok [115, 105, 103, 110]).1 = false := by unfold AS.matchTok; rw [hr']; simp [List.isPrefixOf]
    have n2 : (a.matchTok [102, 97, 99, 116, 111, 114]).1 = false := by unfold AS.matchTok; rw [hr']; simp [List.isPrefixOf]
    exact ⟨_, by simp only [heuMod, heuNames, n0, n1, n2, Bool.false_eq_true, f1, ↓reduceIte], f2⟩
  · have hr' : a.rest = [116, 114, 117, 101] ++ (ws ++ k) := hr
    obtain ⟨f1, f2⟩ := fin _ hr'
    have n0 : (a.matchTok [108, 101, 118, 101, 108]).1 = false := by unfold AS.matchTok; rw [hr']; simp [List.isPrefixOf]
    have n1 : (a.matchTok [115, 105, 103, 110]).1 = false := by unfold AS.matchTok; rw [hr']; simp [List.isPrefixOf]
    have n2 : (a.matchTok [102, 97, 99, 116, 111, 114]).1 = false := by unfold AS.matchTok; rw [hr']; simp [List.isPrefixOf]
    have n3 : (a.matchTok [105, 110, 105, 116]).1 = false := by unfold AS.matchTok; rw [hr']; simp [List.isPrefixOf]
    exact ⟨_, by simp only [heuMod, heuNames, n0, n1, n2, n3, Bool.false_eq_true, f1, ↓reduceIte], f2⟩
  · have hr' : a.rest = [102, 97, 108, 115, 101] ++ (ws ++ k) := hr
    obtain ⟨f1, f2⟩ := fin _ hr'
    have n0 : (a.matchTok [108, 101, 118, 101, 108]).1 = false := by unfold AS.matchTok; rw [hr']; simp [List.isPrefixOf]
    have n1 : (a.matchTok [115, 105, 103, 110]).1 = false := by unfold AS.matchTok; rw [hr']; simp [List.isPrefixOf]
    have n2 : (a.matchTok [102, 97, 99, 116, 111, 114]).1 = false := by unfold AS.matchTok; rw [hr']; simp [List.isPrefixOf]
    have n3 : (a.matchTok [105, 110, 105, 116]).1 = false := by unfold AS.matchTok; rw [hr']; simp [List.isPrefixOf]
    have n4 : (a.matchTok [116, 114, 117, 101]).1 = false := by unfold AS.matchTok; rw [hr']; simp [List.isPrefixOf]
    exact ⟨_, by simp only [heuMod, heuNames, n0, n1, n2, n3, n4, Bool.false_eq_true, f1, ↓reduceIte], f2⟩

theorem heuName_lower (m : Nat) (hm : m < 6) (t : List Nat) : ∃ c r, heuNames.getD m [] ++ t = c :: r ∧ isLower c = true := by
  have hm6 : m = 0 ∨ m = 1 ∨ m = 2 ∨ m = 3 ∨ m = 4 ∨ m = 5 := by omega
  rcases hm6 with h | h | h | h | h | h <;> subst h <;> exact ⟨_, _, rfl, by decide⟩

theorem sep_at (t : List Nat) : Sep (64 :: t) := by intro c r e; cases e; decide

theorem dHeuristic_spec (a : AS) (h : HeuS) (k : List Nat) (hok : h.ok) (hk : NWS k) (hr : a.rest = h.tail ++ k) :
    ∃ a', dHeuristic a = .ok (.call h.call, a') ∧ a'.rest = k := by
  obtain ⟨_, hat, hc, hwd, hwo, hb, hwb, hp, hp0, hwc, hm, hwm, hwcl⟩ := hok
  simp only [HeuS.tail, List.append_assoc, List.cons_append] at hr
  have hsepc : Sep (condText h.cond ++ (46 :: (h.wsDot ++ (91 :: (h.wsOpen ++ (printInt h.bias ++ (h.wsBias ++ (prioText h.prio ++
      (44 :: (h.wsComma ++ (heuNames.getD h.mod [] ++ (h.wsMod ++ (93 :: (h.wsClose ++ k)))))))))))))) := by
    cases h.cond with
    | none => exact sep_dot _
    | some b => exact sep_colon _
  obtain ⟨a1, e1, r1⟩ := C10_atom_spellings a h.atom.n h.atom.sp h.atom.wsAfter _ hat.1 (by rw [hr]; simp [AtomItem.text]) hat.2 hsepc
  obtain ⟨a2, e2, r2⟩ := condition_spec a1 h.cond _ hc (sep_dot _) (by simp [List.isPrefixOf]) (by simp [List.isPrefixOf]) r1
  obtain ⟨a3, e3, r3⟩ := C10_tok a2 [46] h.wsDot _ true (by rw [r2]; rfl) hwd (by intro c r e; cases e; decide)
  obtain ⟨a4, e4, r4⟩ := C10_tok a3 [91] h.wsOpen _ true (by rw [r3]; rfl) hwo (printInt_nws h.bias _)
  have hsepp : Sep (prioText h.prio ++ (44 :: (h.wsComma ++ (heuNames.getD h.mod [] ++ (h.wsMod ++ (93 :: (h.wsClose ++ k))))))) := by
    cases h.prio with
    | none => exact sep_comma _
    | some p => obtain ⟨w1, x, w2⟩ := p; simp only [prioText, List.cons_append]; exact sep_at _
  obtain ⟨a5, e5, r5⟩ := C10_int a4 h.bias [] h.wsBias _ (by rw [r4]; rfl) (by intro c hc'; cases hc') hwb hsepp hb
  have hnwn : NWS (heuNames.getD h.mod [] ++ (h.wsMod ++ (93 :: (h.wsClose ++ k)))) := lower_nws (heuName_lower h.mod hm _)
  unfold dHeuristic HeuS.call
  cases hpr : h.prio with
  | none =>
    rw [hpr] at r5
    simp only [prioText, List.nil_append] at r5
    obtain ⟨a6, e6, r6⟩ := tok_absent a5 [64] (by rw [r5]; simp [List.isPrefixOf])
    obtain ⟨a7, e7, r7⟩ := C10_tok a6 [44] h.wsComma _ true (by rw [r6, r5]; rfl) hwc hnwn
    obtain ⟨a8, e8, r8⟩ := heuMod_spec a7 h.mod hm h.wsMod (93 :: (h.wsClose ++ k)) hwm (sep_rbracket _).nws r7
    have hs8 : a8.skipWs.rest = 93 :: (h.wsClose ++ k) := skipWs_spec a8 [] _ (by simpa using r8) (by intro c hc'; cases hc') (sep_rbracket _).nws
    obtain ⟨a9, e9, r9⟩ := C10_tok a8.skipWs [93] h.wsClose k true (by rw [hs8]; rfl) hwcl hk
    simp only [bind, Except.bind, e1, e2, e3, e4, e5, e6, Bool.false_eq_true, ↓reduceIte, e7, e8, e9, pure, Except.pure, prioVal]
    exact ⟨a9, rfl, r9⟩
  | some p =>
    obtain ⟨w1, x, w2⟩ := p
    rw [hpr] at r5 hp hp0
    obtain ⟨hw1, hw2, hx⟩ := hp
    simp only [prioVal] at hp0
    simp only [prioText, List.cons_append, List.append_assoc] at r5
    obtain ⟨a6, e6, r6⟩ := C10_tok a5 [64] w1 _ false (by rw [r5]; rfl) hw1 (printInt_nws x _)
    obtain ⟨a6', e6', r6'⟩ := C10_int a6 x [] w2 _ (by rw [r6]; rfl) (by intro c hc'; cases hc') hw2 (sep_comma _) hx
    obtain ⟨a7, e7, r7⟩ := C10_tok a6' [44] h.wsComma _ true (by rw [r6']; rfl) hwc hnwn
    obtain ⟨a8, e8, r8⟩ := heuMod_spec a7 h.mod hm h.wsMod (93 :: (h.wsClose ++ k)) hwm (sep_rbracket _).nws r7
    have hs8 : a8.skipWs.rest = 93 :: (h.wsClose ++ k) := skipWs_spec a8 [] _ (by simpa using r8) (by intro c hc'; cases hc') (sep_rbracket _).nws
    obtain ⟨a9, e9, r9⟩ := C10_tok a8.skipWs [93] h.wsClose k true (by rw [hs8]; rfl) hwcl hk
    simp only [bind, Except.bind, e1, e2, e3, e4, e5, e6, ↓reduceIte, e6', hp0, e7, e8, e9, pure, Except.pure, prioVal]
    exact ⟨a9, rfl, r9⟩

end PotasscoVerif.C10
