/-
  C18 — signals: delivered at once when unblocked, deferred exactly once while blocked.

  Machine: Model/Signals.lean (atomic steps of processSignal / unblockSignals / blockSignals, arrivals at every
  point incl. inside callbacks, unbounded nesting).  All theorems are for ALL schedules (lists of choices of any
  length) from the initial state of ANY main program; impossible choices are skipped by `run`.
-/
import PotasscoVerif.Lemmas.Signals
namespace PotasscoVerif.C18
open PotasscoVerif.Signals

/-- reachable: the state after any schedule on any main program (repaired code: `pristine = false`). -/
def Reachable (s : St) : Prop := ∃ main cs, s = run false (St.init main) cs

/-- **Block-count accounting.** In every reachable state `blocked_` equals: the application's own blocks +
    callbacks that asked to stop (returned false) + the `processSignal` frames that are between their
    increment and their decrement.  Hence every `processSignal` that does not end in a `false` callback gives
    back exactly the one increment it took, and the count returns to its previous value. -/
theorem C18_blocked_accounting (s : St) (h : Reachable s) :
    s.blocked = s.appDepth + s.stuck + contribs s.stack := by
  obtain ⟨main, cs, rfl⟩ := h
  exact (run_acc false cs _ (acc_init main)).count

theorem sum_zero_all : ∀ (l : List Frame), contribs l = 0 → ∀ f ∈ l, contrib f = 0 := by
  intro l
  induction l with
  | nil => intro _ f hf; cases hf
  | cons g l ih =>
    intro h f hf
    simp [contribs] at h
    rcases List.mem_cons.mp hf with e | e
    · rw [e]; exact h.1
    · exact ih (by simpa [contribs] using h.2) f e

/-- **A callback is only entered while nothing blocks delivery.** Whenever a `processSignal` frame finds
    `blocked_ = 0` at its increment (the only way to reach `onSignal`, see `C18_immediate`), the application is
    in no block section, no earlier callback asked to stop, and no other frame on the stack is inside a
    callback or between its increment and decrement — in particular no callback is running. -/
theorem C18_callback_entry_unblocked (s : St) (h : Reachable s) (hb : s.blocked = 0) :
    s.appDepth = 0 ∧ s.stuck = 0 ∧ ∀ f ∈ s.stack, contrib f = 0 := by
  have hc := C18_blocked_accounting s h
  rw [hb] at hc
  have h0 : contribs s.stack = 0 := by omega
  exact ⟨by omega, by omega, sum_zero_all _ h0⟩

/-- **Delivered at once iff unblocked.** The step of a `processSignal` frame at its increment goes to the
    callback (`callStart`, executed as its very next step) exactly when it read `blocked_ = 0`, and to the
    pending-slot path otherwise; the path to the pending slot never reaches a callback. -/
theorem C18_immediate (p : Bool) (s : St) (sig id : Nat) (intr r : Bool) (rest : List Frame)
    (hst : s.stack = .ps sig id .inc intr :: rest) :
    ∃ s', step p s (.step r) = some s' ∧ s'.blocked = s.blocked + 1 ∧
      s'.stack = .ps sig id (if s.blocked = 0 then .callStart else .checkPending) intr :: rest := by
  simp [step, hst]

theorem C18_callstart_step (p : Bool) (s : St) (sig id : Nat) (intr r : Bool) (rest : List Frame)
    (hst : s.stack = .ps sig id .callStart intr :: rest) :
    ∃ s', step p s (.step r) = some s' ∧ s'.log = s.log ++ [.callStart sig id] := by
  simp [step, hst]

/-- while blocked: no step of the pending-slot path logs a callback. -/
theorem C18_blocked_path_no_callback (p : Bool) (s s' : St) (sig id : Nat) (intr r : Bool) (rest : List Frame) (pc : PsPc)
    (hpc : pc = .checkPending ∨ pc = .setPending ∨ pc = .dec)
    (hst : s.stack = .ps sig id pc intr :: rest) (hs : step p s (.step r) = some s') :
    ∀ sg i, Ev.callStart sg i ∉ s'.log.drop s.log.length := by
  rcases hpc with h | h | h <;> subst h <;> simp [step, hst] at hs <;> subst hs <;> simp

/-- **A remembered signal is never lost.** In the repaired code the pending slot changes from a remembered
    signal only (a) in the release step of an outermost `unblockSignals`, which in the same atomic step hands the
    value to the delivery (or drops it when delivery was not requested) and records it as taken, or (b) when an
    overlapping blocked arrival, whose check ran earlier, stores its own signal (still exactly one remembered). -/
theorem C18_no_loss (s s' : St) (c : Choice) (hs : step false s c = some s') (hp : s.pending.1 ≠ 0)
    (hne : s'.pending ≠ s.pending) (hnc : ∀ d pend, Frame.ub d .clear pend ∉ s.stack) :
    (∃ d pend rest, s.stack = .ub d .xchg pend :: rest ∧ s'.log = s.log ++ [.taken s.pending.1 s.pending.2 d] ∧
        s'.stack = (if d then .ub d .deliver s.pending :: rest else rest)) ∨
    (∃ sig id intr rest, s.stack = .ps sig id .setPending intr :: rest ∧ s'.pending = (sig, id)) := by
  cases c with
  | arrive sig =>
    simp only [step] at hs
    by_cases hm : sig = 0 ∨ masked sig s.stack = true
    · simp [hm] at hs
    · simp only [hm, ↓reduceIte, Option.some.injEq] at hs; subst hs; exact absurd rfl hne
  | step r =>
    simp only [step] at hs
    cases hst : s.stack with
    | nil =>
      rw [hst] at hs
      cases hm : s.main with
      | nil => simp [hm] at hs
      | cons op m =>
        cases op with
        | work => simp [hm] at hs; subst hs; exact absurd rfl hne
        | block => simp [hm] at hs; subst hs; exact absurd rfl hne
        | unblock d =>
          simp only [hm] at hs
          by_cases hd : s.appDepth = 0
          · simp [hd] at hs
          · simp only [hd, ↓reduceIte, Option.some.injEq] at hs; subst hs; exact absurd rfl hne
    | cons f rest =>
      rw [hst] at hs
      cases f with
      | ps sig id pc intr =>
        cases pc with
        | inc => simp only [Option.some.injEq] at hs; subst hs; exact absurd rfl hne
        | callStart => simp only [Option.some.injEq] at hs; subst hs; exact absurd rfl hne
        | inCall => cases r <;> simp at hs <;> subst hs <;> exact absurd rfl hne
        | checkPending => simp only [Option.some.injEq] at hs; subst hs; exact absurd rfl hne
        | setPending => simp only [Option.some.injEq] at hs; subst hs; exact Or.inr ⟨sig, id, intr, rest, rfl, rfl⟩
        | dec => simp only [Option.some.injEq] at hs; subst hs; exact absurd rfl hne
      | ub d pc pend =>
        cases pc with
        | dec => simp only [Option.some.injEq] at hs; subst hs; exact absurd rfl hne
        | xchg =>
          simp only [Bool.false_eq_true, ↓reduceIte, Option.some.injEq] at hs; subst hs
          left
          refine ⟨d, pend, rest, rfl, by simp [hp], ?_⟩
          cases d <;> simp [hp]
        | clear => exact absurd (by rw [hst]; simp) (hnc d pend)
        | deliver => simp only [Option.some.injEq] at hs; subst hs; exact absurd rfl hne

theorem C18_no_clear_reachable (s : St) (h : Reachable s) : ∀ d pend, Frame.ub d .clear pend ∉ s.stack := by
  obtain ⟨main, cs, rfl⟩ := h
  exact (run_lin cs _ (lin_init main)).noClear

/-- **Handed to the callback at most once.** In every reachable state of the repaired code, no arrival
    (identified by its unique id) occurs twice among the callback invocations; moreover an arrival that has
    reached the callback is no longer carried by any frame, by the pending slot or by a release in progress,
    and each live arrival has exactly one carrier (so the remembered signal cannot be delivered twice, e.g.
    once by the release and once from the slot). -/
theorem C18_delivered_at_most_once (s : St) (h : Reachable s) :
    (calledIds s.log).Nodup ∧ (carriers s).Nodup ∧ ∀ id ∈ calledIds s.log, id ∉ carriers s := by
  obtain ⟨main, cs, rfl⟩ := h
  have hl := run_lin cs _ (lin_init main)
  exact ⟨hl.once, hl.nodup, fun id hi => (hl.called id hi).1⟩

/-! #### "exactly one is remembered — the first, when arrivals do not interrupt one another" -/

/-- a blocked arrival that finds a remembered signal and is not interrupted between its check and its last step leaves the
    slot alone (nothing is queued, the frame is gone) -/
theorem C18_blocked_keeps_first (pr : Bool) (s : St) (sig id : Nat) (intr : Bool) (rest : List Frame)
    (h : s.stack = .ps sig id .checkPending intr :: rest) (hp : s.pending.1 ≠ 0) (r1 r2 : Bool) :
    ∃ s1 s2, step pr s (.step r1) = some s1 ∧ step pr s1 (.step r2) = some s2 ∧
      s2.pending = s.pending ∧ s2.stack = rest ∧ s2.log = s.log ∧ s2.blocked = s.blocked - 1 := by
  refine ⟨{ s with stack := .ps sig id .dec intr :: rest }, { s with blocked := s.blocked - 1, stack := rest }, ?_, ?_, rfl, rfl, rfl, rfl⟩
  · simp only [step, h, hp, ↓reduceIte]
  · simp only [step]

/-- … and one that finds the slot empty is remembered (uninterrupted: check, store, leave) -/
theorem C18_blocked_first_remembered (pr : Bool) (s : St) (sig id : Nat) (intr : Bool) (rest : List Frame)
    (h : s.stack = .ps sig id .checkPending intr :: rest) (hp : s.pending.1 = 0) (r1 r2 r3 : Bool) :
    ∃ s1 s2 s3, step pr s (.step r1) = some s1 ∧ step pr s1 (.step r2) = some s2 ∧ step pr s2 (.step r3) = some s3 ∧
      s3.pending = (sig, id) ∧ s3.stack = rest ∧ s3.log = s.log ++ [.queued sig id] := by
  refine ⟨{ s with stack := .ps sig id .setPending intr :: rest },
    { s with pending := (sig, id), log := s.log ++ [.queued sig id], stack := .ps sig id .dec intr :: rest },
    { s with pending := (sig, id), log := s.log ++ [.queued sig id], blocked := s.blocked - 1, stack := rest }, ?_, ?_, ?_, rfl, rfl, rfl⟩
  · simp only [step, h, hp, ↓reduceIte]
  · simp only [step]
  · simp only [step]

/-! #### the defect of the original code, exhibited in the same machine (`pristine = true`) -/

/-- the schedule of D11: block; unblock(deliver): blocked_ drops to 0 and the (empty) pending slot is read;
    signal 2 arrives between the read and the clear, is delivered at once and, inside its callback, is
    interrupted by signal 3, which is queued (the slot is empty); the clear then erases signal 3. -/
def lossSchedule : List Choice :=
  [.step true, .step true, .step true, .step true,                  -- block; unblock: start, dec, read pending (= none)
   .arrive 2, .step true, .step true,                               -- 2 arrives: inc sees 0, callback entered
   .arrive 3, .step true, .step true, .step true, .step true,      -- 3 arrives inside the callback: queued
   .step true, .step true]                                          -- callback of 2 ends, dec

def finalOf (p : Bool) : St := drain p 100 (run p (St.init [.block, .unblock true, .work]) lossSchedule)

/-- original code: signal 3 was queued, is neither pending at the end nor ever taken or delivered: it is lost. -/
theorem C18_pristine_loses :
    (Ev.queued 3 2 ∈ (finalOf true).log) ∧ (finalOf true).pending = (0, 0) ∧
    (Ev.callStart 3 2 ∉ (finalOf true).log) ∧ (∀ d, Ev.taken 3 2 d ∉ (finalOf true).log) := by
  decide

/-- repaired code, same schedule: signal 3 is still remembered at the end. -/
theorem C18_repaired_keeps : (finalOf false).pending = (3, 2) ∧ (finalOf false).stack = [] := by decide

/-! non-vacuity of the invariants: a reachable state with a running callback, a nested blocked arrival and an
    application block pending -/
example : Reachable (run false (St.init [.block, .unblock true]) [.step true, .arrive 1, .step true]) := ⟨_, _, rfl⟩
example : (run false (St.init [.work]) [.arrive 1, .step true, .step true, .arrive 2, .step true]).blocked = 2 := by decide

/-- **a release that is not the outermost one leaves the remembered signal where it is**: the first step of `unblockSignals` only lowers the
    count; when other blocks are still in force the call ends there — the slot and the log are untouched -/
theorem C18_inner_release_keeps (pr : Bool) (s : St) (d r : Bool) (pend : Nat × Nat) (rest : List Frame)
    (hs : s.stack = .ub d .dec pend :: rest) (hb : s.blocked ≠ 1) :
    ∃ s', step pr s (.step r) = some s' ∧ s'.pending = s.pending ∧ s'.log = s.log ∧ s'.stack = rest ∧ s'.blocked = s.blocked - 1 := by
  refine ⟨{ s with blocked := s.blocked - 1, appDepth := s.appDepth - 1, stack := rest }, ?_, rfl, rfl, rfl, rfl⟩
  simp only [step, hs, hb, if_false]

end PotasscoVerif.C18
