/-
  C10 (continued) — whole statements and programs.
  Atom lists, rules with normal bodies (facts, integrity constraints, disjunctions, choices), `#assume`, `#project`,
  `#external`, `#edge`, and programs made of such statements: printed with ANY filler (blanks, tabs, line breaks) at every
  optional position and ANY spelling of every atom, the reader model delivers exactly the statements written.
-/
import PotasscoVerif.Props.C10
namespace PotasscoVerif.C10
open PotasscoVerif PotasscoVerif.CharStream PotasscoVerif.TextIn PotasscoVerif.Decimal PotasscoVerif.AspifOut
open PotasscoVerif.BufferedStream (isDigit isWs I64MAX)

/-! ### atom lists -/
structure AtomItem where
  n       : Nat
  sp      : Spelling
  wsAfter : List Nat
deriving Repr, DecidableEq

def AtomItem.lit (i : AtomItem) : LitItem := { neg := false, n := i.n, sp := i.sp, wsNot := [], wsAfter := i.wsAfter }
def AtomItem.ok (i : AtomItem) : Prop := i.sp.ok i.n ∧ Filler i.wsAfter
def AtomItem.text (i : AtomItem) : List Nat := i.sp.text i.n ++ i.wsAfter

theorem AtomItem.lit_text (i : AtomItem) : i.lit.text = i.text := by simp [AtomItem.lit, LitItem.text, AtomItem.text]
theorem AtomItem.lit_ok (i : AtomItem) (h : i.ok) : i.lit.ok := ⟨h.1, (by intro c hc; cases hc), h.2⟩
theorem AtomItem.lit_val (i : AtomItem) : i.lit.val = (i.n : Int) := by simp [AtomItem.lit, LitItem.val]

/-- a separator character of atom lists -/
def IsSep (s : Nat) : Prop := s = 59 ∨ s = 124 ∨ s = 44

/-- atoms, each followed by the separator printed after it (ignored for the last one) and the filler behind the separator -/
def atomsText : List (AtomItem × Nat × List Nat) → List Nat
  | [] => []
  | [(i, _, _)] => i.text
  | (i, s, w) :: rest => i.text ++ (s :: (w ++ atomsText rest))

theorem atomItem_head (i : AtomItem) (hok : i.ok) (t : List Nat) : ∃ c r, i.text ++ t = c :: r ∧ isLower c = true := by
  have := litItem_head i.lit (i.lit_ok hok) t
  rwa [i.lit_text] at this

theorem atomsText_head (items : List (AtomItem × Nat × List Nat)) (hne : items ≠ []) (hok : ∀ p ∈ items, p.1.ok) (t : List Nat) :
    ∃ c r, atomsText items ++ t = c :: r ∧ isLower c = true := by
  cases items with
  | nil => exact absurd rfl hne
  | cons p rest =>
    obtain ⟨i, s, w⟩ := p
    cases rest with
    | nil => simp only [atomsText]; exact atomItem_head i (hok (i, s, w) (by simp)) t
    | cons q rest' =>
      simp only [atomsText, List.append_assoc]
      exact atomItem_head i (hok (i, s, w) (by simp)) _

/-- what may follow an atom list: a character that is no separator of the list, no blank, not the end -/
def EndsList (seps : List Nat) (k : List Nat) : Prop := Sep k ∧ ∃ c r, k = c :: r ∧ seps.contains c = false ∧ c ≠ 0

theorem atomsLoop_spec (seps : List Nat) (items : List (AtomItem × Nat × List Nat)) (hne : items ≠ [])
    (hok : ∀ p ∈ items, p.1.ok ∧ IsSep p.2.1 ∧ seps.contains p.2.1 = true ∧ Filler p.2.2)
    (k : List Nat) (hk : EndsList seps k) (f : Nat) (hf : items.length < f) (a : AS) (acc : List Nat)
    (hr : a.rest = atomsText items ++ k) :
    ∃ a', atomsLoop seps f a acc = .ok (acc ++ items.map (fun p => p.1.n), a') ∧ a'.rest = k := by
  induction items generalizing f a acc with
  | nil => exact absurd rfl hne
  | cons p rest ih =>
    obtain ⟨i, s, w⟩ := p
    obtain ⟨hi, hs, hsc, hw⟩ := hok (i, s, w) (by simp)
    have hn1 : 1 ≤ i.n := by
      have := hi.1; cases hsp : i.sp <;> rw [hsp] at this <;> simp only [Spelling.ok] at this <;> omega
    cases f with
    | zero => simp at hf
    | succ f =>
      have hpos : ¬ ((i.n : Int) ≤ 0) := by omega
      cases rest with
      | nil =>
        simp only [atomsText] at hr
        obtain ⟨a1, h1, hr1⟩ := C10_lit a i.lit k (i.lit_ok hi) (by rw [i.lit_text]; exact hr) hk.1
        obtain ⟨c, r, ek, hc1, hc2⟩ := hk.2
        have hpk : a1.peek = c := by unfold AS.peek; rw [hr1, ek]; rfl
        have hc0 : (c == 0) = false := by simpa using hc2
        simp only [atomsLoop, h1, i.lit_val, hpos, ↓reduceIte, hpk, hc1, hc0, Bool.or_self, Bool.false_eq_true, Int.toNat_natCast]
        exact ⟨a1, by simp, hr1⟩
      | cons q rest' =>
        simp only [atomsText, List.append_assoc, List.cons_append] at hr
        have hsep : Sep (s :: (w ++ (atomsText (q :: rest') ++ k))) := by
          intro c r e; cases e
          rcases hs with h | h | h <;> subst h <;> decide
        obtain ⟨a1, h1, hr1⟩ := C10_lit a i.lit _ (i.lit_ok hi) (by rw [i.lit_text]; exact hr) hsep
        have hpk : a1.peek = s := by unfold AS.peek; rw [hr1]; rfl
        have hs0 : s ≠ 0 ∧ s ≠ 13 ∧ s ≠ 10 := by rcases hs with h | h | h <;> subst h <;> decide
        have hg := get_plain a1 s _ hr1 hs0.1 hs0.2.1 hs0.2.2
        have hsb : (s != 0) = true := by simpa using hs0.1
        have hnext := atomsText_head (q :: rest') (by simp) (fun p hp => (hok p (by simp [hp])).1) k
        have hsk : (AS.skipWs { rest := w ++ (atomsText (q :: rest') ++ k), line := a1.line, canUnget := true }).rest = atomsText (q :: rest') ++ k :=
          skipWs_spec _ w _ rfl hw (lower_nws hnext)
        simp only [atomsLoop, h1, i.lit_val, hpos, ↓reduceIte, hpk, hsc, Bool.true_or, hg, hsb, Int.toNat_natCast]
        obtain ⟨a3, h3, hr3⟩ := ih (by simp) (fun p hp => hok p (by simp [hp])) f (by simp at hf ⊢; omega) _ (acc ++ [i.n]) hsk
        exact ⟨a3, by rw [h3]; simp, hr3⟩

theorem atomsText_length (items : List (AtomItem × Nat × List Nat)) (hok : ∀ p ∈ items, p.1.ok) : items.length ≤ (atomsText items).length := by
  induction items with
  | nil => simp
  | cons p rest ih =>
    obtain ⟨i, s, w⟩ := p
    obtain ⟨c', r', e', _⟩ := atomItem_head i (hok (i, s, w) (by simp)) []
    have hl : 1 ≤ i.text.length := by
      have : (i.text ++ []).length = (c' :: r').length := by rw [e']
      simp at this; omega
    cases rest with
    | nil => simp [atomsText]; omega
    | cons q rest' =>
      have := ih (fun p hp => hok p (by simp [hp]))
      simp only [atomsText, List.length_append, List.length_cons] at this ⊢
      omega

/-- **C10 (atom lists)**: atoms in any spelling, separated by any of the list's separators with any filler around them,
    are read as exactly that list; an empty list (the continuation does not start with a letter) is read as empty -/
theorem C10_atoms (seps : List Nat) (a : AS) (items : List (AtomItem × Nat × List Nat))
    (hok : ∀ p ∈ items, p.1.ok ∧ IsSep p.2.1 ∧ seps.contains p.2.1 = true ∧ Filler p.2.2)
    (k : List Nat) (hk : EndsList seps k) (hr : a.rest = atomsText items ++ k) :
    ∃ a', atoms seps a = .ok (items.map (fun p => p.1.n), a') ∧ a'.rest = k := by
  unfold atoms peekWs
  by_cases hne : items = []
  · subst hne
    simp only [atomsText, List.nil_append] at hr
    have hs : a.skipWs.rest = k := skipWs_spec a [] k (by simpa using hr) (by intro c hc; cases hc) hk.1.nws
    obtain ⟨c, r, ek, _, _⟩ := hk.2
    have hpk : a.skipWs.peek = c := by unfold AS.peek; rw [hs, ek]; rfl
    have hl : isLower c = false := (hk.1 c r ek).2.2.1
    simp only [hpk, hl, Bool.false_eq_true, ↓reduceIte, List.map_nil]
    exact ⟨_, rfl, hs⟩
  · have hhead := atomsText_head items hne (fun p hp => (hok p hp).1) k
    have hs : a.skipWs.rest = atomsText items ++ k := skipWs_spec a [] _ (by simpa using hr) (by intro c hc; cases hc) (lower_nws hhead)
    obtain ⟨c, r, e, hc⟩ := hhead
    have hpk : a.skipWs.peek = c := by unfold AS.peek; rw [hs, e]; rfl
    simp only [hpk, hc, ↓reduceIte]
    have hlen : items.length < a.skipWs.rest.length + 1 := by
      rw [hs]; have := atomsText_length items (fun p hp => (hok p hp).1); simp; omega
    obtain ⟨a', h, hr'⟩ := atomsLoop_spec seps items hne hok k hk _ hlen a.skipWs [] hs
    exact ⟨a', by simpa using h, hr'⟩


/-! ### literal lists that may be empty -/
theorem lits_gen (a : AS) (items : List (LitItem × List Nat)) (hok : ∀ p ∈ items, p.1.ok ∧ Filler p.2)
    (k : List Nat) (hk : Sep k) (hk44 : ([44] : List Nat).isPrefixOf k = false) (hr : a.rest = litsText items ++ k) :
    ∃ a', lits a = .ok (items.map (fun p => p.1.val), a') ∧ a'.rest = k := by
  by_cases hne : items = []
  · subst hne
    simp only [litsText, List.nil_append] at hr
    have hs : a.skipWs.rest = k := skipWs_spec a [] k (by simpa using hr) (by intro c hc; cases hc) hk.nws
    unfold lits peekWs
    have hl : isLower a.skipWs.peek = false := by
      unfold AS.peek; rw [hs]
      cases k with
      | nil => simp [isLower]
      | cons c r => simpa using (hk c r rfl).2.2.1
    simp only [hl, Bool.false_eq_true, ↓reduceIte, List.map_nil]
    exact ⟨_, rfl, hs⟩
  · exact C10_lits a items hne hok k hk hk44 hr

/-! ### rules with normal bodies -/
inductive HeadS where
  | disj (items : List (AtomItem × Nat × List Nat))
  | choice (wsOpen : List Nat) (items : List (AtomItem × Nat × List Nat)) (wsClose : List Nat)

structure BodyS where
  wsArrow : List Nat
  items   : List (LitItem × List Nat)

structure RuleS where
  head  : HeadS
  body  : Option BodyS
  wsDot : List Nat

def HeadS.text : HeadS → List Nat
  | .disj items => atomsText items
  | .choice w1 items w2 => 123 :: (w1 ++ (atomsText items ++ (125 :: w2)))
def HeadS.ht : HeadS → Nat
  | .disj _ => 0
  | .choice _ _ _ => 1
def HeadS.atoms : HeadS → List Nat
  | .disj items => items.map (fun p => p.1.n)
  | .choice _ items _ => items.map (fun p => p.1.n)
def HeadS.ok : HeadS → Prop
  | .disj items => ∀ p ∈ items, p.1.ok ∧ IsSep p.2.1 ∧ [59, 124].contains p.2.1 = true ∧ Filler p.2.2
  | .choice w1 items w2 => Filler w1 ∧ Filler w2 ∧ ∀ p ∈ items, p.1.ok ∧ IsSep p.2.1 ∧ [59, 44].contains p.2.1 = true ∧ Filler p.2.2

def BodyS.text (b : BodyS) : List Nat := 58 :: 45 :: (b.wsArrow ++ litsText b.items)
def BodyS.ok (b : BodyS) : Prop := Filler b.wsArrow ∧ ∀ p ∈ b.items, p.1.ok ∧ Filler p.2

def bodyText : Option BodyS → List Nat
  | some b => b.text
  | none => []
def bodyVals : Option BodyS → List Int
  | some b => b.items.map (fun p => p.1.val)
  | none => []
def bodyOk : Option BodyS → Prop
  | some b => b.ok
  | none => True

def RuleS.text (r : RuleS) : List Nat := r.head.text ++ (bodyText r.body ++ (46 :: r.wsDot))
def RuleS.call (r : RuleS) : Call := .rule r.head.ht r.head.atoms (bodyVals r.body)
/-- a statement that is just `.` is not a rule: a disjunctive head without atoms needs a body -/
def RuleS.ok (r : RuleS) : Prop :=
  r.head.ok ∧ Filler r.wsDot ∧ bodyOk r.body ∧ (match r.head, r.body with | .disj [], none => False | _, _ => True)

theorem sep_colon (t : List Nat) : Sep (58 :: t) := by intro c r e; cases e; decide
theorem sep_dot (t : List Nat) : Sep (46 :: t) := by intro c r e; cases e; decide
theorem sep_rbrace (t : List Nat) : Sep (125 :: t) := by intro c r e; cases e; decide

theorem tail_after_head (r : RuleS) (k : List Nat) :
    ∃ c t, bodyText r.body ++ (46 :: r.wsDot) ++ k = c :: t ∧ (c = 58 ∨ c = 46) := by
  cases r.body with
  | none => exact ⟨46, _, rfl, Or.inr rfl⟩
  | some b => exact ⟨58, 45 :: (b.wsArrow ++ litsText b.items) ++ (46 :: r.wsDot) ++ k, by simp [bodyText, BodyS.text], Or.inl rfl⟩

/-- the body and the final dot -/
theorem ruleBody_spec (ht : Nat) (hd : List Nat) (a : AS) (body : Option BodyS) (wsDot k : List Nat)
    (hb : bodyOk body) (hwd : Filler wsDot) (hk : NWS k) (hr : a.rest = bodyText body ++ (46 :: wsDot) ++ k) :
    ∃ a', ruleBody ht hd a = .ok (.rule ht hd (bodyVals body), a') ∧ a'.rest = k := by
  cases body with
  | none =>
    simp only [bodyText, List.nil_append, List.cons_append] at hr
    obtain ⟨a1, h1, hr1⟩ := tok_absent a [58, 45] (by rw [hr]; simp [List.isPrefixOf])
    obtain ⟨a2, h2, hr2⟩ := C10_tok a1 [46] wsDot k true (by rw [hr1, hr]; rfl) hwd hk
    unfold ruleBody
    simp only [bind, Except.bind, h1, Bool.false_eq_true, ↓reduceIte, h2, pure, Except.pure]
    exact ⟨a2, rfl, hr2⟩
  | some b =>
    obtain ⟨hwa, hit⟩ := hb
    simp only [bodyText, BodyS.text, List.cons_append, List.append_assoc] at hr
    have hnext : NWS (litsText b.items ++ (46 :: (wsDot ++ k))) := by
      by_cases hne : b.items = []
      · rw [hne]; simp only [litsText, List.nil_append]; exact (sep_dot _).nws
      · exact lower_nws (litsText_head b.items hne hit _)
    obtain ⟨a1, h1, hr1⟩ := C10_tok a [58, 45] b.wsArrow _ false (by rw [hr]; rfl) hwa hnext
    -- the first character behind `:-` decides between a normal body and an aggregate
    have hs : a1.skipWs.rest = litsText b.items ++ (46 :: (wsDot ++ k)) := skipWs_spec a1 [] _ (by simpa using hr1) (by intro c hc; cases hc) hnext
    have hpk : isDigit a1.skipWs.peek = false ∧ (a1.skipWs.peek == 45) = false := by
      unfold AS.peek; rw [hs]
      by_cases hne : b.items = []
      · rw [hne]; simp [litsText, isDigit]
      · obtain ⟨c, t, e, hc⟩ := litsText_head b.items hne hit (46 :: (wsDot ++ k))
        rw [e]; simp [isLower] at hc; simp [isDigit]; constructor <;> omega
    obtain ⟨a2, h2, hr2⟩ := lits_gen a1.skipWs b.items hit (46 :: (wsDot ++ k)) (sep_dot _) (by simp [List.isPrefixOf]) hs
    obtain ⟨a3, h3, hr3⟩ := C10_tok a2 [46] wsDot k true (by rw [hr2]; rfl) hwd hk
    have hcond : (!isDigit (peekWs a1).1 && (peekWs a1).1 != 45) = true := by
      show (!isDigit a1.skipWs.peek && a1.skipWs.peek != 45) = true
      rw [hpk.1]; simp only [Bool.not_false, Bool.true_and, bne_iff_ne, ne_eq]
      simpa using hpk.2
    have hp2 : (peekWs a1).2 = a1.skipWs := rfl
    unfold ruleBody
    simp only [bind, Except.bind, h1, ↓reduceIte, hcond, hp2, h2, h3, pure, Except.pure]
    exact ⟨a3, by simp [bodyVals], hr3⟩

/-- **C10 (rules)**: a fact, integrity constraint, disjunctive or choice rule with a normal body, in any layout and spelling,
    is read as exactly that rule; `c` is the character the statement starts with -/
theorem C10_rule (a : AS) (r : RuleS) (k : List Nat) (hok : r.ok) (hk : NWS k) (hr : a.rest = r.text ++ k) :
    ∃ a', rule ((r.text ++ k).headD 0) a = .ok (r.call, a') ∧ a'.rest = k := by
  obtain ⟨hh, hwd, hb, hne⟩ := hok
  obtain ⟨c0, t0, et, hc0⟩ := tail_after_head r k
  have hends : ∀ seps : List Nat, (seps = [59, 124] ∨ seps = [59, 44]) → EndsList seps (bodyText r.body ++ (46 :: r.wsDot) ++ k) := by
    intro seps hs
    rw [et]
    refine ⟨?_, c0, t0, rfl, ?_, ?_⟩
    · rcases hc0 with h | h <;> subst h
      · exact sep_colon _
      · exact sep_dot _
    · rcases hs with h | h <;> subst h <;> rcases hc0 with h | h <;> subst h <;> decide
    · rcases hc0 with h | h <;> subst h <;> decide
  unfold rule RuleS.call
  cases hhd : r.head with
  | disj items =>
    rw [hhd] at hh
    simp only [HeadS.ok] at hh
    have hr' : a.rest = atomsText items ++ (bodyText r.body ++ (46 :: r.wsDot) ++ k) := by
      rw [hr]; simp [RuleS.text, hhd, HeadS.text]
    -- the first character: a letter (atom) or ':' (no atoms)
    have hfirst : ((r.text ++ k).headD 0 == 123) = false := by
      have : r.text ++ k = atomsText items ++ (bodyText r.body ++ (46 :: r.wsDot) ++ k) := by
        simp [RuleS.text, hhd, HeadS.text]
      rw [this]
      by_cases hi : items = []
      · subst hi
        rw [hhd] at hne
        cases hbody : r.body with
        | none => rw [hbody] at hne; exact absurd hne (by simp)
        | some b => simp [atomsText, bodyText, BodyS.text]
      · obtain ⟨c, t, e, hc⟩ := atomsText_head items hi (fun p hp => (hh p hp).1) (bodyText r.body ++ (46 :: r.wsDot) ++ k)
        rw [e]; simp [isLower] at hc; simp; omega
    obtain ⟨a1, h1, hr1⟩ := C10_atoms [59, 124] a items hh _ (hends _ (Or.inl rfl)) hr'
    obtain ⟨a2, h2, hr2⟩ := ruleBody_spec 0 (items.map (fun p => p.1.n)) a1 r.body r.wsDot k hb hwd hk hr1
    unfold ruleHead
    simp only [hfirst, Bool.false_eq_true, ↓reduceIte, bind, Except.bind, h1, pure, Except.pure, h2, HeadS.ht, HeadS.atoms]
    exact ⟨a2, rfl, hr2⟩
  | choice w1 items w2 =>
    rw [hhd] at hh
    simp only [HeadS.ok] at hh
    obtain ⟨hw1, hw2, hit⟩ := hh
    have hr' : a.rest = [123] ++ (w1 ++ (atomsText items ++ (125 :: (w2 ++ (bodyText r.body ++ (46 :: r.wsDot) ++ k))))) := by
      rw [hr]; simp [RuleS.text, hhd, HeadS.text]
    have hfirst : ((r.text ++ k).headD 0 == 123) = true := by simp [RuleS.text, hhd, HeadS.text]
    have hnw : NWS (atomsText items ++ (125 :: (w2 ++ (bodyText r.body ++ (46 :: r.wsDot) ++ k)))) := by
      by_cases hi : items = []
      · subst hi; simp only [atomsText, List.nil_append]; exact (sep_rbrace _).nws
      · exact lower_nws (atomsText_head items hi (fun p hp => (hit p hp).1) _)
    obtain ⟨a1, h1, hr1⟩ := C10_tok a [123] w1 _ true hr' hw1 hnw
    have hend : EndsList [59, 44] (125 :: (w2 ++ (bodyText r.body ++ (46 :: r.wsDot) ++ k))) :=
      ⟨sep_rbrace _, 125, _, rfl, by decide, by decide⟩
    obtain ⟨a2, h2, hr2⟩ := C10_atoms [59, 44] a1 items hit _ hend hr1
    have hnw2 : NWS (bodyText r.body ++ (46 :: r.wsDot) ++ k) := by
      rw [et]; rcases hc0 with h | h <;> subst h
      · exact (sep_colon _).nws
      · exact (sep_dot _).nws
    obtain ⟨a3, h3, hr3⟩ := C10_tok a2 [125] w2 _ true (by rw [hr2]; rfl) hw2 hnw2
    obtain ⟨a4, h4, hr4⟩ := ruleBody_spec 1 (items.map (fun p => p.1.n)) a3 r.body r.wsDot k hb hwd hk hr3
    unfold ruleHead
    simp only [hfirst, ↓reduceIte, bind, Except.bind, h1, h2, h3, pure, Except.pure, h4, HeadS.ht, HeadS.atoms]
    exact ⟨a4, rfl, hr4⟩


/-! ### directives -/
def kwMinimize : List Nat := [35, 109, 105, 110, 105, 109, 105, 122, 101]
def kwProject : List Nat := [35, 112, 114, 111, 106, 101, 99, 116]
def kwOutput : List Nat := [35, 111, 117, 116, 112, 117, 116]
def kwExternal : List Nat := [35, 101, 120, 116, 101, 114, 110, 97, 108]
def kwAssume : List Nat := [35, 97, 115, 115, 117, 109, 101]
def kwHeuristic : List Nat := [35, 104, 101, 117, 114, 105, 115, 116, 105, 99]
def kwEdge : List Nat := [35, 101, 100, 103, 101]

theorem alt_absent (kw : List Nat) (p els : AspifIn.P Stmt) (a : AS) (h : kw.isPrefixOf a.rest = false) :
    ∃ a', alt kw p els a = els a' ∧ a'.rest = a.rest := by
  obtain ⟨a', h1, hr⟩ := tok_absent a kw h
  exact ⟨a', by unfold alt; rw [h1], hr⟩

theorem alt_present (kw : List Nat) (p els : AspifIn.P Stmt) (a : AS) (ws k : List Nat) (hr : a.rest = kw ++ (ws ++ k)) (hws : Filler ws) (hk : NWS k) :
    ∃ a', alt kw p els a = p a' ∧ a'.rest = k := by
  obtain ⟨a', h1, hr'⟩ := C10_tok a kw ws k false hr hws hk
  exact ⟨a', by unfold alt; rw [h1], hr'⟩

/-- an optional braced list: `{` filler, the items, `}` filler -/
structure Braced (α : Type) where
  wsOpen  : List Nat
  items   : List α
  wsClose : List Nat

/-- `#assume{l1, …}.` / `#assume.` -/
structure AssumeS where
  ws0   : List Nat
  br    : Option (Braced (LitItem × List Nat))
  wsDot : List Nat

def AssumeS.inner : Option (Braced (LitItem × List Nat)) → List Nat
  | some b => 123 :: (b.wsOpen ++ (litsText b.items ++ (125 :: b.wsClose)))
  | none => []
def AssumeS.text (s : AssumeS) : List Nat := kwAssume ++ (s.ws0 ++ (AssumeS.inner s.br ++ (46 :: s.wsDot)))
def AssumeS.vals : Option (Braced (LitItem × List Nat)) → List Int
  | some b => b.items.map (fun p => p.1.val)
  | none => []
def AssumeS.okB : Option (Braced (LitItem × List Nat)) → Prop
  | some b => Filler b.wsOpen ∧ Filler b.wsClose ∧ ∀ p ∈ b.items, p.1.ok ∧ Filler p.2
  | none => True
def AssumeS.ok (s : AssumeS) : Prop := Filler s.ws0 ∧ Filler s.wsDot ∧ AssumeS.okB s.br

theorem dAssume_spec (a : AS) (br : Option (Braced (LitItem × List Nat))) (wsDot k : List Nat) (hb : AssumeS.okB br) (hwd : Filler wsDot) (hk : NWS k)
    (hr : a.rest = AssumeS.inner br ++ (46 :: wsDot) ++ k) :
    ∃ a', dAssume a = .ok (.call (.assume (AssumeS.vals br)), a') ∧ a'.rest = k := by
  cases br with
  | none =>
    simp only [AssumeS.inner, List.nil_append, List.cons_append] at hr
    obtain ⟨a1, h1, hr1⟩ := tok_absent a [123] (by rw [hr]; simp [List.isPrefixOf])
    obtain ⟨a2, h2, hr2⟩ := C10_tok a1 [46] wsDot k true (by rw [hr1, hr]; rfl) hwd hk
    unfold dAssume
    simp only [bind, Except.bind, h1, Bool.false_eq_true, ↓reduceIte, h2, pure, Except.pure, AssumeS.vals]
    exact ⟨a2, rfl, hr2⟩
  | some b =>
    obtain ⟨hw1, hw2, hit⟩ := hb
    simp only [AssumeS.inner, List.cons_append, List.append_assoc] at hr
    have hnw : NWS (litsText b.items ++ (125 :: (b.wsClose ++ (46 :: (wsDot ++ k))))) := by
      by_cases hne : b.items = []
      · rw [hne]; simp only [litsText, List.nil_append]; exact (sep_rbrace _).nws
      · exact lower_nws (litsText_head b.items hne hit _)
    obtain ⟨a1, h1, hr1⟩ := C10_tok a [123] b.wsOpen _ false (by rw [hr]; rfl) hw1 hnw
    obtain ⟨a2, h2, hr2⟩ := lits_gen a1 b.items hit _ (sep_rbrace _) (by simp [List.isPrefixOf]) hr1
    obtain ⟨a3, h3, hr3⟩ := C10_tok a2 [125] b.wsClose (46 :: (wsDot ++ k)) true (by rw [hr2]; rfl) hw2 (sep_dot _).nws
    obtain ⟨a4, h4, hr4⟩ := C10_tok a3 [46] wsDot k true (by rw [hr3]; rfl) hwd hk
    unfold dAssume
    simp only [bind, Except.bind, h1, ↓reduceIte, h2, h3, h4, pure, Except.pure, AssumeS.vals]
    exact ⟨a4, rfl, hr4⟩

/-- `#project{a1, …}.` / `#project.` -/
structure ProjectS where
  ws0   : List Nat
  br    : Option (Braced (AtomItem × Nat × List Nat))
  wsDot : List Nat

def ProjectS.inner : Option (Braced (AtomItem × Nat × List Nat)) → List Nat
  | some b => 123 :: (b.wsOpen ++ (atomsText b.items ++ (125 :: b.wsClose)))
  | none => []
def ProjectS.text (s : ProjectS) : List Nat := kwProject ++ (s.ws0 ++ (ProjectS.inner s.br ++ (46 :: s.wsDot)))
def ProjectS.vals : Option (Braced (AtomItem × Nat × List Nat)) → List Nat
  | some b => b.items.map (fun p => p.1.n)
  | none => []
def ProjectS.okB : Option (Braced (AtomItem × Nat × List Nat)) → Prop
  | some b => Filler b.wsOpen ∧ Filler b.wsClose ∧ ∀ p ∈ b.items, p.1.ok ∧ IsSep p.2.1 ∧ [44].contains p.2.1 = true ∧ Filler p.2.2
  | none => True
def ProjectS.ok (s : ProjectS) : Prop := Filler s.ws0 ∧ Filler s.wsDot ∧ ProjectS.okB s.br

theorem dProject_spec (a : AS) (br : Option (Braced (AtomItem × Nat × List Nat))) (wsDot k : List Nat) (hb : ProjectS.okB br) (hwd : Filler wsDot) (hk : NWS k)
    (hr : a.rest = ProjectS.inner br ++ (46 :: wsDot) ++ k) :
    ∃ a', dProject a = .ok (.call (.project (ProjectS.vals br)), a') ∧ a'.rest = k := by
  cases br with
  | none =>
    simp only [ProjectS.inner, List.nil_append, List.cons_append] at hr
    obtain ⟨a1, h1, hr1⟩ := tok_absent a [123] (by rw [hr]; simp [List.isPrefixOf])
    obtain ⟨a2, h2, hr2⟩ := C10_tok a1 [46] wsDot k true (by rw [hr1, hr]; rfl) hwd hk
    unfold dProject
    simp only [bind, Except.bind, h1, Bool.false_eq_true, ↓reduceIte, h2, pure, Except.pure, ProjectS.vals]
    exact ⟨a2, rfl, hr2⟩
  | some b =>
    obtain ⟨hw1, hw2, hit⟩ := hb
    simp only [ProjectS.inner, List.cons_append, List.append_assoc] at hr
    have hnw : NWS (atomsText b.items ++ (125 :: (b.wsClose ++ (46 :: (wsDot ++ k))))) := by
      by_cases hne : b.items = []
      · rw [hne]; simp only [atomsText, List.nil_append]; exact (sep_rbrace _).nws
      · exact lower_nws (atomsText_head b.items hne (fun p hp => (hit p hp).1) _)
    obtain ⟨a1, h1, hr1⟩ := C10_tok a [123] b.wsOpen _ false (by rw [hr]; rfl) hw1 hnw
    have hend : EndsList [44] (125 :: (b.wsClose ++ (46 :: (wsDot ++ k)))) := ⟨sep_rbrace _, 125, _, rfl, by decide, by decide⟩
    obtain ⟨a2, h2, hr2⟩ := C10_atoms [44] a1 b.items hit _ hend hr1
    obtain ⟨a3, h3, hr3⟩ := C10_tok a2 [125] b.wsClose (46 :: (wsDot ++ k)) true (by rw [hr2]; rfl) hw2 (sep_dot _).nws
    obtain ⟨a4, h4, hr4⟩ := C10_tok a3 [46] wsDot k true (by rw [hr3]; rfl) hwd hk
    unfold dProject
    simp only [bind, Except.bind, h1, ↓reduceIte, h2, h3, h4, pure, Except.pure, ProjectS.vals]
    exact ⟨a4, rfl, hr4⟩


/-- `#external a.` / `#external a. [value]` -/
structure ExtVal where
  wsOpen : List Nat      -- after '['
  v      : Nat           -- 0 free, 1 true, 2 false, 3 release
  wsVal  : List Nat      -- after the keyword
  wsClose : List Nat     -- after ']'

structure ExternalS where
  ws0   : List Nat
  atom  : AtomItem
  wsDot : List Nat
  val   : Option ExtVal

def valText (v : Nat) : List Nat :=
  if v = 1 then [116, 114, 117, 101] else if v = 0 then [102, 114, 101, 101] else if v = 3 then [114, 101, 108, 101, 97, 115, 101] else [102, 97, 108, 115, 101]
def ExternalS.valT : Option ExtVal → List Nat
  | some e => 91 :: (e.wsOpen ++ (valText e.v ++ (e.wsVal ++ (93 :: e.wsClose))))
  | none => []
def ExternalS.text (s : ExternalS) : List Nat := kwExternal ++ (s.ws0 ++ (s.atom.text ++ (46 :: (s.wsDot ++ ExternalS.valT s.val))))
def ExternalS.value : Option ExtVal → Nat
  | some e => e.v
  | none => 2
def ExternalS.okV : Option ExtVal → Prop
  | some e => Filler e.wsOpen ∧ Filler e.wsVal ∧ Filler e.wsClose ∧ e.v ≤ 3
  | none => True
def ExternalS.ok (s : ExternalS) : Prop := Filler s.ws0 ∧ s.atom.ok ∧ Filler s.wsDot ∧ ExternalS.okV s.val

theorem sep_rbracket (t : List Nat) : Sep (93 :: t) := by intro c r e; cases e; decide

theorem extValue_spec (a : AS) (v : Nat) (hv : v ≤ 3) (ws k : List Nat) (hws : Filler ws) (hk : NWS k) (hr : a.rest = valText v ++ (ws ++ k)) :
    ∃ a', extValue a = .ok (v, a') ∧ a'.rest = k := by
  have hv4 : v = 0 ∨ v = 1 ∨ v = 2 ∨ v = 3 := by omega
  unfold extValue
  rcases hv4 with h | h | h | h <;> subst h
  · have hr : a.rest = [102, 114, 101, 101] ++ (ws ++ k) := hr
    obtain ⟨a1, h1, hr1⟩ := tok_absent a [116, 114, 117, 101] (by rw [hr]; simp [List.isPrefixOf])
    obtain ⟨a2, h2, hr2⟩ := C10_tok a1 [102, 114, 101, 101] ws k false (by rw [hr1, hr]) hws hk
    simp only [bind, Except.bind, h1, Bool.false_eq_true, ↓reduceIte, h2, pure, Except.pure]
    exact ⟨a2, rfl, hr2⟩
  · have hr : a.rest = [116, 114, 117, 101] ++ (ws ++ k) := hr
    obtain ⟨a1, h1, hr1⟩ := C10_tok a [116, 114, 117, 101] ws k false (by rw [hr]) hws hk
    simp only [bind, Except.bind, h1, ↓reduceIte, pure, Except.pure]
    exact ⟨a1, rfl, hr1⟩
  · have hr : a.rest = [102, 97, 108, 115, 101] ++ (ws ++ k) := hr
    obtain ⟨a1, h1, hr1⟩ := tok_absent a [116, 114, 117, 101] (by rw [hr]; simp [List.isPrefixOf])
    obtain ⟨a2, h2, hr2⟩ := tok_absent a1 [102, 114, 101, 101] (by rw [hr1, hr]; simp [List.isPrefixOf])
    obtain ⟨a3, h3, hr3⟩ := tok_absent a2 [114, 101, 108, 101, 97, 115, 101] (by rw [hr2, hr1, hr]; simp [List.isPrefixOf])
    obtain ⟨a4, h4, hr4⟩ := C10_tok a3 [102, 97, 108, 115, 101] ws k true (by rw [hr3, hr2, hr1, hr]) hws hk
    simp only [bind, Except.bind, h1, Bool.false_eq_true, ↓reduceIte, h2, h3, h4, pure, Except.pure]
    exact ⟨a4, rfl, hr4⟩
  · have hr : a.rest = [114, 101, 108, 101, 97, 115, 101] ++ (ws ++ k) := hr
    obtain ⟨a1, h1, hr1⟩ := tok_absent a [116, 114, 117, 101] (by rw [hr]; simp [List.isPrefixOf])
    obtain ⟨a2, h2, hr2⟩ := tok_absent a1 [102, 114, 101, 101] (by rw [hr1, hr]; simp [List.isPrefixOf])
    obtain ⟨a3, h3, hr3⟩ := C10_tok a2 [114, 101, 108, 101, 97, 115, 101] ws k false (by rw [hr2, hr1, hr]) hws hk
    simp only [bind, Except.bind, h1, Bool.false_eq_true, ↓reduceIte, h2, h3, pure, Except.pure]
    exact ⟨a3, rfl, hr3⟩

theorem dExternal_spec (a : AS) (atom : AtomItem) (wsDot : List Nat) (val : Option ExtVal) (k : List Nat)
    (hat : atom.ok) (hwd : Filler wsDot) (hv : ExternalS.okV val) (hk : NWS k) (hk91 : ([91] : List Nat).isPrefixOf k = false)
    (hr : a.rest = atom.text ++ (46 :: (wsDot ++ (ExternalS.valT val ++ k)))) :
    ∃ a', dExternal a = .ok (.call (.external atom.n (ExternalS.value val)), a') ∧ a'.rest = k := by
  obtain ⟨a1, h1, hr1⟩ := C10_atom_spellings a atom.n atom.sp atom.wsAfter (46 :: (wsDot ++ (ExternalS.valT val ++ k))) hat.1 (by rw [hr]; simp [AtomItem.text]) hat.2 (sep_dot _)
  cases val with
  | none =>
    simp only [ExternalS.valT, List.nil_append] at hr1
    obtain ⟨a2, h2, hr2⟩ := C10_tok a1 [46] wsDot k true (by rw [hr1]; rfl) hwd hk
    obtain ⟨a3, h3, hr3⟩ := tok_absent a2 [91] (by rw [hr2]; exact hk91)
    unfold dExternal
    simp only [bind, Except.bind, h1, h2, h3, Bool.false_eq_true, ↓reduceIte, pure, Except.pure, ExternalS.value]
    exact ⟨a3, rfl, by rw [hr3, hr2]⟩
  | some e =>
    obtain ⟨hw1, hw2, hw3, hv3⟩ := hv
    simp only [ExternalS.valT, List.cons_append, List.append_assoc] at hr1
    obtain ⟨a2, h2, hr2⟩ := C10_tok a1 [46] wsDot _ true (by rw [hr1]; rfl) hwd (by intro c r e'; cases e'; decide)
    have hvnw : NWS (valText e.v ++ (e.wsVal ++ (93 :: (e.wsClose ++ k)))) := by
      intro c r e'
      unfold valText at e'
      split at e'
      · cases e'; decide
      · split at e'
        · cases e'; decide
        · split at e' <;> (cases e'; decide)
    obtain ⟨a3, h3, hr3⟩ := C10_tok a2 [91] e.wsOpen _ false (by rw [hr2]; rfl) hw1 hvnw
    obtain ⟨a4, h4, hr4⟩ := extValue_spec a3 e.v hv3 e.wsVal (93 :: (e.wsClose ++ k)) hw2 (sep_rbracket _).nws hr3
    obtain ⟨a5, h5, hr5⟩ := C10_tok a4 [93] e.wsClose k true (by rw [hr4]; rfl) hw3 hk
    unfold dExternal
    simp only [bind, Except.bind, h1, h2, h3, ↓reduceIte, h4, h5, pure, Except.pure, ExternalS.value]
    exact ⟨a5, rfl, hr5⟩

/-- `#edge(s,t).` / `#edge(s,t) : l1, ….` -/
structure EdgeS where
  ws0 : List Nat      -- after #edge
  ws1 : List Nat      -- after '('
  s   : Int
  ws2 : List Nat      -- after s
  ws3 : List Nat      -- after ','
  t   : Int
  ws4 : List Nat      -- after t
  ws5 : List Nat      -- after ')'
  cond : Option BodyS -- `:` filler, literals  (BodyS.wsArrow is the filler after ':')
  wsDot : List Nat

def condText : Option BodyS → List Nat
  | some b => 58 :: (b.wsArrow ++ litsText b.items)
  | none => []
def EdgeS.text (e : EdgeS) : List Nat :=
  kwEdge ++ (e.ws0 ++ (40 :: (e.ws1 ++ (printInt e.s ++ (e.ws2 ++ (44 :: (e.ws3 ++ (printInt e.t ++ (e.ws4 ++ (41 :: (e.ws5 ++ (condText e.cond ++ (46 :: e.wsDot)))))))))))))
def EdgeS.ok (e : EdgeS) : Prop :=
  Filler e.ws0 ∧ Filler e.ws1 ∧ Filler e.ws2 ∧ Filler e.ws3 ∧ Filler e.ws4 ∧ Filler e.ws5 ∧ Filler e.wsDot ∧ bodyOk e.cond ∧
  (I32MIN ≤ e.s ∧ e.s ≤ I32MAX) ∧ (I32MIN ≤ e.t ∧ e.t ≤ I32MAX)

theorem condition_spec (a : AS) (cond : Option BodyS) (k : List Nat) (hc : bodyOk cond) (hk : Sep k) (hk44 : ([44] : List Nat).isPrefixOf k = false)
    (hk58 : ([58] : List Nat).isPrefixOf k = false) (hr : a.rest = condText cond ++ k) :
    ∃ a', condition a = .ok (bodyVals cond, a') ∧ a'.rest = k := by
  cases cond with
  | none =>
    simp only [condText, List.nil_append] at hr
    obtain ⟨a1, h1, hr1⟩ := tok_absent a [58] (by rw [hr]; exact hk58)
    unfold condition
    simp only [h1, bodyVals]
    exact ⟨a1, rfl, by rw [hr1, hr]⟩
  | some b =>
    obtain ⟨hwa, hit⟩ := hc
    simp only [condText, List.cons_append, List.append_assoc] at hr
    have hnw : NWS (litsText b.items ++ k) := by
      by_cases hne : b.items = []
      · rw [hne]; simp only [litsText, List.nil_append]; exact hk.nws
      · exact lower_nws (litsText_head b.items hne hit _)
    obtain ⟨a1, h1, hr1⟩ := C10_tok a [58] b.wsArrow _ false (by rw [hr]; rfl) hwa hnw
    obtain ⟨a2, h2, hr2⟩ := lits_gen a1 b.items hit k hk hk44 hr1
    unfold condition
    simp only [h1, h2, bodyVals]
    exact ⟨a2, rfl, hr2⟩

theorem sep_comma (t : List Nat) : Sep (44 :: t) := by intro c r e; cases e; decide
theorem sep_rparen (t : List Nat) : Sep (41 :: t) := by intro c r e; cases e; decide

theorem printInt_nws (v : Int) (t : List Nat) : NWS (printInt v ++ t) := by
  intro c r e
  by_cases hneg : v < 0
  · simp only [printInt, hneg, ↓reduceIte, List.cons_append] at e; cases e; decide
  · simp only [printInt, hneg, ↓reduceIte] at e
    obtain ⟨d, r', ed, hd⟩ := printNat_head_digit v.toNat
    rw [ed] at e; cases e; simp [isDigit] at hd; simp [isWs]; omega

theorem dEdge_spec (a : AS) (e : EdgeS) (k : List Nat) (hok : e.ok) (hk : NWS k)
    (hr : a.rest = 40 :: (e.ws1 ++ (printInt e.s ++ (e.ws2 ++ (44 :: (e.ws3 ++ (printInt e.t ++ (e.ws4 ++ (41 :: (e.ws5 ++ (condText e.cond ++ (46 :: (e.wsDot ++ k))))))))))))) :
    ∃ a', dEdge a = .ok (.call (.acycEdge e.s e.t (bodyVals e.cond)), a') ∧ a'.rest = k := by
  obtain ⟨_, h1w, h2w, h3w, h4w, h5w, hwd, hc, hs, ht⟩ := hok
  obtain ⟨a1, e1, hr1⟩ := C10_tok a [40] e.ws1 _ true (by rw [hr]; rfl) h1w (printInt_nws e.s _)
  obtain ⟨a2, e2, hr2⟩ := C10_int a1 e.s [] e.ws2 _ (by rw [hr1]; rfl) (by intro c hc'; cases hc') h2w (sep_comma _) hs
  obtain ⟨a3, e3, hr3⟩ := C10_tok a2 [44] e.ws3 _ true (by rw [hr2]; rfl) h3w (printInt_nws e.t _)
  obtain ⟨a4, e4, hr4⟩ := C10_int a3 e.t [] e.ws4 _ (by rw [hr3]; rfl) (by intro c hc'; cases hc') h4w (sep_rparen _) ht
  have hnw5 : NWS (condText e.cond ++ (46 :: (e.wsDot ++ k))) := by
    cases e.cond with
    | none => exact (sep_dot _).nws
    | some b => exact (sep_colon _).nws
  obtain ⟨a5, e5, hr5⟩ := C10_tok a4 [41] e.ws5 _ true (by rw [hr4]; rfl) h5w hnw5
  obtain ⟨a6, e6, hr6⟩ := condition_spec a5 e.cond (46 :: (e.wsDot ++ k)) hc (sep_dot _) (by simp [List.isPrefixOf]) (by simp [List.isPrefixOf]) hr5
  obtain ⟨a7, e7, hr7⟩ := C10_tok a6 [46] e.wsDot k true (by rw [hr6]; rfl) hwd hk
  unfold dEdge
  simp only [bind, Except.bind, e1, e2, e3, e4, e5, e6, e7, pure, Except.pure]
  exact ⟨a7, rfl, hr7⟩


/-! ### statements and programs -/
inductive StmtS where
  | rule (r : RuleS)
  | assume (s : AssumeS)
  | project (s : ProjectS)
  | external (s : ExternalS)
  | edge (s : EdgeS)

def StmtS.text : StmtS → List Nat
  | .rule r => r.text
  | .assume s => s.text
  | .project s => s.text
  | .external s => s.text
  | .edge s => s.text
def StmtS.call : StmtS → Call
  | .rule r => r.call
  | .assume s => .assume (AssumeS.vals s.br)
  | .project s => .project (ProjectS.vals s.br)
  | .external s => .external s.atom.n (ExternalS.value s.val)
  | .edge s => .acycEdge s.s s.t (bodyVals s.cond)
def StmtS.ok : StmtS → Prop
  | .rule r => r.ok
  | .assume s => s.ok
  | .project s => s.ok
  | .external s => s.ok
  | .edge s => s.ok

/-- what a statement may be followed by: nothing, or something that starts like a statement -/
def Follows (k : List Nat) : Prop := k = [] ∨ ∃ c t, k = c :: t ∧ (isLower c = true ∨ c = 123 ∨ c = 58 ∨ c = 35)

theorem Follows.nws {k : List Nat} (h : Follows k) : NWS k := by
  intro c r e
  rcases h with h | ⟨c', t, e', hc⟩
  · rw [h] at e; cases e
  · rw [e'] at e; cases e
    rcases hc with h | h | h | h
    · simp [isLower] at h; simp [isWs]; omega
    · subst h; decide
    · subst h; decide
    · subst h; decide

theorem Follows.no91 {k : List Nat} (h : Follows k) : ([91] : List Nat).isPrefixOf k = false := by
  rcases h with h | ⟨c', t, e', hc⟩
  · rw [h]; rfl
  · rw [e']; simp only [List.isPrefixOf, Bool.and_true]
    rcases hc with h | h | h | h
    · simp [isLower] at h; simp; omega
    · subst h; decide
    · subst h; decide
    · subst h; decide

theorem rule_head (r : RuleS) (hok : r.ok) (k : List Nat) : ∃ c t, r.text ++ k = c :: t ∧ (isLower c = true ∨ c = 123 ∨ c = 58) := by
  obtain ⟨hh, _, _, hne⟩ := hok
  cases hhd : r.head with
  | choice w1 items w2 =>
    have e : r.text ++ k = 123 :: (w1 ++ (atomsText items ++ (125 :: (w2 ++ (bodyText r.body ++ (46 :: (r.wsDot ++ k))))))) := by
      simp [RuleS.text, hhd, HeadS.text]
    exact ⟨123, _, e, Or.inr (Or.inl rfl)⟩
  | disj items =>
    rw [hhd] at hh
    by_cases hi : items = []
    · subst hi
      rw [hhd] at hne
      cases hbody : r.body with
      | none => rw [hbody] at hne; exact absurd hne (by simp)
      | some b =>
        have e : r.text ++ k = 58 :: 45 :: (b.wsArrow ++ (litsText b.items ++ (46 :: (r.wsDot ++ k)))) := by
          simp [RuleS.text, hhd, HeadS.text, atomsText, hbody, bodyText, BodyS.text]
        exact ⟨58, _, e, Or.inr (Or.inr rfl)⟩
    · obtain ⟨c, t, e, hc⟩ := atomsText_head items hi (fun p hp => (hh p hp).1) ((bodyText r.body ++ (46 :: r.wsDot)) ++ k)
      exact ⟨c, t, by simp only [RuleS.text, hhd, HeadS.text, List.append_assoc] at e ⊢; exact e, Or.inl hc⟩

theorem stmt_follows (st : StmtS) (hok : st.ok) (k : List Nat) : Follows (st.text ++ k) := by
  right
  cases st with
  | rule r =>
    obtain ⟨c, t, e, hc⟩ := rule_head r hok k
    exact ⟨c, t, e, by rcases hc with h | h | h; exact Or.inl h; exact Or.inr (Or.inl h); exact Or.inr (Or.inr (Or.inl h))⟩
  | assume s => exact ⟨35, _, rfl, Or.inr (Or.inr (Or.inr rfl))⟩
  | project s => exact ⟨35, _, rfl, Or.inr (Or.inr (Or.inr rfl))⟩
  | external s => exact ⟨35, _, rfl, Or.inr (Or.inr (Or.inr rfl))⟩
  | edge s => exact ⟨35, _, rfl, Or.inr (Or.inr (Or.inr rfl))⟩

/-- one round of the statement loop on a statement -/
theorem stmtLoop_step (inc : Bool) (f : Nat) (a : AS) (acc : List Call) (st : StmtS) (k : List Nat) (hok : st.ok) (hk : NWS k)
    (h91 : ([91] : List Nat).isPrefixOf k = false) (ws : List Nat) (hws : Filler ws) (hr : a.rest = ws ++ (st.text ++ k)) :
    ∃ a', stmtLoop inc (f + 1) a acc = stmtLoop inc f a' (acc ++ [st.call]) ∧ a'.rest = k := by
  have hfol := stmt_follows st hok k
  have hs : a.skipWs.rest = st.text ++ k := skipWs_spec a ws _ hr hws hfol.nws
  have hp1 : (peekWs a).1 = (st.text ++ k).headD 0 := by show a.skipWs.peek = _; unfold AS.peek; rw [hs]
  have hp2 : (peekWs a).2 = a.skipWs := rfl
  cases st with
  | rule r =>
    obtain ⟨c, t, e, hc⟩ := rule_head r hok k
    obtain ⟨a', h, hr'⟩ := C10_rule a.skipWs r k hok hk hs
    have hc0 : ((r.text ++ k).headD 0 == 0) = false ∧ ((r.text ++ k).headD 0 == 46) = false ∧ ((r.text ++ k).headD 0 == 35) = false ∧ ((r.text ++ k).headD 0 == 37) = false := by
      rw [e]
      rcases hc with h | h | h
      · simp [isLower] at h; simp; omega
      · subst h; simp
      · subst h; simp
    simp only [StmtS.text] at hp1
    simp only [stmtLoop, hp1, hp2, hc0.1, hc0.2.1, hc0.2.2.1, hc0.2.2.2, Bool.false_eq_true, ↓reduceIte, h, StmtS.call]
    exact ⟨a', rfl, hr'⟩
  | assume s =>
    obtain ⟨hw0, hwd, hb⟩ := hok
    have hr0 : a.skipWs.rest = kwAssume ++ (s.ws0 ++ (AssumeS.inner s.br ++ (46 :: s.wsDot) ++ k)) := by
      rw [hs]; simp [StmtS.text, AssumeS.text]
    obtain ⟨a1, e1, r1⟩ := alt_absent kwMinimize dMinimize _ a.skipWs (by rw [hr0]; simp [kwMinimize, kwAssume, List.isPrefixOf])
    obtain ⟨a2, e2, r2⟩ := alt_absent kwProject dProject _ a1 (by rw [r1, hr0]; simp [kwProject, kwAssume, List.isPrefixOf])
    obtain ⟨a3, e3, r3⟩ := alt_absent kwOutput dOutput _ a2 (by rw [r2, r1, hr0]; simp [kwOutput, kwAssume, List.isPrefixOf])
    obtain ⟨a4, e4, r4⟩ := alt_absent kwExternal dExternal _ a3 (by rw [r3, r2, r1, hr0]; simp [kwExternal, kwAssume, List.isPrefixOf])
    have hnw : NWS (AssumeS.inner s.br ++ (46 :: s.wsDot) ++ k) := by
      cases s.br with
      | none => exact (sep_dot _).nws
      | some b => intro c r e; simp only [AssumeS.inner, List.cons_append] at e; cases e; decide
    obtain ⟨a5, e5, r5⟩ := alt_present kwAssume dAssume _ a4 s.ws0 _ (by rw [r4, r3, r2, r1, hr0]) hw0 hnw
    obtain ⟨a6, e6, r6⟩ := dAssume_spec a5 s.br s.wsDot k hb hwd hk r5
    have hdir : directive inc a.skipWs = .ok (.call (.assume (AssumeS.vals s.br)), a6) := by
      unfold directive
      rw [show ([35, 109, 105, 110, 105, 109, 105, 122, 101] : List Nat) = kwMinimize from rfl, e1,
          show ([35, 112, 114, 111, 106, 101, 99, 116] : List Nat) = kwProject from rfl, e2,
          show ([35, 111, 117, 116, 112, 117, 116] : List Nat) = kwOutput from rfl, e3,
          show ([35, 101, 120, 116, 101, 114, 110, 97, 108] : List Nat) = kwExternal from rfl, e4,
          show ([35, 97, 115, 115, 117, 109, 101] : List Nat) = kwAssume from rfl, e5, e6]
    have hc : (st_head : Nat) → True := fun _ => trivial
    have h35 : (kwAssume ++ (s.ws0 ++ (AssumeS.inner s.br ++ (46 :: s.wsDot))) ++ k).headD 0 = 35 := by simp [kwAssume]
    simp only [StmtS.text, AssumeS.text] at hp1
    rw [h35] at hp1
    simp only [stmtLoop, hp1, hp2, hdir, StmtS.call]
    exact ⟨a6, by simp, r6⟩
  | project s =>
    obtain ⟨hw0, hwd, hb⟩ := hok
    have hr0 : a.skipWs.rest = kwProject ++ (s.ws0 ++ (ProjectS.inner s.br ++ (46 :: s.wsDot) ++ k)) := by
      rw [hs]; simp [StmtS.text, ProjectS.text]
    obtain ⟨a1, e1, r1⟩ := alt_absent kwMinimize dMinimize _ a.skipWs (by rw [hr0]; simp [kwMinimize, kwProject, List.isPrefixOf])
    have hnw : NWS (ProjectS.inner s.br ++ (46 :: s.wsDot) ++ k) := by
      cases s.br with
      | none => exact (sep_dot _).nws
      | some b => intro c r e; simp only [ProjectS.inner, List.cons_append] at e; cases e; decide
    obtain ⟨a2, e2, r2⟩ := alt_present kwProject dProject _ a1 s.ws0 _ (by rw [r1, hr0]) hw0 hnw
    obtain ⟨a3, e3, r3⟩ := dProject_spec a2 s.br s.wsDot k hb hwd hk r2
    have hdir : directive inc a.skipWs = .ok (.call (.project (ProjectS.vals s.br)), a3) := by
      unfold directive
      rw [show ([35, 109, 105, 110, 105, 109, 105, 122, 101] : List Nat) = kwMinimize from rfl, e1,
          show ([35, 112, 114, 111, 106, 101, 99, 116] : List Nat) = kwProject from rfl, e2, e3]
    have h35 : (kwProject ++ (s.ws0 ++ (ProjectS.inner s.br ++ (46 :: s.wsDot))) ++ k).headD 0 = 35 := by simp [kwProject]
    simp only [StmtS.text, ProjectS.text] at hp1
    rw [h35] at hp1
    simp only [stmtLoop, hp1, hp2, hdir, StmtS.call]
    exact ⟨a3, by simp, r3⟩
  | external s =>
    obtain ⟨hw0, hat, hwd, hv⟩ := hok
    have hr0 : a.skipWs.rest = kwExternal ++ (s.ws0 ++ (s.atom.text ++ (46 :: (s.wsDot ++ (ExternalS.valT s.val ++ k))))) := by
      rw [hs]; simp [StmtS.text, ExternalS.text]
    obtain ⟨a1, e1, r1⟩ := alt_absent kwMinimize dMinimize _ a.skipWs (by rw [hr0]; simp [kwMinimize, kwExternal, List.isPrefixOf])
    obtain ⟨a2, e2, r2⟩ := alt_absent kwProject dProject _ a1 (by rw [r1, hr0]; simp [kwProject, kwExternal, List.isPrefixOf])
    obtain ⟨a3, e3, r3⟩ := alt_absent kwOutput dOutput _ a2 (by rw [r2, r1, hr0]; simp [kwOutput, kwExternal, List.isPrefixOf])
    have hnw : NWS (s.atom.text ++ (46 :: (s.wsDot ++ (ExternalS.valT s.val ++ k)))) := lower_nws (atomItem_head s.atom hat _)
    obtain ⟨a4, e4, r4⟩ := alt_present kwExternal dExternal _ a3 s.ws0 _ (by rw [r3, r2, r1, hr0]) hw0 hnw
    obtain ⟨a5, e5, r5⟩ := dExternal_spec a4 s.atom s.wsDot s.val k hat hwd hv hk h91 r4
    have hdir : directive inc a.skipWs = .ok (.call (.external s.atom.n (ExternalS.value s.val)), a5) := by
      unfold directive
      rw [show ([35, 109, 105, 110, 105, 109, 105, 122, 101] : List Nat) = kwMinimize from rfl, e1,
          show ([35, 112, 114, 111, 106, 101, 99, 116] : List Nat) = kwProject from rfl, e2,
          show ([35, 111, 117, 116, 112, 117, 116] : List Nat) = kwOutput from rfl, e3,
          show ([35, 101, 120, 116, 101, 114, 110, 97, 108] : List Nat) = kwExternal from rfl, e4, e5]
    have h35 : (kwExternal ++ (s.ws0 ++ (s.atom.text ++ (46 :: (s.wsDot ++ ExternalS.valT s.val)))) ++ k).headD 0 = 35 := by simp [kwExternal]
    simp only [StmtS.text, ExternalS.text] at hp1
    rw [h35] at hp1
    simp only [stmtLoop, hp1, hp2, hdir, StmtS.call]
    exact ⟨a5, by simp, r5⟩
  | edge s =>
    have hw0 := hok.1
    have hr0 : a.skipWs.rest = kwEdge ++ (s.ws0 ++ (40 :: (s.ws1 ++ (printInt s.s ++ (s.ws2 ++ (44 :: (s.ws3 ++ (printInt s.t ++ (s.ws4 ++ (41 :: (s.ws5 ++ (condText s.cond ++ (46 :: (s.wsDot ++ k)))))))))))))) := by
      rw [hs]; simp [StmtS.text, EdgeS.text]
    obtain ⟨a1, e1, r1⟩ := alt_absent kwMinimize dMinimize _ a.skipWs (by rw [hr0]; simp [kwMinimize, kwEdge, List.isPrefixOf])
    obtain ⟨a2, e2, r2⟩ := alt_absent kwProject dProject _ a1 (by rw [r1, hr0]; simp [kwProject, kwEdge, List.isPrefixOf])
    obtain ⟨a3, e3, r3⟩ := alt_absent kwOutput dOutput _ a2 (by rw [r2, r1, hr0]; simp [kwOutput, kwEdge, List.isPrefixOf])
    obtain ⟨a4, e4, r4⟩ := alt_absent kwExternal dExternal _ a3 (by rw [r3, r2, r1, hr0]; simp [kwExternal, kwEdge, List.isPrefixOf])
    obtain ⟨a5, e5, r5⟩ := alt_absent kwAssume dAssume _ a4 (by rw [r4, r3, r2, r1, hr0]; simp [kwAssume, kwEdge, List.isPrefixOf])
    obtain ⟨a6, e6, r6⟩ := alt_absent kwHeuristic dHeuristic _ a5 (by rw [r5, r4, r3, r2, r1, hr0]; simp [kwHeuristic, kwEdge, List.isPrefixOf])
    obtain ⟨a7, e7, r7⟩ := alt_present kwEdge dEdge _ a6 s.ws0 _ (by rw [r6, r5, r4, r3, r2, r1, hr0]) hw0 (by intro c r e; cases e; decide)
    obtain ⟨a8, e8, r8⟩ := dEdge_spec a7 s k hok hk r7
    have hdir : directive inc a.skipWs = .ok (.call (.acycEdge s.s s.t (bodyVals s.cond)), a8) := by
      unfold directive
      rw [show ([35, 109, 105, 110, 105, 109, 105, 122, 101] : List Nat) = kwMinimize from rfl, e1,
          show ([35, 112, 114, 111, 106, 101, 99, 116] : List Nat) = kwProject from rfl, e2,
          show ([35, 111, 117, 116, 112, 117, 116] : List Nat) = kwOutput from rfl, e3,
          show ([35, 101, 120, 116, 101, 114, 110, 97, 108] : List Nat) = kwExternal from rfl, e4,
          show ([35, 97, 115, 115, 117, 109, 101] : List Nat) = kwAssume from rfl, e5,
          show ([35, 104, 101, 117, 114, 105, 115, 116, 105, 99] : List Nat) = kwHeuristic from rfl, e6,
          show ([35, 101, 100, 103, 101] : List Nat) = kwEdge from rfl, e7, e8]
    have h35 : (s.text ++ k).headD 0 = 35 := by simp [EdgeS.text, kwEdge]
    simp only [StmtS.text] at hp1
    rw [h35] at hp1
    simp only [stmtLoop, hp1, hp2, hdir, StmtS.call]
    exact ⟨a8, by simp, r8⟩


def progText : List StmtS → List Nat
  | [] => []
  | st :: r => st.text ++ progText r

theorem progText_follows (l : List StmtS) (hok : ∀ st ∈ l, st.ok) : Follows (progText l) := by
  cases l with
  | nil => exact Or.inl rfl
  | cons st r => exact stmt_follows st (hok st (by simp)) (progText r)

theorem skipWs_nil (a : AS) (h : a.rest = []) : a.skipWs.rest = [] :=
  skipWs_spec a [] [] (by simpa using h) (by intro c hc; cases hc) (by intro c r e; cases e)

theorem stmt_text_pos (st : StmtS) (hok : st.ok) : 1 ≤ st.text.length := by
  rcases stmt_follows st hok [] with h | ⟨c, t, e, _⟩
  · simp only [List.append_nil] at h
    cases st <;> simp [StmtS.text, RuleS.text, AssumeS.text, ProjectS.text, ExternalS.text, EdgeS.text, kwAssume, kwProject, kwExternal, kwEdge] at h
  · simp only [List.append_nil] at e; rw [e]; simp

theorem progText_length (l : List StmtS) (hok : ∀ st ∈ l, st.ok) : l.length ≤ (progText l).length := by
  induction l with
  | nil => simp [progText]
  | cons st r ih =>
    have h1 := stmt_text_pos st (hok st (by simp))
    have h2 := ih (fun s hs => hok s (by simp [hs]))
    simp only [progText, List.length_append, List.length_cons]; omega

/-- the statement loop over a whole step -/
theorem stmtLoop_prog (inc : Bool) (stmts : List StmtS) (hok : ∀ st ∈ stmts, st.ok) (f : Nat) (hf : stmts.length < f) (a : AS) (acc : List Call)
    (hr : a.rest = progText stmts) :
    ∃ a', stmtLoop inc f a acc = (acc ++ stmts.map StmtS.call, .ok a') ∧ a'.rest = [] := by
  induction stmts generalizing f a acc with
  | nil =>
    cases f with
    | zero => simp at hf
    | succ f =>
      have hs := skipWs_nil a hr
      have hp : (peekWs a).1 = 0 := by show a.skipWs.peek = 0; unfold AS.peek; rw [hs]; rfl
      simp only [stmtLoop, hp, beq_self_eq_true, ↓reduceIte, List.map_nil, List.append_nil]
      exact ⟨(peekWs a).2, rfl, hs⟩
  | cons st r ih =>
    cases f with
    | zero => simp at hf
    | succ f =>
      obtain ⟨a1, h1, hr1⟩ := stmtLoop_step inc f a acc st (progText r) (hok st (by simp)) (progText_follows r (fun s hs => hok s (by simp [hs]))).nws (progText_follows r (fun s hs => hok s (by simp [hs]))).no91 [] (by intro c hc; cases hc) (by simpa [progText] using hr)
      obtain ⟨a2, h2, hr2⟩ := ih (fun s hs => hok s (by simp [hs])) f (by simp at hf; omega) a1 (acc ++ [st.call]) hr1
      exact ⟨a2, by rw [h1, h2]; simp, hr2⟩

/-- **C10 (programs)**: a program (one step) of facts, integrity constraints, disjunctive and choice rules with normal bodies,
    `#assume`, `#project`, `#external` (with or without a value) and `#edge` statements (with or without a condition), written
    with ANY filler at every optional position, ANY spelling of every atom and ANY separator of the admissible ones in atom
    lists, is read as exactly the corresponding calls, in order, between `initProgram(false)`, `beginStep` and `endStep`,
    without an error. -/
theorem C10_read_program (stmts : List StmtS) (hok : ∀ st ∈ stmts, st.ok) :
    TextIn.read (progText stmts) = { calls := [.initProgram false, .beginStep] ++ stmts.map StmtS.call ++ [.endStep], err := none } := by
  have hfol := progText_follows stmts hok
  have hinit : (AS.init (progText stmts)).rest = progText stmts := rfl
  have hs : (AS.init (progText stmts)).skipWs.rest = progText stmts := skipWs_spec _ [] _ (by simpa using hinit) (by intro c hc; cases hc) hfol.nws
  -- the first character is one the text reader accepts, and is no comment
  have hfirst : (((AS.init (progText stmts)).skipWs.peek == 0 || isLower (AS.init (progText stmts)).skipWs.peek ||
      [46, 35, 37, 123, 58].contains (AS.init (progText stmts)).skipWs.peek) = true) ∧ ((AS.init (progText stmts)).skipWs.peek == 37) = false := by
    unfold AS.peek; rw [hs]
    rcases hfol with h | ⟨c, t, e, hc⟩
    · rw [h]; simp
    · rw [e]
      rcases hc with h | h | h | h
      · simp [isLower] at h; simp [isLower, h]; omega
      · subst h; simp
      · subst h; simp
      · subst h; simp
  -- `#incremental` is not there
  have hninc : ([35, 105, 110, 99, 114, 101, 109, 101, 110, 116, 97, 108] : List Nat).isPrefixOf (progText stmts) = false := by
    cases stmts with
    | nil => rfl
    | cons st r =>
      cases st with
      | rule r0 =>
        obtain ⟨c, t, e, hc⟩ := rule_head r0 (hok (StmtS.rule r0) (by simp)) (progText r)
        simp only [progText, StmtS.text]; rw [e]
        rcases hc with h | h | h
        · simp [isLower] at h; simp [List.isPrefixOf]; omega
        · subst h; simp [List.isPrefixOf]
        · subst h; simp [List.isPrefixOf]
      | assume s => simp [progText, StmtS.text, AssumeS.text, kwAssume, List.isPrefixOf]
      | project s => simp [progText, StmtS.text, ProjectS.text, kwProject, List.isPrefixOf]
      | external s => simp [progText, StmtS.text, ExternalS.text, kwExternal, List.isPrefixOf]
      | edge s => simp [progText, StmtS.text, EdgeS.text, kwEdge, List.isPrefixOf]
  obtain ⟨a2, h2, hr2⟩ := tok_absent (AS.init (progText stmts)).skipWs [35, 105, 110, 99, 114, 101, 109, 101, 110, 116, 97, 108] (by rw [hs]; exact hninc)
  have hatt : attach (AS.init (progText stmts)) = some (.ok (false, a2)) := by
    unfold attach
    have hsc : ∀ f, skipComments f (peekWs (AS.init (progText stmts))).2 = (AS.init (progText stmts)).skipWs := by
      intro f; cases f with
      | zero => rfl
      | succ f => show skipComments (f + 1) (AS.init (progText stmts)).skipWs = _; simp only [skipComments, hfirst.2, Bool.false_eq_true, ↓reduceIte]
    show (if ((AS.init (progText stmts)).skipWs.peek == 0 || isLower (AS.init (progText stmts)).skipWs.peek ||
        [46, 35, 37, 123, 58].contains (AS.init (progText stmts)).skipWs.peek) = true then _ else none) = _
    rw [if_pos hfirst.1]
    simp only [hsc, h2]
  obtain ⟨a3, h3, hr3⟩ := stmtLoop_prog false stmts hok (a2.rest.length + 1) (by
    rw [hr2, hs]; have := progText_length stmts hok; omega) a2 [] (by rw [hr2, hs])
  have hmore : AspifIn.more a3 = (false, a3.skipWs) := by
    unfold AspifIn.more
    have := skipWs_nil a3 hr3
    simp only [AS.peek, this]; rfl
  unfold TextIn.read
  simp only [hatt, stepsLoop, h3, hmore, Bool.false_eq_true, Bool.false_and, ↓reduceIte, List.nil_append, List.append_assoc, List.cons_append]

end PotasscoVerif.C10

namespace PotasscoVerif.C10
/-! non-vacuity: `a ;b :- not x_3.`␤`{c}.`␤`#external d. [true]`␤`#edge(-1,2) : a.` — every statement kind, with fillers -/
instance (ws : List Nat) : Decidable (Filler ws) := by unfold Filler; infer_instance
instance (s : Nat) : Decidable (IsSep s) := by unfold IsSep; infer_instance

def exProg : List StmtS :=
  [ .rule { head := .disj [(⟨1, .letter, [32]⟩, 59, []), (⟨2, .letter, [32]⟩, 59, [])],
            body := some ⟨[32], [(⟨true, 3, .x_, [], []⟩, [])]⟩, wsDot := [10] },
    .rule { head := .choice [] [(⟨3, .letter, []⟩, 59, [])] [], body := none, wsDot := [10] },
    .external { ws0 := [32], atom := ⟨4, .letter, []⟩, wsDot := [32], val := some ⟨[], 1, [], [10]⟩ },
    .edge { ws0 := [], ws1 := [], s := -1, ws2 := [], ws3 := [], t := 2, ws4 := [], ws5 := [32], cond := some ⟨[32], [(⟨false, 1, .letter, [], []⟩, [])]⟩, wsDot := [] } ]

example : ∀ st ∈ exProg, st.ok := by
  intro st hst
  simp only [exProg, List.mem_cons, List.not_mem_nil, or_false] at hst
  rcases hst with h | h | h | h <;> subst h
  · refine ⟨?_, by decide, ⟨by decide, ?_⟩, trivial⟩
    · intro p hp
      simp only [List.mem_cons, List.not_mem_nil, or_false] at hp
      rcases hp with h | h <;> subst h <;> exact ⟨⟨by simp [Spelling.ok], by decide⟩, Or.inl rfl, by decide, by decide⟩
    · intro p hp
      simp only [List.mem_singleton] at hp; subst hp
      exact ⟨⟨by simp [Spelling.ok], by decide, by decide⟩, by decide⟩
  · refine ⟨⟨by decide, by decide, ?_⟩, by decide, trivial, trivial⟩
    intro p hp
    simp only [List.mem_singleton] at hp; subst hp
    exact ⟨⟨by simp [Spelling.ok], by decide⟩, Or.inl rfl, by decide, by decide⟩
  · exact ⟨by decide, ⟨by simp [Spelling.ok], by decide⟩, by decide, by decide, by decide, by decide, by decide⟩
  · refine ⟨by decide, by decide, by decide, by decide, by decide, by decide, by decide, ⟨by decide, ?_⟩, by decide, by decide⟩
    intro p hp
    simp only [List.mem_singleton] at hp; subst hp
    exact ⟨⟨by simp [Spelling.ok], by decide, by decide⟩, by decide⟩

example : (TextIn.read (progText exProg)).calls =
    [.initProgram false, .beginStep, .rule 0 [1, 2] [-3], .rule 1 [3] [], .external 4 1, .acycEdge (-1) 2 [1], .endStep] := by decide +kernel
end PotasscoVerif.C10
