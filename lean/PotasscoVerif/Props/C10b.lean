/-
  C10 (continued) — whole statements and programs.
  Atom lists, rules with normal bodies (facts, integrity constraints, disjunctions, choices), `#assume`, `#project`,
  `#external`, `#edge`, and programs made of such statements: printed with ANY filler (blanks, tabs, line breaks) at every
  optional position and ANY spelling of every atom, the reader model delivers exactly the statements written.
-/
import PotasscoVerif.Props.C10
namespace PotasscoVerif.C10
open PotasscoVerif PotasscoVerif.CharStream PotasscoVerif.TextIn PotasscoVerif.Decimal PotasscoVerif.AspifOut
open PotasscoVerif.BufferedStream (isDigit isWs I64MAX)

/-! ### atom lists -/
structure AtomItem where
  n       : Nat
  sp      : Spelling
  wsAfter : List Nat
deriving Repr, DecidableEq

def AtomItem.lit (i : AtomItem) : LitItem := { neg := false, n := i.n, sp := i.sp, wsNot := [], wsAfter := i.wsAfter }
def AtomItem.ok (i : AtomItem) : Prop := i.sp.ok i.n ∧ Filler i.wsAfter
def AtomItem.text (i : AtomItem) : List Nat := i.sp.text i.n ++ i.wsAfter

theorem AtomItem.lit_text (i : AtomItem) : i.lit.text = i.text := by simp [AtomItem.lit, LitItem.text, AtomItem.text]
theorem AtomItem.lit_ok (i : AtomItem) (h : i.ok) : i.lit.ok := ⟨h.1, (by intro c hc; cases hc), h.2⟩
theorem AtomItem.lit_val (i : AtomItem) : i.lit.val = (i.n : Int) := by simp [AtomItem.lit, LitItem.val]

/-- a separator character of atom lists -/
def IsSep (s : Nat) : Prop := s = 59 ∨ s = 124 ∨ s = 44

/-- atoms, each followed by the separator printed after it (ignored for the last one) and the filler behind the separator -/
def atomsText : List (AtomItem × Nat × List Nat) → List Nat
  | [] => []
  | [(i, _, _)] => i.text
  | (i, s, w) :: rest => i.text ++ (s :: (w ++ atomsText rest))

theorem atomItem_head (i : AtomItem) (hok : i.ok) (t : List Nat) : ∃ c r, i.text ++ t = c :: r ∧ isLower c = true := by
  have := litItem_head i.lit (i.lit_ok hok) t
  rwa [i.lit_text] at this

theorem atomsText_head (items : List (AtomItem × Nat × List Nat)) (hne : items ≠ []) (hok : ∀ p ∈ items, p.1.ok) (t : List Nat) :
    ∃ c r, atomsText items ++ t = c :: r ∧ isLower c = true := by
  cases items with
  | nil => exact absurd rfl hne
  | cons p rest =>
    obtain ⟨i, s, w⟩ := p
    cases rest with
    | nil => simp only [atomsText]; exact atomItem_head i (hok (i, s, w) (by simp)) t
    | cons q rest' =>
      simp only [atomsText, List.append_assoc]
      exact atomItem_head i (hok (i, s, w) (by simp)) _

/-- what may follow an atom list: a character that is no separator of the list, no blank, not the end -/
def EndsList (seps : List Nat) (k : List Nat) : Prop := Sep k ∧ ∃ c r, k = c :: r ∧ seps.contains c = false ∧ c ≠ 0

theorem atomsLoop_spec (seps : List Nat) (items : List (AtomItem × Nat × List Nat)) (hne : items ≠ [])
    (hok : ∀ p ∈ items, p.1.ok ∧ IsSep p.2.1 ∧ seps.contains p.2.1 = true ∧ Filler p.2.2)
    (k : List Nat) (hk : EndsList seps k) (f : Nat) (hf : items.length < f) (a : AS) (acc : List Nat)
    (hr : a.rest = atomsText items ++ k) :
    ∃ a', atomsLoop seps f a acc = .ok (acc ++ items.map (fun p => p.1.n), a') ∧ a'.rest = k := by
  induction items generalizing f a acc with
  | nil => exact absurd rfl hne
  | cons p rest ih =>
    obtain ⟨i, s, w⟩ := p
    obtain ⟨hi, hs, hsc, hw⟩ := hok (i, s, w) (by simp)
    have hn1 : 1 ≤ i.n := by
      have := hi.1; cases hsp : i.sp <;> rw [hsp] at this <;> simp only [Spelling.ok] at this <;> omega
    cases f with
    | zero => simp at hf
    | succ f =>
      have hpos : ¬ ((i.n : Int) ≤ 0) := by omega
      cases rest with
      | nil =>
        simp only [atomsText] at hr
        obtain ⟨a1, h1, hr1⟩ := C10_lit a i.lit k (i.lit_ok hi) (by rw [i.lit_text]; exact hr) hk.1
        obtain ⟨c, r, ek, hc1, hc2⟩ := hk.2
        have hpk : a1.peek = c := by unfold AS.peek; rw [hr1, ek]; rfl
        have hc0 : (c == 0) = false := by simpa using hc2
        simp only [atomsLoop, h1, i.lit_val, hpos, ↓reduceIte, hpk, hc1, hc0, Bool.or_self, Bool.false_eq_true, Int.toNat_natCast]
        exact ⟨a1, by simp, hr1⟩
      | cons q rest' =>
        simp only [atomsText, List.append_assoc, List.cons_append] at hr
        have hsep : Sep (s :: (w ++ (atomsText (q :: rest') ++ k))) := by
          intro c r e; cases e
          rcases hs with h | h | h <;> subst h <;> decide
        obtain ⟨a1, h1, hr1⟩ := C10_lit a i.lit _ (i.lit_ok hi) (by rw [i.lit_text]; exact hr) hsep
        have hpk : a1.peek = s := by unfold AS.peek; rw [hr1]; rfl
        have hs0 : s ≠ 0 ∧ s ≠ 13 ∧ s ≠ 10 := by rcases hs with h | h | h <;> subst h <;> decide
        have hg := get_plain a1 s _ hr1 hs0.1 hs0.2.1 hs0.2.2
        have hsb : (s != 0) = true := by simpa using hs0.1
        have hnext := atomsText_head (q :: rest') (by simp) (fun p hp => (hok p (by simp [hp])).1) k
        have hsk : (AS.skipWs { rest := w ++ (atomsText (q :: rest') ++ k), line := a1.line, canUnget := true }).rest = atomsText (q :: rest') ++ k :=
          skipWs_spec _ w _ rfl hw (lower_nws hnext)
        simp only [atomsLoop, h1, i.lit_val, hpos, ↓reduceIte, hpk, hsc, Bool.true_or, hg, hsb, Int.toNat_natCast]
        obtain ⟨a3, h3, hr3⟩ := ih (by simp) (fun p hp => hok p (by simp [hp])) f (by simp at hf ⊢; omega) _ (acc ++ [i.n]) hsk
        exact ⟨a3, by rw [h3]; simp, hr3⟩

theorem atomsText_length (items : List (AtomItem × Nat × List Nat)) (hok : ∀ p ∈ items, p.1.ok) : items.length ≤ (atomsText items).length := by
  induction items with
  | nil => simp
  | cons p rest ih =>
    obtain ⟨i, s, w⟩ := p
    obtain ⟨c', r', e', _⟩ := atomItem_head i (hok (i, s, w) (by simp)) []
    have hl : 1 ≤ i.text.length := by
      have : (i.text ++ []).length = (c' :: r').length := by rw [e']
      simp at this; omega
    cases rest with
    | nil => simp [atomsText]; omega
    | cons q rest' =>
      have := ih (fun p hp => hok p (by simp [hp]))
      simp only [atomsText, List.length_append, List.length_cons] at this ⊢
      omega

/-- **C10 (atom lists)**: atoms in any spelling, separated by any of the list's separators with any filler around them,
    are read as exactly that list; an empty list (the continuation does not start with a letter) is read as empty -/
theorem C10_atoms (seps : List Nat) (a : AS) (items : List (AtomItem × Nat × List Nat))
    (hok : ∀ p ∈ items, p.1.ok ∧ IsSep p.2.1 ∧ seps.contains p.2.1 = true ∧ Filler p.2.2)
    (k : List Nat) (hk : EndsList seps k) (hr : a.rest = atomsText items ++ k) :
    ∃ a', atoms seps a = .ok (items.map (fun p => p.1.n), a') ∧ a'.rest = k := by
  unfold atoms peekWs
  by_cases hne : items = []
  · subst hne
    simp only [atomsText, List.nil_append] at hr
    have hs : a.skipWs.rest = k := skipWs_spec a [] k (by simpa using hr) (by intro c hc; cases hc) hk.1.nws
    obtain ⟨c, r, ek, _, _⟩ := hk.2
    have hpk : a.skipWs.peek = c := by unfold AS.peek; rw [hs, ek]; rfl
    have hl : isLower c = false := (hk.1 c r ek).2.2.1
    simp only [hpk, hl, Bool.false_eq_true, ↓reduceIte, List.map_nil]
    exact ⟨_, rfl, hs⟩
  · have hhead := atomsText_head items hne (fun p hp => (hok p hp).1) k
    have hs : a.skipWs.rest = atomsText items ++ k := skipWs_spec a [] _ (by simpa using hr) (by intro c hc; cases hc) (lower_nws hhead)
    obtain ⟨c, r, e, hc⟩ := hhead
    have hpk : a.skipWs.peek = c := by unfold AS.peek; rw [hs, e]; rfl
    simp only [hpk, hc, ↓reduceIte]
    have hlen : items.length < a.skipWs.rest.length + 1 := by
      rw [hs]; have := atomsText_length items (fun p hp => (hok p hp).1); simp; omega
    obtain ⟨a', h, hr'⟩ := atomsLoop_spec seps items hne hok k hk _ hlen a.skipWs [] hs
    exact ⟨a', by simpa using h, hr'⟩


/-! ### literal lists that may be empty -/
theorem lits_gen (a : AS) (items : List (LitItem × List Nat)) (hok : ∀ p ∈ items, p.1.ok ∧ Filler p.2)
    (k : List Nat) (hk : Sep k) (hk44 : ([44] : List Nat).isPrefixOf k = false) (hr : a.rest = litsText items ++ k) :
    ∃ a', lits a = .ok (items.map (fun p => p.1.val), a') ∧ a'.rest = k := by
  by_cases hne : items = []
  · subst hne
    simp only [litsText, List.nil_append] at hr
    have hs : a.skipWs.rest = k := skipWs_spec a [] k (by simpa using hr) (by intro c hc; cases hc) hk.nws
    unfold lits peekWs
    have hl : isLower a.skipWs.peek = false := by
      unfold AS.peek; rw [hs]
      cases k with
      | nil => simp [isLower]
      | cons c r => simpa using (hk c r rfl).2.2.1
    simp only [hl, Bool.false_eq_true, ↓reduceIte, List.map_nil]
    exact ⟨_, rfl, hs⟩
  · exact C10_lits a items hne hok k hk hk44 hr

/-! ### rules with normal bodies -/
inductive HeadS where
  | disj (items : List (AtomItem × Nat × List Nat))
  | choice (wsOpen : List Nat) (items : List (AtomItem × Nat × List Nat)) (wsClose : List Nat)

structure BodyS where
  wsArrow : List Nat
  items   : List (LitItem × List Nat)

structure RuleS where
  head  : HeadS
  body  : Option BodyS
  wsDot : List Nat

def HeadS.text : HeadS → List Nat
  | .disj items => atomsText items
  | .choice w1 items w2 => 123 :: (w1 ++ (atomsText items ++ (125 :: w2)))
def HeadS.ht : HeadS → Nat
  | .disj _ => 0
  | .choice _ _ _ => 1
def HeadS.atoms : HeadS → List Nat
  | .disj items => items.map (fun p => p.1.n)
  | .choice _ items _ => items.map (fun p => p.1.n)
def HeadS.ok : HeadS → Prop
  | .disj items => ∀ p ∈ items, p.1.ok ∧ IsSep p.2.1 ∧ [59, 124].contains p.2.1 = true ∧ Filler p.2.2
  | .choice w1 items w2 => Filler w1 ∧ Filler w2 ∧ ∀ p ∈ items, p.1.ok ∧ IsSep p.2.1 ∧ [59, 44].contains p.2.1 = true ∧ Filler p.2.2

def BodyS.text (b : BodyS) : List Nat := 58 :: 45 :: (b.wsArrow ++ litsText b.items)
def BodyS.ok (b : BodyS) : Prop := Filler b.wsArrow ∧ ∀ p ∈ b.items, p.1.ok ∧ Filler p.2

def bodyText : Option BodyS → List Nat
  | some b => b.text
  | none => []
def bodyVals : Option BodyS → List Int
  | some b => b.items.map (fun p => p.1.val)
  | none => []
def bodyOk : Option BodyS → Prop
  | some b => b.ok
  | none => True

def RuleS.text (r : RuleS) : List Nat := r.head.text ++ (bodyText r.body ++ (46 :: r.wsDot))
def RuleS.call (r : RuleS) : Call := .rule r.head.ht r.head.atoms (bodyVals r.body)
/-- a statement that is just `.` is not a rule: a disjunctive head without atoms needs a body -/
def RuleS.ok (r : RuleS) : Prop :=
  r.head.ok ∧ Filler r.wsDot ∧ bodyOk r.body ∧ (match r.head, r.body with | .disj [], none => False | _, _ => True)

theorem sep_colon (t : List Nat) : Sep (58 :: t) := by intro c r e; cases e; decide
theorem sep_dot (t : List Nat) : Sep (46 :: t) := by intro c r e; cases e; decide
theorem sep_rbrace (t : List Nat) : Sep (125 :: t) := by intro c r e; cases e; decide

theorem tail_after_head (r : RuleS) (k : List Nat) :
    ∃ c t, bodyText r.body ++ (46 :: r.wsDot) ++ k = c :: t ∧ (c = 58 ∨ c = 46) := by
  cases r.body with
  | none => exact ⟨46, _, rfl, Or.inr rfl⟩
  | some b => exact ⟨58, 45 :: (b.wsArrow ++ litsText b.items) ++ (46 :: r.wsDot) ++ k, by simp [bodyText, BodyS.text], Or.inl rfl⟩

/-- the body and the final dot -/
theorem ruleBody_spec (ht : Nat) (hd : List Nat) (a : AS) (body : Option BodyS) (wsDot k : List Nat)
    (hb : bodyOk body) (hwd : Filler wsDot) (hk : NWS k) (hr : a.rest = bodyText body ++ (46 :: wsDot) ++ k) :
    ∃ a', ruleBody ht hd a = .ok (.rule ht hd (bodyVals body), a') ∧ a'.rest = k := by
  cases body with
  | none =>
    simp only [bodyText, List.nil_append, List.cons_append] at hr
    obtain ⟨a1, h1, hr1⟩ := tok_absent a [58, 45] (by rw [hr]; simp [List.isPrefixOf])
    obtain ⟨a2, h2, hr2⟩ := C10_tok a1 [46] wsDot k true (by rw [hr1, hr]; rfl) hwd hk
    unfold ruleBody
    simp only [bind, Except.bind, h1, Bool.false_eq_true, ↓reduceIte, h2, pure, Except.pure]
    exact ⟨a2, rfl, hr2⟩
  | some b =>
    obtain ⟨hwa, hit⟩ := hb
    simp only [bodyText, BodyS.text, List.cons_append, List.append_assoc] at hr
    have hnext : NWS (litsText b.items ++ (46 :: (wsDot ++ k))) := by
      by_cases hne : b.items = []
      · rw [hne]; simp only [litsText, List.nil_append]; exact (sep_dot _).nws
      · exact lower_nws (litsText_head b.items hne hit _)
    obtain ⟨a1, h1, hr1⟩ := C10_tok a [58, 45] b.wsArrow _ false (by rw [hr]; rfl) hwa hnext
    -- the first character behind `:-` decides between a normal body and an aggregate
    have hs : a1.skipWs.rest = litsText b.items ++ (46 :: (wsDot ++ k)) := skipWs_spec a1 [] _ (by simpa using hr1) (by intro c hc; cases hc) hnext
    have hpk : isDigit a1.skipWs.peek = false ∧ (a1.skipWs.peek == 45) = false := by
      unfold AS.peek; rw [hs]
      by_cases hne : b.items = []
      · rw [hne]; simp [litsText, isDigit]
      · obtain ⟨c, t, e, hc⟩ := litsText_head b.items hne hit (46 :: (wsDot ++ k))
        rw [e]; simp [isLower] at hc; simp [isDigit]; constructor <;> omega
    obtain ⟨a2, h2, hr2⟩ := lits_gen a1.skipWs b.items hit (46 :: (wsDot ++ k)) (sep_dot _) (by simp [List.isPrefixOf]) hs
    obtain ⟨a3, h3, hr3⟩ := C10_tok a2 [46] wsDot k true (by rw [hr2]; rfl) hwd hk
    have hcond : (!isDigit (peekWs a1).1 && (peekWs a1).1 != 45) = true := by
      show (!isDigit a1.skipWs.peek && a1.skipWs.peek != 45) = true
      rw [hpk.1]; simp only [Bool.not_false, Bool.true_and, bne_iff_ne, ne_eq]
      simpa using hpk.2
    have hp2 : (peekWs a1).2 = a1.skipWs := rfl
    unfold ruleBody
    simp only [bind, Except.bind, h1, ↓reduceIte, hcond, hp2, h2, h3, pure, Except.pure]
    exact ⟨a3, by simp [bodyVals], hr3⟩

/-- **C10 (rules)**: a fact, integrity constraint, disjunctive or choice rule with a normal body, in any layout and spelling,
    is read as exactly that rule; `c` is the character the statement starts with -/
theorem C10_rule (a : AS) (r : RuleS) (k : List Nat) (hok : r.ok) (hk : NWS k) (hr : a.rest = r.text ++ k) :
    ∃ a', rule ((r.text ++ k).headD 0) a = .ok (r.call, a') ∧ a'.rest = k := by
  obtain ⟨hh, hwd, hb, hne⟩ := hok
  obtain ⟨c0, t0, et, hc0⟩ := tail_after_head r k
  have hends : ∀ seps : List Nat, (seps = [59, 124] ∨ seps = [59, 44]) → EndsList seps (bodyText r.body ++ (46 :: r.wsDot) ++ k) := by
    intro seps hs
    rw [et]
    refine ⟨?_, c0, t0, rfl, ?_, ?_⟩
    · rcases hc0 with h | h <;> subst h
      · exact sep_colon _
      · exact sep_dot _
    · rcases hs with h | h <;> subst h <;> rcases hc0 with h | h <;> subst h <;> decide
    · rcases hc0 with h | h <;> subst h <;> decide
  unfold rule RuleS.call
  cases hhd : r.head with
  | disj items =>
    rw [hhd] at hh
    simp only [HeadS.ok] at hh
    have hr' : a.rest = atomsText items ++ (bodyText r.body ++ (46 :: r.wsDot) ++ k) := by
      rw [hr]; simp [RuleS.text, hhd, HeadS.text]
    -- the first character: a letter (atom) or ':' (no atoms)
    have hfirst : ((r.text ++ k).headD 0 == 123) = false := by
      have : r.text ++ k = atomsText items ++ (bodyText r.body ++ (46 :: r.wsDot) ++ k) := by
        simp [RuleS.text, hhd, HeadS.text]
      rw [this]
      by_cases hi : items = []
      · subst hi
        rw [hhd] at hne
        cases hbody : r.body with
        | none => rw [hbody] at hne; exact absurd hne (by simp)
        | some b => simp [atomsText, bodyText, BodyS.text]
      · obtain ⟨c, t, e, hc⟩ := atomsText_head items hi (fun p hp => (hh p hp).1) (bodyText r.body ++ (46 :: r.wsDot) ++ k)
        rw [e]; simp [isLower] at hc; simp; omega
    obtain ⟨a1, h1, hr1⟩ := C10_atoms [59, 124] a items hh _ (hends _ (Or.inl rfl)) hr'
    obtain ⟨a2, h2, hr2⟩ := ruleBody_spec 0 (items.map (fun p => p.1.n)) a1 r.body r.wsDot k hb hwd hk hr1
    unfold ruleHead
    simp only [hfirst, Bool.false_eq_true, ↓reduceIte, bind, Except.bind, h1, pure, Except.pure, h2, HeadS.ht, HeadS.atoms]
    exact ⟨a2, rfl, hr2⟩
  | choice w1 items w2 =>
    rw [hhd] at hh
    simp only [HeadS.ok] at hh
    obtain ⟨hw1, hw2, hit⟩ := hh
    have hr' : a.rest = [123] ++ (w1 ++ (atomsText items ++ (125 :: (w2 ++ (bodyText r.body ++ (46 :: r.wsDot) ++ k))))) := by
      rw [hr]; simp [RuleS.text, hhd, HeadS.text]
    have hfirst : ((r.text ++ k).headD 0 == 123) = true := by simp [RuleS.text, hhd, HeadS.text]
    have hnw : NWS (atomsText items ++ (125 :: (w2 ++ (bodyText r.body ++ (46 :: r.wsDot) ++ k)))) := by
      by_cases hi : items = []
      · subst hi; simp only [atomsText, List.nil_append]; exact (sep_rbrace _).nws
      · exact lower_nws (atomsText_head items hi (fun p hp => (hit p hp).1) _)
    obtain ⟨a1, h1, hr1⟩ := C10_tok a [123] w1 _ true hr' hw1 hnw
    have hend : EndsList [59, 44] (125 :: (w2 ++ (bodyText r.body ++ (46 :: r.wsDot) ++ k))) :=
      ⟨sep_rbrace _, 125, _, rfl, by decide, by decide⟩
    obtain ⟨a2, h2, hr2⟩ := C10_atoms [59, 44] a1 items hit _ hend hr1
    have hnw2 : NWS (bodyText r.body ++ (46 :: r.wsDot) ++ k) := by
      rw [et]; rcases hc0 with h | h <;> subst h
      · exact (sep_colon _).nws
      · exact (sep_dot _).nws
    obtain ⟨a3, h3, hr3⟩ := C10_tok a2 [125] w2 _ true (by rw [hr2]; rfl) hw2 hnw2
    obtain ⟨a4, h4, hr4⟩ := ruleBody_spec 1 (items.map (fun p => p.1.n)) a3 r.body r.wsDot k hb hwd hk hr3
    unfold ruleHead
    simp only [hfirst, ↓reduceIte, bind, Except.bind, h1, h2, h3, pure, Except.pure, h4, HeadS.ht, HeadS.atoms]
    exact ⟨a4, rfl, hr4⟩

end PotasscoVerif.C10
