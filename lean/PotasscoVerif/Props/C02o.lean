/-
  C02 (continued) — several incremental steps, the shown symbols.
  `C02_steps_equivalence`: for incremental programs of ANY number of steps (rules, minimize, output, edge directives; no external directives, either
  setting of the extension), the program given so far and the program emitted so far have the same answer sets one to one under the converter's atom
  map (`C02_steps_stable_models`, same extension `E`), and under corresponding answer sets exactly the same symbol names are shown — over the output
  directives of ALL steps (an output directive emitted in step 1 keeps standing for its condition in every later step: `KO`, Lemmas/ConvertStepsOut).
  `C02_steps_outputs`: the invariant itself, also with the extension on and any external directives.
-/
import PotasscoVerif.Props.C02m
import PotasscoVerif.Lemmas.ConvertStepsOut
namespace PotasscoVerif.C02
open PotasscoVerif PotasscoVerif.Convert PotasscoVerif.Asp

/-- **C02 (several steps, output directives)**: after any number of steps (no heuristic directives; no external directives, or the extension on)
    all rules emitted are a translation of all rules given (`J`), and the output directives emitted are exactly those given (`KO`): each given one has
    an emitted one under the same name on an atom that stands for its condition, and each emitted one comes from a given one -/
theorem C02_steps_outputs (ext : Bool) (dss : List (List Call)) (hx : ∀ ds ∈ dss, ∀ d ∈ ds, PlainOk d)
    (hnh : ∀ ds ∈ dss, ∀ d ∈ ds, isHeu d = false) (hE : (∀ ds ∈ dss, extCalls ds = []) ∨ ext = true) :
    ∃ defs, J (convert ext (stepsCalls dss)) ((rulesOf dss.flatten).filter kept) defs ∧
      KO (convert ext (stepsCalls dss)) (srcOuts dss.flatten) defs := by
  have a1 : J (CS.apply { ext := ext } (.initProgram true)) [] [] := by
    rw [apply_init _ rfl]; exact (J.init ext).emit _ rfl
  have d1 : XI (CS.apply { ext := ext } (.initProgram true)) {} := by
    rw [apply_init _ rfl]; exact (XI.init ext).emit _
  have k1 : KO (CS.apply { ext := ext } (.initProgram true)) [] [] := by
    rw [apply_init _ rfl]
    exact ⟨rfl, rfl, (by intro o ho; cases ho), (by intro p hp; simp [CS.emit, outsOf, outOf] at hp)⟩
  have hE' : (∀ ds ∈ dss, extCalls ds = []) ∨ (CS.apply { ext := ext } (.initProgram true)).ext = true := by
    rcases hE with h | h
    · exact Or.inl h
    · right; rw [apply_init _ rfl]; exact h
  obtain ⟨defs, t, hj, _, _, hko⟩ := steps_JXO dss hx hnh a1 d1 rfl k1 hE'
  rw [List.nil_append] at hj hko
  rw [convert_steps_eq]
  exact ⟨defs, hj, hko⟩

/-- **C02 (several steps, answer sets and shown symbols)** -/
theorem C02_steps_equivalence (ext : Bool) (dss : List (List Call)) (hx : ∀ ds ∈ dss, ∀ d ∈ ds, PlainOk d)
    (hnh : ∀ ds ∈ dss, ∀ d ∈ ds, isHeu d = false) (hE : ∀ ds ∈ dss, extCalls ds = []) :
    ∃ E : I → I,
      (∀ X, Stable (rulesOf dss.flatten) X →
        Stable (rulesOf (convert ext (stepsCalls dss)).out) (E X) ∧ E X 1 = false ∧ restrict (convert ext (stepsCalls dss)) (E X) = X) ∧
      (∀ X', Stable (rulesOf (convert ext (stepsCalls dss)).out) X' → X' 1 = false →
        Stable (rulesOf dss.flatten) (restrict (convert ext (stepsCalls dss)) X') ∧ E (restrict (convert ext (stepsCalls dss)) X') = X') ∧
      (∀ X name, shown dss.flatten X name ↔ shownOut (convert ext (stepsCalls dss)).out (E X) name) := by
  obtain ⟨defs, hj, hko⟩ := C02_steps_outputs ext dss hx hnh (Or.inl hE)
  have ok := ctx_ok hj
  have tr := ctx_trans hj
  refine ⟨fun X => (ctxOf (convert ext (stepsCalls dss)) defs).E X X, ?_, ?_, ?_⟩
  · intro X hs
    have hs' := (stable_filter_kept _ X).mpr hs
    obtain ⟨h1, h2, h3⟩ := translation_stable ok tr hs'
    refine ⟨h1, h2, ?_⟩
    rw [restrict_eq _ hj.inv defs]; exact h3
  · intro X' hs h1
    obtain ⟨h2, h3⟩ := translation_stable_back ok tr X' hs h1
    rw [restrict_eq _ hj.inv defs]
    exact ⟨(stable_filter_kept _ _).mp h2, h3.symm⟩
  · intro X name
    unfold shown shownOut
    constructor
    · rintro ⟨cond, hm, hb⟩
      obtain ⟨n, hn, hrep⟩ := hko.fwd (name, cond) hm
      exact ⟨[(n : Int)], hn, by rw [rep_val hj X n cond hrep]; exact hb⟩
    · rintro ⟨c', hm, hb⟩
      obtain ⟨n, cond, e, hc, hrep⟩ := hko.bwd (name, c') hm
      simp only at e hc
      subst e
      exact ⟨cond, hc, by rw [← rep_val hj X n cond hrep]; exact hb⟩

/-- the translation statement of `C02_steps_stable_models_ext` for a GIVEN table of auxiliary atoms (so that other invariants over the same table can be
    used with it): with the extension on, the rules given in all steps plus the reading of all external directives translate to the rules emitted plus the
    reading of the external calls emitted -/
theorem steps_trans_ext_of (dss : List (List Call)) (hx : ∀ ds ∈ dss, ∀ d ∈ ds, PlainOk d) {defs : List (Nat × Body)}
    (hj : J (convert true (stepsCalls dss)) ((rulesOf dss.flatten).filter kept) defs) :
    Trans (ctxOf (convert true (stepsCalls dss)) defs) ((rulesOf dss.flatten).filter kept ++ extRules dss.flatten) (progOf (convert true (stepsCalls dss)).out) := by
  have tr := ctx_trans hj
  have ok := ctx_ok hj
  have a1 : J (CS.apply { ext := true } (.initProgram true)) [] [] := by
    rw [apply_init _ rfl]; exact (J.init true).emit _ rfl
  have d1 : XI (CS.apply { ext := true } (.initProgram true)) {} := by
    rw [apply_init _ rfl]; exact (XI.init true).emit _
  have he : (CS.apply { ext := true } (.initProgram true)).ext = true := by rw [apply_init _ rfl]; rfl
  have hE := C02_steps_externals dss hx
  have hdom : ∀ p ∈ stepRegs {} dss, p.1 ∈ (ctxOf (convert true (stepsCalls dss)) defs).dom := by
    intro p hp
    have := steps_regs_dom dss hx a1 d1 rfl he p hp
    rw [← convert_steps_eq] at this
    exact this
  have hH : ∀ b ∈ (({} : T).run dss.flatten).heads, b ∈ headsOf dss.flatten := by
    intro b hb; rw [run_heads] at hb; simpa using hb
  have hatoms : ((stepRegs {} dss).map (·.1)).filter (fun a => !(headsOf dss.flatten).contains a)
      = ((extCalls dss.flatten).map (·.1)).filter (fun a => !(headsOf dss.flatten).contains a) := by
    rw [(stepRegs_atoms dss {} rfl).1]
    have := run_regs dss.flatten {} (headsOf dss.flatten) hH
    simpa using this
  have hlast : ∀ a, a ∈ (stepRegs {} dss).map (·.1) → (headsOf dss.flatten).contains a = false → lastOf (stepRegs {} dss) a = lastOf (extCalls dss.flatten) a := by
    intro a _ hc
    exact stepRegs_last dss {} rfl (headsOf dss.flatten) hH a (by simpa using hc)
  have hhd : ∀ p ∈ stepRegs {} dss, (headsOf dss.flatten).contains p.1 = true ↔ ∃ r ∈ (rulesOf dss.flatten).filter kept, p.1 ∈ r.head := by
    intro p _
    rw [List.contains_iff_mem]
    exact headsOf_mem dss.flatten p.1
  have hout := extRules_out_steps (ctxOf (convert true (stepsCalls dss)) defs) ok _ _ tr (stepRegs {} dss) (extCalls dss.flatten) (headsOf dss.flatten)
    hdom hE hhd hatoms hlast
  rw [← extRules_eq] at hout
  have hQ : ∀ r ∈ extRules dss.flatten, (∀ a ∈ r.head, a ∈ (ctxOf (convert true (stepsCalls dss)) defs).dom) ∧
      (∀ a ∈ r.body.atoms, a ∈ (ctxOf (convert true (stepsCalls dss)) defs).dom) ∧ r.body.Ok := by
    have heff : ∀ a ∈ ((extCalls dss.flatten).map (·.1)).filter (fun a => !(headsOf dss.flatten).contains a), a ∈ (ctxOf (convert true (stepsCalls dss)) defs).dom := by
      intro a ha
      rw [← hatoms] at ha
      obtain ⟨p, hp, rfl⟩ := List.mem_map.mp (List.mem_filter.mp ha).1
      exact hdom p hp
    intro r hr
    unfold extRules at hr
    rcases List.mem_append.mp hr with h | h
    · obtain ⟨a, ha, rfl⟩ := List.mem_map.mp h
      refine ⟨?_, by intro b hb; simp [Body.atoms] at hb, by intro l hl; cases hl⟩
      intro b hb; simp only [List.mem_singleton] at hb; subst hb
      exact heff b (List.mem_filter.mp ha).1
    · split at h
      · cases h
      · simp only [List.mem_singleton] at h; subst h
        refine ⟨?_, by intro b hb; simp [Body.atoms] at hb, by intro l hl; cases hl⟩
        intro b hb; exact heff b (List.mem_filter.mp hb).1
  have tr2 := PotasscoVerif.C02.Trans.append_ren tr (extRules dss.flatten) hQ
  rw [← hout] at tr2
  exact tr2

/-- **C02 (several steps WITH externals, extension on: answer sets and shown symbols)** -/
theorem C02_steps_equivalence_ext (dss : List (List Call)) (hx : ∀ ds ∈ dss, ∀ d ∈ ds, PlainOk d) (hnh : ∀ ds ∈ dss, ∀ d ∈ ds, isHeu d = false) :
    ∃ E : I → I,
      (∀ X, Stable (progOf dss.flatten) X →
        Stable (progOf (convert true (stepsCalls dss)).out) (E X) ∧ E X 1 = false ∧ restrict (convert true (stepsCalls dss)) (E X) = X) ∧
      (∀ X', Stable (progOf (convert true (stepsCalls dss)).out) X' → X' 1 = false →
        Stable (progOf dss.flatten) (restrict (convert true (stepsCalls dss)) X') ∧ E (restrict (convert true (stepsCalls dss)) X') = X') ∧
      (∀ X name, shown dss.flatten X name ↔ shownOut (convert true (stepsCalls dss)).out (E X) name) := by
  obtain ⟨defs, hj, hko⟩ := C02_steps_outputs true dss hx hnh (Or.inr rfl)
  have ok := ctx_ok hj
  have tr2 := steps_trans_ext_of dss hx hj
  refine ⟨fun X => (ctxOf (convert true (stepsCalls dss)) defs).E X X, ?_, ?_, ?_⟩
  · intro X hs
    have hs' := (stable_filter_kept_app _ _ X).mpr hs
    obtain ⟨h1, h2, h3⟩ := translation_stable ok tr2 hs'
    refine ⟨h1, h2, ?_⟩
    rw [restrict_eq _ hj.inv defs]; exact h3
  · intro X' hs h1
    obtain ⟨h2, h3⟩ := translation_stable_back ok tr2 X' hs h1
    rw [restrict_eq _ hj.inv defs]
    exact ⟨(stable_filter_kept_app _ _ _).mp h2, h3.symm⟩
  · intro X name
    unfold shown shownOut
    constructor
    · rintro ⟨cond, hm, hb⟩
      obtain ⟨n, hn, hrep⟩ := hko.fwd (name, cond) hm
      exact ⟨[(n : Int)], hn, by rw [rep_val hj X n cond hrep]; exact hb⟩
    · rintro ⟨c', hm, hb⟩
      obtain ⟨n, cond, e, hc, hrep⟩ := hko.bwd (name, c') hm
      simp only at e hc
      subst e
      exact ⟨cond, hc, by rw [← rep_val hj X n cond hrep]; exact hb⟩

/-- **C02 (several steps, minimize statements)**: `C02_steps_outputs` together with the invariant `MO` for the minimize statements emitted over all steps -/
theorem C02_steps_minimize (ext : Bool) (dss : List (List Call)) (hx : ∀ ds ∈ dss, ∀ d ∈ ds, PlainOk d)
    (hnh : ∀ ds ∈ dss, ∀ d ∈ ds, isHeu d = false) (hE : (∀ ds ∈ dss, extCalls ds = []) ∨ ext = true) :
    ∃ defs, J (convert ext (stepsCalls dss)) ((rulesOf dss.flatten).filter kept) defs ∧
      KO (convert ext (stepsCalls dss)) (srcOuts dss.flatten) defs ∧ MO (convert ext (stepsCalls dss)) (minsOf dss.flatten) := by
  have a1 : J (CS.apply { ext := ext } (.initProgram true)) [] [] := by
    rw [apply_init _ rfl]; exact (J.init ext).emit _ rfl
  have d1 : XI (CS.apply { ext := ext } (.initProgram true)) {} := by
    rw [apply_init _ rfl]; exact (XI.init ext).emit _
  have k1 : KO (CS.apply { ext := ext } (.initProgram true)) [] [] := by
    rw [apply_init _ rfl]
    exact ⟨rfl, rfl, (by intro o ho; cases ho), (by intro p hp; simp [CS.emit, outsOf, outOf] at hp)⟩
  have m1 : MO (CS.apply { ext := ext } (.initProgram true)) [] := by
    rw [apply_init _ rfl]
    exact ⟨rfl, [], (by intro m _; simp [CS.emit, minsOf, minOf]), (by intro X p; rfl), (by intro pl hpl; cases hpl)⟩
  have hE' : (∀ ds ∈ dss, extCalls ds = []) ∨ (CS.apply { ext := ext } (.initProgram true)).ext = true := by
    rcases hE with h | h
    · exact Or.inl h
    · right; rw [apply_init _ rfl]; exact h
  obtain ⟨defs, t, hj, _, _, hko, hmo⟩ := steps_JXOM dss hx hnh a1 d1 rfl k1 m1 hE'
  rw [List.nil_append] at hj hko hmo
  rw [convert_steps_eq]
  exact ⟨defs, hj, hko, hmo⟩

/-- **C02 (several steps, optimisation)**: for incremental programs of any number of steps without external directives (either setting of the extension),
    under corresponding answer sets and for every priority, the minimize statements emitted over ALL steps cost what the minimize statements given over all
    steps cost, minus a constant (the sum of the negative weights of that priority): the order of answer sets by cost is the same. -/
theorem C02_steps_cost (ext : Bool) (dss : List (List Call)) (hx : ∀ ds ∈ dss, ∀ d ∈ ds, PlainOk d)
    (hnh : ∀ ds ∈ dss, ∀ d ∈ ds, isHeu d = false) (hE : ∀ ds ∈ dss, extCalls ds = []) :
    ∃ E : I → I,
      (∀ X, Stable (rulesOf dss.flatten) X →
        Stable (rulesOf (convert ext (stepsCalls dss)).out) (E X) ∧ E X 1 = false ∧ restrict (convert ext (stepsCalls dss)) (E X) = X) ∧
      (∀ X', Stable (rulesOf (convert ext (stepsCalls dss)).out) X' → X' 1 = false → E (restrict (convert ext (stepsCalls dss)) X') = X') ∧
      (∀ X p, costAt (convert ext (stepsCalls dss)).out p (E X) = costAt dss.flatten p X - negM (minsOf dss.flatten) p) := by
  obtain ⟨defs, hj, _, hmo⟩ := C02_steps_minimize ext dss hx hnh (Or.inl hE)
  have ok := ctx_ok hj
  have tr := ctx_trans hj
  refine ⟨fun X => (ctxOf (convert ext (stepsCalls dss)) defs).E X X, ?_, ?_, ?_⟩
  · intro X hs
    have hs' := (stable_filter_kept _ X).mpr hs
    obtain ⟨h1, h2, h3⟩ := translation_stable ok tr hs'
    refine ⟨h1, h2, ?_⟩
    rw [restrict_eq _ hj.inv defs]; exact h3
  · intro X' hs h1
    obtain ⟨h2, h3⟩ := translation_stable_back ok tr X' hs h1
    rw [restrict_eq _ hj.inv defs]
    exact h3.symm
  · intro X p
    obtain ⟨TT, t1, t2, t3⟩ := hmo.tab
    unfold costAt
    rw [t1 _ (agree_final _ hj.inv)]
    have := costM_ren ok X TT t3 p
    refine this.trans ?_
    rw [t2 X p]
    apply costM_flip
    intro pl hpl q hq
    have hmem : ∃ d ∈ dss.flatten, minOf d = some pl := by
      simp only [minsOf, List.mem_filterMap] at hpl; exact hpl
    obtain ⟨d, hd, he⟩ := hmem
    obtain ⟨ds, hds, hdd⟩ := List.mem_flatten.mp hd
    cases d with
    | minimize prio lits =>
      simp only [minOf, Option.some.injEq] at he
      subst he
      exact ((hx ds hds _ hdd) q hq).1
    | _ => simp [minOf] at he

/-- **C02 (several steps WITH externals, extension on: optimisation)** -/
theorem C02_steps_cost_ext (dss : List (List Call)) (hx : ∀ ds ∈ dss, ∀ d ∈ ds, PlainOk d) (hnh : ∀ ds ∈ dss, ∀ d ∈ ds, isHeu d = false) :
    ∃ E : I → I,
      (∀ X, Stable (progOf dss.flatten) X →
        Stable (progOf (convert true (stepsCalls dss)).out) (E X) ∧ E X 1 = false ∧ restrict (convert true (stepsCalls dss)) (E X) = X) ∧
      (∀ X', Stable (progOf (convert true (stepsCalls dss)).out) X' → X' 1 = false → E (restrict (convert true (stepsCalls dss)) X') = X') ∧
      (∀ X p, costAt (convert true (stepsCalls dss)).out p (E X) = costAt dss.flatten p X - negM (minsOf dss.flatten) p) := by
  obtain ⟨defs, hj, _, hmo⟩ := C02_steps_minimize true dss hx hnh (Or.inr rfl)
  have ok := ctx_ok hj
  have tr2 := steps_trans_ext_of dss hx hj
  refine ⟨fun X => (ctxOf (convert true (stepsCalls dss)) defs).E X X, ?_, ?_, ?_⟩
  · intro X hs
    have hs' := (stable_filter_kept_app _ _ X).mpr hs
    obtain ⟨h1, h2, h3⟩ := translation_stable ok tr2 hs'
    refine ⟨h1, h2, ?_⟩
    rw [restrict_eq _ hj.inv defs]; exact h3
  · intro X' hs h1
    obtain ⟨h2, h3⟩ := translation_stable_back ok tr2 X' hs h1
    rw [restrict_eq _ hj.inv defs]
    exact h3.symm
  · intro X p
    obtain ⟨TT, t1, t2, t3⟩ := hmo.tab
    unfold costAt
    rw [t1 _ (agree_final _ hj.inv)]
    have := costM_ren ok X TT t3 p
    refine this.trans ?_
    rw [t2 X p]
    apply costM_flip
    intro pl hpl q hq
    have hmem : ∃ d ∈ dss.flatten, minOf d = some pl := by
      simp only [minsOf, List.mem_filterMap] at hpl; exact hpl
    obtain ⟨d, hd, he⟩ := hmem
    obtain ⟨ds, hds, hdd⟩ := List.mem_flatten.mp hd
    cases d with
    | minimize prio lits =>
      simp only [minOf, Option.some.injEq] at he
      subst he
      exact ((hx ds hds _ hdd) q hq).1
    | _ => simp [minOf] at he

/-! #### non-vacuity: two steps; the name given in step 1 stays shown on its condition in step 2, a second name joins it -/
def exStepsO : List (List Call) :=
  [[.rule 1 [1, 2] [], .output [97] [1, -2]],          -- {x1; x2}.  #output a : x1, not x2.
   [.rule 0 [3] [1], .output [98] [3]]]                -- x3 :- x1.  #output b : x3.

example : (∀ ds ∈ exStepsO, ∀ d ∈ ds, PlainOk d) ∧ (∀ ds ∈ exStepsO, ∀ d ∈ ds, isHeu d = false) ∧ (∀ ds ∈ exStepsO, extCalls ds = []) := by
  refine ⟨?_, ?_, ?_⟩ <;> simp [exStepsO, PlainOk, isHeu, extCalls, extOf]

example : outsOf (convert true (stepsCalls exStepsO)).out = [([97], [4]), ([98], [5])] := by decide +kernel

/-- minimize statements in two steps, one with a negative weight: both are emitted, the negative weight on the complementary literal -/
def exStepsM : List (List Call) :=
  [[.rule 1 [1, 2] [], .minimize 0 [(1, 2), (-2, 1)]], [.rule 0 [3] [1], .minimize 0 [(3, -4)], .minimize 1 [(2, 1)]]]

example : (∀ ds ∈ exStepsM, ∀ d ∈ ds, PlainOk d) ∧ (∀ ds ∈ exStepsM, ∀ d ∈ ds, isHeu d = false) ∧ (∀ ds ∈ exStepsM, extCalls ds = []) := by
  refine ⟨?_, ?_, ?_⟩ <;> simp [exStepsM, PlainOk, isHeu, extCalls, extOf, I32MINc]
  all_goals (try (intros; omega))

example : minsOf (convert false (stepsCalls exStepsM)).out = [(0, [(2, 2), (-3, 1)]), (0, [(-4, 4)]), (1, [(3, 1)])] := by decide +kernel

end PotasscoVerif.C02
