/-
  C16 — string <-> value conversion round-trips and rejects what does not fit.

  Model: Model/StringConvert.lean (`strto` = the assumed contract of strtoll/strtoull).
  PROVED HERE:
    * `C16_roundtrip_signed` / `C16_roundtrip_unsigned`: for EVERY value of a signed/unsigned type whose range
      lies inside 64 bit (int, long, long long, unsigned, unsigned long, unsigned long long), the text written
      by the library reads back as exactly that value, with the end position at the end of the text (the
      unsigned maximum is written symbolically as `umax`);
    * `C16_decimal_exact`: a decimal text — optional sign, a digit string of ANY length that does not start with
      0 (or has a sign), then a non-digit — is accepted for a signed type iff the number it denotes lies in the
      type's range, and then the value is exactly that number and the end position is right behind the digits;
    * `C16_roundtrip_bool`, `C16_roundtrip_char`.
  MISSING (decided by correspondence + the big-integer oracle): hexadecimal/octal texts, keywords, pairs, lists,
  enumerations.
-/
import PotasscoVerif.Model.StringConvert
import PotasscoVerif.Lemmas.Decimal
namespace PotasscoVerif.C16
open PotasscoVerif.StringConvert PotasscoVerif.AspifOut PotasscoVerif.Decimal PotasscoVerif.CharStream
open PotasscoVerif.BufferedStream (isDigit toDigit)

theorem digitOf10 (c : Nat) : digitOf 10 c = if isDigit c then some (toDigit c) else none := by
  unfold digitOf isDigit toDigit
  by_cases h1 : 48 ≤ c ∧ c ≤ 57
  · have : c - 48 < 10 := by omega
    simp [h1, this]
  · by_cases h2 : 97 ≤ c ∧ c ≤ 122
    · have : ¬ (c - 87 < 10) := by omega
      have h3 : ¬ (48 ≤ c ∧ c ≤ 57) := h1
      simp [h1, h2, this]
    · by_cases h3 : 65 ≤ c ∧ c ≤ 90
      · have : ¬ (c - 55 < 10) := by omega
        simp [h1, h2, h3, this]
      · simp [h1, h2, h3]

/-- the base-10 digit loop of `strto` reads a digit string followed by a non-digit completely and exactly. -/
theorem digitsB10 : ∀ (ds k : List Nat) (acc cnt : Nat), (∀ c ∈ ds, isDigit c = true) → NDS k →
    digitsB 10 (ds ++ k) acc cnt = (val ds acc, cnt + ds.length, k) := by
  intro ds
  induction ds with
  | nil =>
    intro k acc cnt _ hk
    cases k with
    | nil => rfl
    | cons c r => simp [digitsB, digitOf10, hk c r rfl, val]
  | cons d ds ih =>
    intro k acc cnt hd hk
    have h1 : isDigit d = true := hd d (by simp)
    simp only [List.cons_append, digitsB, digitOf10, h1, ↓reduceIte, val]
    rw [ih k _ _ (fun c hc => hd c (by simp [hc])) hk]
    simp; omega

/-- a printed natural number has no leading zero (except "0" itself). -/
theorem digitsAux_head : ∀ (f n : Nat) (acc : List Nat), n < f → 1 ≤ n →
    ∃ d r, digitsAux f n acc = (48 + d) :: r ∧ 1 ≤ d ∧ d ≤ 9 := by
  intro f
  induction f with
  | zero => intro n acc h; omega
  | succ f ih =>
    intro n acc h h1
    unfold digitsAux
    by_cases h10 : n < 10
    · exact ⟨n, acc, by simp [h10], h1, by omega⟩
    · simp only [h10, ↓reduceIte]
      exact ih (n / 10) _ (by omega) (by omega)

theorem printNat_zero : printNat 0 = [48] := by decide

theorem detectBase_printNat (n : Nat) (k : List Nat) (hk : ∀ c r, k = c :: r → ¬ (c = 120 ∨ c = 88 ∨ (48 ≤ c ∧ c ≤ 55))) :
    detectBase (printNat n ++ k) = 10 := by
  by_cases h0 : n = 0
  · subst h0; rw [printNat_zero]
    cases k with
    | nil => rfl
    | cons c r =>
      have := hk c r rfl
      simp only [List.cons_append, List.nil_append, detectBase]
      have h1 : (c == 120 || c == 88) = false := by simp; omega
      have h2 : ¬ (48 ≤ c ∧ c ≤ 55) := by omega
      simp [h1, h2]
  · obtain ⟨d, r, e, hd1, hd9⟩ := digitsAux_head (n + 1) n [] (by omega) (by omega)
    unfold printNat; rw [e]
    simp only [List.cons_append, detectBase]
    split
    · rename_i heq; simp at heq; omega
    · rfl

theorem takeWhile_space_digit (l : List Nat) (h : ∀ c r, l = c :: r → isSpace c = false) : l.takeWhile isSpace = [] := by
  cases l with
  | nil => rfl
  | cons c r => simp [List.takeWhile, h c r rfl]

theorem splitPrefix10 (x : List Nat) : splitPrefix 10 x = (0, x) := by
  unfold splitPrefix; split <;> simp

theorem splitSign_digit (d : Nat) (r : List Nat) (hd : isDigit d = true) : splitSign (d :: r) = (false, 0, d :: r) := by
  have : d ≠ 45 ∧ d ≠ 43 := by simp [isDigit] at hd; omega
  unfold splitSign
  split
  · rename_i heq; simp at heq; exact absurd heq.1 this.1
  · rename_i heq; simp at heq; exact absurd heq.1 this.2
  · rfl

/-- `strto` (base 10) on: optional sign, digit string of any length, non-digit. -/
theorem strto_decimal (sg : Sign) (ds k : List Nat) (hds : ∀ c ∈ ds, isDigit c = true) (hne : ds ≠ []) (hk : NDS k) :
    strto (sg.text ++ (ds ++ k)) 10 =
      { neg := sg = .minus, mag := val ds 0, used := sg.text.length + ds.length } := by
  obtain ⟨d, r, e⟩ : ∃ d r, ds = d :: r := by
    cases ds with
    | nil => exact absurd rfl hne
    | cons d r => exact ⟨d, r, rfl⟩
  have hd : isDigit d = true := hds d (by rw [e]; simp)
  have hsp : (sg.text ++ (ds ++ k)).takeWhile isSpace = [] := by
    apply takeWhile_space_digit
    intro c r' hc
    cases sg with
    | none => simp [Sign.text, e] at hc; rw [← hc.1]; simp [isDigit] at hd; simp [isSpace]; omega
    | plus => simp [Sign.text] at hc; rw [← hc.1]; simp [isSpace]
    | minus => simp [Sign.text] at hc; rw [← hc.1]; simp [isSpace]
  have hsign : splitSign (sg.text ++ (ds ++ k)) = (decide (sg = .minus), sg.text.length, ds ++ k) := by
    cases sg with
    | none => simp only [Sign.text, List.nil_append, e, List.cons_append]; rw [splitSign_digit d _ hd]; simp
    | plus => simp [Sign.text, splitSign]
    | minus => simp [Sign.text, splitSign]
  have hdig := digitsB10 ds k 0 0 hds hk
  have hlen : ds.length ≠ 0 := by rw [e]; simp
  unfold strto
  simp only [hsp, List.length_nil, List.drop_zero, hsign, splitPrefix10, hdig]
  simp [hlen]


theorem startsWith_digit_false (d : Nat) (r : List Nat) (p0 : Nat) (p : List Nat) (hd : isDigit d = true)
    (hp : isDigit p0 = false) : startsWith (d :: r) (p0 :: p) = false := by
  unfold startsWith
  simp only [List.isPrefixOf]
  have : p0 ≠ d := by intro e; rw [e] at hp; rw [hp] at hd; cases hd
  simp [this]

/-- **accepted iff it fits, and then exact** — decimal texts of any length for signed types. -/
theorem C16_decimal_exact (sg : Sign) (ds k : List Nat) (lo hi : Int)
    (hds : ∀ c ∈ ds, isDigit c = true) (hne : ds ≠ []) (hk : NDS k)
    (hb : detectBase (sg.text ++ (ds ++ k)) = 10) (hlo : LLMIN ≤ lo) (hhi : hi ≤ LLMAX) :
    parseSigned (sg.text ++ (ds ++ k)) lo hi =
      (if lo ≤ sg.apply (val ds 0) ∧ sg.apply (val ds 0) ≤ hi then some (sg.apply (val ds 0), sg.text.length + ds.length) else none) := by
  obtain ⟨d, r, e⟩ : ∃ d r, ds = d :: r := by
    cases ds with
    | nil => exact absurd rfl hne
    | cons d r => exact ⟨d, r, rfl⟩
  have hd : isDigit d = true := hds d (by rw [e]; simp)
  have hst := strto_decimal sg ds k hds hne hk
  -- the text is not empty and does not start with a keyword
  obtain ⟨c0, r0, e0, hc0⟩ : ∃ c0 r0, sg.text ++ (ds ++ k) = c0 :: r0 ∧ (isDigit c0 = true ∨ c0 = 43 ∨ c0 = 45) := by
    cases sg with
    | none => exact ⟨d, r ++ k, by simp [Sign.text, e], Or.inl hd⟩
    | plus => exact ⟨43, ds ++ k, by simp [Sign.text], Or.inr (Or.inl rfl)⟩
    | minus => exact ⟨45, ds ++ k, by simp [Sign.text], Or.inr (Or.inr rfl)⟩
  have hkw : ∀ p, startsWith (c0 :: r0) (105 :: p) = false := by
    intro p; unfold startsWith; simp only [List.isPrefixOf]
    have : (105:Nat) ≠ c0 := by rcases hc0 with h | h | h <;> (try simp [isDigit] at h) <;> omega
    simp [this]
  unfold parseSigned
  rw [hb, hst, e0]
  simp only [List.isEmpty_cons, Bool.false_eq_true, ↓reduceIte, hkw, Bool.false_and]
  have hlenb : (sg.text.length + ds.length == 0) = false := by rw [e]; simp
  have hv : (if decide (sg = Sign.minus) = true then -((val ds 0 : Nat) : Int) else ((val ds 0 : Nat) : Int)) = sg.apply (val ds 0) := by
    cases sg <;> simp [Sign.apply]
  simp only [hv, hlenb, Bool.false_eq_true, false_or]
  generalize sg.apply (val ds 0) = V
  by_cases hin : lo ≤ V ∧ V ≤ hi
  · have h1 : ¬ (V < LLMIN ∨ V > LLMAX) := by omega
    have h2 : ¬ (V < lo ∨ V > hi) := by omega
    simp only [h1, h2, hin, ↓reduceIte, and_self]
  · by_cases h1 : V < LLMIN ∨ V > LLMAX
    · simp only [h1, hin, ↓reduceIte]
    · have h2 : (V < lo ∨ V > hi) := by omega
      simp only [h1, h2, hin, ↓reduceIte]

/-- **value → text → value** for every signed integer type inside 64 bit. -/
theorem C16_roundtrip_signed (v lo hi : Int) (hv : lo ≤ v ∧ v ≤ hi) (hlo : LLMIN ≤ lo) (hhi : hi ≤ LLMAX) :
    parseSigned (showSigned v) lo hi = some (v, (showSigned v).length) := by
  unfold showSigned StringBuilder.numText printInt
  by_cases hneg : v < 0
  · simp only [hneg, ↓reduceIte]
    have h := C16_decimal_exact .minus (printNat v.natAbs) [] lo hi (printNat_digits _) (printNat_ne_nil _) NDS_nil
      (by simp [Sign.text, detectBase]) hlo hhi
    simp only [Sign.text, List.append_nil, List.cons_append, List.nil_append, val_printNat, Sign.apply] at h
    have hvv : -((v.natAbs : Nat) : Int) = v := by omega
    rw [hvv] at h
    rw [h]; simp [hv]; omega
  · simp only [hneg, ↓reduceIte]
    have hb : detectBase (Sign.none.text ++ (printNat v.toNat ++ [])) = 10 := by
      simp only [Sign.text, List.nil_append]
      exact detectBase_printNat v.toNat [] (by intro c r h; cases h)
    have h := C16_decimal_exact .none (printNat v.toNat) [] lo hi (printNat_digits _) (printNat_ne_nil _) NDS_nil hb hlo hhi
    simp only [Sign.text, List.append_nil, List.nil_append, val_printNat, Sign.apply, List.length_nil, Nat.zero_add] at h
    have hvv : ((v.toNat : Nat) : Int) = v := by omega
    rw [hvv] at h
    rw [h]; simp [hv]

/-- **value → text → value** for every unsigned integer type inside 64 bit (the maximum is written `umax`). -/
theorem C16_roundtrip_unsigned (v uMax : Nat) (hv : v ≤ uMax) (hmax : uMax ≤ ULLMAX) :
    parseUnsigned (showUnsigned v uMax) uMax = some (v, (showUnsigned v uMax).length) := by
  unfold showUnsigned
  by_cases he : v = uMax
  · subst he
    simp [parseUnsigned, startsWith, List.isPrefixOf]
  · simp only [he, ↓reduceIte, StringBuilder.numText, printInt]
    have hnn : ¬ ((v : Int) < 0) := by omega
    simp only [hnn, ↓reduceIte, Int.toNat_natCast]
    obtain ⟨d, r, e, hd⟩ := printNat_head_digit v
    have hst := strto_decimal .none (printNat v) [] (printNat_digits _) (printNat_ne_nil _) NDS_nil
    simp only [Sign.text, List.nil_append, List.append_nil, val_printNat, List.length_nil, Nat.zero_add] at hst
    have hb := detectBase_printNat v [] (by intro c r h; cases h)
    rw [List.append_nil] at hb
    unfold parseUnsigned
    rw [e]
    have hd45 : (d == 45) = false := by simp [isDigit] at hd; simp; omega
    have hk1 := startsWith_digit_false d r 105 [109, 97, 120] hd (by decide)
    have hk2 := startsWith_digit_false d r 117 [109, 97, 120] hd (by decide)
    have hk3 := startsWith_digit_false d r 45 [49] hd (by decide)
    simp only [hd45, Bool.false_and, Bool.false_eq_true, ↓reduceIte, hk1, hk2, hk3]
    rw [← e, hb, hst]
    have hlen : ¬ ((printNat v).length = 0) := by rw [e]; simp
    have h1 : ¬ (v > ULLMAX) := by omega
    simp [h1, hlen]; omega

theorem C16_roundtrip_bool (b : Bool) : parseBool (showBool b) = .val b (showBool b).length := by
  cases b <;> decide

theorem C16_roundtrip_char (c : Nat) (hc : c ≠ 0) : parseChar [c] = some (c, 1) := by
  unfold parseChar
  split <;> simp_all

/-! non-vacuity / examples incl. values beyond 64 bit -/
example : parseSigned ([45, 50, 49, 52, 55, 52, 56, 51, 54, 52, 56]) (-2147483648) 2147483647 = some (-2147483648, 11) := by decide
example : parseSigned ([50, 49, 52, 55, 52, 56, 51, 54, 52, 56]) (-2147483648) 2147483647 = none := by decide
example : parseSigned ([57, 57, 57, 57, 57, 57, 57, 57, 57, 57, 57, 57, 57, 57, 57, 57, 57, 57, 57, 57, 57, 57, 57, 57, 57, 57, 57, 57, 57, 57, 57, 57]) LLMIN LLMAX = none := by decide
example : parseUnsigned ([48, 120, 49, 70, 44]) 4294967295 = some (31, 4) := by decide
example : parseUnsigned ([48, 49, 55]) 4294967295 = some (15, 3) := by decide

end PotasscoVerif.C16
