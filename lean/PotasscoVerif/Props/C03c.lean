/-
  C03 (continued) — the aspif reader against a declarative grammar.

  The grammar is a family of languages (sets of (word, value) pairs, Lemmas/AspifLang.lean) built from number tokens, strings,
  sequencing, repetition and case distinction on a value read before — no stream, no look-ahead, no fuel, no error plumbing.
  `true` is the strict reading ("whitespace-separated tokens": every token is set off by filler or carries a sign, the byte string of
  a string field is separated from its length by one blank); `false` the lenient one (what the reader also tolerates: tokens glued to a
  sign, any one character as string separator).  Every strict word is a lenient word.

    C03_complete : every strict program text is accepted and yields exactly the directives it denotes
    C03_sound    : whatever the reader accepts (NUL-free text) is a lenient program text denoting exactly the delivered directives
-/
import PotasscoVerif.Lemmas.AspifLang
import PotasscoVerif.Props.C03b
namespace PotasscoVerif.C03
open PotasscoVerif PotasscoVerif.CharStream PotasscoVerif.AspifIn PotasscoVerif.Decimal PotasscoVerif.AspifLang
open PotasscoVerif.BufferedStream (IntRes isWs isDigit I64MAX)

/-! ### theory directives `9 <type> <id> …` -/
def theoryL (rt : Nat) : Bool → Lang Call := fun s =>
  seq (posL s) (fun tId =>
    if rt = N Gen.Theory_t_Number then seq (num s true I32MIN I32MAX) (fun n => ret (.theoryNum tId n))
    else if rt = N Gen.Theory_t_Symbol then seq (strL s) (fun x => ret (.theorySym tId x))
    else if rt = N Gen.Theory_t_Compound then seq (num s true Gen.Tuple_t_eMin I32MAX) (fun t => seq (idsL s) (fun args => ret (.theoryCompound tId t args)))
    else if rt = N Gen.Theory_t_Element then seq (idsL s) (fun ts => seq (litsL s) (fun c => ret (.theoryElement tId ts c)))
    else if rt = N Gen.Theory_t_Atom then seq (posL s) (fun t => seq (idsL s) (fun es => ret (.theoryAtom tId t es none)))
    else if rt = N Gen.Theory_t_AtomWithGuard then
      seq (posL s) (fun t => seq (idsL s) (fun es => seq (posL s) (fun op => seq (posL s) (fun rhs => ret (.theoryAtom tId t es (some (op, rhs)))))))
    else none')

theorem Spec.theory (rt : Nat) : Spec (AspifIn.theory rt) (theoryL rt) := by
  unfold AspifIn.theory theoryL
  refine Spec.bind Spec.pos (fun tId => ?_)
  refine Spec.ite _ (Spec.bind (Spec.intIn _ _ (by decide) (by decide)) (fun n => Spec.pure _)) ?_
  refine Spec.ite _ (Spec.bind Spec.string (fun n => Spec.pure _)) ?_
  refine Spec.ite _ (Spec.bind (Spec.intIn _ _ (by decide) (by decide)) (fun t => Spec.bind Spec.ids (fun args => Spec.pure _))) ?_
  refine Spec.ite _ (Spec.bind Spec.ids (fun ts => Spec.bind Spec.lits (fun c => Spec.pure _))) ?_
  refine Spec.ite _ (Spec.bind Spec.pos (fun t => Spec.bind Spec.ids (fun es => Spec.pure _))) ?_
  refine Spec.ite _ (Spec.bind Spec.pos (fun t => Spec.bind Spec.ids (fun es => Spec.bind Spec.pos (fun op => Spec.bind Spec.pos (fun rhs => Spec.pure _))))) ?_
  exact Spec.error

/-! ### comment directive `10 …`: the rest of the line -/
def commentL (s : Bool) : Lang (Option Call) := fun w v =>
  v = none ∧ (s = true → ∃ (body : List Nat) (crlf : Bool), w = body ++ (if crlf then [13, 10] else [10]) ∧ (∀ x ∈ body, x ≠ 0 ∧ x ≠ 10 ∧ x ≠ 13) ∧ NDS body)

theorem skipLineF_suffix (f : Nat) (a : AS) : (skipLineF f a).rest <:+ a.rest := by
  induction f generalizing a with
  | zero => exact List.suffix_refl _
  | succ f ih =>
    simp only [skipLineF]
    have hg : a.get.2.rest <:+ a.rest := by obtain ⟨sep, e, _⟩ := get_inv a; exact ⟨sep, e.symm⟩
    split
    · exact List.suffix_refl _
    · split
      · exact hg
      · exact List.IsSuffix.trans (ih _) hg

theorem skipLineF_strict (body : List Nat) (crlf : Bool) (r : List Nat) (hb : ∀ x ∈ body, x ≠ 0 ∧ x ≠ 10 ∧ x ≠ 13)
    (f : Nat) (hf : body.length < f) (a : AS) (hr : a.rest = body ++ ((if crlf then [13, 10] else [10]) ++ r)) : (skipLineF f a).rest = r := by
  induction body generalizing f a with
  | nil =>
    cases f with
    | zero => simp at hf
    | succ f =>
      simp only [List.nil_append] at hr
      cases crlf with
      | false =>
        have hp : a.peek = 10 := by unfold AS.peek; rw [hr]; rfl
        have hg : a.get = (10, { rest := r, line := a.line + 1, canUnget := true }) := by unfold AS.get; rw [hr]; simp
        simp [skipLineF, hp, hg]
      | true =>
        have hp : a.peek = 13 := by unfold AS.peek; rw [hr]; rfl
        have hg : a.get = (10, { rest := r, line := a.line + 1, canUnget := true }) := by unfold AS.get; rw [hr]; simp
        simp [skipLineF, hp, hg]
  | cons x b ih =>
    cases f with
    | zero => simp at hf
    | succ f =>
      obtain ⟨h0, h10, h13⟩ := hb x (by simp)
      simp only [List.cons_append] at hr
      have hp : a.peek = x := by unfold AS.peek; rw [hr]; rfl
      have hg := AspifRT.get_plain a x _ hr h0 h13 h10
      have hx0 : (x == 0) = false := by simpa using h0
      have hx10 : (x == 10) = false := by simpa using h10
      simp only [skipLineF, hp, hx0, Bool.false_eq_true, ↓reduceIte, hg, hx10]
      exact ih (fun y hy => hb y (by simp [hy])) f (by simp at hf; omega) _ rfl

theorem Spec.comment : Spec (fun a => (.ok (none, skipLine a) : Except Nat (Option Call × AS))) commentL := by
  refine ⟨?_, ?_, ?_⟩
  · intro a x a' h
    cases h
    obtain ⟨w, e⟩ := skipLineF_suffix (a.rest.length + 1) a
    exact ⟨w, e.symm, rfl, by intro h; cases h⟩
  · intro w x a k hw hr _
    obtain ⟨ex, hs⟩ := hw
    obtain ⟨body, crlf, ew, hb, _⟩ := hs rfl
    subst ex; subst ew
    refine ⟨skipLine a, rfl, ?_⟩
    unfold skipLine
    exact skipLineF_strict body crlf k hb _ (by rw [hr]; simp; omega) a (by rw [hr]; simp)
  · intro w x k hw hk
    obtain ⟨_, hs⟩ := hw
    obtain ⟨body, crlf, ew, _, hnd⟩ := hs rfl
    subst ew
    intro c r e
    cases body with
    | cons y t => simp only [List.cons_append, List.cons.injEq] at e; rw [← e.1]; exact hnd y t rfl
    | nil => cases crlf <;> (simp only [List.nil_append, ↓reduceIte, Bool.false_eq_true, List.cons_append, List.cons.injEq] at e; rw [← e.1]; rfl)

/-! ### the directives `<type> …` -/
def directiveL (rt : Nat) : Bool → Lang (Option Call) := fun s =>
  if rt = N Gen.Directive_t_Rule then
    seq (numN s true (N Gen.Head_t_eMax)) (fun ht => seq (atomsL s) (fun hd => seq (numN s true (N Gen.Body_t_eMax)) (fun bt =>
      if bt = N Gen.Body_t_Normal then seq (litsL s) (fun b => ret (some (.rule ht hd b)))
      else seq (num s true I32MIN I32MAX) (fun bnd => seq (wlitsL s 0) (fun b => ret (some (.sumRule ht hd bnd b)))))))
  else if rt = N Gen.Directive_t_Minimize then
    seq (num s true I32MIN I32MAX) (fun p => seq (wlitsL s I32MIN) (fun b => ret (some (.minimize p b))))
  else if rt = N Gen.Directive_t_Project then seq (atomsL s) (fun l => ret (some (.project l)))
  else if rt = N Gen.Directive_t_Output then seq (strL s) (fun x => seq (litsL s) (fun c => ret (some (.output x c))))
  else if rt = N Gen.Directive_t_External then seq (atomL s) (fun x => seq (numN s true (N Gen.Value_t_eMax)) (fun v => ret (some (.external x v))))
  else if rt = N Gen.Directive_t_Assume then seq (litsL s) (fun l => ret (some (.assume l)))
  else if rt = N Gen.Directive_t_Heuristic then
    seq (numN s true (N Gen.Heuristic_t_eMax)) (fun t => seq (atomL s) (fun x => seq (num s true I32MIN I32MAX) (fun bias =>
      seq (numN s true (N I32MAX)) (fun prio => seq (litsL s) (fun c => ret (some (.heuristic x t bias prio c)))))))
  else if rt = N Gen.Directive_t_Edge then
    seq (numN s true (N I32MAX)) (fun x => seq (numN s true (N I32MAX)) (fun y => seq (litsL s) (fun c => ret (some (.acycEdge x y c)))))
  else if rt = N Gen.Directive_t_Theory then seq (posL s) (fun tt => seq (theoryL tt s) (fun c => ret (some c)))
  else if rt = N Gen.Directive_t_Comment then commentL s
  else none'

theorem Spec.directive (rt : Nat) : Spec (AspifIn.directive rt) (directiveL rt) := by
  unfold AspifIn.directive directiveL
  refine Spec.ite _ (Spec.bind (Spec.posMax _ (by decide)) (fun ht => Spec.bind Spec.atoms (fun hd => Spec.bind (Spec.posMax _ (by decide)) (fun bt =>
    Spec.ite _ (Spec.bind Spec.lits (fun b => Spec.pure _))
      (Spec.bind (Spec.intIn _ _ (by decide) (by decide)) (fun bnd => Spec.bind (Spec.wlits _ (by decide)) (fun b => Spec.pure _))))))) ?_
  refine Spec.ite _ (Spec.bind (Spec.intIn _ _ (by decide) (by decide)) (fun p => Spec.bind (Spec.wlits _ (by decide)) (fun b => Spec.pure _))) ?_
  refine Spec.ite _ (Spec.bind Spec.atoms (fun l => Spec.pure _)) ?_
  refine Spec.ite _ (Spec.bind Spec.string (fun x => Spec.bind Spec.lits (fun c => Spec.pure _))) ?_
  refine Spec.ite _ (Spec.bind Spec.atom (fun x => Spec.bind (Spec.posMax _ (by decide)) (fun v => Spec.pure _))) ?_
  refine Spec.ite _ (Spec.bind Spec.lits (fun l => Spec.pure _)) ?_
  refine Spec.ite _ (Spec.bind (Spec.posMax _ (by decide)) (fun t => Spec.bind Spec.atom (fun x => Spec.bind (Spec.intIn _ _ (by decide) (by decide)) (fun bias =>
    Spec.bind (Spec.posMax _ (by decide)) (fun prio => Spec.bind Spec.lits (fun c => Spec.pure _)))))) ?_
  refine Spec.ite _ (Spec.bind (Spec.posMax _ (by decide)) (fun x => Spec.bind (Spec.posMax _ (by decide)) (fun y => Spec.bind Spec.lits (fun c => Spec.pure _)))) ?_
  refine Spec.ite _ (Spec.bind Spec.pos (fun tt => Spec.bind (Spec.theory tt) (fun c => Spec.pure _))) ?_
  refine Spec.ite _ Spec.comment ?_
  exact Spec.error

/-! ### the directives of a step -/
/-- directives up to and including the terminating `0`; `lead`: must the first token be set off from what precedes it -/
inductive Dirs (s : Bool) : Bool → List Nat → List Call → Prop
  | done {lead : Bool} {w : List Nat} : numN s lead (N Gen.Directive_t_eMax) w 0 → Dirs s lead w []
  | dir {lead : Bool} {w1 w2 w3 : List Nat} {rt : Nat} {oc : Option Call} {cs : List Call} :
      numN s lead (N Gen.Directive_t_eMax) w1 rt → rt ≠ 0 → directiveL rt s w2 oc → Dirs s true w3 cs →
      Dirs s lead (w1 ++ (w2 ++ w3)) (oc.toList ++ cs)

theorem hDirMax : ((N Gen.Directive_t_eMax : Nat) : Int) < I64MAX := by decide

theorem dirStep_ok_inv (a a1 : AS) (h : dirStep a = .stop (.ok a1)) : posMax (N Gen.Directive_t_eMax) a = .ok (0, a1) := by
  unfold dirStep at h
  split at h
  · cases h
  · rename_i rt a1' hp
    split at h
    · rename_i h0; cases h; rw [hp, h0]
    · split at h <;> cases h

theorem dirStep_cont_inv (a : AS) (c : Option Call) (a2 : AS) (h : dirStep a = .cont c a2) :
    ∃ rt a1, posMax (N Gen.Directive_t_eMax) a = .ok (rt, a1) ∧ rt ≠ 0 ∧ AspifIn.directive rt a1 = .ok (c, a2) := by
  unfold dirStep at h
  split at h
  · cases h
  · rename_i rt a1 hp
    split at h
    · cases h
    · rename_i h0
      split at h
      · cases h
      · rename_i c' a2' hd; cases h; exact ⟨rt, a1, hp, h0, hd⟩

theorem stepLoop_sound (lead : Bool) : ∀ (f : Nat) (a : AS) (acc cs : List Call) (a1 : AS), stepLoop f a acc = (cs, .ok a1) →
    ∃ w cs', a.rest = w ++ a1.rest ∧ Dirs false lead w cs' ∧ cs = acc.reverse ++ cs' := by
  intro f
  induction f generalizing lead with
  | zero => intro a acc cs a1 h; rw [C04.stepLoop_zero] at h; simp only [Prod.mk.injEq] at h; cases h.2
  | succ f ih =>
    intro a acc cs a1 h
    rw [C04.stepLoop_succ] at h
    cases hd : dirStep a with
    | stop r =>
      rw [hd] at h
      simp only [Prod.mk.injEq] at h
      obtain ⟨e1, e2⟩ := h
      subst e2
      obtain ⟨w, e, hl⟩ := posMax_sound lead (N Gen.Directive_t_eMax) hDirMax a 0 a1 (dirStep_ok_inv a a1 hd)
      exact ⟨w, [], e, Dirs.done hl, by simp [e1]⟩
    | cont c a2 =>
      rw [hd] at h
      obtain ⟨rt, a0, hp, h0, hdir⟩ := dirStep_cont_inv a c a2 hd
      obtain ⟨w1, e1, l1⟩ := posMax_sound lead (N Gen.Directive_t_eMax) hDirMax a rt a0 hp
      obtain ⟨w2, e2, l2⟩ := (Spec.directive rt).sound a0 c a2 hdir
      obtain ⟨w3, cs', e3, l3, ec⟩ := ih true a2 _ cs a1 h
      refine ⟨w1 ++ (w2 ++ w3), c.toList ++ cs', by rw [e1, e2, e3]; simp, Dirs.dir l1 h0 l2 l3, ?_⟩
      rw [ec]
      cases c <;> simp

theorem numN_pos {s lead : Bool} {m : Nat} {w : List Nat} {n : Nat} (h : numN s lead m w n) : 1 ≤ w.length := by
  obtain ⟨ws, sg, ds, ew, _, hds, _⟩ := h
  subst ew
  have : 1 ≤ ds.length := by cases ds with | nil => exact absurd rfl hds.1 | cons x t => simp
  simp only [List.length_append]; omega

theorem dirs_nds {w : List Nat} {cs : List Call} (h : Dirs true true w cs) (k : List Nat) : NDS (w ++ k) := by
  cases h with
  | done hl => exact num_nds hl k
  | dir hl _ _ _ => rw [List.append_assoc]; exact num_nds hl _

theorem stepLoop_complete : ∀ (lead : Bool) (w : List Nat) (cs : List Call), Dirs true lead w cs → ∀ (f : Nat) (a : AS) (acc : List Call) (k : List Nat),
    w.length < f → a.rest = w ++ k → NDS k → ∃ a', stepLoop f a acc = (acc.reverse ++ cs, .ok a') ∧ a'.rest = k := by
  intro lead w cs hd
  induction hd with
  | @done lead w hl =>
    intro f a acc k hf hr hk
    cases f with
    | zero => omega
    | succ f =>
      obtain ⟨a1, e1, r1⟩ := posMax_complete lead (N Gen.Directive_t_eMax) hDirMax w 0 a k hl hr hk
      refine ⟨a1, ?_, r1⟩
      rw [C04.stepLoop_succ]
      have : dirStep a = .stop (.ok a1) := by unfold dirStep; rw [e1]; simp
      rw [this]; simp
  | @dir lead w1 w2 w3 rt oc cs hl h0 hdir _ ih =>
    intro f a acc k hf hr hk
    cases f with
    | zero => omega
    | succ f =>
      have hs3 : NDS (w3 ++ k) := dirs_nds (by assumption) k
      have hs2 : NDS (w2 ++ (w3 ++ k)) := (Spec.directive rt).safe w2 oc _ hdir hs3
      obtain ⟨a1, e1, r1⟩ := posMax_complete lead (N Gen.Directive_t_eMax) hDirMax w1 rt a (w2 ++ (w3 ++ k)) hl (by rw [hr]; simp) hs2
      obtain ⟨a2, e2, r2⟩ := (Spec.directive rt).complete w2 oc a1 (w3 ++ k) hdir r1 hs3
      have hlen := numN_pos hl
      have key : ∀ acc', ∃ a', stepLoop f a2 acc' = (acc'.reverse ++ cs, .ok a') ∧ a'.rest = k :=
        fun acc' => ih f a2 acc' k (by simp only [List.length_append] at hf; omega) r2 hk
      have hds : dirStep a = .cont oc a2 := by unfold dirStep; rw [e1]; simp only [h0, ↓reduceIte]; rw [e2]
      cases oc with
      | none =>
        obtain ⟨a3, e3, r3⟩ := key acc
        refine ⟨a3, ?_, r3⟩
        rw [C04.stepLoop_succ, hds]; simp only; rw [e3]; simp
      | some c =>
        obtain ⟨a3, e3, r3⟩ := key (c :: acc)
        refine ⟨a3, ?_, r3⟩
        rw [C04.stepLoop_succ, hds]; simp only; rw [e3]; simp

theorem dirs_pos {s lead : Bool} {w : List Nat} {cs : List Call} (h : Dirs s lead w cs) : 1 ≤ w.length := by
  cases h with
  | done hl => exact numN_pos hl
  | dir hl _ _ _ => have := numN_pos hl; simp only [List.length_append]; omega

/-! ### the steps of a program -/
/-- one step, or (incremental programs only) several steps separated by filler -/
inductive Steps (s : Bool) : Bool → List Nat → List Call → Prop
  | last {inc : Bool} {w ws : List Nat} {cs : List Call} : Dirs s false w cs → Filler ws → Steps s inc (w ++ ws) ([.beginStep] ++ cs ++ [.endStep])
  | more {w ws rest : List Nat} {cs cs' : List Call} : Dirs s false w cs → Filler ws → (s = true → ws ≠ []) → NWS rest → rest.headD 0 ≠ 0 →
      Steps s true rest cs' → Steps s true (w ++ (ws ++ rest)) ([.beginStep] ++ cs ++ [.endStep] ++ cs')

theorem skipWsF_nws : ∀ (f : Nat) (a : AS), a.rest.length < f → NWS (AS.skipWsF f a).rest := by
  intro f
  induction f with
  | zero => intro a h; omega
  | succ f ih =>
    intro a hf
    unfold AS.skipWsF
    split
    · rename_i hw
      apply ih
      cases hr : a.rest with
      | nil => simp [AS.peek, hr, isWs] at hw
      | cons c r =>
        have hc : isWs c = true := by simpa [AS.peek, hr] using hw
        rcases get_rest_ws a c r hr hc with h1 | ⟨_, r', h2, h3⟩
        · rw [h1]; rw [hr] at hf; simp at hf; omega
        · rw [h3]; rw [hr, h2] at hf; simp at hf; omega
    · rename_i hw
      intro c r e
      have : a.peek = c := by simp [AS.peek, e]
      rw [this] at hw; simpa using hw

theorem skipWs_nws (a : AS) : NWS a.skipWs.rest := by
  unfold AS.skipWs
  exact skipWsF_nws _ _ (by simp)

theorem stepsLoop_sound : ∀ (f : Nat) (inc : Bool) (a : AS) (acc calls : List Call), (∀ c ∈ a.rest, c ≠ 0) →
    stepsLoop f inc a acc = { calls := calls, err := none } → ∃ cs, calls = acc ++ cs ∧ Steps false inc a.rest cs := by
  intro f
  induction f with
  | zero =>
    intro inc a acc calls _ h
    have e0 : stepsLoop 0 inc a acc = { calls := acc, err := some 0 } := rfl
    rw [e0] at h; simp only [Result.mk.injEq] at h; cases h.2
  | succ f ih =>
    intro inc a acc calls hnul h
    rw [C04.stepsLoop_succ] at h
    cases hr : (stepLoop (a.rest.length + 1) a []).2 with
    | error l => rw [hr] at h; simp at h
    | ok a1 =>
      rw [hr] at h
      simp only at h
      have hpair : stepLoop (a.rest.length + 1) a [] = ((stepLoop (a.rest.length + 1) a []).1, .ok a1) := by rw [← hr]
      obtain ⟨w, cs', e1, hd, ecs⟩ := stepLoop_sound false _ a [] _ a1 hpair
      simp only [List.reverse_nil, List.nil_append] at ecs
      obtain ⟨ws, e2, hws⟩ := skipWs_inv a1
      have hmore : more a1 = (a1.skipWs.peek != 0, a1.skipWs) := rfl
      rw [hmore] at h
      simp only at h
      by_cases hm : (a1.skipWs.peek != 0) = true
      · by_cases hi : inc = true
        · subst hi
          simp only [hm, Bool.not_true, Bool.and_false, Bool.false_eq_true, ↓reduceIte] at h
          have hnul' : ∀ c ∈ a1.skipWs.rest, c ≠ 0 := by
            intro c hc; apply hnul; rw [e1, e2]; simp [hc]
          obtain ⟨cs2, ec2, hs2⟩ := ih true a1.skipWs _ calls hnul' h
          refine ⟨[.beginStep] ++ cs' ++ [.endStep] ++ cs2, by rw [ec2, ecs]; simp, ?_⟩
          rw [e1, e2]
          exact Steps.more hd hws (by intro h; cases h) (skipWs_nws a1) (by simpa [AS.peek] using hm) hs2
        · have : inc = false := by simpa using hi
          subst this
          simp [hm] at h
      · have hm' : (a1.skipWs.peek != 0) = false := by simpa using hm
        simp only [hm', Bool.false_and, Bool.false_eq_true, ↓reduceIte] at h
        have hcalls : calls = acc ++ [.beginStep] ++ (stepLoop (a.rest.length + 1) a []).1 ++ [.endStep] := by
          cases h; rfl
        have hnil : a1.skipWs.rest = [] := by
          cases hrr : a1.skipWs.rest with
          | nil => rfl
          | cons c r =>
            exfalso
            have hc0 : c = 0 := by simpa [AS.peek, hrr] using hm'
            exact hnul c (by rw [e1, e2, hrr]; simp) hc0
        refine ⟨[.beginStep] ++ cs' ++ [.endStep], by rw [hcalls, ecs]; simp, ?_⟩
        rw [e1, e2, hnil, List.append_nil]
        exact Steps.last hd hws

theorem filler_nds {ws : List Nat} (h : Filler ws) : NDS ws := by
  intro c r e
  have := h c (by rw [e]; simp)
  simp [isWs] at this; simp [isDigit]; omega

theorem stepsLoop_complete : ∀ (inc : Bool) (w : List Nat) (cs : List Call), Steps true inc w cs → ∀ (f : Nat) (a : AS) (acc : List Call),
    w.length < f → a.rest = w → stepsLoop f inc a acc = { calls := acc ++ cs, err := none } := by
  intro inc w cs hs
  induction hs with
  | @last inc w ws cs hd hws =>
    intro f a acc hf hr
    cases f with
    | zero => omega
    | succ f =>
      obtain ⟨a1, e1, r1⟩ := stepLoop_complete false w cs hd (a.rest.length + 1) a [] ws (by rw [hr]; simp; omega) hr (filler_nds hws)
      have hsk : a1.skipWs.rest = [] := skipWs_spec a1 ws [] (by simpa using r1) hws (by intro c r e; cases e)
      have hmore : more a1 = (false, a1.skipWs) := by
        show (a1.skipWs.peek != 0, a1.skipWs) = _
        simp [AS.peek, hsk]
      rw [C04.stepsLoop_succ, e1]
      simp only [hmore, Bool.false_and, Bool.false_eq_true, ↓reduceIte, List.reverse_nil, List.nil_append, List.append_assoc]
  | @more w ws rest cs cs' hd hws hne hnw hh0 _ ih =>
    intro f a acc hf hr
    cases f with
    | zero => omega
    | succ f =>
      have hnds : NDS (ws ++ rest) := by
        intro c r e
        cases ws with
        | nil => exact absurd rfl (hne rfl)
        | cons x t => simp only [List.cons_append, List.cons.injEq] at e; rw [← e.1]; exact filler_nds hws x t rfl
      obtain ⟨a1, e1, r1⟩ := stepLoop_complete false w cs hd (a.rest.length + 1) a [] (ws ++ rest) (by rw [hr]; simp; omega) (by rw [hr]) hnds
      have hsk : a1.skipWs.rest = rest := skipWs_spec a1 ws rest r1 hws hnw
      have hmore : more a1 = (true, a1.skipWs) := by
        show (a1.skipWs.peek != 0, a1.skipWs) = _
        simp only [AS.peek, hsk]
        simpa using hh0
      have hlen := dirs_pos hd
      have := ih f a1.skipWs (acc ++ [.beginStep] ++ ([].reverse ++ cs) ++ [.endStep]) (by simp only [List.length_append] at hf; omega) hsk
      rw [C04.stepsLoop_succ, e1]
      simp only [hmore, Bool.not_true, Bool.and_false, Bool.false_eq_true, ↓reduceIte]
      rw [this]
      simp

/-! ### the header line and the program -/
def kwAsp : List Nat := [97, 115, 112, 32]
def kwInc : List Nat := [105, 110, 99, 114, 101, 109, 101, 110, 116, 97, 108]

/-- the header without its line end: filler, `asp `, major version 1, minor version 0, a revision, blanks, optionally `incremental` -/
def headerL (s : Bool) : Lang Bool := fun w inc =>
  ∃ ws w1 w2 w3 sp rev, w = ws ++ (kwAsp ++ (w1 ++ (w2 ++ (w3 ++ (sp ++ (if inc then kwInc else [])))))) ∧ Filler ws ∧
    numN s false U32MAX w1 1 ∧ numN s true U32MAX w2 0 ∧ numN s true U32MAX w3 rev ∧ (∀ c ∈ sp, c = 32)

/-- the end of the header line: LF or CR LF (strict); a lone CR as well (lenient) -/
def IsEol (s : Bool) (eol : List Nat) : Prop := eol = [10] ∨ eol = [13, 10] ∨ (s = false ∧ eol = [13])

/-- **the aspif grammar**: header line, line end, steps -/
def Prog (s : Bool) (t : List Nat) (inc : Bool) (cs : List Call) : Prop :=
  ∃ wh eol wsteps, t = wh ++ (eol ++ wsteps) ∧ headerL s wh inc ∧ IsEol s eol ∧ Steps s inc wsteps cs

theorem matchTok_inv (a : AS) (w : List Nat) (h : (a.matchTok w).1 = true) : a.rest = w ++ (a.matchTok w).2.rest := by
  unfold AS.matchTok at h ⊢
  split
  · rename_i hp
    simp only
    have := List.isPrefixOf_iff_prefix.mp hp
    obtain ⟨t, et⟩ := this
    rw [← et]; simp
  · rename_i hp; simp [hp] at h

theorem matchTok_false (a : AS) (w : List Nat) (h : (a.matchTok w).1 = false) : (a.matchTok w).2.rest = a.rest := by
  unfold AS.matchTok at h ⊢
  split
  · rename_i hp; simp [hp] at h
  · rfl

theorem numN_lenient {lead lead' : Bool} {m : Nat} {w : List Nat} {n : Nat} (h : numN false lead m w n) : numN false lead' m w n := by
  obtain ⟨ws, sg, ds, ew, h1, h2, h3, h4, h5, _⟩ := h
  exact ⟨ws, sg, ds, ew, h1, h2, h3, h4, h5, by intro h; cases h⟩

theorem hU32 : ((U32MAX : Nat) : Int) < I64MAX := by decide

theorem header_sound (a : AS) (inc : Bool) (a6 : AS) (h : header a = some (.ok (inc, a6))) : ∃ w, a.rest = w ++ a6.rest ∧ headerL false w inc := by
  unfold header at h
  simp only [] at h
  obtain ⟨ws, e0, hws⟩ := skipWs_inv a
  split at h
  · cases h
  · rename_i hok
    have hok' : (a.skipWs.matchTok [97, 115, 112, 32]).1 = true := by simpa using hok
    have em := matchTok_inv a.skipWs _ hok'
    generalize (a.skipWs.matchTok [97, 115, 112, 32]).2 = a1 at h em
    simp only [Option.some.injEq] at h
    cases h1 : AspifIn.pos a1 with
    | error l => simp [h1, bind, Except.bind] at h
    | ok r1 =>
      obtain ⟨ma, a2⟩ := r1
      obtain ⟨w1, e1, l1⟩ := posMax_sound false U32MAX hU32 a1 ma a2 h1
      by_cases hma : ma = 1
      · subst hma
        simp only [h1, bind, Except.bind, ne_eq, not_true_eq_false, ↓reduceIte] at h
        cases h2 : AspifIn.pos a2 with
        | error l => simp [h2] at h
        | ok r2 =>
          obtain ⟨mi, a3⟩ := r2
          obtain ⟨w2, e2, l2⟩ := posMax_sound true U32MAX hU32 a2 mi a3 h2
          by_cases hmi : mi = 0
          · subst hmi
            simp only [h2, not_true_eq_false, ↓reduceIte] at h
            cases h3 : AspifIn.pos a3 with
            | error l => simp [h3] at h
            | ok r3 =>
              obtain ⟨rev, a4⟩ := r3
              obtain ⟨w3, e3, l3⟩ := posMax_sound true U32MAX hU32 a3 rev a4 h3
              simp only [h3, pure, Except.pure, Except.ok.injEq, Prod.mk.injEq] at h
              obtain ⟨hinc, ha6⟩ := h
              obtain ⟨sp, dr, esp, hsp, edr⟩ : ∃ sp dr, a4.rest = sp ++ dr ∧ (∀ c ∈ sp, c = 32) ∧ dr = a4.rest.dropWhile (· == 32) :=
                ⟨_, _, (List.takeWhile_append_dropWhile).symm, (by intro c hc; have := takeWhile_mem _ _ c hc; simpa using this), rfl⟩
              generalize hA5 : ({ rest := List.dropWhile (fun x => x == 32) a4.rest, line := a4.line, canUnget := a4.canUnget } : AS) = a5 at hinc ha6
              have e5 : a5.rest = dr := by rw [← hA5, edr]
              cases hi : inc with
              | true =>
                have := matchTok_inv a5 _ (by rw [hinc, hi])
                rw [ha6, e5] at this
                refine ⟨ws ++ (kwAsp ++ (w1 ++ (w2 ++ (w3 ++ (sp ++ kwInc))))), ?_, ws, w1, w2, w3, sp, rev, by simp, hws, l1, l2, l3, hsp⟩
                rw [e0, em, e1, e2, e3, esp, this]; simp [kwAsp, kwInc]
              | false =>
                have := matchTok_false a5 _ (by rw [hinc, hi])
                rw [ha6, e5] at this
                refine ⟨ws ++ (kwAsp ++ (w1 ++ (w2 ++ (w3 ++ (sp ++ []))))), ?_, ws, w1, w2, w3, sp, rev, by simp, hws, l1, l2, l3, hsp⟩
                rw [e0, em, e1, e2, e3, esp, this]; simp [kwAsp]
          · simp [h2, hmi, throw, throwThe, MonadExceptOf.throw] at h
      · simp [h1, bind, Except.bind, hma, throw, throwThe, MonadExceptOf.throw] at h

theorem dropWhile_blanks (sp x : List Nat) (hsp : ∀ c ∈ sp, c = 32) (hx : x.headD 0 ≠ 32) : (sp ++ x).dropWhile (· == 32) = x := by
  induction sp with
  | nil =>
    cases x with
    | nil => rfl
    | cons c r => simp only [List.nil_append, List.dropWhile]; have : (c == 32) = false := by simpa using hx
                  rw [this]
  | cons c r ih =>
    have : c = 32 := hsp c (by simp)
    subst this
    simp only [List.cons_append, List.dropWhile, BEq.rfl]
    exact ih (fun y hy => hsp y (by simp [hy]))

theorem header_complete (a : AS) (w : List Nat) (inc : Bool) (k : List Nat) (hw : headerL true w inc) (hr : a.rest = w ++ k)
    (hk : ∃ c t, k = c :: t ∧ (c = 10 ∨ c = 13)) : ∃ a6, header a = some (.ok (inc, a6)) ∧ a6.rest = k := by
  obtain ⟨ws, w1, w2, w3, sp, rev, ew, hws, l1, l2, l3, hsp⟩ := hw
  subst ew
  obtain ⟨kc, kt, ek, hkc⟩ := hk
  obtain ⟨X, hXdef⟩ : ∃ X, X = (if inc then kwInc else []) ++ k := ⟨_, rfl⟩
  have hX : X.headD 0 ≠ 32 ∧ isDigit (X.headD 0) = false := by
    rw [hXdef]
    cases inc with
    | true => simp [kwInc, isDigit]
    | false => simp only [Bool.false_eq_true, ↓reduceIte, List.nil_append]; rw [ek]; rcases hkc with h | h <;> subst h <;> simp [isDigit]
  have hs : a.skipWs.rest = kwAsp ++ (w1 ++ (w2 ++ (w3 ++ (sp ++ X)))) :=
    skipWs_spec a ws _ (by rw [hr, hXdef]; simp) hws (by intro c r e; cases e; decide)
  cases hmt : a.skipWs.matchTok [97, 115, 112, 32] with
  | mk ok a1 =>
    have hmt' := hmt
    unfold AS.matchTok at hmt'
    rw [hs] at hmt'
    simp only [kwAsp, List.cons_append, List.nil_append, List.isPrefixOf, BEq.rfl, Bool.true_and, List.isPrefixOf_nil_left, ↓reduceIte, List.length_cons,
      List.length_nil, List.drop_succ_cons, List.drop_zero, Prod.mk.injEq] at hmt'
    obtain ⟨hok, ha1⟩ := hmt'
    have hm2 : a1.rest = w1 ++ (w2 ++ (w3 ++ (sp ++ X))) := by rw [← ha1]
    have hn3 : NDS (sp ++ X) := by
      intro c r e
      cases sp with
      | nil => simp only [List.nil_append] at e; have := hX.2; rw [e] at this; exact this
      | cons y t => simp only [List.cons_append, List.cons.injEq] at e; rw [← e.1, hsp y (by simp)]; rfl
    obtain ⟨a2, e1, r1⟩ := posMax_complete false U32MAX hU32 w1 1 a1 _ l1 hm2 (num_nds l2 _)
    obtain ⟨a3, e2, r2⟩ := posMax_complete true U32MAX hU32 w2 0 a2 _ l2 r1 (num_nds l3 _)
    obtain ⟨a4, e3, r3⟩ := posMax_complete true U32MAX hU32 w3 rev a3 _ l3 r2 hn3
    have hdw : a4.rest.dropWhile (· == 32) = X := by rw [r3]; exact dropWhile_blanks sp X hsp hX.1
    have hres : ∃ a6, (({ a4 with rest := a4.rest.dropWhile (· == 32) } : AS).matchTok [105, 110, 99, 114, 101, 109, 101, 110, 116, 97, 108]) = (inc, a6) ∧ a6.rest = k := by
      rw [hdw, hXdef]
      unfold AS.matchTok
      cases inc with
      | true => exact ⟨{ rest := k, line := a4.line, canUnget := true }, by simp [kwInc], rfl⟩
      | false =>
        have : ([105, 110, 99, 114, 101, 109, 101, 110, 116, 97, 108] : List Nat).isPrefixOf k = false := by
          rw [ek]; rcases hkc with h | h <;> subst h <;> rfl
        simp only [Bool.false_eq_true, ↓reduceIte, List.nil_append, this]
        exact ⟨_, rfl, rfl⟩
    obtain ⟨a6, em, r6⟩ := hres
    refine ⟨a6, ?_, r6⟩
    unfold header
    have e1' : AspifIn.pos a1 = .ok (1, a2) := e1
    have e2' : AspifIn.pos a2 = .ok (0, a3) := e2
    have e3' : AspifIn.pos a3 = .ok (rev, a4) := e3
    simp only [hmt, ← hok, Bool.not_true, Bool.false_eq_true, ↓reduceIte, e1', bind, Except.bind, ne_eq, not_true_eq_false, e2', e3', pure, Except.pure, em]

theorem get_nl_inv (a : AS) (h : a.get.1 = 10) : ∃ eol, a.rest = eol ++ a.get.2.rest ∧ IsEol false eol := by
  unfold AS.get at h ⊢
  split
  · rename_i hr; simp [hr] at h
  · rename_i c r hr
    simp only [hr] at h
    split
    · rename_i hc; simp [hc] at h
    · split
      · rename_i h13
        have : c = 13 := by simpa using h13
        subst this
        split
        · exact ⟨[13, 10], by simp [hr], Or.inr (Or.inl rfl)⟩
        · exact ⟨[13], by simp [hr], Or.inr (Or.inr ⟨rfl, rfl⟩)⟩
      · split
        · rename_i _ h10
          have : c = 10 := by simpa using h10
          subst this
          exact ⟨[10], by simp [hr], Or.inl rfl⟩
        · rename_i hc0 h13 h10
          simp only [hc0, h13, h10, Bool.false_eq_true, ↓reduceIte] at h
          exact absurd h (by simpa using h10)

/-- **C03 (completeness)**: every strict aspif text — header line, then whitespace-separated tokens in ANY layout (any filler, `+`
    signs, leading zeros, digit strings of any length whose value fits the field), counts matched by their items, every number inside
    its field — is accepted, and the reader delivers exactly the directives the text denotes, in order (weight-0 literals omitted). -/
theorem C03_complete (t : List Nat) (inc : Bool) (cs : List Call) (h : Prog true t inc cs) :
    AspifIn.read t = { calls := .initProgram inc :: cs, err := none } := by
  obtain ⟨wh, eol, wsteps, et, hh, he, hs⟩ := h
  have hk : ∃ c r, eol ++ wsteps = c :: r ∧ (c = 10 ∨ c = 13) := by
    rcases he with h | h | h
    · subst h; exact ⟨10, _, rfl, Or.inl rfl⟩
    · subst h; exact ⟨13, _, rfl, Or.inr rfl⟩
    · cases h.1
  obtain ⟨a1, e1, r1⟩ := header_complete (AS.init t) wh inc (eol ++ wsteps) hh et hk
  have hg : a1.get.1 = 10 ∧ a1.get.2.rest = wsteps := by
    unfold AS.get
    rcases he with h | h | h
    · subst h; rw [r1]; simp
    · subst h; rw [r1]; simp
    · cases h.1
  have hsl := stepsLoop_complete inc wsteps cs hs (a1.get.2.rest.length + 1) a1.get.2 [.initProgram inc] (by rw [hg.2]; omega) hg.2
  unfold AspifIn.read
  simp only [e1]
  have hc : ¬ (a1.get.1 ≠ 10) := by rw [hg.1]; simp
  simp only [hc, ↓reduceIte, hsl, List.singleton_append]

/-- **C03 (soundness)**: whatever the reader accepts (a text without NUL byte) is a text of the (lenient) aspif grammar, and the directives
    it delivers are exactly those the text denotes: every delivered number is the number written (never wrapped or truncated), inside its
    field, every count is matched by the items that follow, in the order of the text. -/
theorem C03_sound (t : List Nat) (calls : List Call) (hnul : ∀ c ∈ t, c ≠ 0) (h : AspifIn.read t = { calls := calls, err := none }) :
    ∃ inc cs, calls = .initProgram inc :: cs ∧ Prog false t inc cs := by
  unfold AspifIn.read at h
  simp only [] at h
  cases hd : header (AS.init t) with
  | none => rw [hd] at h; simp at h
  | some r =>
    cases r with
    | error l => rw [hd] at h; simp at h
    | ok p =>
      obtain ⟨inc, a1⟩ := p
      rw [hd] at h
      simp only at h
      obtain ⟨wh, e1, hh⟩ := header_sound (AS.init t) inc a1 hd
      by_cases hc : a1.get.1 = 10
      · simp only [hc, ne_eq, not_true_eq_false, ↓reduceIte] at h
        obtain ⟨eol, e2, he⟩ := get_nl_inv a1 hc
        have et : t = wh ++ (eol ++ a1.get.2.rest) := by
          have : (AS.init t).rest = t := rfl
          rw [← this, e1, e2]
        have hnul' : ∀ c ∈ a1.get.2.rest, c ≠ 0 := by intro c hc'; apply hnul; rw [et]; simp [hc']
        obtain ⟨cs, ec, hs⟩ := stepsLoop_sound _ inc a1.get.2 [.initProgram inc] calls hnul' h
        exact ⟨inc, cs, by simpa using ec, wh, eol, a1.get.2.rest, et, hh, he, hs⟩
      · simp [hc] at h

/-- a text the reader accepts is never outside the grammar: rejection of everything else -/
theorem C03_rejects (t : List Nat) (hnul : ∀ c ∈ t, c ≠ 0) (hno : ∀ inc cs, ¬ Prog false t inc cs) : (AspifIn.read t).err ≠ none := by
  intro h
  obtain ⟨inc, cs, _, hp⟩ := C03_sound t (AspifIn.read t).calls hnul (by cases hr : AspifIn.read t; rw [hr] at h; simp at h; subst h; rfl)
  exact hno inc cs hp

/-- the strict grammar is inside the lenient one (for NUL-free texts), with the same denotation -/
theorem C03_strict_lenient (t : List Nat) (inc : Bool) (cs : List Call) (hnul : ∀ c ∈ t, c ≠ 0) (h : Prog true t inc cs) : Prog false t inc cs := by
  obtain ⟨inc', cs', e, hp⟩ := C03_sound t _ hnul (C03_complete t inc cs h)
  simp only [List.cons.injEq, Call.initProgram.injEq] at e
  rw [e.1, e.2]; exact hp

/-! ### non-vacuity: `asp 1 0 0␤1 0 1 1 0 0␤0␤` is a strict program text denoting one fact -/
theorem tokB (lead : Bool) (lo hi : Int) (d : Nat) (hd : isDigit d = true) (hlo : lo ≤ denoted .none [d]) (hhi : denoted .none [d] ≤ hi) :
    num true lead lo hi [32, d] (denoted .none [d]) :=
  ⟨[32], .none, [d], rfl, (by intro c hc; simp at hc; subst hc; rfl), ⟨by simp, by intro c hc; simp at hc; subst hc; exact hd⟩, rfl, hlo, hhi, fun _ _ => Or.inl (by simp)⟩

def exText : List Nat := [97, 115, 112, 32, 49, 32, 48, 32, 48, 10, 49, 32, 48, 32, 49, 32, 49, 32, 48, 32, 48, 10, 48, 10]

example : Prog true exText false [.beginStep, .rule 0 [1] [], .endStep] := by
  refine ⟨[97, 115, 112, 32, 49, 32, 48, 32, 48], [10], [49, 32, 48, 32, 49, 32, 49, 32, 48, 32, 48, 10, 48, 10], rfl, ?_, Or.inl rfl, ?_⟩
  · refine ⟨[], [49], [32, 48], [32, 48], [], 0, rfl, (by intro c hc; cases hc), ?_, ?_, ?_, (by intro c hc; cases hc)⟩
    · exact ⟨[], .none, [49], rfl, (by intro c hc; cases hc), ⟨by simp, by intro c hc; simp at hc; subst hc; rfl⟩, rfl, by decide, by decide, by intro _ h; cases h⟩
    · exact tokB true 0 _ 48 rfl (by decide) (by decide)
    · exact tokB true 0 _ 48 rfl (by decide) (by decide)
  · have hdirs : Dirs true false ([49] ++ (([32, 48] ++ (([32, 49] ++ ([32, 49] ++ [])) ++ ([32, 48] ++ (([32, 48] ++ []) ++ [])))) ++ [10, 48]))
        ((some (Call.rule 0 [1] [])).toList ++ []) := by
      refine Dirs.dir (rt := 1) ?_ (by decide) ?_ (Dirs.done ?_)
      · exact ⟨[], .none, [49], rfl, (by intro c hc; cases hc), ⟨by simp, by intro c hc; simp at hc; subst hc; rfl⟩, rfl, by decide, by decide, by intro _ h; cases h⟩
      · show seq _ _ _ _
        refine ⟨[32, 48], _, 0, rfl, tokB true 0 _ 48 rfl (by decide) (by decide), ?_⟩
        refine ⟨[32, 49] ++ ([32, 49] ++ []), _, [1], rfl, ?_, ?_⟩
        · exact ⟨[32, 49], _, 1, rfl, tokB true 0 _ 49 rfl (by decide) (by decide), [32, 49], [], 1, rfl, tokB true 1 _ 49 rfl (by decide) (by decide), [], [], [], rfl, ⟨rfl, rfl⟩, rfl, rfl⟩
        · refine ⟨[32, 48], _, 0, rfl, tokB true 0 _ 48 rfl (by decide) (by decide), ?_⟩
          show seq _ _ _ _
          exact ⟨[32, 48] ++ [], [], [], rfl, ⟨[32, 48], [], 0, rfl, tokB true 0 _ 48 rfl (by decide) (by decide), rfl, rfl⟩, rfl, rfl⟩
      · exact ⟨[10], .none, [48], rfl, (by intro c hc; simp at hc; subst hc; rfl), ⟨by simp, by intro c hc; simp at hc; subst hc; rfl⟩, rfl, by decide, by decide, fun _ _ => Or.inl (by simp)⟩
    exact Steps.last (ws := [10]) hdirs (by intro c hc; simp at hc; subst hc; rfl)

example : AspifIn.read exText = { calls := [.initProgram false, .beginStep, .rule 0 [1] [], .endStep], err := none } := by decide +kernel

end PotasscoVerif.C03
