/-
  C02 (continued) — several incremental steps.
  `C02_steps_translation`: after ANY number of steps (without external directives, or converted with the clasp extension on) all rules emitted so far
  are a translation — one atom map, one table of auxiliary atoms — of all rules given so far.
  `C02_steps_stable_models`: for incremental programs of any number of steps without external directives, converted with or without the extension,
  the program given so far and the program emitted so far have the same answer sets, one to one under the converter's atom map.
  (With external directives and several steps the reading of the externals — which step's value counts — is not fixed by `progOf`; for those
  programs the rule part is covered by `C02_steps_translation`, the externals of each step by `C02_externals_passed`, the answer sets by the
  oracle of the check.)
-/
import PotasscoVerif.Props.C02x
import PotasscoVerif.Lemmas.ConvertSteps
import PotasscoVerif.Lemmas.ConvertStepsExt
namespace PotasscoVerif.C02
open PotasscoVerif PotasscoVerif.Convert PotasscoVerif.Asp

theorem convert_steps_eq (ext : Bool) (dss : List (List Call)) :
    convert ext (stepsCalls dss) = dss.foldl stepRun (({ ext := ext } : CS).apply (.initProgram true)) := by
  unfold convert stepsCalls
  rw [List.foldl_cons, foldl_steps_eq]

/-- **C02 (several steps, the rules)**: all steps without external directives, or the extension on -/
theorem C02_steps_translation (ext : Bool) (dss : List (List Call)) (hx : ∀ ds ∈ dss, ∀ d ∈ ds, PlainOk d)
    (hE : (∀ ds ∈ dss, extCalls ds = []) ∨ ext = true) :
    ∃ defs, J (convert ext (stepsCalls dss)) ((rulesOf dss.flatten).filter kept) defs ∧
      Trans (ctxOf (convert ext (stepsCalls dss)) defs) ((rulesOf dss.flatten).filter kept) (rulesOf (convert ext (stepsCalls dss)).out) := by
  have a1 : J (CS.apply { ext := ext } (.initProgram true)) [] [] := by
    rw [apply_init _ rfl]; exact (J.init ext).emit _ rfl
  have d1 : XI (CS.apply { ext := ext } (.initProgram true)) {} := by
    rw [apply_init _ rfl]; exact (XI.init ext).emit _
  have hE' : (∀ ds ∈ dss, extCalls ds = []) ∨ (CS.apply { ext := ext } (.initProgram true)).ext = true := by
    rcases hE with h | h
    · exact Or.inl h
    · right; rw [apply_init _ rfl]; exact h
  obtain ⟨defs, t, hj, _, _⟩ := steps_JX dss hx a1 d1 rfl hE'
  rw [List.nil_append] at hj
  rw [convert_steps_eq]
  exact ⟨defs, hj, ctx_trans hj⟩

/-- **C02 (several steps, answer sets)**: incremental programs of any number of steps without external directives -/
theorem C02_steps_stable_models (ext : Bool) (dss : List (List Call)) (hx : ∀ ds ∈ dss, ∀ d ∈ ds, PlainOk d) (hE : ∀ ds ∈ dss, extCalls ds = []) :
    ∃ E : I → I,
      (∀ X, Stable (rulesOf dss.flatten) X →
        Stable (rulesOf (convert ext (stepsCalls dss)).out) (E X) ∧ E X 1 = false ∧ restrict (convert ext (stepsCalls dss)) (E X) = X) ∧
      (∀ X', Stable (rulesOf (convert ext (stepsCalls dss)).out) X' → X' 1 = false →
        Stable (rulesOf dss.flatten) (restrict (convert ext (stepsCalls dss)) X') ∧ E (restrict (convert ext (stepsCalls dss)) X') = X') := by
  obtain ⟨defs, hj, tr⟩ := C02_steps_translation ext dss hx (Or.inl hE)
  have ok := ctx_ok hj
  refine ⟨fun X => (ctxOf (convert ext (stepsCalls dss)) defs).E X X, ?_, ?_⟩
  · intro X hs
    have hs' := (stable_filter_kept _ X).mpr hs
    obtain ⟨h1, h2, h3⟩ := translation_stable ok tr hs'
    refine ⟨h1, h2, ?_⟩
    rw [restrict_eq _ hj.inv defs]; exact h3
  · intro X' hs h1
    obtain ⟨h2, h3⟩ := translation_stable_back ok tr X' hs h1
    rw [restrict_eq _ hj.inv defs]
    exact ⟨(stable_filter_kept _ _).mp h2, h3.symm⟩

/-- **C02 (several steps, externals passed on)**: with the extension on, the external calls emitted over ALL steps of an incremental program are,
    step after step and in the order of declaration, the atoms declared external in that step while no rule (of this or an earlier step) had defined
    them, each with its image under the final atom map and the LAST value declared for it in that step -/
theorem C02_steps_externals (dss : List (List Call)) (hx : ∀ ds ∈ dss, ∀ d ∈ ds, PlainOk d) :
    extCalls (convert true (stepsCalls dss)).out = (stepRegs {} dss).map (fun p => (finalMap (convert true (stepsCalls dss)) p.1, p.2)) := by
  have a1 : J (CS.apply { ext := true } (.initProgram true)) [] [] := by
    rw [apply_init _ rfl]; exact (J.init true).emit _ rfl
  have d1 : XI (CS.apply { ext := true } (.initProgram true)) {} := by
    rw [apply_init _ rfl]; exact (XI.init true).emit _
  have he : (CS.apply { ext := true } (.initProgram true)).ext = true := by rw [apply_init _ rfl]; rfl
  obtain ⟨defs, t, hj, _, _⟩ := steps_JX dss hx a1 d1 rfl (Or.inr he)
  have hm := agree_final _ hj.inv
  have := steps_extCalls dss hx a1 d1 rfl he _ hm
  rw [convert_steps_eq, this]
  have e0 : extCalls (CS.apply { ext := true } (.initProgram true)).out = [] := by rw [apply_init _ rfl]; rfl
  rw [e0, List.nil_append]

/-- **C02 (several steps WITH externals, extension on)**.  For incremental programs of ANY number of steps made of rules, minimize, output, edge, heuristic
    and ANY external directives, converted with the clasp extension on: reading the external directives of all steps together (`progOf` of the
    concatenation: an external on an atom that no rule of any step defines is a fact / a choice / nothing, the LAST directive over all steps counts) and the
    external calls emitted over all steps in the same way, the program given so far and the program emitted so far have the same answer sets, one to one
    under the converter's atom map. -/
theorem C02_steps_stable_models_ext (dss : List (List Call)) (hx : ∀ ds ∈ dss, ∀ d ∈ ds, PlainOk d) :
    ∃ E : I → I,
      (∀ X, Stable (progOf dss.flatten) X →
        Stable (progOf (convert true (stepsCalls dss)).out) (E X) ∧ E X 1 = false ∧ restrict (convert true (stepsCalls dss)) (E X) = X) ∧
      (∀ X', Stable (progOf (convert true (stepsCalls dss)).out) X' → X' 1 = false →
        Stable (progOf dss.flatten) (restrict (convert true (stepsCalls dss)) X') ∧ E (restrict (convert true (stepsCalls dss)) X') = X') := by
  obtain ⟨defs, hj, tr⟩ := C02_steps_translation true dss hx (Or.inr rfl)
  have ok := ctx_ok hj
  have a1 : J (CS.apply { ext := true } (.initProgram true)) [] [] := by
    rw [apply_init _ rfl]; exact (J.init true).emit _ rfl
  have d1 : XI (CS.apply { ext := true } (.initProgram true)) {} := by
    rw [apply_init _ rfl]; exact (XI.init true).emit _
  have he : (CS.apply { ext := true } (.initProgram true)).ext = true := by rw [apply_init _ rfl]; rfl
  have hE := C02_steps_externals dss hx
  have hdom : ∀ p ∈ stepRegs {} dss, p.1 ∈ (ctxOf (convert true (stepsCalls dss)) defs).dom := by
    intro p hp
    have := steps_regs_dom dss hx a1 d1 rfl he p hp
    rw [← convert_steps_eq] at this
    exact this
  have hH : ∀ b ∈ (({} : T).run dss.flatten).heads, b ∈ headsOf dss.flatten := by
    intro b hb; rw [run_heads] at hb; simpa using hb
  have hatoms : ((stepRegs {} dss).map (·.1)).filter (fun a => !(headsOf dss.flatten).contains a)
      = ((extCalls dss.flatten).map (·.1)).filter (fun a => !(headsOf dss.flatten).contains a) := by
    rw [(stepRegs_atoms dss {} rfl).1]
    have := run_regs dss.flatten {} (headsOf dss.flatten) hH
    simpa using this
  have hlast : ∀ a, a ∈ (stepRegs {} dss).map (·.1) → (headsOf dss.flatten).contains a = false → lastOf (stepRegs {} dss) a = lastOf (extCalls dss.flatten) a := by
    intro a _ hc
    exact stepRegs_last dss {} rfl (headsOf dss.flatten) hH a (by simpa using hc)
  have hhd : ∀ p ∈ stepRegs {} dss, (headsOf dss.flatten).contains p.1 = true ↔ ∃ r ∈ (rulesOf dss.flatten).filter kept, p.1 ∈ r.head := by
    intro p _
    rw [List.contains_iff_mem]
    exact headsOf_mem dss.flatten p.1
  have hout := extRules_out_steps (ctxOf (convert true (stepsCalls dss)) defs) ok _ _ tr (stepRegs {} dss) (extCalls dss.flatten) (headsOf dss.flatten)
    hdom hE hhd hatoms hlast
  rw [← extRules_eq] at hout
  have hQ : ∀ r ∈ extRules dss.flatten, (∀ a ∈ r.head, a ∈ (ctxOf (convert true (stepsCalls dss)) defs).dom) ∧
      (∀ a ∈ r.body.atoms, a ∈ (ctxOf (convert true (stepsCalls dss)) defs).dom) ∧ r.body.Ok := by
    have heff : ∀ a ∈ ((extCalls dss.flatten).map (·.1)).filter (fun a => !(headsOf dss.flatten).contains a), a ∈ (ctxOf (convert true (stepsCalls dss)) defs).dom := by
      intro a ha
      rw [← hatoms] at ha
      obtain ⟨p, hp, rfl⟩ := List.mem_map.mp (List.mem_filter.mp ha).1
      exact hdom p hp
    intro r hr
    unfold extRules at hr
    rcases List.mem_append.mp hr with h | h
    · obtain ⟨a, ha, rfl⟩ := List.mem_map.mp h
      refine ⟨?_, by intro b hb; simp [Body.atoms] at hb, by intro l hl; cases hl⟩
      intro b hb; simp only [List.mem_singleton] at hb; subst hb
      exact heff b (List.mem_filter.mp ha).1
    · split at h
      · cases h
      · simp only [List.mem_singleton] at h; subst h
        refine ⟨?_, by intro b hb; simp [Body.atoms] at hb, by intro l hl; cases hl⟩
        intro b hb; exact heff b (List.mem_filter.mp hb).1
  have tr2 := PotasscoVerif.C02.Trans.append_ren tr (extRules dss.flatten) hQ
  rw [← hout] at tr2
  refine ⟨fun X => (ctxOf (convert true (stepsCalls dss)) defs).E X X, ?_, ?_⟩
  · intro X hs
    have hs' := (stable_filter_kept_app _ _ X).mpr hs
    obtain ⟨h1, h2, h3⟩ := translation_stable ok tr2 hs'
    refine ⟨h1, h2, ?_⟩
    rw [restrict_eq _ hj.inv defs]; exact h3
  · intro X' hs h1
    obtain ⟨h2, h3⟩ := translation_stable_back ok tr2 X' hs h1
    rw [restrict_eq _ hj.inv defs]
    exact ⟨(stable_filter_kept_app _ _ _).mp h2, h3.symm⟩

/-! non-vacuity: three steps; a later step uses atoms of an earlier one, an integrity constraint, a weight rule and an output -/
def exSteps : List (List Call) :=
  [[.rule 1 [1, 2] [], .rule 0 [3] [1, -2]], [.rule 0 [] [3, 4], .sumRule 0 [5] 2 [(1, 1), (3, 2)], .output [97] [5]], [.rule 0 [4] [-5], .minimize 0 [(4, 1)]]]

example : ∀ ds ∈ exSteps, ∀ d ∈ ds, PlainOk d := by
  intro ds hds d hd
  simp only [exSteps, List.mem_cons, List.not_mem_nil, or_false] at hds
  rcases hds with rfl | rfl | rfl <;> simp only [List.mem_cons, List.not_mem_nil, or_false] at hd <;>
    rcases hd with rfl | rfl | rfl <;> simp [PlainOk, I32MINc]
example : ∀ ds ∈ exSteps, extCalls ds = [] := by decide
example : (rulesOf (convert true (stepsCalls exSteps)).out).length = 5 := by decide +kernel

/-- two steps with externals: atom 1 free then true in step one, atom 2 declared in both steps, atom 3 defined in step one and declared in step two (no effect) -/
def exStepsX : List (List Call) :=
  [[.external 1 0, .external 2 2, .external 1 1, .rule 0 [3] [1, -2]], [.external 2 3, .external 3 1, .rule 0 [4] [2]]]
example : stepRegs {} exStepsX = [(1, 1), (2, 2), (1, 1), (2, 3)] := by decide
example : extCalls (convert true (stepsCalls exStepsX)).out = [(2, 1), (3, 2), (2, 1), (3, 3)] := by decide +kernel

end PotasscoVerif.C02
