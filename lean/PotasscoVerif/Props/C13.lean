/-
  C13 — command-line, command-string and config-file parsing return the intended values.
  Model: Model/Options.lean (lookup facts come from C14).
  PROVED HERE:
    * `C13_cmdstring`: the command-string tokenizer is a left inverse of quoting — for EVERY list of tokens (any
      bytes except NUL: blanks, quotes, backslashes, empty tokens), tokenizing the quoted, blank-joined string gives
      back exactly those tokens; hence parsing the command string gives the same result as parsing the tokens
      (`C13_cmdstring_parse`);
    * `C13_terminator`: after `--` every further token is left, in order, in the remaining arguments;
    * the spelling lemmas `C13_long_eq`, `C13_long_sep`, `C13_short_attached`, `C13_short_sep`, `C13_flag`:
      each valid spelling of one occurrence adds exactly the intended (option, value) pair and consumes exactly
      its tokens (hypothesis: the key resolves to the option — that is C14).
  MISSING as theorems: the composition over whole occurrence lists, negation, positional handling, config files —
  decided by correspondence and the intended-list oracle.
-/
import PotasscoVerif.Model.Options
namespace PotasscoVerif.C13
open PotasscoVerif.Options PotasscoVerif.OptIndex

/-- quoting a token for a command string: in double quotes, `\` and `"` escaped by a backslash. -/
def esc : List Nat → List Nat
  | [] => []
  | c :: r => if c == 92 || c == 34 then 92 :: c :: esc r else c :: esc r
def quoteTok (t : List Nat) : List Nat := 34 :: (esc t ++ [34])
def quoteJoin : List (List Nat) → List Nat
  | [] => []
  | [t] => quoteTok t
  | t :: ts => quoteTok t ++ 32 :: quoteJoin ts

theorem esc_length_ge (t : List Nat) : t.length ≤ (esc t).length := by
  induction t with
  | nil => simp [esc]
  | cons c r ih => unfold esc; split <;> simp <;> omega

theorem step_plain (f c : Nat) (r acc : List Nat) (h34 : c ≠ 34) (h92 : c ≠ 92) :
    csToken (f + 1) (c :: r) 34 acc = csToken f r 34 (c :: acc) := by
  have e1 : (c == 34) = false := by simp [h34]
  have e2 : ((34 : Nat) == 32) = false := by decide
  have e3 : (c != 92) = true := by simp [h92]
  simp only [csToken, e1, e2, e3, Bool.and_false, Bool.or_false, Bool.false_eq_true, ↓reduceIte]

theorem step_escaped (f c : Nat) (r acc : List Nat) (hc : c = 34 ∨ c = 92) :
    csToken (f + 1) (92 :: c :: r) 34 acc = csToken f r 34 (c :: acc) := by
  have e1 : ((92 : Nat) == 34) = false := by decide
  have e2 : ((34 : Nat) == 32) = false := by decide
  have e3 : ((92 : Nat) != 92) = false := by decide
  have e4 : (c == 34 || c == 39 || c == 92) = true := by rcases hc with h | h <;> simp [h]
  simp only [csToken, e1, e2, e3, e4, Bool.and_false, Bool.false_eq_true, ↓reduceIte]

theorem step_close (f : Nat) (r acc : List Nat) : csToken (f + 1) (34 :: r) 34 acc = csToken f r 32 acc := by
  have e2 : ((34 : Nat) == 32) = false := by decide
  simp only [csToken, beq_self_eq_true, ↓reduceIte, e2, Bool.false_eq_true]

theorem step_open (f : Nat) (r acc : List Nat) : csToken (f + 1) (34 :: r) 32 acc = csToken f r 34 acc := by
  have e1 : ((34 : Nat) == 32) = false := by decide
  simp only [csToken, e1, Bool.false_eq_true, ↓reduceIte, beq_self_eq_true, Bool.or_true, Bool.and_self]

theorem step_blank (f : Nat) (r acc : List Nat) : csToken (f + 1) (32 :: r) 32 acc = (acc.reverse, 32 :: r) := by
  simp only [csToken, beq_self_eq_true, ↓reduceIte]

theorem step_nil (f t : Nat) (acc : List Nat) : csToken (f + 1) [] t acc = (acc.reverse, []) := by
  simp only [csToken]

/-- inside double quotes the tokenizer reads an escaped token back (one step per character of the token). -/
theorem csToken_esc : ∀ (t : List Nat) (f : Nat) (rest acc : List Nat), (∀ c ∈ t, c ≠ 0) →
    csToken (f + t.length) (esc t ++ 34 :: rest) 34 acc = csToken f (34 :: rest) 34 (t.reverse ++ acc) := by
  intro t
  induction t with
  | nil => intro f rest acc _; simp [esc]
  | cons c r ih =>
    intro f rest acc hn
    have hr : ∀ x ∈ r, x ≠ 0 := fun x hx => hn x (by simp [hx])
    have hlen : f + (c :: r).length = (f + r.length) + 1 := by simp; omega
    rw [hlen]
    unfold esc
    by_cases hc : (c == 92 || c == 34) = true
    · have hc' : c = 34 ∨ c = 92 := by
        simp only [Bool.or_eq_true, beq_iff_eq] at hc; rcases hc with h | h; exact Or.inr h; exact Or.inl h
      simp only [hc, ↓reduceIte, List.cons_append]
      rw [step_escaped _ c _ _ hc', ih f rest (c :: acc) hr]
      simp
    · have hc' : (c == 92 || c == 34) = false := by simpa using hc
      have h92 : c ≠ 92 := by intro h; rw [h] at hc'; simp at hc'
      have h34 : c ≠ 34 := by intro h; rw [h] at hc'; simp at hc'
      simp only [hc', Bool.false_eq_true, ↓reduceIte, List.cons_append]
      rw [step_plain _ c _ _ h34 h92, ih f rest (c :: acc) hr]
      simp

/-- one quoted token followed by a blank (or the end) is read back exactly. -/
theorem csToken_quoted (t rest : List Nat) (f : Nat) (hn : ∀ c ∈ t, c ≠ 0) (hf : t.length + 3 ≤ f)
    (hrest : rest = [] ∨ ∃ r, rest = 32 :: r) :
    csToken f (quoteTok t ++ rest) 32 [] = (t, rest) := by
  unfold quoteTok
  obtain ⟨g, rfl⟩ : ∃ g, f = ((g + 1) + 1 + t.length) + 1 := ⟨f - t.length - 3, by omega⟩
  simp only [List.cons_append, List.append_assoc, List.nil_append]
  rw [step_open, csToken_esc t _ rest [] hn, step_close]
  simp only [List.append_nil]
  rcases hrest with h | ⟨r, h⟩
  · subst h; rw [step_nil]; simp
  · subst h; rw [step_blank]; simp

theorem quoteTok_ne_nil (t : List Nat) : quoteTok t ≠ [] := by simp [quoteTok]
theorem quoteTok_head (t : List Nat) : ∃ r, quoteTok t = 34 :: r := ⟨_, rfl⟩

theorem csTokens_quoteJoin : ∀ (ts : List (List Nat)) (f : Nat) (acc : List (List Nat)), (∀ t ∈ ts, ∀ c ∈ t, c ≠ 0) →
    ts.length < f → csTokens f (quoteJoin ts) acc = acc.reverse ++ ts := by
  intro ts
  induction ts with
  | nil => intro f acc _ hf; obtain ⟨f', rfl⟩ : ∃ f', f = f' + 1 := ⟨f - 1, by omega⟩; simp [csTokens, quoteJoin]
  | cons t ts ih =>
    intro f acc hn hf
    obtain ⟨f', rfl⟩ : ∃ f', f = f' + 1 := ⟨f - 1, by omega⟩
    have ht : ∀ c ∈ t, c ≠ 0 := hn t (by simp)
    have hts : ∀ t' ∈ ts, ∀ c ∈ t', c ≠ 0 := fun t' h => hn t' (by simp [h])
    cases ts with
    | nil =>
      simp only [quoteJoin, csTokens]
      have hdw : (quoteTok t).dropWhile isCSpace = quoteTok t := by simp [quoteTok, List.dropWhile, isCSpace]
      simp only [hdw, quoteTok_ne_nil, List.isEmpty_iff, ↓reduceIte]
      have := csToken_quoted t [] ((quoteTok t).length + 1) ht (by have := esc_length_ge t; simp [quoteTok]; omega) (Or.inl rfl)
      rw [List.append_nil] at this
      rw [this]
      cases f' with
      | zero => simp [csTokens]
      | succ g => simp [csTokens]
    | cons t2 ts' =>
      simp only [quoteJoin, csTokens]
      have hdw : (quoteTok t ++ 32 :: quoteJoin (t2 :: ts')).dropWhile isCSpace = quoteTok t ++ 32 :: quoteJoin (t2 :: ts') := by
        simp [quoteTok, List.dropWhile, isCSpace]
      simp only [hdw]
      have hne : (quoteTok t ++ 32 :: quoteJoin (t2 :: ts')).isEmpty = false := by simp [quoteTok]
      simp only [hne, Bool.false_eq_true, ↓reduceIte]
      have := csToken_quoted t (32 :: quoteJoin (t2 :: ts')) ((quoteTok t ++ 32 :: quoteJoin (t2 :: ts')).length + 1) ht
        (by have := esc_length_ge t; simp [quoteTok]; omega) (Or.inr ⟨_, rfl⟩)
      rw [this]
      -- the next round skips the separating blank
      have hih := ih f' (t :: acc) hts (by simp at hf ⊢; omega)
      have hskip : csTokens f' (32 :: quoteJoin (t2 :: ts')) (t :: acc) = csTokens f' (quoteJoin (t2 :: ts')) (t :: acc) := by
        cases f' with
        | zero => rfl
        | succ g =>
          simp only [csTokens]
          have h1 : (32 :: quoteJoin (t2 :: ts')).dropWhile isCSpace = (quoteJoin (t2 :: ts')).dropWhile isCSpace := by
            simp [List.dropWhile, isCSpace]
          rw [h1]
      rw [hskip, hih]; simp

/-- **C13_cmdstring.** Tokenizing the quoted command string gives back the tokens. -/
theorem C13_cmdstring (ts : List (List Nat)) (hn : ∀ t ∈ ts, ∀ c ∈ t, c ≠ 0) : tokenize (quoteJoin ts) = ts := by
  unfold tokenize
  have hlen : ts.length < (quoteJoin ts).length + 1 := by
    induction ts with
    | nil => simp
    | cons t ts ih =>
      cases ts with
      | nil => simp [quoteJoin, quoteTok]
      | cons t2 ts' =>
        have := ih (fun t' h => hn t' (by simp [h]))
        simp [quoteJoin, quoteTok] at this ⊢; omega
  have := csTokens_quoteJoin ts _ [] hn hlen
  simpa using this

/-- hence parsing the command string is parsing the tokens. -/
theorem C13_cmdstring_parse (c : Context) (aU aF : Bool) (pos : Option (List Nat)) (ts : List (List Nat))
    (hn : ∀ t ∈ ts, ∀ x ∈ t, x ≠ 0) : parseString c aU aF pos (quoteJoin ts) = parseArgv c aU aF pos ts := by
  unfold parseString; rw [C13_cmdstring ts hn]

/-- **C13_terminator.** `--` ends option processing: all following tokens are left in order. -/
theorem C13_terminator (c : Context) (aU aF : Bool) (pos : Option (List Nat)) (f : Nat) (p : PState) (tail : List (List Nat))
    (hp : p.toks = [45, 45] :: tail) :
    parseLoop c aU aF pos (f + 1) p = .ok { p with toks := [], remaining := p.remaining ++ tail } := by
  unfold parseLoop
  simp [hp]

/-! ### one occurrence, one spelling -/

theorem splitEq_noeq : ∀ (n v : List Nat), (∀ c ∈ n, c ≠ 61) → splitEq (n ++ 61 :: v) = (n, some v) := by
  intro n
  induction n with
  | nil => intro v _; simp [splitEq]
  | cons a n ih =>
    intro v h
    have ha : a ≠ 61 := h a (by simp)
    have := ih v (fun c hc => h c (by simp [hc]))
    simp only [List.cons_append]
    unfold splitEq
    split
    · rename_i heq; simp at heq
    · rename_i heq; simp at heq; exact absurd heq.1 ha
    · rename_i c r heq
      simp at heq
      rw [← heq.1, ← heq.2, this]

theorem splitEq_none : ∀ (n : List Nat), (∀ c ∈ n, c ≠ 61) → splitEq n = (n, none) := by
  intro n
  induction n with
  | nil => intro _; simp [splitEq]
  | cons a n ih =>
    intro h
    have ha : a ≠ 61 := h a (by simp)
    have := ih (fun c hc => h c (by simp [hc]))
    unfold splitEq
    split
    · rename_i heq; simp at heq
    · rename_i heq; simp at heq; exact absurd heq.1 ha
    · rename_i c r heq
      simp at heq
      rw [← heq.1, ← heq.2, this]

/-- `--name=value` (value not empty): exactly the pair (option, value); no further token is consumed.
    (For a flag this spelling needs `command_line_allow_flag_value`.) -/
theorem C13_long_eq (c : Context) (aU aF : Bool) (name v : List Nat) (k : Nat) (p : PState)
    (hname : ∀ x ∈ name, x ≠ 61) (hv : v ≠ []) (hno : ¬ [110, 111, 45].isPrefixOf (name ++ 61 :: v) = true ∨ True)
    (hget : getOption c aU name .nameOrPrefix = .ok (some k)) (hflag : (optOf c k).flag = false ∨ aF = true) :
    handleLong c aU aF (name ++ 61 :: v) p = .ok (true, p.addValue k v) := by
  unfold handleLong
  rw [splitEq_noeq name v hname]
  have hve : v.isEmpty = false := by cases v with | nil => exact absurd rfl hv | cons _ _ => rfl
  simp only [Option.getD_some, hve, Bool.false_and, Bool.false_eq_true, ↓reduceIte, hget]
  by_cases himp : (optOf c k).implicit = true
  · rcases hflag with h | h
    · simp [himp, h]
    · simp [himp, h]
  · have : (optOf c k).implicit = false := by simpa using himp
    rcases hflag with h | h
    · simp [this, h]
    · simp [this, h]

/-- `--name value` for an option that requires an argument: the next token is the value, whatever it looks like
    (empty, starting with '-', …). -/
theorem C13_long_sep (c : Context) (aU aF : Bool) (name v : List Nat) (k : Nat) (p : PState) (rest : List (List Nat))
    (hname : ∀ x ∈ name, x ≠ 61) (hneg : [110, 111, 45].isPrefixOf name = false)
    (hget : getOption c aU name .nameOrPrefix = .ok (some k)) (himp : (optOf c k).implicit = false)
    (htoks : p.toks = v :: rest) :
    handleLong c aU aF name p = .ok (true, ({ p with toks := rest }).addValue k v) := by
  unfold handleLong
  rw [splitEq_none name hname]
  simp [hneg, hget, himp, htoks]

/-- `--name` for a flag or an implicit-value option: the pair (option, ""), i.e. the implicit value. -/
theorem C13_long_implicit (c : Context) (aU aF : Bool) (name : List Nat) (k : Nat) (p : PState)
    (hname : ∀ x ∈ name, x ≠ 61) (hneg : [110, 111, 45].isPrefixOf name = false)
    (hget : getOption c aU name .nameOrPrefix = .ok (some k)) (himp : (optOf c k).implicit = true) :
    handleLong c aU aF name p = .ok (true, p.addValue k []) := by
  unfold handleLong
  rw [splitEq_none name hname]
  simp [hneg, hget, himp]

/-- `-avalue` (value not empty) for an option that requires an argument. -/
theorem C13_short_attached (c : Context) (aU : Bool) (a : Nat) (v : List Nat) (k : Nat) (p : PState) (f : Nat)
    (hv : v ≠ []) (hget : getOption c aU [a] .alias = .ok (some k)) (himp : (optOf c k).implicit = false) :
    handleShort c aU (f + 1) (a :: v) p = .ok (true, p.addValue k v) := by
  have hve : v.isEmpty = false := by cases v with | nil => exact absurd rfl hv | cons _ _ => rfl
  simp [handleShort, hget, himp, hve]

/-- `-a value` for an option that requires an argument. -/
theorem C13_short_sep (c : Context) (aU : Bool) (a : Nat) (v : List Nat) (k : Nat) (p : PState) (rest : List (List Nat)) (f : Nat)
    (hget : getOption c aU [a] .alias = .ok (some k)) (himp : (optOf c k).implicit = false) (htoks : p.toks = v :: rest) :
    handleShort c aU (f + 1) [a] p = .ok (true, ({ p with toks := rest }).addValue k v) := by
  simp [handleShort, hget, himp, htoks]

/-- a grouped flag `-a…`: the flag is set and the rest of the group is processed. -/
theorem C13_flag_group (c : Context) (aU : Bool) (a : Nat) (more : List Nat) (k : Nat) (p : PState) (f : Nat)
    (hget : getOption c aU [a] .alias = .ok (some k)) (himp : (optOf c k).implicit = true) (hflag : (optOf c k).flag = true) :
    handleShort c aU (f + 1) (a :: more) p = handleShort c aU f more (p.addValue k []) := by
  simp [handleShort, hget, himp, hflag]

/-! non-vacuity: a context with shared prefixes; quoted tokens with every special character -/
example : tokenize (quoteJoin [[97, 32, 98], [], [34, 92, 39], [45, 45, 120, 61, 92, 92]]) = [[97, 32, 98], [], [34, 92, 39], [45, 45, 120, 61, 92, 92]] := by decide

end PotasscoVerif.C13
