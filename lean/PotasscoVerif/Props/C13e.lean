/-
  C13 (continued) — command strings in mixed spellings.
  `C13_cmdstring` is about strings in which every token is quoted.  Here every token is written either quoted or, when it is plain — no NUL,
  blank (0x20) or quote character, no two backslashes in a row, not starting with white space — as it is.  A backslash is an escape only in front of
  a quote or another backslash, so a plain token may contain backslashes, also at its very end and at the very end of the string.
  `C13_cmdstring_mixed`: tokenizing the blank-joined spellings gives back exactly the tokens.
-/
import PotasscoVerif.Props.C13
namespace PotasscoVerif.C13
open PotasscoVerif.Options PotasscoVerif.OptIndex

/-- a character that may stand in an unquoted token -/
def okc (c : Nat) : Prop := c ≠ 0 ∧ c ≠ 32 ∧ c ≠ 34 ∧ c ≠ 39

/-- no NUL, blank or quote; a backslash is not followed by a backslash -/
def PlainTok : List Nat → Prop
  | [] => True
  | [c] => okc c
  | c :: n :: r => okc c ∧ (c = 92 → n ≠ 92) ∧ PlainTok (n :: r)

theorem PlainTok.tail {c : Nat} {r : List Nat} (h : PlainTok (c :: r)) : okc c ∧ PlainTok r := by
  cases r with
  | nil => exact ⟨h, trivial⟩
  | cons n r' => exact ⟨h.1, h.2.2⟩

/-- outside quotes a plain token is read back character by character up to the blank (or the end) behind it -/
theorem csToken_plain : ∀ (t : List Nat) (f : Nat) (rest acc : List Nat), PlainTok t → (rest = [] ∨ ∃ r, rest = 32 :: r) → t.length + 1 ≤ f →
    csToken f (t ++ rest) 32 acc = (acc.reverse ++ t, rest) := by
  intro t
  induction t with
  | nil =>
    intro f rest acc _ hrest hf
    obtain ⟨g, rfl⟩ : ∃ g, f = g + 1 := ⟨f - 1, by omega⟩
    rcases hrest with h | ⟨r, h⟩
    · subst h; simp [csToken]
    · subst h; simp [csToken]
  | cons c r ih =>
    intro f rest acc hp hrest hf
    obtain ⟨g, rfl⟩ : ∃ g, f = g + 1 := ⟨f - 1, by omega⟩
    obtain ⟨⟨h0, h32, h34, h39⟩, hr⟩ := hp.tail
    have e1 : (c == 32) = false := by simpa using h32
    have e2 : (c == 39 || c == 34) = false := by simp [h34, h39]
    have hg : r.length + 1 ≤ g := by simp at hf; omega
    by_cases h92 : c = 92
    · subst h92
      -- a backslash: what follows is a plain character of the token, or the blank / the end behind it
      cases r with
      | nil =>
        rcases hrest with h | ⟨r', h⟩
        · subst h
          obtain ⟨g', rfl⟩ : ∃ g', g = g' + 1 := ⟨g - 1, by omega⟩
          simp [csToken]
        · subst h
          have := ih g (32 :: r') (92 :: acc) trivial (Or.inr ⟨r', rfl⟩) hg
          simp only [List.nil_append] at this
          simp only [List.cons_append, List.nil_append, csToken, e1, e2, Bool.false_eq_true, ↓reduceIte, Bool.false_and, bne_self_eq_false]
          have e5 : ((32 : Nat) == 34 || (32 : Nat) == 39 || (32 : Nat) == 92) = false := by decide
          simp only [e5, Bool.false_eq_true, ↓reduceIte]
          rw [this]; simp
      | cons n r' =>
        have hn : n ≠ 92 := hp.2.1 rfl
        obtain ⟨⟨_, _, hn34, hn39⟩, _⟩ := hr.tail
        have e5 : (n == 34 || n == 39 || n == 92) = false := by simp [hn34, hn39, hn]
        have := ih g rest (92 :: acc) hr hrest hg
        simp only [List.cons_append, csToken, e1, e2, Bool.false_eq_true, ↓reduceIte, Bool.false_and, bne_self_eq_false, e5]
        simp only [List.cons_append] at this
        rw [this]; simp
    · have e3 : (c != 92) = true := by simpa using h92
      have := ih g rest (c :: acc) hr hrest hg
      simp only [List.cons_append, csToken, e1, e2, e3, Bool.false_eq_true, ↓reduceIte, Bool.false_and]
      rw [this]; simp

/-- a token with the way it is written: quoted, or as it is -/
structure Spell where
  quoted : Bool
  tok    : List Nat

def Spell.text (s : Spell) : List Nat := if s.quoted then quoteTok s.tok else s.tok
def Spell.ok (s : Spell) : Prop :=
  (∀ c ∈ s.tok, c ≠ 0) ∧ (s.quoted = false → PlainTok s.tok ∧ ∃ c r, s.tok = c :: r ∧ isCSpace c = false)

def spJoin : List Spell → List Nat
  | [] => []
  | [s] => s.text
  | s :: ss => s.text ++ 32 :: spJoin ss

theorem sp_head (s : Spell) (h : s.ok) : ∃ c r, s.text = c :: r ∧ isCSpace c = false := by
  unfold Spell.text
  cases hq : s.quoted with
  | true => exact ⟨34, _, rfl, by decide⟩
  | false => simp only [Bool.false_eq_true, ↓reduceIte]; exact (h.2 hq).2

theorem sp_token (s : Spell) (h : s.ok) (rest : List Nat) (hrest : rest = [] ∨ ∃ r, rest = 32 :: r) (f : Nat) (hf : s.text.length + 1 ≤ f) :
    csToken f (s.text ++ rest) 32 [] = (s.tok, rest) := by
  unfold Spell.text at hf ⊢
  cases hq : s.quoted with
  | true =>
    simp only [hq, ↓reduceIte] at hf ⊢
    exact csToken_quoted s.tok rest f h.1 (by have := esc_length_ge s.tok; simp [quoteTok] at hf; omega) hrest
  | false =>
    simp only [hq, Bool.false_eq_true, ↓reduceIte] at hf ⊢
    have := csToken_plain s.tok f rest [] (h.2 hq).1 hrest hf
    simpa using this

theorem dropWhile_head (l : List Nat) (h : ∃ c r, l = c :: r ∧ isCSpace c = false) : l.dropWhile isCSpace = l := by
  obtain ⟨c, r, rfl, hc⟩ := h
  simp [List.dropWhile, hc]

theorem csTokens_spJoin : ∀ (ss : List Spell) (f : Nat) (acc : List (List Nat)), (∀ s ∈ ss, s.ok) →
    ss.length < f → csTokens f (spJoin ss) acc = acc.reverse ++ ss.map Spell.tok := by
  intro ss
  induction ss with
  | nil => intro f acc _ hf; obtain ⟨f', rfl⟩ : ∃ f', f = f' + 1 := ⟨f - 1, by omega⟩; simp [csTokens, spJoin]
  | cons s ss ih =>
    intro f acc hok hf
    obtain ⟨f', rfl⟩ : ∃ f', f = f' + 1 := ⟨f - 1, by omega⟩
    have hs : s.ok := hok s (by simp)
    have hss : ∀ s' ∈ ss, s'.ok := fun s' h => hok s' (by simp [h])
    obtain ⟨c0, r0, e0, hc0⟩ := sp_head s hs
    cases ss with
    | nil =>
      have hdw := dropWhile_head s.text ⟨c0, r0, e0, hc0⟩
      have hne : s.text.isEmpty = false := by rw [e0]; rfl
      simp only [spJoin, csTokens, hdw, hne, Bool.false_eq_true, ↓reduceIte]
      have := sp_token s hs [] (Or.inl rfl) (s.text.length + 1) (by omega)
      rw [List.append_nil] at this
      rw [this]
      cases f' with
      | zero => simp [csTokens]
      | succ g => simp [csTokens]
    | cons s2 ss' =>
      have hhead : ∃ c r, s.text ++ 32 :: spJoin (s2 :: ss') = c :: r ∧ isCSpace c = false := ⟨c0, r0 ++ 32 :: spJoin (s2 :: ss'), by rw [e0]; rfl, hc0⟩
      have hdw := dropWhile_head _ hhead
      have hne : (s.text ++ 32 :: spJoin (s2 :: ss')).isEmpty = false := by rw [e0]; rfl
      simp only [spJoin, csTokens, hdw, hne, Bool.false_eq_true, ↓reduceIte]
      have := sp_token s hs (32 :: spJoin (s2 :: ss')) (Or.inr ⟨_, rfl⟩) ((s.text ++ 32 :: spJoin (s2 :: ss')).length + 1) (by simp)
      rw [this]
      have hih := ih f' (s.tok :: acc) hss (by simp at hf ⊢; omega)
      have hskip : csTokens f' (32 :: spJoin (s2 :: ss')) (s.tok :: acc) = csTokens f' (spJoin (s2 :: ss')) (s.tok :: acc) := by
        cases f' with
        | zero => rfl
        | succ g =>
          simp only [csTokens]
          have h1 : (32 :: spJoin (s2 :: ss')).dropWhile isCSpace = (spJoin (s2 :: ss')).dropWhile isCSpace := by
            simp [List.dropWhile, isCSpace]
          rw [h1]
      rw [hskip, hih]; simp

/-- **C13 (command strings, mixed spellings)**: every token written quoted, or — when it is plain — as it is (backslashes included, also at
    the very end of the string); tokenizing gives back exactly the tokens -/
theorem C13_cmdstring_mixed (ss : List Spell) (hok : ∀ s ∈ ss, s.ok) : tokenize (spJoin ss) = ss.map Spell.tok := by
  unfold tokenize
  have hlen : ss.length < (spJoin ss).length + 1 := by
    induction ss with
    | nil => simp
    | cons s ss ih =>
      obtain ⟨c0, r0, e0, _⟩ := sp_head s (hok s (by simp))
      cases ss with
      | nil => simp [spJoin, e0]
      | cons s2 ss' =>
        have := ih (fun s' h => hok s' (by simp [h]))
        simp [spJoin, e0] at this ⊢; omega
  have := csTokens_spJoin ss _ [] hok hlen
  simpa using this

theorem C13_cmdstring_mixed_parse (c : Context) (aU aF : Bool) (pos : Option (List Nat)) (ss : List Spell) (hok : ∀ s ∈ ss, s.ok) :
    parseString c aU aF pos (spJoin ss) = parseArgv c aU aF pos (ss.map Spell.tok) := by
  unfold parseString; rw [C13_cmdstring_mixed ss hok]

/-! non-vacuity: `-v a.lp --out C:\tmp\` and a quoted token in between; the string ends in a backslash -/
def exSp : List Spell := [⟨false, [45, 118]⟩, ⟨true, [97, 32, 98]⟩, ⟨false, [45, 45, 111, 117, 116]⟩, ⟨false, [67, 58, 92, 116, 109, 112, 92]⟩]
example : ∀ s ∈ exSp, s.ok := by
  intro s hs
  simp only [exSp, List.mem_cons, List.not_mem_nil, or_false] at hs
  rcases hs with rfl | rfl | rfl | rfl <;> refine ⟨by decide, ?_⟩ <;> intro h <;> first | (cases h; done) | exact ⟨by simp [PlainTok, okc], _, _, rfl, by decide⟩
example : tokenize (spJoin exSp) = [[45, 118], [97, 32, 98], [45, 45, 111, 117, 116], [67, 58, 92, 116, 109, 112, 92]] := by decide

end PotasscoVerif.C13
